import Driver
def main : IO Unit := do
  let out ← IO.getStdout
  Driver.loop (← IO.getStdin) out
  out.flush
