import NextestModel.Model.XXH64
