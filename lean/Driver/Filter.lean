import Driver.Util
import NextestModel.Model.Filter
open NextestModel
namespace Driver

def parseRunIgnored : String → Option RunIgnored
  | "d" => some .default | "o" => some .only | "a" => some .all | _ => none

def parsePartition (s : String) : Option (Option Partition) :=
  if s == "-" then some none else
  match s.splitOn ":" with
  | [k, m, n] =>
    match (if k == "c" then some PartKind.count else if k == "h" then some PartKind.hash else none),
          m.toNat?, n.toNat? with
    | some k, some m, some n => some (some { kind := k, shard := m, total := n })
    | _, _, _ => none
  | _ => none

/-- op sequence: `N:<hexlist>` then `s:<hex>` | `e:<hex>` | `k:<hex>` | `x:<hex>`, separated by `/` -/
def parsePatternOps (s : String) : Option Patterns := do
  let ops := s.splitOn "/"
  match ops with
  | [] => none
  | first :: rest =>
    let p0 ← match first.splitOn ":" with
      | ["N", l] => (hexList l).map Patterns.new
      | _ => none
    rest.foldlM (fun p op =>
      match op.splitOn ":" with
      | ["s", h] => (unhex h).map p.addSubstring
      | ["e", h] => (unhex h).map p.addExact
      | ["k", h] => (unhex h).map p.addSkip
      | ["x", h] => (unhex h).map p.addSkipExact
      | _ => none) p0

def parseTestIn (s : String) : Option TestIn :=
  match s.splitOn ":" with
  | [n, b, d] => do
    let n ← unhex n; let b ← bits b; let d ← bit d
    pure { name := n, exprBits := b, inDefault := d }
  | _ => none

def parseListing (s : String) : Option (List TestIn) := mapOpt parseTestIn (splitList s ";")

def showReason : Reason → String
  | .ignored => "i" | .string => "s" | .expression => "e" | .partition => "p" | .defaultFilter => "d"

def showFM : FilterMatch → String
  | .matches => "M" | .mismatch r => showReason r

def showEntries (es : List (Name × Bool × FilterMatch)) : String :=
  if es.isEmpty then "." else
  ";".intercalate (es.map fun (n, ig, fm) => s!"{hex n}:{showBit ig}:{showFM fm}")

def showBin : BinMatch → String
  | .definite => "D" | .possible => "P"
  | .mismatch .expression => "Me" | .mismatch .defaultSet => "Md"

/-- `pout <ri> <bound d|a> <partition> <patternops> <nExprs> <nonIgnored> <ignored>` -/
def handlePout : List String → Option String
  | [ri, bound, part, pats, nex, non, ign] => do
    let ri ← parseRunIgnored ri
    let part ← parsePartition part
    let pats ← parsePatternOps pats
    let nex ← nex.toNat?
    let non ← parseListing non
    let ign ← parseListing ign
    let cfg : FilterCfg := { runIgnored := ri, patterns := pats.resolve, nExprs := nex,
                             boundDefault := bound == "d", partition := part }
    pure (showEntries (processOutput cfg non ign))
  | _ => none

/-- `bin <bound d|a> <trits comma-separated or .> <defaultTrit>` -/
def handleBin : List String → Option String
  | [bound, trits, dt] => do
    let ts ← mapOpt trit (splitList trits ",")
    let dt ← trit dt
    pure (showBin (filterBinaryMatch ts (bound == "d") dt))
  | _ => none

/-- `part <c|h>:m:n <hexlist of candidate names in order>` → verdict bits of a fresh partitioner -/
def handlePart : List String → Option String
  | [part, names] => do
    let p ← parsePartition part
    let p ← p
    let ns ← hexList names
    let bs := p.run 0 ns
    pure (if bs.isEmpty then "_" else String.ofList (bs.map fun b => if b then '1' else '0'))
  | _ => none

def handleXxh : List String → Option String
  | [h] => do let b ← unhex h; pure (toString (XXH64.xxh64 b 0).toNat)
  | _ => none

end Driver
