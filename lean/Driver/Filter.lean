import Driver.Util
import NextestModel.Model.Filter
open NextestModel
namespace Driver

def parseRunIgnored : String → Option RunIgnored
  | "d" => some .default | "o" => some .only | "a" => some .all | _ => none

def parsePartition (s : String) : Option (Option Partition) :=
  if s == "-" then some none else
  match s.splitOn ":" with
  | [k, m, n] =>
    match (if k == "c" then some PartKind.count else if k == "h" then some PartKind.hash else none),
          m.toNat?, n.toNat? with
    | some k, some m, some n => some (some { kind := k, shard := m, total := n })
    | _, _, _ => none
  | _ => none

/-- op sequence: `N:<hexlist>` then `s:<hex>` | `e:<hex>` | `k:<hex>` | `x:<hex>`, separated by `/` -/
def parsePatternOps (s : String) : Option Patterns := do
  let ops := s.splitOn "/"
  match ops with
  | [] => none
  | first :: rest =>
    let p0 ← match first.splitOn ":" with
      | ["N", l] => (hexList l).map Patterns.new
      | _ => none
    rest.foldlM (fun p op =>
      match op.splitOn ":" with
      | ["s", h] => (unhex h).map p.addSubstring
      | ["e", h] => (unhex h).map p.addExact
      | ["k", h] => (unhex h).map p.addSkip
      | ["x", h] => (unhex h).map p.addSkipExact
      | _ => none) p0

def parseTestIn (s : String) : Option TestIn :=
  match s.splitOn ":" with
  | [n, b, d] => do
    let n ← unhex n; let b ← bits b; let d ← bit d
    pure { name := n, exprBits := b, inDefault := d }
  | _ => none

def parseListing (s : String) : Option (List TestIn) := mapOpt parseTestIn (splitList s ";")

def showReason : Reason → String
  | .ignored => "i" | .string => "s" | .expression => "e" | .partition => "p" | .defaultFilter => "d"

def showFM : FilterMatch → String
  | .matches => "M" | .mismatch r => showReason r

def showEntries (es : List (Name × Bool × FilterMatch)) : String :=
  if es.isEmpty then "." else
  ";".intercalate (es.map fun (n, ig, fm) => s!"{hex n}:{showBit ig}:{showFM fm}")

def showBin : BinMatch → String
  | .definite => "D" | .possible => "P"
  | .mismatch .expression => "Me" | .mismatch .defaultSet => "Md"

/-- `pout <ri> <bound d|a> <partition> <patternops> <nExprs> <nonIgnored> <ignored>` -/
def handlePout : List String → Option String
  | [ri, bound, part, pats, nex, non, ign] => do
    let ri ← parseRunIgnored ri
    let part ← parsePartition part
    let pats ← parsePatternOps pats
    let nex ← nex.toNat?
    let non ← parseListing non
    let ign ← parseListing ign
    let cfg : FilterCfg := { runIgnored := ri, patterns := pats.resolve, nExprs := nex,
                             boundDefault := bound == "d", partition := part }
    pure (showEntries (processOutput cfg non ign))
  | _ => none

/-- `bin <bound d|a> <trits comma-separated or .> <defaultTrit>` -/
def handleBin : List String → Option String
  | [bound, trits, dt] => do
    let ts ← mapOpt trit (splitList trits ",")
    let dt ← trit dt
    pure (showBin (filterBinaryMatch ts (bound == "d") dt))
  | _ => none

/-- `part <c|h>:m:n <hexlist of candidate names in order>` → verdict bits of a fresh partitioner -/
def handlePart : List String → Option String
  | [part, names] => do
    let p ← parsePartition part
    let p ← p
    let ns ← hexList names
    let bs := p.run 0 ns
    pure (if bs.isEmpty then "_" else String.ofList (bs.map fun b => if b then '1' else '0'))
  | _ => none

def handleXxh : List String → Option String
  | [h] => do let b ← unhex h; pure (toString (XXH64.xxh64 b 0).toNat)
  | _ => none

end Driver

namespace Driver
open NextestModel

/-- `margs <args hexlist> <cli run-ignored -|o|a> <tests hex:ignored,…>` → `error:<kind>` or the names matched -/
def handleMargs : List String → Option String
  | [args, ri, tests] => do
    let args ← hexList args
    let ri ← (if ri == "-" then some none else (parseRunIgnored ri).map some)
    let tests ← mapOpt (fun (t : String) => match t.splitOn ":" with
      | [n, ig] => do let n ← unhex n; let ig ← bit ig; pure (n, ig)
      | _ => none) (splitList tests ",")
    match mergeTestBinaryArgs args ri Patterns.default with
    | .error .duplicated => pure "error:duplicated"
    | .error .missingArgument => pure "error:missing"
    | .error .mutuallyExclusive => pure "error:exclusive"
    | .error .unsupported => pure "error:unsupported"
    | .ok (r, pats) =>
      let res := pats.resolve
      let sel := tests.filter (fun (n, ig) =>
        res.nameMatch n != .mismatch &&
        (match r.getD .default with | .default => !ig | .only => ig | .all => true))
      pure (if sel.isEmpty then "." else ",".intercalate (sel.map (fun (n, _) => hex n)))
  | _ => none

end Driver
