import Driver.Util
import Driver.Dispatcher
import NextestModel.Model.System
open NextestModel.Dispatcher NextestModel.System
namespace Driver

/-- `D<i>` dispatch · `V` deliver · `F:<i>:<res>:<slow>` last attempt ends · `A:<i>:<res>:<slow>` attempt fails with a retry to
    come · `C<i>` the unit reads a request · `X<i>` its retry delay expires · `E:<event>` a signal / reporter error reaches the
    dispatcher (`X:<k>` shutdown, `RC`, `T`, `U`, `I`, `E` as in the `disp` protocol) -/
def parseAct (s : String) : Option Act :=
  match s.splitOn ":" with
  | ["V"] => some .deliver
  | ["F", i, r, sl] => do pure (.exitFinish (← i.toNat?) (← parseRes r) (sl == "1"))
  | ["A", i, r, sl] => do pure (.exitRetry (← i.toNat?) (← parseRes r) (sl == "1"))
  | "E" :: rest => (parseEvent (":".intercalate rest)).map .external
  | [one] =>
    match one.toList with
    | 'D' :: n => (String.ofList n).toNat?.map .dispatch
    | 'C' :: n => (String.ofList n).toNat?.map .recv
    | 'X' :: n => (String.ofList n).toNat?.map (fun i => .delayExpires i 0 0)
    | _ => none
  | _ => none

def showPhase : UPhase → String
  | .notStarted => "notStarted" | .waitStart => "waitStart" | .running => "running" | .delay => "delay"
  | .waitRetry => "waitRetry" | .done => "done" | .gone => "gone"

/-- what a dispatcher step emitted, reduced to what the event log shows: kind and test -/
def showEmittedShort : Emitted → Option String
  | .testStarted i _ _ _ => some s!"TestStarted({i})"
  | .testRetryStarted i _ _ => some s!"TestRetryStarted({i})"
  | .testAttemptFailedWillRetry i r => some s!"TestAttemptFailedWillRetry({i},{showRes r})"
  | .testFinished i sts _ _ _ => some s!"TestFinished({i},{",".intercalate (sts.map showRes)})"
  | .runBeginCancel r _ _ => some s!"RunBeginCancel({showCancelReason r})"
  | .runBeginKill _ _ => some "RunBeginKill"
  | _ => none

/-- `sys <tests> <maxfail a|N> <act,act,…>` → the events the dispatcher emits, in order; `disabled@k` if action k is not
    enabled in the model (the history is not a run of the system); then the final phase of every unit -/
def handleSys : List String → Option String
  | [n, mf, acts] => do
    let n ← n.toNat?
    let mf ← if mf == "a" then some MaxFail.all else mf.toNat?.map MaxFail.count
    let acts ← mapOpt parseAct (splitList acts ",")
    let rec go (s : Sys) (k : Nat) (as : List Act) (acc : List String) : List String × Sys :=
      match as with
      | [] => (acc.reverse, s)
      | a :: rest =>
        -- the emitted events of a dispatcher step are recomputed from the dispatcher model alone
        let em : List Emitted := match a with
          | .deliver => (match s.chan with
            | e :: _ => (match NextestModel.Dispatcher.step s.d e with | .ok (_, o) => o.emitted | .error _ => [])
            | [] => [])
          | .external e => (match NextestModel.Dispatcher.step s.d e with | .ok (_, o) => o.emitted | .error _ => [])
          | _ => []
        match NextestModel.System.step s a with
        | none => ((s!"disabled@{k}" :: acc).reverse, s)
        | some s' => go s' (k + 1) rest ((em.filterMap showEmittedShort).reverse ++ acc)
    let (outs, fin) := go (Sys.init n mf) 0 acts []
    let phases := ",".intercalate ((List.range n).map fun i => showPhase (fin.phase i))
    pure ((if outs.isEmpty then "." else ";".intercalate outs) ++ " ## " ++ phases)
  | _ => none

end Driver
