import Driver.Util
import NextestModel.Model.Dispatcher
open NextestModel.Dispatcher
namespace Driver

def parseRes (s : String) : Option Res :=
  if s == "P" then some .pass else if s == "L" then some .leak
  else if s == "F" then some (.fail none false) else if s == "Fl" then some (.fail none true)
  else if s == "X" then some .execFail else if s == "T" then some .timeout
  else if s.startsWith "FS" then ((s.drop 2).toString.toNat?).map (fun n => Res.fail (some n) false)
  else none

def showRes : Res → String
  | .pass => "P" | .leak => "L" | .fail none false => "F" | .fail none true => "Fl"
  | .fail (some n) _ => s!"FS{n}" | .execFail => "X" | .timeout => "T"

def parseSig : String → Option Sig
  | "0" => some .interrupt | "1" => some .term | "2" => some .hangup | "3" => some .quit | _ => none

def parseEvent (s : String) : Option DEvent :=
  match s.splitOn ":" with
  | ["S", i] => i.toNat?.map .started
  | ["C", i] => i.toNat?.map .closeRx
  | ["R", i, a, t] => do pure (.retryStarted (← i.toNat?) (← a.toNat?) (← t.toNat?))
  | ["A", i, r, sl] => do pure (.attemptFailedWillRetry (← i.toNat?) (← parseRes r) (sl == "1"))
  | ["F", i, r, sl] => do pure (.finished (← i.toNat?) (← parseRes r) (sl == "1"))
  | ["K", i] => i.toNat?.map .skipped
  | ["sS", i, t] => do pure (.scriptStarted (← i.toNat?) (← t.toNat?))
  | ["sC"] => some .scriptCloseRx
  | ["sF", i, _t, r] => do pure (.scriptFinished (← i.toNat?) (← parseRes r))
  | ["X", k] => (parseSig k).map .shutdown
  | ["T"] => some .stop
  | ["U"] => some .continue
  | ["I"] => some .info
  | ["RC"] => some .reportCancel
  | ["E"] => some .inputEnter
  | _ => none

def showCancelReason : CancelReason → String
  | .setupScriptFailure => "SetupScriptFailure" | .testFailure => "TestFailure" | .reportError => "ReportError"
  | .signal => "Signal" | .interrupt => "Interrupt" | .secondSignal => "SecondSignal"

def showCancel : Option CancelReason → String
  | none => "None" | some r => s!"Some({showCancelReason r})"

def showStats (s : Stats) : String :=
  s!"i{s.initialRunCount} f{s.finishedCount} p{s.passed} ps{s.passedSlow} fk{s.flaky} fa{s.failed} fs{s.failedSlow} to{s.timedOut} lk{s.leaky} xf{s.execFailed} sk{s.skipped} si{s.setupScriptsInitialCount} sf{s.setupScriptsFinishedCount} sp{s.setupScriptsPassed} sfa{s.setupScriptsFailed} sx{s.setupScriptsExecFailed} st{s.setupScriptsTimedOut}"

def showSig : Sig → String
  | .interrupt => "Interrupt" | .term => "Term" | .hangup => "Hangup" | .quit => "Quit"

def showShutdownReq : ShutdownReq → String
  | .once s => s!"Once({showSig s})" | .twice => "Twice"

def showResponse : Response → String
  | .none => "None" | .cancelReport => "Cancel(Report)" | .cancelTestFailure => "Cancel(TestFailure)"
  | .cancelSignal r => s!"Cancel(Signal({showShutdownReq r}))"
  | .jobStop => "JobControl(Stop)" | .jobContinue => "JobControl(Continue)" | .info => "Info(Input)"

def showEmitted : Emitted → String
  | .testStarted i running c st => s!"TestStarted({i},running={running},cancel={showCancel c},[{showStats st}])"
  | .testRetryStarted i a t => s!"TestRetryStarted({i},{a}/{t})"
  | .testAttemptFailedWillRetry i r => s!"TestAttemptFailedWillRetry({i},{showRes r})"
  | .testFinished i sts running c st =>
    s!"TestFinished({i},[{",".intercalate (sts.map showRes)}],running={running},cancel={showCancel c},[{showStats st}])"
  | .testSkipped i => s!"TestSkipped({i},String)"
  | .scriptStarted i t => s!"SetupScriptStarted({i}/{t})"
  | .scriptFinished i r => s!"SetupScriptFinished({i},{showRes r})"
  | .runBeginCancel r sc running => s!"RunBeginCancel({showCancelReason r},scripts={sc},running={running})"
  | .runBeginKill sc running => s!"RunBeginKill(SecondSignal,scripts={sc},running={running})"
  | .runPaused sc running => s!"RunPaused(scripts={sc},running={running})"
  | .runContinued sc running => s!"RunContinued(scripts={sc},running={running})"
  | .infoStarted t => s!"InfoStarted({t})"
  | .inputEnter running c => s!"InputEnter(running={running},cancel={showCancel c})"

def showReq : Req → String
  | .otherCancel => "OtherCancel" | .shutdown r => s!"Shutdown({showShutdownReq r})"
  | .stop => "Stop" | .continue => "Continue" | .getInfo => "GetInfo"

def showReply : Reply → String
  | .none => "-" | .ack => "ack" | .drop => "drop"

def showOut (s : DState) (o : Out) : String :=
  let d := ";;".intercalate (o.delivered.map fun (u, r) => (match u with | none => "script" | some i => toString i) ++ ":" ++ showReq r)
  let bc := match o.broadcastCount with | none => "-" | some n => toString n
  s!"{showResponse o.response}|{showReply o.reply}|{";;".intercalate (o.emitted.map showEmitted)}|{showCancel s.cancel}|{showStats s.stats}|{s.running.length}|{d}|{bc}"

def showFinal : Final → String
  | .success => "Success" | .noTestsRun => "NoTestsRun"
  | .cancelled .setupScript => "Cancelled(SetupScript)" | .failed .setupScript => "Failed(SetupScript)"
  | .cancelled (.test i n) => s!"Cancelled(Test({i},{n}))" | .failed (.test i n) => s!"Failed(Test({i},{n}))"

/-- `disp <initial_run_count> <maxfail a|N> <events space-joined by ,>` -/
def handleDisp : List String → Option String
  | [initial, mf, evs] => do
    let initial ← initial.toNat?
    let mf ← if mf == "a" then some MaxFail.all else mf.toNat?.map MaxFail.count
    let events ← mapOpt parseEvent (splitList evs ",")
    let rec go (s : DState) (es : List DEvent) (acc : List String) : List String × Option DState :=
      match es with
      | [] => (acc.reverse, some s)
      | e :: rest =>
        match step s e with
        | .error _ => (("panic" :: acc).reverse, none)
        | .ok (s', o) => go s' rest (showOut s' o :: acc)
    let (outs, fin) := go (DState.init initial mf) events []
    let tail := match fin with
      | none => ""
      | some s =>
        let f := s.stats.summarize
        s!" ## FINAL {showFinal f}"
    pure (" ## ".intercalate outs ++ tail)
  | _ => none

end Driver
