import Driver.Util
import NextestModel.Model.Settings
open NextestModel.Settings
namespace Driver

def fieldOfNat : Nat → Option Field
  | 0 => some .priority | 1 => some .threadsRequired | 2 => some .runExtraArgs | 3 => some .retries
  | 4 => some .slowTimeout | 5 => some .leakTimeout | 6 => some .testGroup | 7 => some .successOutput
  | 8 => some .failureOutput | 9 => some .junitStoreSuccess | 10 => some .junitStoreFailure
  | _ => none

/-- `f=v,f=v` or `.` -/
def parseData (s : String) : Option (List (Field × Val)) :=
  mapOpt (fun kv => match kv.splitOn "=" with
    | [k, v] => do let k ← k.toNat?; let f ← fieldOfNat k; let v ← v.toNat?; pure (f, v)
    | _ => none) (splitList s ",")

/-- `<hostEval><hostTestEval><targetEval><filterOk>:<data>` -/
def parseOverride (s : String) : Option Override :=
  match s.splitOn ":" with
  | [flags, d] =>
    match flags.toList with
    | [a, b, c, e] => do
      let d ← parseData d
      pure { hostEval := a == '1', hostTestEval := b == '1', targetEval := c == '1', filterOk := e == '1', data := d }
    | _ => none
  | _ => none

/-- `<name hex>~<level>~<override+override…|.>` -/
def parseProfile (s : String) : Option (String × ProfileFile) :=
  match s.splitOn "~" with
  | [n, lvl, ovs] => do
    let n ← unhex n
    let lvl ← parseData lvl
    let ovs ← mapOpt parseOverride (splitList ovs "+")
    pure (utf8 n, { overrides := ovs, level := lvl })
  | _ => none

def parseFile (s : String) : Option File := do
  let ps ← mapOpt parseProfile (splitList s ";")
  pure { profiles := ps }

/-- `settings <profile hex> <isHost> <cli retries -|N> <builtin v0,…,v10> <files low→high, `|`-separated>` -/
def handleSettings : List String → Option String
  | [prof, ish, cli, builtin, files] => do
    let prof ← unhex prof
    let isHost ← bit ish
    let cli ← if cli == "-" then some none else (cli.toNat?).map some
    let b ← mapOpt String.toNat? (builtin.splitOn ",")
    let fs ← mapOpt parseFile (splitList files "|")
    let bf : Field → Val := fun f => b.getD ((Field.all.findIdx? (· == f)).getD 0) 0
    let vals := Field.all.map fun f => toString (effective fs (utf8 prof) bf cli isHost f)
    pure (",".intercalate vals)
  | _ => none

end Driver
