import Driver.Dispatcher
import NextestModel.Model.Junit
import NextestModel.Model.XmlText
import Driver.Command
open NextestModel NextestModel.Junit NextestModel.Dispatcher
namespace Driver

def hexS (s : String) : String := hex s.toUTF8.toList

def parseResJ (s : String) : Option Res :=
  if s.startsWith "FSl" then ((s.drop 3).toString.toNat?).map (fun n => Res.fail (some n) true) else parseRes s

def parseJEv (s : String) : Option Ev :=
  match s.splitOn ":" with
  | ["T", b, n, rs, fl] => do
    let b ← unhex b; let n ← unhex n
    let rs ← mapOpt parseResJ (rs.splitOn ",")
    match fl.toList with
    | [x, y] => pure (.testFinished (utf8 b) (utf8 n) rs (x == '1') (y == '1'))
    | _ => none
  | ["S", id, r, fl] => do
    let id ← unhex id; let r ← parseResJ r
    match fl.toList with
    | [x, y] => pure (.scriptFinished (utf8 id) r (x == '1') (y == '1'))
    | _ => none
  | ["O"] => some .other
  | _ => none

def showStatus : Option (Kind × String) → String
  | none => "ok"
  | some (.failure, ty) => s!"f:{hexS ty}"
  | some (.error, ty) => s!"e:{hexS ty}"

def showRerun (flaky : Bool) (r : Rerun) : String :=
  let tag := match flaky, r.kind with
    | true, .failure => "ff" | true, .error => "fe" | false, .failure => "rf" | false, .error => "re"
  s!"{tag}~{hexS r.ty}~{r.attempt}~{showBit r.stored}"

def showCase (c : Case) : String :=
  let rr := if c.reruns.isEmpty then "-" else ";".intercalate (c.reruns.map (showRerun c.status.isNone))
  s!"{hexS c.name}/{showStatus c.status}/{c.main}/{showBit c.stored}/{rr}"

def showSuite (s : Suite) : String :=
  let (k, id) := match s.key with | .script i => ("s", i) | .binary i => ("b", i)
  s!"{k}:{hexS id}:{s.tests}:{s.failures}:{s.errors}:{",".intercalate (s.cases.map showCase)}"

/-- `junit <events>` → suites, report totals, the summary line's numbers, the statistics -/
def handleJunit : List String → Option String
  | [evs] => do
    let evs ← mapOpt parseJEv (splitList evs ";")
    match writeEvents [] evs with
    | none => pure "panic"
    | some r =>
      let st := statsOf {} evs
      let tot := s!"{(r.map Suite.tests).foldl (· + ·) 0}:{(r.map Suite.failures).foldl (· + ·) 0}:{(r.map Suite.errors).foldl (· + ·) 0}"
      pure s!"{"|".intercalate (r.map showSuite)}@{tot} ## sum:{st.finishedCount}:{st.passed}:{st.flaky}:{st.leaky}:{st.failed}:{st.execFailed}:{st.timedOut} ## st:{st.finishedCount}:{st.passed}:{st.flaky}:{st.leaky}:{st.failed}:{st.execFailed}:{st.timedOut}:{st.setupScriptsFinishedCount}:{st.failedSetupScriptCount}"
  | _ => none

def parseOutKind : String → Option NextestModel.XmlText.OutKind
  | "split" => some .split | "outonly" => some .splitStdoutOnly | "erronly" => some .splitStderrOnly | "neither" => some .splitNeither
  | "combined" => some .combined | "starterr" => some .startError | _ => none

/-- `xmltext <kind> <hex stdout> <hex strip_str(stdout)> <hex stderr> <hex strip_str(stderr)>` → `<system-out>;<system-err>`: which
    text `set_execute_status_props` stores where, and what `xml_string` makes of it; the third-party ANSI stripper is the table
    handed in by the harness (the identity elsewhere: the text left after the first pass holds no ESC and no C1 control) -/
def handleXmlText : List String → Option String
  | [k, o, oa, e, ea] => do
    let k ← parseOutKind k
    let o ← unhexChars o
    let oa ← unhexChars oa
    let e ← unhexChars e
    let ea ← unhexChars ea
    let ansi : List Char → List Char := fun l => if l == o then oa else if l == e then ea else l
    let (a, b) := NextestModel.XmlText.storedStreams k o e
    pure s!"{hexChars (NextestModel.XmlText.xmlString ansi a)};{hexChars (NextestModel.XmlText.xmlString ansi b)}"
  | _ => none

end Driver
