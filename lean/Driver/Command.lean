import Driver.Util
import NextestModel.Model.Command
open NextestModel NextestModel.Command
namespace Driver

def unhexChars (s : String) : Option (List Char) := do
  let b ← unhex s
  let str ← String.fromUTF8? (ByteArray.mk b.toArray)
  pure str.toList

def unhexStr (s : String) : Option String := do
  let b ← unhex s
  String.fromUTF8? (ByteArray.mk b.toArray)

def hexChars (s : List Char) : String := hex (String.ofList s).toUTF8.toList

def hexWords (ws : List (List Char)) : String :=
  if ws.isEmpty then "." else ",".intercalate (ws.map hexChars)

def charsList (s : String) : Option (List (List Char)) := mapOpt unhexChars (splitList s ",")

/-- `shjoin <hexlist>` → hex of `shell_words::join` -/
def handleShJoin : List String → Option String
  | [ws] => do
    let ws ← charsList ws
    pure (hexChars (Shell.join ws))
  | _ => none

/-- `shsplit <hex>` → `ok <hexlist>` | `err` -/
def handleShSplit : List String → Option String
  | [s] => do
    let s ← unhexChars s
    match Shell.split s with
    | some ws => pure s!"ok {hexWords ws}"
    | none => pure "err"
  | _ => none

def pairs (s : String) : Option Writes :=
  mapOpt (fun e => match e.splitOn ":" with
    | [k, v] => do pure ((← unhexStr k), (← unhexStr v))
    | _ => none) (splitList s ";")

def cargoVars (s : String) : Option (List CargoVar) :=
  mapOpt (fun e => match e.splitOn ":" with
    | [k, v, f] => do pure { key := (← unhexStr k), value := (← unhexStr v), force := (← bit f) }
    | _ => none) (splitList s ";")

def pkgOf (s : String) : Option Package := do
  match ← mapOpt unhexStr (splitList s ",") with
  | [n, v, ma, mi, pa, pr, au, de, ho, li, lf, re, rv] =>
    pure { name := n, version := v, major := ma, minor := mi, patch := pa, pre := pr, authors := au, description := de,
           homepage := ho, license := li, licenseFile := lf, repository := re, rustVersion := rv }
  | _ => none

/-- `cmd <ds> <exe> <prog> <name> <ignored> <extra> <profile> <cwd> <inherited> <cargo> <pkg> <probes>`
    → `<spawned argv> <final argv | err> <cwd> <value per probe>`: what `make_command` must build -/
def handleCmd : List String → Option String
  | [ds, exe, prog, name, ign, extra, profile, cwd, inh, cargo, pkg, probes] => do
    let ds ← bit ds
    let exe ← unhexChars exe
    let prog ← unhexChars prog
    let name ← unhexStr name
    let ign ← bit ign
    let extra ← mapOpt unhexStr (splitList extra ",")
    let profile ← unhexStr profile
    let cwdS ← unhexStr cwd
    let inh ← pairs inh
    let cargo ← cargoVars cargo
    let pkg ← pkgOf pkg
    let probes ← mapOpt unhexStr (splitList probes ",")
    let args := (argv name ign extra).map String.toList
    let exeO := if ds then some exe else none
    let spawned := createCommand exeO prog args
    let final := match finalArgv exeO prog args with
      | some a => hexWords a
      | none => "err"
    let env := commandEnv inh (applyEnv inh cargo) [] profile cwdS (packageEnv pkg)
    let vals := probes.map fun k => match lookup env k with
      | some v => hex v.toUTF8.toList
      | none => "~"
    pure s!"{hexWords spawned} {final} {hex cwdS.toUTF8.toList} {if vals.isEmpty then "." else ",".intercalate vals}"
  | _ => none

end Driver
