import Driver.Util
import NextestModel.Model.Archive
open NextestModel.Archive
namespace Driver

def compStr : Comp → String
  | .root => "/" | .cur => "." | .parent => ".." | .normal s => String.ofList s

/-- `aval <hex entry path> <checksum ok 0|1>` → verdict and where the entry lands below the destination -/
def handleAval : List String → Option String
  | [p, ck] => do
    let b ← unhex p
    if ck == "0" then pure "cksum ." else
    match String.fromUTF8? (ByteArray.mk b.toArray) with
    | none => pure "nonutf8 ."
    | some s =>
      match validate s.toList with
      | .ok => pure ("accepted " ++ hex ("/".intercalate ((landing [] s.toList).map String.ofList)).toUTF8.toList)
      | .noTargetPrefix => pure "prefix ."
      | .invalidComponent c => pure ("component:" ++ hex (compStr c).toUTF8.toList ++ " .")
  | _ => none

/-- tokens `D<hexname>` … `E`, `F<hexname>`, `L<hexname>`, `O<hexname>` → children -/
partial def parseNodes : List String → Option (List (String × Node) × List String)
  | [] => some ([], [])
  | tok :: rest =>
    if tok == "E" then some ([], rest) else
    match tok.toList with
    | k :: h => do
      let name := utf8 (← unhex (String.ofList h))
      if k == 'D' then
        let (cs, rest') ← parseNodes rest
        let (sibs, rest'') ← parseNodes rest'
        pure ((name, Node.dir cs) :: sibs, rest'')
      else
        let n ← (if k == 'F' then some Node.file else if k == 'L' then some Node.symlink else if k == 'O' then some Node.other else none)
        let (sibs, rest') ← parseNodes rest
        pure ((name, n) :: sibs, rest')
    | [] => none

/-- `aarch <prefix hex>@<depth|inf>@<tokens>;…` in archive order → the sorted member paths -/
def handleAarch : List String → Option String
  | [srcs] => do
    let parts ← mapOpt (fun (s : String) => match s.splitOn "@" with
      | [pre, d, toks] => do
        let pre := (utf8 (← unhex pre)).splitOn "/"
        let d : Depth ← (if d == "inf" then some none else d.toNat?.map some)
        let (ns, _) ← parseNodes (toks.splitOn ",")
        match ns with
        | [(_, n)] => pure ((collect d pre n).map (fun p => (p, "")))
        | _ => none
      | _ => none) (srcs.splitOn ";")
    let members := appendAll [] parts.flatten
    let names := (members.map (fun m => "/".intercalate m.1)).toArray.qsort (· < ·) |>.toList
    pure (",".intercalate (names.map (fun n => hex n.toUTF8.toList)))
  | _ => none

end Driver
