import Driver.Util
import NextestModel.Model.Sched
open NextestModel.Sched
namespace Driver

def parseItem (s : String) : Option Item :=
  match s.splitOn ":" with
  | [i, w, g] => do
    let i ← i.toNat?; let w ← w.toNat?
    let g ← if g == "-" then some none else g.toNat?.map some
    pure { id := i, weight := w, group := g }
  | _ => none

def parseOp (s : String) : Option Op :=
  if s == "P" then some .poll
  else if s.startsWith "C" then ((s.drop 1).toString.toNat?).map .complete
  else none

def showRunning (r : Running) : String :=
  s!"{r.item.id}@{r.globalSlot}/" ++ (match r.groupSlot with | none => "-" | some g => toString g)

/-- `sched <T> <group maxes> <items> <ops>` -/
def handleSched : List String → Option String
  | [t, gm, items, ops] => do
    let t ← t.toNat?
    let gm ← mapOpt String.toNat? (splitList gm ",")
    let items ← mapOpt parseItem (splitList items ",")
    let ops ← mapOpt parseOp (splitList ops ",")
    let rec go (s : SState) (os : List Op) (acc : List String) : List String × SState :=
      match os with
      | [] => (acc.reverse, s)
      | o :: rest =>
        match s.step o with
        | none => (("invalid" :: acc).reverse, s)
        | some (s', started) =>
          go s' rest ((",".intercalate (started.map showRunning) ++ s!"|cur={s'.cur}") :: acc)
    let (outs, s) := go (SState.init t gm items) ops []
    let never := s.pending.length + s.queued
    pure (" ## ".intercalate outs ++ s!" ## END started={items.length - never} never_started={never} panicked=0")
  | _ => none

end Driver
