import Driver.Dispatcher
import NextestModel.Model.Classify
open NextestModel.Classify NextestModel.Dispatcher
namespace Driver

/-- `classify <raw wait status> <child error 0|1> <leaked 0|1>` -/
def handleClassify : List String → Option String
  | [raw, e, l] => do
    let raw ← raw.toNat?
    pure (showRes (classify (WaitStatus.ofRaw raw) (e == "1") (l == "1")))
  | _ => none

/-- `describe <results comma-separated>` -/
def handleDescribe : List String → Option String
  | [rs] => do
    let rs ← mapOpt parseRes (rs.splitOn ",")
    pure (match describe rs with | .success => "Success" | .flaky => "Flaky" | .failure => "Failure")
  | _ => none

/-- `backoff f|e <count> <delay ns> <jitter 0|1> <max delay ns | ->` → pre-jitter delays in ns -/
def handleBackoff : List String → Option String
  | [k, c, d, j, m] => do
    let c ← c.toNat?; let d ← d.toNat?
    let m ← if m == "-" then some none else m.toNat?.map some
    let p : Policy := if k == "f" then .fixed c d (j == "1") else .exponential c d (j == "1") m
    let ds := delays p
    pure (if ds.isEmpty then "." else ",".intercalate (ds.map toString))
  | _ => none

end Driver
