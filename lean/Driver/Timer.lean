import Driver.Util
import NextestModel.Model.Unit
open NextestModel.Unit
namespace Driver

def parseSleepOp (s : String) : Option SleepOp :=
  match s.toList with
  | ['p'] => some .pause
  | ['r'] => some .resume
  | ['l'] => some .resetLast
  | 'a' :: n => (String.ofList n).toNat?.map .advance
  | 's' :: n => (String.ofList n).toNat?.map .reset
  | _ => none

/-- `psleep <initial ms> <op,op,…>` → after every operation `f|-` (fired?) and `P|R` (paused / running); `panic` when an
    operation is the illegal state transition -/
def handlePSleep : List String → Option String
  | [d, ops] => do
    let d ← d.toNat?
    let ops ← mapOpt parseSleepOp (splitList ops ",")
    let rec go (s : PSleep) (os : List SleepOp) (acc : List String) : List String :=
      match os with
      | [] => acc.reverse
      | o :: rest =>
        match s.apply o with
        | none => ("panic" :: acc).reverse
        | some s' => go s' rest (((if s'.fired then "f" else "-") ++ (if s'.paused then "P" else "R")) :: acc)
    pure (",".intercalate (go (PSleep.new d) ops []))
  | _ => none

end Driver
