import Driver.Util
import NextestModel.Model.Unit
open NextestModel.Unit
namespace Driver

def parseSleepOp (s : String) : Option SleepOp :=
  match s.toList with
  | ['p'] => some .pause
  | ['r'] => some .resume
  | ['l'] => some .resetLast
  | 'a' :: n => (String.ofList n).toNat?.map .advance
  | 's' :: n => (String.ofList n).toNat?.map .reset
  | _ => none

/-- `psleep <initial ms> <op,op,…>` → after every operation `f|-` (fired?) and `P|R` (paused / running); `panic` when an
    operation is the illegal state transition -/
def handlePSleep : List String → Option String
  | [d, ops] => do
    let d ← d.toNat?
    let ops ← mapOpt parseSleepOp (splitList ops ",")
    let rec go (s : PSleep) (os : List SleepOp) (acc : List String) : List String :=
      match os with
      | [] => acc.reverse
      | o :: rest =>
        match s.apply o with
        | none => ("panic" :: acc).reverse
        | some s' => go s' rest (((if s'.fired then "f" else "-") ++ (if s'.paused then "P" else "R")) :: acc)
    pure (",".intercalate (go (PSleep.new d) ops []))
  | _ => none

/-- one stopwatch operation as the harness recorded it: its kind (`n` new, `p` pause, `r` resume, `s` snapshot), the harness's
    own clock (µs) just before and just after the call, and for a snapshot the `active` value (µs) the implementation returned -/
def parseWatchRec (s : String) : Option (Char × Nat × Nat × Nat) :=
  match s.toList with
  | k :: rest =>
    match (String.ofList rest).splitOn ":" with
    | [b, a] => do pure (k, ← b.toNat?, ← a.toNat?, 0)
    | [b, a, v] => do pure (k, ← b.toNat?, ← a.toNat?, ← v.toNat?)
    | _ => none
  | _ => none

/-- `swatch <rec,rec,…>` → for every snapshot `in` when the value lies between what `Model/Unit.Watch` gives for the shortest and
    for the longest times compatible with the recorded clock readings (each operation happened somewhere between its two
    readings; 2 µs per operation for the truncation to µs; a snapshot of a paused watch reads the clock twice — first for the ongoing
    pause, then for the total —, which can only raise it, by at most the width of its own bracket), otherwise `out:<lo>:<hi>`; `panic` on an illegal transition -/
def handleSWatch : List String → Option String
  | [recs] => do
    let rs ← mapOpt parseWatchRec (splitList recs ",")
    let rec go (lo hi : Watch) (pb pa k : Nat) (rs : List (Char × Nat × Nat × Nat)) (acc : List String) : List String :=
      match rs with
      | [] => acc.reverse
      | (c, b, a, v) :: rest =>
        let lo1 := lo.tick (b - pa)
        let hi1 := hi.tick (a - pb)
        let k := k + 1
        if c == 'p' then
          match lo1.apply .pause, hi1.apply .pause with
          | some l, some h => go l h b a k rest acc
          | _, _ => ("panic" :: acc).reverse
        else if c == 'r' then
          match lo1.apply .resume, hi1.apply .resume with
          | some l, some h => go l h b a k rest acc
          | _, _ => ("panic" :: acc).reverse
        else
          let low := lo1.active - 2 * k
          let high := hi1.active + 2 * k + (if hi1.paused then a - b else 0)
          go lo1 hi1 b a k rest ((if low ≤ v && v ≤ high then "in" else s!"out:{low}:{high}") :: acc)
    match rs with
    | ('n', b, a, _) :: rest => pure (",".intercalate (go {} {} b a 0 rest []))
    | _ => none
  | _ => none

end Driver
