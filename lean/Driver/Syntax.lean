import Driver.Util
import NextestModel.Model.Syntax
open NextestModel NextestModel.Syntax
namespace Driver

def hexC (s : List Char) : String := hex (String.ofList s).toUTF8.toList

def unhexC (s : String) : Option (List Char) := do
  let b ← unhex s
  let str ← String.fromUTF8? (ByteArray.mk b.toArray)
  pure str.toList

def showMatcher : Matcher → String
  | .equal v i => s!"eq:{if i then "i" else "e"}:{hexC v}"
  | .contains v i => s!"co:{if i then "i" else "e"}:{hexC v}"
  | .glob v i => s!"gl:{if i then "i" else "e"}:{hexC v}"
  | .regex v => s!"re:{hexC v}"

def showSpan (ws : Bool) (s : Span) : String := if ws then s!" {s.off} {s.len}" else ""

def showSet (ws : Bool) : SetDef → String
  | .unary p m s => s!"(set {predName p} {showMatcher m}{showSpan ws s})"
  | .platform .host s => s!"(platform host{showSpan ws s})"
  | .platform .target s => s!"(platform target{showSpan ws s})"
  | .default s => s!"(default{showSpan ws s})"
  | .all => "(all)"
  | .none => "(none)"

def showExpr (ws : Bool) : PExpr → String
  | .not .literalNot e => s!"(not n {showExpr ws e})"
  | .not .exclamation e => s!"(not ! {showExpr ws e})"
  | .union .literalOr a b => s!"(or o {showExpr ws a} {showExpr ws b})"
  | .union .pipe a b => s!"(or | {showExpr ws a} {showExpr ws b})"
  | .union .plus a b => s!"(or + {showExpr ws a} {showExpr ws b})"
  | .inter .literalAnd a b => s!"(and a {showExpr ws a} {showExpr ws b})"
  | .inter .ampersand a b => s!"(and & {showExpr ws a} {showExpr ws b})"
  | .diff a b => s!"(diff - {showExpr ws a} {showExpr ws b})"
  | .parens e => s!"(par {showExpr ws e})"
  | .set s => showSet ws s

def showKind : ErrKind → String
  | .invalidRegex => "InvalidRegex" | .invalidGlob => "InvalidGlob" | .expectedCloseRegex => "ExpectedCloseRegex"
  | .invalidOrOperator => "InvalidOrOperator" | .invalidAndOperator => "InvalidAndOperator"
  | .unexpectedArgument => "UnexpectedArgument" | .unexpectedComma => "UnexpectedComma"
  | .invalidString => "InvalidString" | .expectedOpenParen => "ExpectedOpenParenthesis"
  | .expectedCloseParen => "ExpectedCloseParenthesis" | .invalidEscape => "InvalidEscapeCharacter"
  | .expectedExpr => "ExpectedExpr" | .expectedEof => "ExpectedEndOfExpression"
  | .invalidPlatform => "InvalidPlatformArgument" | .outOfFuel => "OutOfFuel"

def showErr (e : PErr) : String :=
  match e.kind with
  | .invalidRegex => "InvalidRegex:?:?"
  | k => s!"{showKind k}:{e.off}:{e.len}"

def showErrs (es : List PErr) : String := ",".intercalate (es.map showErr)

/-- table entries: `r1<hex>` valid regex, `r0<hex>` invalid regex, `g1…`/`g0…` globs -/
def parseTable (s : String) : Option (List (List Char × Bool) × List (List Char × Bool)) :=
  (splitList s ",").foldlM (fun (acc : List (List Char × Bool) × List (List Char × Bool)) e =>
    match e.toList with
    | k :: v :: h =>
      match unhexC (String.ofList h) with
      | some t =>
        let b := v == '1'
        if k == 'r' then some ((t, b) :: acc.1, acc.2) else if k == 'g' then some (acc.1, (t, b) :: acc.2) else none
      | none => none
    | _ => none) ([], [])

def showNeeds (ns : List (Bool × List Char)) : String :=
  "need " ++ ",".intercalate (ns.map fun (r, t) => (if r then "r" else "g") ++ hexC t)

/-- `parse <hex input> <table>` -/
def handleParse : List String → Option String
  | [inp, tbl] => do
    let input ← unhexC inp
    let (rv, gv) ← parseTable tbl
    let (e, st) := parseTop (mkCtx input rv gv) input
    if !st.needs.isEmpty then pure (showNeeds st.needs) else
    match e, st.errs with
    | some e, [] => pure s!"ok {showExpr true e}"
    | some e, errs => pure s!"ok+err {showExpr true e} ; {showErrs errs}"
    | none, errs => pure s!"err {showErrs errs}"
  | _ => none

/-- `rt <hex input> <table>`: parse, print, re-parse, compare modulo spans -/
def handleRt : List String → Option String
  | [inp, tbl] => do
    let input ← unhexC inp
    let (rv, gv) ← parseTable tbl
    let (e, st) := parseTop (mkCtx input rv gv) input
    if !st.needs.isEmpty then pure (showNeeds st.needs) else
    match e, st.errs with
    | some e, [] =>
      let text := printExpr e
      let (e2, st2) := parseTop (mkCtx text rv gv) text
      if !st2.needs.isEmpty then pure (showNeeds st2.needs) else
      match e2, st2.errs with
      | some e2, [] => pure s!"rt {hexC text} {if dropSpans e2 = dropSpans e then "same" else "diff"}"
      | _, _ => pure s!"rt {hexC text} reparse-failed"
    | _, _ => pure "rt-skip"
  | _ => none

end Driver
