import Driver.Util
import NextestModel.Model.Syntax
open NextestModel NextestModel.Syntax
namespace Driver

def hexC (s : List Char) : String := hex (String.ofList s).toUTF8.toList

def unhexC (s : String) : Option (List Char) := do
  let b ← unhex s
  let str ← String.fromUTF8? (ByteArray.mk b.toArray)
  pure str.toList

def showMatcher : Matcher → String
  | .equal v i => s!"eq:{if i then "i" else "e"}:{hexC v}"
  | .contains v i => s!"co:{if i then "i" else "e"}:{hexC v}"
  | .glob v i => s!"gl:{if i then "i" else "e"}:{hexC v}"
  | .regex v => s!"re:{hexC v}"

def showSpan (ws : Bool) (s : Span) : String := if ws then s!" {s.off} {s.len}" else ""

def showSet (ws : Bool) : SetDef → String
  | .unary p m s => s!"(set {predName p} {showMatcher m}{showSpan ws s})"
  | .platform .host s => s!"(platform host{showSpan ws s})"
  | .platform .target s => s!"(platform target{showSpan ws s})"
  | .default s => s!"(default{showSpan ws s})"
  | .all => "(all)"
  | .none => "(none)"

def showExpr (ws : Bool) : PExpr → String
  | .not .literalNot e => s!"(not n {showExpr ws e})"
  | .not .exclamation e => s!"(not ! {showExpr ws e})"
  | .union .literalOr a b => s!"(or o {showExpr ws a} {showExpr ws b})"
  | .union .pipe a b => s!"(or | {showExpr ws a} {showExpr ws b})"
  | .union .plus a b => s!"(or + {showExpr ws a} {showExpr ws b})"
  | .inter .literalAnd a b => s!"(and a {showExpr ws a} {showExpr ws b})"
  | .inter .ampersand a b => s!"(and & {showExpr ws a} {showExpr ws b})"
  | .diff a b => s!"(diff - {showExpr ws a} {showExpr ws b})"
  | .parens e => s!"(par {showExpr ws e})"
  | .set s => showSet ws s

def showKind : ErrKind → String
  | .invalidRegex => "InvalidRegex" | .invalidGlob => "InvalidGlob" | .expectedCloseRegex => "ExpectedCloseRegex"
  | .invalidOrOperator => "InvalidOrOperator" | .invalidAndOperator => "InvalidAndOperator"
  | .unexpectedArgument => "UnexpectedArgument" | .unexpectedComma => "UnexpectedComma"
  | .invalidString => "InvalidString" | .expectedOpenParen => "ExpectedOpenParenthesis"
  | .expectedCloseParen => "ExpectedCloseParenthesis" | .invalidEscape => "InvalidEscapeCharacter"
  | .expectedExpr => "ExpectedExpr" | .expectedEof => "ExpectedEndOfExpression"
  | .invalidPlatform => "InvalidPlatformArgument" | .outOfFuel => "OutOfFuel"

def showErr (e : PErr) : String := s!"{showKind e.kind}:{e.off}:{e.len}"

def showErrs (es : List PErr) : String := ",".intercalate (es.map showErr)

structure Tables where
  rv : List (List Char × Bool) := []
  gv : List (List Char × Bool) := []
  re : List (List Char × Nat × Nat) := []

/-- table entries: `r1<hex>` valid regex, `r0<hex>` regex that `regex` refuses and `regex-syntax` accepts,
    `r0<hex>~a~b` refused regex of which `regex-syntax` blames bytes a..b, `g1…`/`g0…` globs -/
def parseTable (s : String) : Option Tables :=
  (splitList s ",").foldlM (fun (acc : Tables) e =>
    match e.splitOn "~" with
    | [] => none
    | hd :: sp =>
      match hd.toList with
      | k :: v :: h =>
        match unhexC (String.ofList h) with
        | some t =>
          let b := v == '1'
          if k == 'r' then
            match sp with
            | [] => some { acc with rv := (t, b) :: acc.rv }
            | [x, y] => do
              let x ← x.toNat?
              let y ← y.toNat?
              some { acc with rv := (t, b) :: acc.rv, re := (t, x, y) :: acc.re }
            | _ => none
          else if k == 'g' then some { acc with gv := (t, b) :: acc.gv } else none
        | none => none
      | _ => none) {}

def showNeeds (ns : List (Bool × List Char)) : String :=
  "need " ++ ",".intercalate (ns.map fun (r, t) => (if r then "r" else "g") ++ hexC t)

/-- `parse <hex input> <table>` -/
def handleParse : List String → Option String
  | [inp, tbl] => do
    let input ← unhexC inp
    let tb ← parseTable tbl
    let (e, st) := parseTop (mkCtx input tb.rv tb.gv tb.re) input
    if !st.needs.isEmpty then pure (showNeeds st.needs) else
    match e, st.errs with
    | some e, [] => pure s!"ok {showExpr true e}"
    | some e, errs => pure s!"ok+err {showExpr true e} ; {showErrs errs}"
    | none, errs => pure s!"err {showErrs errs}"
  | _ => none

/-- `rt <hex input> <table>`: parse, print, re-parse, compare modulo spans -/
def handleRt : List String → Option String
  | [inp, tbl] => do
    let input ← unhexC inp
    let tb ← parseTable tbl
    let (e, st) := parseTop (mkCtx input tb.rv tb.gv tb.re) input
    if !st.needs.isEmpty then pure (showNeeds st.needs) else
    match e, st.errs with
    | some e, [] =>
      let text := printExpr e
      let (e2, st2) := parseTop (mkCtx text tb.rv tb.gv tb.re) text
      if !st2.needs.isEmpty then pure (showNeeds st2.needs) else
      match e2, st2.errs with
      | some e2, [] => pure s!"rt {hexC text} {if dropSpans e2 = dropSpans e then "same" else "diff"}"
      | _, _ => pure s!"rt {hexC text} reparse-failed"
    | _, _ => pure "rt-skip"
  | _ => none

end Driver
