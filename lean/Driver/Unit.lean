import Driver.Util
import NextestModel.Model.Unit
open NextestModel.Unit
namespace Driver

def sigNum : Sig → Nat
  | .int => 2 | .term => 15 | .hup => 1 | .quit => 3 | .kill => 9 | .tstp => 20 | .cont => 18

def actStr (t : Nat) : Act → String
  | .kill s => s!"kill{sigNum s}@{t}"
  | .slow e w => s!"slow{e}:{if w then 1 else 0}@{t}"
  | .ack => s!"ack@{t}"
  | .info .running => s!"info:Running@{t}"
  | .info .terminating => s!"info:Terminating@{t}"
  | .info .exiting => s!"info:Exiting@{t}"
  | .info .delayBeforeNextAttempt => s!"info:DelayBeforeNextAttempt@{t}"
  | .panic => s!"PANIC@{t}"

def parseEv (s : String) : Option Ev :=
  match s.toList with
  | 't' :: n => (String.ofList n).toNat?.map Ev.time
  | ['S'] => some (.req .stop)
  | ['C'] => some (.req .cont)
  | ['H', 'I'] => some (.req (.shutdown (.once .interrupt)))
  | ['H', 'T'] => some (.req (.shutdown (.once .term)))
  | ['H', 'H'] => some (.req (.shutdown (.once .hangup)))
  | ['H', 'Q'] => some (.req (.shutdown (.once .quit)))
  | ['K'] => some (.req (.shutdown .twice))
  | ['O'] => some (.req .otherCancel)
  | ['G'] => some (.req .getInfo)
  | ['X'] => some .childExit
  | ['F'] => some .fdsDone
  | _ => none

def phaseStr : Phase → String
  | .running => "running" | .terminating .timeout => "terminating-timeout" | .terminating .signal => "terminating-signal"
  | .draining => "draining" | .delay => "delay" | .done => "done"

/-- run the events, stamping each action with the wall-clock time (sum of the `t` events so far;
    a timer firing inside a `t` event is stamped with the moment it fires) -/
def simulate (c : Cfg) : U → Nat → List Ev → List String → U × List String
  | u, _, [], acc => (u, acc.reverse)
  | u, now, e :: es, acc =>
    match e with
    | .time dt =>
      -- split the interval at every expiry so that each action gets its own time stamp
      let rec go (fuel : Nat) (u : U) (now left : Nat) (acc : List String) : U × Nat × List String :=
        match fuel with
        | 0 => (u, now, acc)
        | fuel + 1 =>
          match nextDue u with
          | some n =>
            if n ≤ left then
              let (u', a) := advance c u n
              go fuel u' (now + n) (left - n) ((a.map (actStr (now + n))).reverse ++ acc)
            else ((advance c u left).1, now + left, acc)
          | none => ((advance c u left).1, now + left, acc)
      let (u', now', acc') := go 64 u now dt acc
      simulate c u' now' es acc'
    | _ =>
      let (u', a) := step c u e
      simulate c u' now es ((a.map (actStr now)).reverse ++ acc)

/-- `unit <spawn|delay:<ms>> <period> <terminate-after|-> <grace> <leak> <ev,ev,…>` -/
def handleUnit : List String → Option String
  | [start, p, k, g, l, evs] => do
    let p ← p.toNat?; let g ← g.toNat?; let l ← l.toNat?
    let k ← if k == "-" then some none else k.toNat?.map some
    let c : Cfg := { period := p, terminateAfter := k, grace := g, leak := l }
    let u0 ← (if start == "spawn" then some (U.spawn c) else
      match start.splitOn ":" with
      | ["delay", d] => d.toNat?.map U.enterDelay
      | _ => none)
    let es ← mapOpt parseEv (splitList evs ",")
    let (u, acts) := simulate c u0 0 es []
    pure (s!"{if acts.isEmpty then "." else ",".intercalate acts} phase={phaseStr u.phase} slow={showBit u.slow} timeout={showBit u.timedOut} leaked={showBit u.leaked} active={u.sw.active}")
  | _ => none

end Driver
