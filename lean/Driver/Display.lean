import Driver.Util
import NextestModel.Model.Display
open NextestModel.Display
namespace Driver

def optBytes (s : String) : Option (Option Bytes) :=
  if s == "none" then some none else (unhex s).map some

def showWhich : Which → String
  | .panicMessage => "P" | .errorStr => "E" | .shouldPanic => "S"

/-- `hext <stdout|none> <stderr|none>` → `none` | `P|E|S:start:slice` -/
def handleHext : List String → Option String
  | [so, se] => do
    let so ← optBytes so
    let se ← optBytes se
    match heuristicExtract so se with
    | none => pure "none"
    | some (w, d) => pure s!"{showWhich w}:{d.start}:{hex d.slice}"
  | _ => none

/-- `hlend <bytes>` → `highlight_end` -/
def handleHlend : List String → Option String
  | [s] => do
    let s ← unhex s
    pure (toString (highlightEnd s))
  | _ => none

def parseStripTable (s : String) : Option (List (Bytes × Bytes)) :=
  mapOpt (fun e => match e.splitOn "=" with
    | [a, b] => do pure ((← unhex a), (← unhex b))
    | _ => none) (splitList s ",")

/-- the stripper as a table; a piece that is not in it is marked (the harness lists every piece the displayer can strip) -/
def tableStrip (tbl : List (Bytes × Bytes)) (b : Bytes) : Bytes :=
  match tbl.find? (fun e => e.1 == b) with
  | some e => e.2
  | none => ascii "<not-in-strip-table>" ++ b

/-- `show <c|n> <stdout> <stderr> <prefix> <suffix> <strip table> <verdict data, not read>` → the two regions the display reporter writes -/
def handleShow : List String → Option String
  | [c, o, e, pre, suf, tbl, _verdictData] => do
    let colorized := c == "c"
    let o ← unhex o
    let e ← unhex e
    let pre ← unhex pre
    let suf ← unhex suf
    let tbl ← parseStripTable tbl
    let sty : Style → Bytes := fun s => match s with
      | .reset => [0x1b, 0x5b, 0x30, 0x6d]
      | .prefix_ => pre
      | .suffix => suf
    -- `UnitErrorDescription::new` searches both streams; the highlight is used only when colour is on
    let r := if colorized then heuristicExtract (some o) (some e) else none
    let region := fun (buf : Bytes) (d : Option Subslice) =>
      if buf.isEmpty then "-" else
      match writeSingle colorized buf d with
      | none => "panic"
      | some ps => hex (render (tableStrip tbl) sty ps)
    pure s!"{region o (r.bind stdoutSubslice)};{region e (r.bind stderrSubslice)}"
  | _ => none

end Driver
