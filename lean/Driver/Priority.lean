import Driver.Util
import NextestModel.Model.Priority
import NextestModel.Model.Filter
open NextestModel NextestModel.Priority
namespace Driver

/-- `prio <bins: id:hexlist;…> <overrides: kind:arg:prio+100;… | .>` → dispatch order `bin/name,…`.
    The bins arrive in arbitrary order: `iter_tests` walks the `BTreeMap` by binary id, then by name. -/
def handlePrio : List String → Option String
  | [bins, ovs] => do
    let bs ← mapOpt (fun b => match b.splitOn ":" with
      | [id, names] => do pure ((← unhex id), (← hexList names))
      | _ => none) (splitList bins ";")
    let os ← mapOpt (fun o => match o.splitOn ":" with
      | [k, a, p] => do pure (k, (← unhex a), (← p.toNat?))
      | _ => none) (splitList ovs ";")
    let prioOf (bin name : List UInt8) : Nat :=
      match os.find? (fun (k, a, _) =>
        if k == "test-eq" then a == name else if k == "test-contains" then isInfix a name else a == bin) with
      | some (_, _, p) => p
      | none => 100
    let q := queue (iterOrder bs prioOf)
    pure (if q.isEmpty then "." else ",".intercalate (q.map fun t => s!"{hex t.binary}/{hex t.name}"))
  | _ => none

/-- `threads <value> <ncpu>` → the computed count or `err` -/
def handleThreads : List String → Option String
  | [v, n] => do
    let n ← n.toNat?
    let v ← v.toInt?
    pure (match threadCount n v with | some k => toString k | none => "err")
  | _ => none

/-- `treq <count:k|num-cpus|num-test-threads> <ncpu> <test threads>` → `ThreadsRequired::compute` -/
def handleTreq : List String → Option String
  | [k, n, t] => do
    let n ← n.toNat?
    let t ← t.toNat?
    let tr ← (if k == "num-cpus" then some ThreadsRequired.numCpus else if k == "num-test-threads" then some .numTestThreads
              else match k.splitOn ":" with
                | ["count", c] => c.toNat?.map ThreadsRequired.count
                | _ => none)
    pure (toString (tr.compute n t))
  | _ => none

end Driver
