import Driver.Util
import NextestModel.Model.Scripts
open NextestModel.Scripts
namespace Driver

def chars (b : List UInt8) : List Char := (utf8 b).toList

/-- `scripts <defs a,b> <rules s1+s2:0110;…> <selected 0,2> <ntests> <ran name=hexline+hexline;…> <keys hex,hex>`
    → `enabled=… parse=name:ok,… env=t0:v,v;t1:…` (values hex, `~` = unset) -/
def handleScripts : List String → Option String
  | [defs, rules, sel, nt, ran, keys] => do
    let defs := splitList defs ","
    let rules ← mapOpt (fun (r : String) => match r.splitOn ":" with
      | [ss, bs] => do let b ← bits bs; pure ({ setup := splitList ss "+", applies := b } : Rule)
      | _ => none) (splitList rules ";")
    let sel ← mapOpt (fun (s : String) => s.toNat?) (splitList sel ",")
    let nt ← nt.toNat?
    let ran ← mapOpt (fun (r : String) => match r.splitOn "=" with
      | [n, ls] => do let ls ← mapOpt unhex (splitList ls "+"); pure (n, ls.map chars)
      | _ => none) (splitList ran ";")
    let keys ← hexList keys
    let en := enabled defs rules sel
    let parsed := ran.map (fun (n, ls) => (n, parseEnvFile ls))
    let executed := parsed.filterMap (fun (n, m) => m.map (fun m => (n, m)))
    let envs := (List.range nt).map (fun t =>
      s!"t{t}:" ++ ",".intercalate (keys.map (fun k => match envFor rules executed t (chars k) with
        | some v => hex (String.ofList v).toUTF8.toList
        | none => "~")))
    pure (s!"enabled={if en.isEmpty then "." else ",".intercalate en} parse={if parsed.isEmpty then "." else ",".intercalate (parsed.map (fun (n, m) => n ++ ":" ++ (if m.isSome then "ok" else "err")))} env={";".intercalate envs}")
  | _ => none

end Driver
