import Driver.Dispatcher
import NextestModel.Model.Attempts
open NextestModel NextestModel.Attempts NextestModel.Dispatcher NextestModel.Classify
namespace Driver

/-- `attempts f|e <count> <delay ns> <max ns|-> <outcome of attempt 1,2,…> <ackStart 0|1> <first refused retry k|->`
    → `<spawned attempts> <final statuses | -> <announced delays ns>`; attempts beyond the listed outcomes behave like the last one -/
def handleAttempts : List String → Option String
  | [k, c, d, m, outs, ack, refuse] => do
    let c ← c.toNat?; let d ← d.toNat?
    let m ← if m == "-" then some none else m.toNat?.map some
    let p : Policy := if k == "f" then .fixed c d false else .exponential c d false m
    let rs ← mapOpt parseRes (outs.splitOn ",")
    let last ← rs.getLast?
    let ack ← bit ack
    let refuse ← if refuse == "-" then some none else refuse.toNat?.map some
    let env : Env := { outcome := fun i => (rs[i - 1]?).getD last, ackStart := ack,
                       ackRetry := fun i => match refuse with | some r => decide (i < r) | none => true }
    match runTestInstance p env with
    | none => pure "panic"
    | some evs =>
      let sp := spawns evs
      let fin := match finisheds evs with | [rs] => ",".intercalate (rs.map showRes) | [] => "-" | _ => "several"
      let ds := announcedDelays evs
      pure s!"{if sp.isEmpty then "." else ",".intercalate (sp.map toString)} {fin} {if ds.isEmpty then "." else ",".intercalate (ds.map toString)}"
  | _ => none

end Driver
