/- Line-protocol utilities shared by all driver streams.  No Mathlib. -/
namespace Driver

def hexVal (c : Char) : Option Nat :=
  if '0' ≤ c ∧ c ≤ '9' then some (c.toNat - '0'.toNat)
  else if 'a' ≤ c ∧ c ≤ 'f' then some (c.toNat - 'a'.toNat + 10)
  else none

def unhexAux : List Char → List UInt8 → Option (List UInt8)
  | [], acc => some acc.reverse
  | [_], _ => none
  | a :: b :: rest, acc =>
    match hexVal a, hexVal b with
    | some x, some y => unhexAux rest (UInt8.ofNat (x * 16 + y) :: acc)
    | _, _ => none

/-- `-` is the empty string. -/
def unhex (s : String) : Option (List UInt8) :=
  if s == "-" then some [] else unhexAux s.toList []

def hexDigit (n : Nat) : Char :=
  if n < 10 then Char.ofNat ('0'.toNat + n) else Char.ofNat ('a'.toNat + n - 10)

def hex (b : List UInt8) : String :=
  if b.isEmpty then "-" else
  String.ofList (b.flatMap fun x => [hexDigit (x.toNat / 16), hexDigit (x.toNat % 16)])

/-- split, treating `.` as the empty list -/
def splitList (s : String) (sep : String) : List String :=
  if s == "." then [] else s.splitOn sep

def mapOpt {α β} (f : α → Option β) : List α → Option (List β)
  | [] => some []
  | x :: xs => match f x, mapOpt f xs with
    | some y, some ys => some (y :: ys)
    | _, _ => none

def hexList (s : String) : Option (List (List UInt8)) := mapOpt unhex (splitList s ",")

def bits (s : String) : Option (List Bool) :=
  if s == "_" then some [] else
  mapOpt (fun c => if c == '1' then some true else if c == '0' then some false else none) s.toList

def bit (s : String) : Option Bool :=
  if s == "1" then some true else if s == "0" then some false else none

def trit (s : String) : Option (Option Bool) :=
  if s == "1" then some (some true) else if s == "0" then some (some false)
  else if s == "?" then some none else none

def showBit (b : Bool) : String := if b then "1" else "0"

def utf8 (b : List UInt8) : String := (String.fromUTF8? (ByteArray.mk b.toArray)).getD "<non-utf8>"

end Driver
