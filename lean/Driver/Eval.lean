import Driver.Syntax
open NextestModel NextestModel.Syntax
namespace Driver

def parseEdges (s : String) : Option (List (List Nat)) :=
  mapOpt (fun part => if part == "_" then some [] else mapOpt String.toNat? (part.splitOn ".")) (splitList s ";")

def parseRegexTruth (s : String) : Option (List (List Char × List Char × Bool)) :=
  mapOpt (fun e => match e.splitOn ":" with
    | [p, subj, b] => do let p ← unhexC p; let subj ← unhexC subj; let b ← bit b; pure (p, subj, b)
    | _ => none) (splitList s ",")

def parseQuery (s : String) : Option Query :=
  match s.splitOn ":" with
  | [pk, bid, bn, k, pl, tn] => do
    let pk ← pk.toNat?
    let bid ← unhexC bid; let bn ← unhexC bn; let k ← unhexC k; let tn ← unhexC tn
    let pl ← if pl == "h" then some Platform.host else if pl == "t" then some Platform.target else none
    pure { package := pk, binaryId := bid, binaryName := bn, kind := k, platform := pl, testName := tn }
  | _ => none

def showCErr : CompileErr → String
  | .bannedPredicate s => s!"BannedPredicate:{s.off}:{s.len}"
  | .noPackageMatch s => s!"NoPackageMatch:{s.off}:{s.len}"
  | .noBinaryIdMatch s => s!"NoBinaryIdMatch:{s.off}:{s.len}"
  | .noBinaryNameMatch s => s!"NoBinaryNameMatch:{s.off}:{s.len}"

/-- does the expression use a glob outside the modelled subset? -/
def unsupportedGlob : PExpr → Bool
  | .not _ e => unsupportedGlob e
  | .union _ a b => unsupportedGlob a || unsupportedGlob b
  | .inter _ a b => unsupportedGlob a || unsupportedGlob b
  | .diff a b => unsupportedGlob a || unsupportedGlob b
  | .parens e => unsupportedGlob e
  | .set (.unary _ (.glob v _) _) => !Glob.supported v
  | .set _ => false

def showTrit : Option Bool → String
  | some true => "1" | some false => "0" | none => "?"

/-- `eval <names> <wsbits> <edges> <binnames> <binids> <default hex> <expr hex> <regex truth> <queries>` -/
def handleEval : List String → Option String
  | [names, ws, edges, bnames, bids, dflt, expr, rtruth, queries] => do
    let names ← mapOpt unhexC (splitList names ",")
    let ws ← bits ws
    let edges ← parseEdges edges
    let bnames ← mapOpt unhexC (splitList bnames ",")
    let bids ← mapOpt unhexC (splitList bids ",")
    let g : Graph := { names := names, workspace := ws, edges := edges, binaryNames := bnames, binaryIds := bids }
    let dtext ← unhexC dflt
    let etext ← unhexC expr
    let rt ← parseRegexTruth rtruth
    let qs ← mapOpt parseQuery (splitList queries ";")
    let ro : RegexOracle := fun p s =>
      match rt.find? (fun e => e.1 == p && e.2.1 == s) with
      | some e => e.2.2
      | none => false
    match parseFilterset dtext [] [] [], parseFilterset etext [] [] [] with
    | .ok d, .ok e =>
      if unsupportedGlob d || unsupportedGlob e then pure "unsupported-glob" else
      let derrs := bannedErrors d ++ compileErrors g ro d
      let eerrs := compileErrors g ro e
      if !derrs.isEmpty then pure ("default-error " ++ ",".intercalate (derrs.map showCErr))
      else if !eerrs.isEmpty then pure ("error " ++ ",".intercalate (eerrs.map showCErr))
      else
        let cd := compile g ro d
        let ce := compile g ro e
        let tb := qs.map fun q => showBit (ce.matchesTest ro (cd.matchesTest ro false q) q)
        let bb := qs.map fun q => showTrit (ce.matchesBinary ro (cd.matchesBinary ro none q) q)
        pure (String.join tb ++ "/" ++ String.join bb)
    | .error errs, _ => pure ("default-parse-error " ++ showErrs errs)
    | _, .error errs => pure ("parse-error " ++ showErrs errs)
  | _ => none

end Driver
