/- Helper lemmas about `Model/Dispatcher` shared by the C01 / C02 / C17 theorem files. -/
import NextestModel.Model.Dispatcher
namespace NextestModel.Dispatcher

/-- past attempts recorded for test `i` -/
def DState.past (s : DState) (i : Nat) : List Res :=
  match s.running.find? (·.1 == i) with
  | some e => e.2
  | none => []

/-- what an event does to the statistics (when the step does not panic) -/
def statsEffect (s : DState) : DEvent → Stats
  | .finished i r slow => s.stats.onTestFinished r slow ((s.past i).length + 1)
  | .scriptFinished _ r => s.stats.onScriptFinished r
  | .skipped _ => { s.stats with skipped := s.stats.skipped + 1 }
  | _ => s.stats

theorem beginCancel_stats (s : DState) (reason : CancelReason) (resp : Response) :
    (beginCancel s reason resp).1.stats = s.stats ∧ (beginCancel s reason resp).1.running = s.running ∧
    (beginCancel s reason resp).1.rxOpen = s.rxOpen := by
  unfold beginCancel
  split
  · exact ⟨rfl, rfl, rfl⟩
  · split <;> exact ⟨rfl, rfl, rfl⟩

theorem withCancel_stats (s1 : DState) (em0 : List Emitted) (reason : CancelReason) (rsp : Response) :
    (withCancel s1 em0 reason rsp).1.stats = s1.stats ∧ (withCancel s1 em0 reason rsp).1.running = s1.running := by
  unfold withCancel
  exact ⟨(beginCancel_stats s1 reason rsp).1, (beginCancel_stats s1 reason rsp).2.1⟩

/-- the statistics after a successful `handle_event` are exactly `statsEffect` -/
theorem stepCore_stats (s : DState) (e : DEvent) (r : DState × Response × Reply × List Emitted)
    (h : stepCore s e = .ok r) : r.1.stats = statsEffect s e := by
  cases e <;> simp only [stepCore] at h
  case closeRx i => cases h; rfl
  case scriptCloseRx => cases h; rfl
  case started i =>
    split at h
    · cases h; rfl
    · split at h
      · cases h
      · cases h; rfl
  case retryStarted i a t => split at h <;> (cases h; rfl)
  case attemptFailedWillRetry i r sl =>
    split at h
    · cases h
    · cases h; rfl
  case finished i res sl =>
    split at h
    · cases h
    · rename_i e he
      have hp : s.past i = e.2 := by simp [DState.past, he]
      split at h
      · cases h
        rw [(withCancel_stats _ _ _ _).1]
        simp [statsEffect, hp, DState.afterFinish]
      · cases h; simp [statsEffect, hp, DState.afterFinish]
  case skipped i => cases h; rfl
  case scriptStarted a b =>
    split at h
    · cases h; rfl
    · split at h
      · cases h
      · cases h; rfl
  case scriptFinished a res =>
    split at h
    · cases h
    · split at h
      · cases h; rw [(withCancel_stats _ _ _ _).1]; rfl
      · cases h; rfl
  case shutdown sg =>
    split at h
    · cases h
    · cases h; rw [(withCancel_stats _ _ _ _).1]; rfl
  case stop => split at h <;> (cases h; rfl)
  case «continue» => split at h <;> (cases h; rfl)
  case info => cases h; rfl
  case reportCancel => cases h; rw [(withCancel_stats _ _ _ _).1]; rfl
  case inputEnter => cases h; rfl

theorem step_stats (s : DState) (e : DEvent) (s' : DState) (o : Out) (h : step s e = .ok (s', o)) :
    s'.stats = statsEffect s e := by
  unfold step at h
  split at h
  · cases h
  · rename_i r hr
    have : (finishStep r.1 r.2.1 r.2.2.1 r.2.2.2).1 = r.1 := by unfold finishStep; split <;> rfl
    simp only [Except.ok.injEq, Prod.mk.injEq] at h
    obtain ⟨h1, _⟩ := h
    rw [← h1, this]
    exact stepCore_stats s e r hr

end NextestModel.Dispatcher
