/-
  `spans_in_input` (C20): every error the model parser records lies inside the input, for every input.
  One lemma per parser function: it keeps the invariant `Bd` (the unread rest is no longer than the input and every recorded
  span ends inside the input) and never makes the unread rest longer.
-/
import NextestModel.Model.Syntax
namespace NextestModel.Syntax

theorem foldl_utf8 (cs : List Char) (n : Nat) : cs.foldl (fun n c => n + c.utf8Size) n = n + utf8Len cs := by
  induction cs generalizing n with
  | nil => simp [utf8Len]
  | cons c cs ih => simp only [List.foldl_cons, utf8Len]; rw [ih, ih (0 + c.utf8Size)]; omega

@[simp] theorem utf8Len_nil : utf8Len [] = 0 := rfl
@[simp] theorem utf8Len_cons (c : Char) (cs : List Char) : utf8Len (c :: cs) = c.utf8Size + utf8Len cs := by
  simp only [utf8Len, List.foldl_cons]; rw [foldl_utf8]; simp [utf8Len]
theorem utf8Len_append (a b : List Char) : utf8Len (a ++ b) = utf8Len a + utf8Len b := by
  induction a with
  | nil => simp
  | cons c cs ih => simp [ih]; omega

/-- the invariant -/
def Bd (cx : Ctx) (st : St) : Prop := utf8Len st.rest ≤ cx.total ∧ ∀ e ∈ st.errs, e.off + e.len ≤ cx.total

theorem pos_add (cx : Ctx) (st : St) (h : Bd cx st) : pos cx st + utf8Len st.rest = cx.total := by
  unfold pos; have := h.1; omega

theorem report_bd (cx : Ctx) (st : St) (k : ErrKind) (off len : Nat) (h : Bd cx st) (hs : off + len ≤ cx.total) :
    Bd cx (st.report k off len) := by
  refine ⟨h.1, ?_⟩
  intro e he
  simp only [St.report, List.mem_append, List.mem_singleton] at he
  rcases he with he | rfl
  · exact h.2 e he
  · exact hs

theorem withRest_bd (cx : Ctx) (st : St) (r : List Char) (h : Bd cx st) (hr : utf8Len r ≤ utf8Len st.rest) :
    Bd cx (st.withRest r) := ⟨by simp only [St.withRest]; have := h.1; omega, h.2⟩

theorem skipWs_le (cs : List Char) : utf8Len (skipWs cs) ≤ utf8Len cs := by
  fun_induction skipWs cs <;> simp <;> omega

theorem takeTill_utf8 (p : Char → Bool) (cs : List Char) :
    utf8Len (takeTill p cs).1 + utf8Len (takeTill p cs).2 = utf8Len cs := by
  induction cs with
  | nil => simp [takeTill]
  | cons c cs ih =>
    simp only [takeTill]
    split
    · simp
    · simp; omega

theorem takeTill_le (p : Char → Bool) (cs : List Char) : utf8Len (takeTill p cs).2 ≤ utf8Len cs := by
  have := takeTill_utf8 p cs; omega

theorem lit_some (name : String) (cs r : List Char) (h : lit name cs = some r) :
    utf8Len cs = utf8Len name.toList + utf8Len r := by
  unfold lit at h
  split at h
  · rename_i hp
    simp only [Option.some.injEq] at h; subst h
    obtain ⟨t, rfl⟩ := List.isPrefixOf_iff_prefix.mp hp
    rw [utf8Len_append]
    simp [String.length_toList]
  · cases h

theorem lit_le (name : String) (cs r : List Char) (h : lit name cs = some r) : utf8Len r ≤ utf8Len cs := by
  have := lit_some name cs r h; omega

theorem expectChar_bd (cx : Ctx) (c : Char) (k : ErrKind) (st : St) (h : Bd cx st) :
    Bd cx (expectChar cx c k st) ∧ utf8Len (expectChar cx c k st).rest ≤ utf8Len st.rest := by
  unfold expectChar
  have hp : pos cx st + 0 ≤ cx.total := by unfold pos; omega
  split
  · rename_i d cs hsk
    have hle : utf8Len (d :: cs) ≤ utf8Len st.rest := by rw [← hsk]; exact skipWs_le _
    split
    · simp only [utf8Len_cons] at hle
      exact ⟨withRest_bd cx st cs h (by omega), by simp only [St.withRest]; omega⟩
    · exact ⟨report_bd cx st k _ _ h hp, Nat.le_refl _⟩
  · exact ⟨report_bd cx st k _ _ h hp, Nat.le_refl _⟩

theorem takeHex_le : ∀ (f : Nat) (cs : List Char) (acc n : Nat), utf8Len (takeHex f cs acc n).2.2 ≤ utf8Len cs := by
  intro f
  induction f with
  | zero => intro cs acc n; simp [takeHex]
  | succ f ih =>
    intro cs acc n
    cases cs with
    | nil => simp [takeHex]
    | cons c cs =>
      simp only [takeHex]
      split
      · rename_i v _
        have := ih cs (acc * 16 + v) (n + 1); simp only [utf8Len_cons]; omega
      · simp

theorem parseUnicode_le (cs : List Char) (c : Char) (r : List Char) (h : parseUnicode cs = some (c, r)) :
    utf8Len r ≤ utf8Len cs := by
  unfold parseUnicode at h
  split at h
  · rename_i cs'
    simp only at h
    split at h
    · cases h
    · split at h
      · rename_i rest' hr
        have hle := takeHex_le 6 cs' 0 0
        rw [hr] at hle
        cases hv : charOfNat? (takeHex 6 cs' 0 0).1 with
        | none => simp [hv] at h
        | some ch =>
          simp [hv] at h
          obtain ⟨_, rfl⟩ := h
          simp only [utf8Len_cons] at hle ⊢
          omega
      · cases h
  · cases h

theorem parseEscapeBody_le (cs : List Char) (c : Char) (r : List Char) (h : parseEscapeBody cs = some (c, r)) :
    utf8Len r ≤ utf8Len cs := by
  unfold parseEscapeBody at h
  split at h
  · rename_i res hu
    simp only [Option.some.injEq] at h; subst h
    exact parseUnicode_le cs c r hu
  · split at h <;> first
      | (simp only [Option.some.injEq, Prod.mk.injEq] at h; obtain ⟨_, rfl⟩ := h; simp only [utf8Len_cons]; omega)
      | cases h

theorem parseStringLoop_bd (cx : Ctx) : ∀ (f : Nat) (acc : Option (List Char)) (st : St), Bd cx st →
    Bd cx (parseStringLoop cx f acc st).2 ∧ utf8Len (parseStringLoop cx f acc st).2.rest ≤ utf8Len st.rest := by
  intro f
  induction f with
  | zero => intro acc st h; exact ⟨h, Nat.le_refl _⟩
  | succ f ih =>
    intro acc st h
    cases hrest : st.rest with
    | nil => simp only [parseStringLoop, hrest]; rw [← hrest]; exact ⟨h, Nat.le_refl _⟩
    | cons c cs =>
      have hlen : utf8Len st.rest = c.utf8Size + utf8Len cs := by rw [hrest]; simp
      by_cases hc : c = '\\'
      · subst hc
        have h1 : ('\\' : Char).utf8Size = 1 := by decide
        simp only [parseStringLoop, hrest]
        cases he : parseEscapeBody cs with
        | some cr =>
          obtain ⟨ch, rest'⟩ := cr
          simp only
          have hle := parseEscapeBody_le cs ch rest' he
          have hb := withRest_bd cx st rest' h (by omega)
          obtain ⟨i1, i2⟩ := ih (acc.map (· ++ [ch])) _ hb
          have e : (st.withRest rest').rest = rest' := rfl
          rw [e] at i2
          exact ⟨i1, by simp only [utf8Len_cons]; omega⟩
        | none =>
          simp only
          have hb1 := withRest_bd cx st cs h (by omega)
          have hpos := pos_add cx _ hb1
          have e : (st.withRest cs).rest = cs := rfl
          rw [e] at hpos
          have hb2 : Bd cx ((st.withRest cs).report .invalidEscape (pos cx (st.withRest cs) - 1) (min (remLen (st.withRest cs)) 2)) := by
            refine report_bd cx _ _ _ _ hb1 ?_
            have hr : remLen (st.withRest cs) = utf8Len cs := rfl
            rw [hr]
            have := h.1
            omega
          obtain ⟨i1, i2⟩ := ih none _ hb2
          have e2 : ((st.withRest cs).report .invalidEscape (pos cx (st.withRest cs) - 1) (min (remLen (st.withRest cs)) 2)).rest = cs := rfl
          rw [e2] at i2
          exact ⟨i1, by simp only [utf8Len_cons]; omega⟩
      · have hmatch : parseStringLoop cx (f + 1) acc st =
            (if c == ',' || c == ')' then (acc, st)
             else parseStringLoop cx f (acc.map (· ++ (takeTill isStringStop (c :: cs)).1)) (st.withRest (takeTill isStringStop (c :: cs)).2)) := by
          simp only [parseStringLoop, hrest]
        rw [hmatch]
        split
        · rw [← hrest]; exact ⟨h, Nat.le_refl _⟩
        · have hle := takeTill_le isStringStop (c :: cs)
          have hb := withRest_bd cx st (takeTill isStringStop (c :: cs)).2 h (by rw [hrest]; exact hle)
          obtain ⟨i1, i2⟩ := ih (acc.map (· ++ (takeTill isStringStop (c :: cs)).1)) _ hb
          have e : (st.withRest (takeTill isStringStop (c :: cs)).2).rest = (takeTill isStringStop (c :: cs)).2 := rfl
          rw [e] at i2
          exact ⟨i1, by omega⟩

theorem parseString_bd (cx : Ctx) (st : St) (h : Bd cx st) :
    Bd cx (parseString cx st).2 ∧ utf8Len (parseString cx st).2.rest ≤ utf8Len st.rest :=
  parseStringLoop_bd cx _ _ st h

theorem parseMatcherText_bd (cx : Ctx) (st : St) (h : Bd cx st) :
    Bd cx (parseMatcherText cx st).2 ∧ utf8Len (parseMatcherText cx st).2.rest ≤ utf8Len st.rest := by
  obtain ⟨i1, i2⟩ := parseString_bd cx st h
  unfold parseMatcherText
  generalize parseString cx st = p at i1 i2
  obtain ⟨res, st'⟩ := p
  simp only at i1 i2 ⊢
  split
  · exact ⟨report_bd cx _ _ _ _ i1 (by unfold pos; omega), i2⟩
  · exact ⟨i1, i2⟩

theorem valid_bd (cx : Ctx) (st : St) (isRegex : Bool) (text : List Char) (h : Bd cx st) :
    Bd cx (st.valid cx isRegex text).2 ∧ (st.valid cx isRegex text).2.rest = st.rest := by
  unfold St.valid
  split
  · exact ⟨h, rfl⟩
  · exact ⟨h, rfl⟩

theorem regexLoop_le : ∀ (f : Nat) (acc cs : List Char), utf8Len (regexLoop f acc cs).2 ≤ utf8Len cs := by
  intro f
  induction f with
  | zero => intro acc cs; simp [regexLoop]
  | succ f ih =>
    intro acc cs
    simp only [regexLoop]
    split
    · have := ih (acc ++ ['/']) ‹_›; simp only [utf8Len_cons]; omega
    · have := ih (acc ++ ['\\']) ‹_›; simp only [utf8Len_cons]; omega
    · exact Nat.le_refl _
    · exact Nat.le_refl _
    · rename_i c r _ _ _
      have h1 := takeTill_le (fun c => c == '\\' || c == '/') (c :: r)
      have h2 := ih (acc ++ (takeTill (fun c => c == '\\' || c == '/') (c :: r)).1) (takeTill (fun c => c == '\\' || c == '/') (c :: r)).2
      omega

theorem regexLoop_acc : ∀ (f : Nat) (acc cs : List Char),
    utf8Len (regexLoop f acc cs).1 + utf8Len (regexLoop f acc cs).2 ≤ utf8Len acc + utf8Len cs := by
  intro f
  induction f with
  | zero => intro acc cs; simp [regexLoop]
  | succ f ih =>
    intro acc cs
    simp only [regexLoop]
    split
    · rename_i r
      have := ih (acc ++ ['/']) r
      simp only [utf8Len_append, utf8Len_cons, utf8Len_nil] at this ⊢
      have h1 : ('/' : Char).utf8Size = 1 := by decide
      have h2 : ('\\' : Char).utf8Size = 1 := by decide
      omega
    · rename_i r _
      have := ih (acc ++ ['\\']) r
      simp only [utf8Len_append, utf8Len_cons, utf8Len_nil] at this ⊢
      omega
    · exact Nat.le_refl _
    · exact Nat.le_refl _
    · rename_i c r _ _ _
      have h1 := takeTill_utf8 (fun c => c == '\\' || c == '/') (c :: r)
      have h2 := ih (acc ++ (takeTill (fun c => c == '\\' || c == '/') (c :: r)).1) (takeTill (fun c => c == '\\' || c == '/') (c :: r)).2
      simp only [utf8Len_append] at h2
      omega

theorem lookupSpan_some (tbl : List (List Char × Nat × Nat)) (k : List Char) (a b : Nat) (h : lookupSpan tbl k = some (a, b)) :
    a ≤ b ∧ b ≤ utf8Len k := by
  unfold lookupSpan at h
  split at h
  · split at h
    · rename_i e _ hc
      simp only [Option.some.injEq] at h
      rw [h] at hc; exact hc
    · cases h
  · cases h

theorem parseRegex_bd (cx : Ctx) (st : St) (h : Bd cx st) :
    Bd cx (parseRegex cx st).2 ∧ utf8Len (parseRegex cx st).2.rest ≤ utf8Len st.rest := by
  unfold parseRegex
  have hrl := regexLoop_le (st.rest.length + 1) [] st.rest
  have hacc := regexLoop_acc (st.rest.length + 1) [] st.rest
  have hpa := pos_add cx st h
  simp only
  split
  · rename_i r hr
    have hb := withRest_bd cx st _ h hrl
    obtain ⟨v1, v2⟩ := valid_bd cx (st.withRest (regexLoop (st.rest.length + 1) [] st.rest).2) true (regexLoop (st.rest.length + 1) [] st.rest).1 hb
    split
    · exact ⟨v1, by rw [v2]; exact hrl⟩
    · split
      · rename_i a b hl
        obtain ⟨hab, hbt⟩ := lookupSpan_some _ _ a b hl
        simp only [utf8Len_nil] at hacc
        exact ⟨report_bd cx _ _ _ _ v1 (by omega), by simp only [St.report]; rw [v2]; exact hrl⟩
      · exact ⟨report_bd cx _ _ _ _ v1 (by unfold pos; simp only [St.withRest]; omega), by simp only [St.report]; rw [v2]; exact hrl⟩
  · have hle := takeTill_le (· == ')') st.rest
    have hb := withRest_bd cx st _ h hle
    exact ⟨report_bd cx _ _ _ _ hb (by unfold pos; omega), hle⟩

theorem parseGlobM_bd (cx : Ctx) (implicit : Bool) (st : St) (h : Bd cx st) :
    Bd cx (parseGlobM cx implicit st).2 ∧ utf8Len (parseGlobM cx implicit st).2.rest ≤ utf8Len st.rest := by
  obtain ⟨i1, i2⟩ := parseMatcherText_bd cx st h
  unfold parseGlobM
  simp only
  split
  · exact ⟨i1, i2⟩
  · rename_i v hv
    obtain ⟨v1, v2⟩ := valid_bd cx (parseMatcherText cx st).2 false v i1
    split
    · exact ⟨v1, by rw [v2]; exact i2⟩
    · refine ⟨report_bd cx _ _ _ _ v1 ?_, by simp only [St.report]; rw [v2]; exact i2⟩
      unfold pos; omega

/-- shorthand: a parser step keeps the invariant and does not lengthen the unread rest -/
def Ok (cx : Ctx) (st st' : St) : Prop := Bd cx st' ∧ utf8Len st'.rest ≤ utf8Len st.rest

theorem Ok.trans {cx : Ctx} {a b c : St} (h1 : Ok cx a b) (h2 : Ok cx b c) : Ok cx a c := ⟨h2.1, Nat.le_trans h2.2 h1.2⟩

theorem ok_withRest (cx : Ctx) (st : St) (r : List Char) (h : Bd cx st) (hr : utf8Len r ≤ utf8Len st.rest) : Ok cx st (st.withRest r) :=
  ⟨withRest_bd cx st r h hr, hr⟩

theorem setMatcher_bd (cx : Ctx) (dm : DefaultMatcher) (st : St) (h : Bd cx st) : Ok cx st (setMatcher cx dm st).2 := by
  have h0 : Ok cx st (st.withRest (skipWs st.rest)) := ok_withRest cx st _ h (skipWs_le _)
  unfold setMatcher
  simp only
  split
  · rename_i cs hcs
    have hcs' : (st.withRest (skipWs st.rest)).rest = '/' :: cs := hcs
    have h1 : Ok cx (st.withRest (skipWs st.rest)) ((st.withRest (skipWs st.rest)).withRest cs) :=
      ok_withRest cx _ _ h0.1 (by rw [hcs']; simp)
    have h2 := parseRegex_bd cx ((st.withRest (skipWs st.rest)).withRest cs) h1.1
    have h12 : Ok cx st (parseRegex cx ((st.withRest (skipWs st.rest)).withRest cs)).2 := h0.trans (h1.trans h2)
    split
    · rename_i r hr
      have hle : utf8Len r ≤ utf8Len (parseRegex cx ((st.withRest (skipWs st.rest)).withRest cs)).2.rest := by
        have := skipWs_le (parseRegex cx ((st.withRest (skipWs st.rest)).withRest cs)).2.rest
        rw [hr] at this; simp only [utf8Len_cons] at this; omega
      exact h12.trans (ok_withRest cx _ _ h12.1 hle)
    · exact h12
  · rename_i cs hcs
    have hcs' : (st.withRest (skipWs st.rest)).rest = '#' :: cs := hcs
    have h1 := ok_withRest cx (st.withRest (skipWs st.rest)) cs h0.1 (by rw [hcs']; simp)
    exact h0.trans (h1.trans (parseGlobM_bd cx false _ h1.1))
  · rename_i cs hcs
    have hcs' : (st.withRest (skipWs st.rest)).rest = '=' :: cs := hcs
    have h1 := ok_withRest cx (st.withRest (skipWs st.rest)) cs h0.1 (by rw [hcs']; simp)
    exact h0.trans (h1.trans (parseMatcherText_bd cx _ h1.1))
  · rename_i cs hcs
    have hcs' : (st.withRest (skipWs st.rest)).rest = '~' :: cs := hcs
    have h1 := ok_withRest cx (st.withRest (skipWs st.rest)) cs h0.1 (by rw [hcs']; simp)
    exact h0.trans (h1.trans (parseMatcherText_bd cx _ h1.1))
  · split
    · exact h0.trans (parseMatcherText_bd cx _ h0.1)
    · exact h0.trans (parseMatcherText_bd cx _ h0.1)
    · exact h0.trans (parseGlobM_bd cx true _ h0.1)

theorem recoverComma_bd (cx : Ctx) (st : St) (h : Bd cx st) : Ok cx st (recoverComma cx st) := by
  unfold recoverComma
  split
  · have hb := report_bd cx st .unexpectedComma (pos cx st) 0 h (by unfold pos; omega)
    exact ⟨withRest_bd cx _ _ hb (takeTill_le _ _), takeTill_le _ _⟩
  · exact ⟨h, Nat.le_refl _⟩

theorem span_le (cx : Ctx) (a b : St) : pos cx a + (pos cx b - pos cx a) ≤ cx.total := by
  unfold pos; omega

theorem unaryBody_bd (cx : Ctx) (dm : DefaultMatcher) (p : Pred) (st : St) (h : Bd cx st) : Ok cx st (unaryBody cx dm p st).2 := by
  unfold unaryBody
  simp only
  have h1 : Ok cx st (expectChar cx '(' .expectedOpenParen st) := expectChar_bd cx _ _ st h
  have h2 := setMatcher_bd cx dm _ h1.1
  have h3 := recoverComma_bd cx _ h2.1
  have h4 : Ok cx (recoverComma cx (setMatcher cx dm (expectChar cx '(' .expectedOpenParen st)).2)
      (expectChar cx ')' .expectedCloseParen (recoverComma cx (setMatcher cx dm (expectChar cx '(' .expectedOpenParen st)).2)) :=
    expectChar_bd cx _ _ _ h3.1
  exact h1.trans (h2.trans (h3.trans h4))

theorem platformBody_bd (cx : Ctx) (st : St) (h : Bd cx st) : Ok cx st (platformBody cx st).2 := by
  unfold platformBody
  simp only
  have h1 : Ok cx st (expectChar cx '(' .expectedOpenParen st) := expectChar_bd cx _ _ st h
  have h1' := ok_withRest cx _ (skipWs (expectChar cx '(' .expectedOpenParen st).rest) h1.1 (skipWs_le _)
  have h2 := parseMatcherText_bd cx _ h1'.1
  have h3 := recoverComma_bd cx _ h2.1
  have h4 := expectChar_bd cx ')' .expectedCloseParen _ h3.1
  have hall : Ok cx st (expectChar cx ')' .expectedCloseParen (recoverComma cx (parseMatcherText cx ((expectChar cx '(' .expectedOpenParen st).withRest (skipWs (expectChar cx '(' .expectedOpenParen st).rest))).2)) :=
    h1.trans (h1'.trans (Ok.trans h2 (h3.trans h4)))
  split
  · exact hall
  · split
    · exact hall
    · split
      · exact hall
      · exact ⟨report_bd cx _ _ _ _ hall.1 (span_le cx _ _), hall.2⟩

theorem nullaryBody_bd (cx : Ctx) (start : Nat) (mk : Span → SetDef) (st : St) (h : Bd cx st) : Ok cx st (nullaryBody cx start mk st).2 := by
  unfold nullaryBody
  simp only
  have h1 : Ok cx st (expectChar cx '(' .expectedOpenParen st) := expectChar_bd cx _ _ st h
  have hlen := takeTill_utf8 (· == ')') (expectChar cx '(' .expectedOpenParen st).rest
  have h2 := ok_withRest cx (expectChar cx '(' .expectedOpenParen st) (takeTill (· == ')') (expectChar cx '(' .expectedOpenParen st).rest).2 h1.1 (takeTill_le _ _)
  have hpos := pos_add cx _ h1.1
  have h3 : Ok cx st (if (rustTrim (takeTill (· == ')') (expectChar cx '(' .expectedOpenParen st).rest).1).isEmpty
      then (expectChar cx '(' .expectedOpenParen st).withRest (takeTill (· == ')') (expectChar cx '(' .expectedOpenParen st).rest).2
      else ((expectChar cx '(' .expectedOpenParen st).withRest (takeTill (· == ')') (expectChar cx '(' .expectedOpenParen st).rest).2).report .unexpectedArgument
        (pos cx (expectChar cx '(' .expectedOpenParen st)) (utf8Len (takeTill (· == ')') (expectChar cx '(' .expectedOpenParen st).rest).1)) := by
    split
    · exact h1.trans h2
    · exact ⟨report_bd cx _ _ _ _ h2.1 (by omega), (h1.trans h2).2⟩
  exact h3.trans (expectChar_bd cx ')' .expectedCloseParen _ h3.1)

theorem tryUnary_bd (cx : Ctx) (st : St) (h : Bd cx st) : ∀ (tbl : List (String × DefaultMatcher × Pred)) (r : Option SetDef × St),
    tryUnary cx st tbl = some r → Ok cx st r.2 := by
  intro tbl
  induction tbl with
  | nil => intro r hr; simp [tryUnary] at hr
  | cons e more ih =>
    intro r hr
    obtain ⟨name, dm, p⟩ := e
    simp only [tryUnary] at hr
    split at hr
    · rename_i rest hl
      simp only [Option.some.injEq] at hr; subst hr
      have h1 := ok_withRest cx st rest h (lit_le name _ _ hl)
      exact h1.trans (unaryBody_bd cx dm p _ h1.1)
    · exact ih r hr

theorem parseSetDef_bd (cx : Ctx) (st : St) (h : Bd cx st) (r : Option SetDef × St) (hr : parseSetDef cx st = some r) : Ok cx st r.2 := by
  have h0 : Ok cx st (st.withRest (skipWs st.rest)) := ok_withRest cx st _ h (skipWs_le _)
  unfold parseSetDef at hr
  simp only at hr
  split at hr
  · rename_i r' hu
    simp only [Option.some.injEq] at hr; subst hr
    exact h0.trans (tryUnary_bd cx _ h0.1 _ _ hu)
  · split at hr
    · rename_i rest hl
      simp only [Option.some.injEq] at hr; subst hr
      have h1 := ok_withRest cx _ rest h0.1 (lit_le _ _ _ hl)
      exact h0.trans (h1.trans (platformBody_bd cx _ h1.1))
    · split at hr
      · rename_i rest hl
        simp only [Option.some.injEq] at hr; subst hr
        have h1 := ok_withRest cx _ rest h0.1 (lit_le _ _ _ hl)
        exact h0.trans (h1.trans (nullaryBody_bd cx _ _ _ h1.1))
      · split at hr
        · rename_i rest hl
          simp only [Option.some.injEq] at hr; subst hr
          have h1 := ok_withRest cx _ rest h0.1 (lit_le _ _ _ hl)
          exact h0.trans (h1.trans (nullaryBody_bd cx _ _ _ h1.1))
        · split at hr
          · rename_i rest hl
            simp only [Option.some.injEq] at hr; subst hr
            have h1 := ok_withRest cx _ rest h0.1 (lit_le _ _ _ hl)
            exact h0.trans (h1.trans (nullaryBody_bd cx _ _ _ h1.1))
          · cases hr

theorem lit_report_ok (cx : Ctx) (st : St) (name : String) (r : List Char) (k : ErrKind) (n : Nat) (h : Bd cx st)
    (hl : lit name st.rest = some r) (hn : n ≤ utf8Len name.toList) : Ok cx st ((st.report k (pos cx st) n).withRest r) := by
  have hlen := lit_some name _ _ hl
  have hpos := pos_add cx st h
  have hb := report_bd cx st k (pos cx st) n h (by omega)
  exact ⟨withRest_bd cx _ r hb (by simp only [St.report]; omega), by simp only [St.withRest]; omega⟩

theorem parseOrOp_bd (cx : Ctx) (st : St) (h : Bd cx st) (r : Option OrOp × St) (hr : parseOrOp cx st = some r) : Ok cx st r.2 := by
  have h0 : Ok cx st (st.withRest (skipWs st.rest)) := ok_withRest cx st _ h (skipWs_le _)
  unfold parseOrOp at hr
  simp only at hr
  split at hr
  · rename_i rest hl
    simp only [Option.some.injEq] at hr; subst hr
    exact h0.trans (lit_report_ok cx _ "||" rest _ 2 h0.1 hl (by decide))
  · split at hr
    · rename_i rest hl
      simp only [Option.some.injEq] at hr; subst hr
      exact h0.trans (lit_report_ok cx _ "OR " rest _ 3 h0.1 hl (by decide))
    · split at hr
      · rename_i rest hl
        simp only [Option.some.injEq] at hr; subst hr
        exact h0.trans (ok_withRest cx _ rest h0.1 (lit_le _ _ _ hl))
      · split at hr
        · rename_i rest hc
          simp only [Option.some.injEq] at hr; subst hr
          have hc' : (st.withRest (skipWs st.rest)).rest = '|' :: rest := hc
          exact h0.trans (ok_withRest cx _ rest h0.1 (by rw [hc']; simp))
        · rename_i rest hc
          simp only [Option.some.injEq] at hr; subst hr
          have hc' : (st.withRest (skipWs st.rest)).rest = '+' :: rest := hc
          exact h0.trans (ok_withRest cx _ rest h0.1 (by rw [hc']; simp))
        · cases hr

theorem parseAndOp_bd (cx : Ctx) (st : St) (h : Bd cx st) (r : Option AndDiffOp × St) (hr : parseAndOp cx st = some r) : Ok cx st r.2 := by
  have h0 : Ok cx st (st.withRest (skipWs st.rest)) := ok_withRest cx st _ h (skipWs_le _)
  unfold parseAndOp at hr
  simp only at hr
  split at hr
  · rename_i rest hl
    simp only [Option.some.injEq] at hr; subst hr
    exact h0.trans (lit_report_ok cx _ "&&" rest _ 2 h0.1 hl (by decide))
  · split at hr
    · rename_i rest hl
      simp only [Option.some.injEq] at hr; subst hr
      exact h0.trans (lit_report_ok cx _ "AND " rest _ 4 h0.1 hl (by decide))
    · split at hr
      · rename_i rest hl
        simp only [Option.some.injEq] at hr; subst hr
        exact h0.trans (ok_withRest cx _ rest h0.1 (lit_le _ _ _ hl))
      · split at hr
        · rename_i rest hc
          simp only [Option.some.injEq] at hr; subst hr
          have hc' : (st.withRest (skipWs st.rest)).rest = '&' :: rest := hc
          exact h0.trans (ok_withRest cx _ rest h0.1 (by rw [hc']; simp))
        · rename_i rest hc
          simp only [Option.some.injEq] at hr; subst hr
          have hc' : (st.withRest (skipWs st.rest)).rest = '-' :: rest := hc
          exact h0.trans (ok_withRest cx _ rest h0.1 (by rw [hc']; simp))
        · cases hr

theorem missingExpr_bd (cx : Ctx) (st : St) (h : Bd cx st) : Ok cx st (missingExpr cx st).2 := by
  unfold missingExpr
  have hpos := pos_add cx st h
  exact ⟨report_bd cx st _ _ _ h (by simp only [remLen]; omega), Nat.le_refl _⟩

theorem fuel_ok (cx : Ctx) (st : St) (h : Bd cx st) : Ok cx st (st.report .outOfFuel 0 0) :=
  ⟨report_bd cx st _ 0 0 h (by omega), Nat.le_refl _⟩

/-- the six mutually recursive expression parsers, by induction on the fuel -/
theorem expr_bd (cx : Ctx) : ∀ (f : Nat),
    (∀ st, Bd cx st → Ok cx st (parseExpr cx f st).2) ∧
    (∀ acc st, Bd cx st → Ok cx st (orLoop cx f acc st).2) ∧
    (∀ st, Bd cx st → Ok cx st (parseAndOr cx f st).2) ∧
    (∀ acc st, Bd cx st → Ok cx st (andLoop cx f acc st).2) ∧
    (∀ st, Bd cx st → Ok cx st (basicOrMissing cx f st).2) ∧
    (∀ st r, Bd cx st → parseBasic cx f st = some r → Ok cx st r.2) := by
  intro f
  induction f with
  | zero =>
    refine ⟨?_, ?_, ?_, ?_, ?_, ?_⟩
    · intro st h; simp only [parseExpr]; exact fuel_ok cx st h
    · intro acc st h; simp only [orLoop]; exact fuel_ok cx st h
    · intro st h; simp only [parseAndOr]; exact fuel_ok cx st h
    · intro acc st h; simp only [andLoop]; exact fuel_ok cx st h
    · intro st h; simp only [basicOrMissing]; exact fuel_ok cx st h
    · intro st r h hr; simp only [parseBasic, Option.some.injEq] at hr; subst hr; exact fuel_ok cx st h
  | succ f ih =>
    obtain ⟨iE, iO, iA, iL, iB, iP⟩ := ih
    refine ⟨?_, ?_, ?_, ?_, ?_, ?_⟩
    · intro st h
      simp only [parseExpr]
      have h1 := iA st h
      exact h1.trans (iO _ _ h1.1)
    · intro acc st h
      simp only [orLoop]
      split
      · exact ⟨h, Nat.le_refl _⟩
      · rename_i op st1 hop
        have h1 := parseOrOp_bd cx st h (op, st1) hop
        have h2 := iA st1 h1.1
        exact h1.trans (h2.trans (iO _ _ h2.1))
    · intro st h
      simp only [parseAndOr]
      have h1 := iB st h
      exact h1.trans (iL _ _ h1.1)
    · intro acc st h
      simp only [andLoop]
      split
      · exact ⟨h, Nat.le_refl _⟩
      · rename_i op st1 hop
        have h1 := parseAndOp_bd cx st h (op, st1) hop
        have h2 := iB st1 h1.1
        exact h1.trans (h2.trans (iL _ _ h2.1))
    · intro st h
      simp only [basicOrMissing]
      split
      · rename_i r hr; exact iP st r h hr
      · exact missingExpr_bd cx st h
    · intro st r h hr
      have h0 : Ok cx st (st.withRest (skipWs st.rest)) := ok_withRest cx st _ h (skipWs_le _)
      simp only [parseBasic] at hr
      split at hr
      · rename_i sd st1 hsd
        simp only [Option.some.injEq] at hr; subst hr
        exact h0.trans (parseSetDef_bd cx _ h0.1 (sd, st1) hsd)
      · split at hr
        · rename_i op rest hnot
          simp only [Option.some.injEq] at hr; subst hr
          have hle : utf8Len rest ≤ utf8Len (st.withRest (skipWs st.rest)).rest := by
            split at hnot
            · rename_i r' hl
              simp only [Option.some.injEq, Prod.mk.injEq] at hnot; obtain ⟨_, rfl⟩ := hnot
              exact lit_le _ _ _ hl
            · split at hnot
              · rename_i r' hc
                simp only [Option.some.injEq, Prod.mk.injEq] at hnot; obtain ⟨_, rfl⟩ := hnot
                have hc' : (st.withRest (skipWs st.rest)).rest = '!' :: r' := hc
                rw [hc']; simp
              · cases hnot
          have h1 := ok_withRest cx _ rest h0.1 hle
          exact h0.trans (h1.trans (iB _ h1.1))
        · split at hr
          · rename_i rest hc
            simp only [Option.some.injEq] at hr; subst hr
            have hc' : (st.withRest (skipWs st.rest)).rest = '(' :: rest := hc
            have h1 := ok_withRest cx _ rest h0.1 (by rw [hc']; simp)
            have h2 := iE _ h1.1
            have h3 : Ok cx (parseExpr cx f ((st.withRest (skipWs st.rest)).withRest rest)).2
                (expectChar cx ')' .expectedCloseParen (parseExpr cx f ((st.withRest (skipWs st.rest)).withRest rest)).2) :=
              expectChar_bd cx _ _ _ h2.1
            exact h0.trans (h1.trans (h2.trans h3))
          · cases hr

/-- **every error span the parser records lies inside the input** — for every input string and every regex/glob validity
    oracle: `offset + length ≤` the byte length of the input -/
theorem parseTop_spans (input : List Char) (rv gv : List (List Char × Bool)) (re : List (List Char × Nat × Nat)) :
    ∀ e ∈ (parseTop (mkCtx input rv gv re) input).2.errs, e.off + e.len ≤ utf8Len input := by
  have hinit : Bd (mkCtx input rv gv re) { rest := input, errs := [], needs := [] } :=
    ⟨by simp [mkCtx], by intro e he; cases he⟩
  have h1 := (expr_bd (mkCtx input rv gv re) (fuelFor input)).1 _ hinit
  unfold parseTop
  simp only
  split
  · exact (withRest_bd _ _ [] h1.1 (by simp)).2
  · have hpos := pos_add _ _ h1.1
    exact (report_bd _ _ .expectedEof _ _ h1.1 (by simp only [remLen]; omega)).2

end NextestModel.Syntax
