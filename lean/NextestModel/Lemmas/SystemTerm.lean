/-
  Termination of a cancelled run on the dispatcher × units system (Model/System): a measure — twice the units' phase ranks plus
  the messages under way, then the requests not yet read — that every step other than a new signal decreases once the run is
  cancelled (a retry is then refused: `C10.no_start_after_cancel`).
-/
import NextestModel.Thm.C10
import NextestModel.Model.System
namespace NextestModel.System
open NextestModel.Dispatcher

def rank : UPhase → Nat
  | .notStarted => 5 | .waitStart => 4 | .running => 4 | .delay => 3 | .waitRetry => 2 | .done => 0 | .gone => 0

def sumOver (N : Nat) (f : Nat → Nat) : Nat := ((List.range N).map f).sum

theorem sumOver_succ (N : Nat) (f : Nat → Nat) : sumOver (N + 1) f = sumOver N f + f N := by
  simp [sumOver, List.range_succ]

theorem sumOver_congr (N : Nat) (f g : Nat → Nat) (h : ∀ j, j < N → f j = g j) : sumOver N f = sumOver N g := by
  induction N with
  | zero => rfl
  | succ n ih =>
    rw [sumOver_succ, sumOver_succ, ih (fun j hj => h j (by omega)), h n (by omega)]

theorem sumOver_update (N : Nat) (f : Nat → Nat) (i v : Nat) (hi : i < N) :
    sumOver N (fun j => if j = i then v else f j) + f i = sumOver N f + v := by
  induction N with
  | zero => omega
  | succ n ih =>
    rw [sumOver_succ, sumOver_succ]
    by_cases hn : i = n
    · subst hn
      have : sumOver i (fun j => if j = i then v else f j) = sumOver i f :=
        sumOver_congr _ _ _ (fun j hj => by simp [Nat.ne_of_lt hj])
      rw [this]; simp; omega
    · have := ih (by omega)
      have hne : (if n = i then v else f n) = f n := by simp [Ne.symm hn]
      rw [hne]; omega

theorem sumOver_update_out (N : Nat) (f : Nat → Nat) (i v : Nat) (hi : N ≤ i) :
    sumOver N (fun j => if j = i then v else f j) = sumOver N f :=
  sumOver_congr _ _ _ (fun j hj => by simp [show j ≠ i by omega])

def K (N : Nat) (s : Sys) : Nat := 2 * sumOver N (fun i => rank (s.phase i)) + s.chan.length
def mails (N : Nat) (s : Sys) : Nat := sumOver N (fun i => (s.mail i).length)

def unitOf : Act → Option Nat
  | .dispatch i | .exitFinish i _ _ | .exitRetry i _ _ | .recv i | .delayExpires i _ _ => some i
  | _ => none

/-- one step of a run that is being cancelled, taken by the dispatcher or by one of the `N` units (no new signal) -/
def Rel (N : Nat) (s' s : Sys) : Prop :=
  s.d.cancel.isSome = true ∧ ∃ a, (∀ e, a ≠ .external e) ∧ (∀ i, unitOf a = some i → i < N) ∧ step s a = some s'

theorem K_setPhase_le (N : Nat) (s : Sys) (i : Nat) (p : UPhase) (h : rank p ≤ rank (s.phase i)) :
    sumOver N (fun j => rank ((setPhase s i p).phase j)) ≤ sumOver N (fun j => rank (s.phase j)) := by
  have hfun : (fun j => rank ((setPhase s i p).phase j)) = (fun j => if j = i then rank p else rank (s.phase j)) := by
    funext j; simp only [setPhase]; split <;> rfl
  rw [hfun]
  by_cases hi : i < N
  · have := sumOver_update N (fun j => rank (s.phase j)) i (rank p) hi
    omega
  · rw [sumOver_update_out _ _ _ _ (by omega)]; exact Nat.le_refl _

theorem K_setPhase_eq (N : Nat) (s : Sys) (i : Nat) (p : UPhase) (hi : i < N) :
    sumOver N (fun j => rank ((setPhase s i p).phase j)) + rank (s.phase i) = sumOver N (fun j => rank (s.phase j)) + rank p := by
  have hfun : (fun j => rank ((setPhase s i p).phase j)) = (fun j => if j = i then rank p else rank (s.phase j)) := by
    funext j; simp only [setPhase]; split <;> rfl
  rw [hfun]
  exact sumOver_update N (fun j => rank (s.phase j)) i (rank p) hi


theorem mails_setMail (N : Nat) (s : Sys) (i : Nat) (r : Req) (rest : List Req) (hm : s.mail i = r :: rest) (hi : i < N) :
    mails N (setMail s i rest) + 1 = mails N s := by
  unfold mails
  have hfun : (fun j => ((setMail s i rest).mail j).length) = (fun j => if j = i then rest.length else (s.mail j).length) := by
    funext j; simp only [setMail]; split <;> rfl
  rw [hfun]
  have := sumOver_update N (fun j => (s.mail j).length) i rest.length hi
  simp only [hm, List.length_cons] at this
  omega

/-- the measure: twice the phase ranks plus the messages under way, then the requests not yet read -/
theorem step_decreases (N : Nat) (s s' : Sys) (h : Rel N s' s) :
    K N s' < K N s ∨ (K N s' = K N s ∧ mails N s' < mails N s) := by
  obtain ⟨hc, a, hext, hN, hs⟩ := h
  cases a with
  | external e => exact absurd rfl (hext e)
  | dispatch i =>
    have hi := hN i rfl
    simp only [step] at hs
    split at hs
    · rename_i hp
      simp only [Option.some.injEq] at hs; subst hs
      left
      have := K_setPhase_eq N s i .waitStart hi
      rw [hp] at this
      simp only [K, send, List.length_append, List.length_singleton, rank] at this ⊢
      have hph : (fun j => rank ((setPhase s i UPhase.waitStart).phase j)) = (fun j => rank ((setPhase s i UPhase.waitStart).phase j)) := rfl
      simp only [setPhase] at this ⊢
      omega
    · cases hs
  | exitFinish i r sl =>
    have hi := hN i rfl
    simp only [step] at hs
    split at hs
    · rename_i hp
      simp only [Option.some.injEq] at hs; subst hs
      left
      have := K_setPhase_eq N s i .done hi
      rw [hp] at this
      simp only [K, send, List.length_append, List.length_singleton, rank, setPhase] at this ⊢
      omega
    · cases hs
  | exitRetry i r sl =>
    have hi := hN i rfl
    simp only [step] at hs
    split at hs
    · rename_i hp
      simp only [Option.some.injEq] at hs; subst hs
      left
      have := K_setPhase_eq N s i .delay hi
      rw [hp] at this
      simp only [K, send, List.length_append, List.length_singleton, rank, setPhase] at this ⊢
      omega
    · cases hs
  | delayExpires i x y =>
    have hi := hN i rfl
    simp only [step] at hs
    split at hs
    · rename_i hp
      simp only [Option.some.injEq] at hs; subst hs
      left
      have := K_setPhase_eq N s i .waitRetry hi
      rw [hp] at this
      simp only [K, send, List.length_append, List.length_singleton, rank, setPhase] at this ⊢
      omega
    · cases hs
  | recv i =>
    have hi := hN i rfl
    simp only [step] at hs
    split at hs
    · cases hs
    · rename_i r rest hm
      split at hs
      · simp only [Option.some.injEq] at hs; subst hs
        right
        exact ⟨by simp [K, setMail], by have := mails_setMail N s i r rest hm hi; omega⟩
      · rename_i hp
        split at hs
        · simp only [Option.some.injEq] at hs; subst hs
          left
          have := K_setPhase_eq N (setMail s i rest) i .waitRetry hi
          have hp' : (setMail s i rest).phase i = .delay := by simp [setMail, hp]
          rw [hp'] at this
          simp only [K, send, List.length_append, List.length_singleton, rank, setPhase, setMail] at this ⊢
          omega
        · simp only [Option.some.injEq] at hs; subst hs
          right
          exact ⟨by simp [K, setMail], by have := mails_setMail N s i r rest hm hi; omega⟩
      · simp only [Option.some.injEq] at hs; subst hs
        right
        exact ⟨by simp [K, setMail], by have := mails_setMail N s i r rest hm hi; omega⟩
      · cases hs
  | deliver =>
    simp only [step] at hs
    split at hs
    · cases hs
    · rename_i e rest hch
      split at hs
      · cases hs
      · rename_i d' o hd
        have hrefuse := (C10.no_start_after_cancel s.d e d' o hc hd).1
        left
        have hlen : s.chan.length = rest.length + 1 := by rw [hch]; simp
        have base : ∀ (t : Sys) (i : Nat), (∀ j, t.phase j = s.phase j) → t.chan = rest →
            K N (setPhase t i .gone) < K N s := by
          intro t i hph hchan
          have hle := K_setPhase_le N t i .gone (by simp [rank])
          have hsame : sumOver N (fun j => rank (t.phase j)) = sumOver N (fun j => rank (s.phase j)) :=
            sumOver_congr _ _ _ (fun j _ => by rw [hph j])
          simp only [K]
          have hc' : (setPhase t i .gone).chan = rest := by simp [setPhase, hchan]
          rw [hc', hlen]; omega
        cases e with
        | started i =>
          simp only at hs
          split at hs
          · rename_i hack; exact absurd hack hrefuse
          · simp only [Option.some.injEq] at hs; subst hs
            exact base _ i (fun j => rfl) rfl
        | retryStarted i x y =>
          simp only at hs
          split at hs
          · rename_i hack; exact absurd hack hrefuse
          · simp only [Option.some.injEq] at hs; subst hs
            exact base _ i (fun j => rfl) rfl
        | _ =>
          simp only [Option.some.injEq] at hs; subst hs
          simp only [K, applyOut]
          rw [hlen]; omega

end NextestModel.System

namespace NextestModel.System

/-- **a run that is being cancelled cannot go on for ever**: the step relation of the dispatcher and `N` units, in states where
    the run is cancelled and without new signals, is well-founded -/
theorem cancelled_steps_wf (N : Nat) : WellFounded (Rel N) := by
  have hwf : WellFounded (Prod.Lex (fun (a b : Nat) => a < b) (fun (a b : Nat) => a < b)) := (Prod.lex Nat.lt_wfRel Nat.lt_wfRel).wf
  refine Subrelation.wf (r := InvImage (Prod.Lex (fun (a b : Nat) => a < b) (fun (a b : Nat) => a < b)) (fun s => (K N s, mails N s))) ?_ (InvImage.wf _ hwf)
  intro s' s h
  rcases step_decreases N s s' h with h1 | ⟨h1, h2⟩
  · exact Prod.Lex.left _ _ h1
  · show Prod.Lex _ _ (K N s', mails N s') (K N s, mails N s)
    rw [h1]; exact Prod.Lex.right _ h2

/-- … with an explicit bound on the steps that are not mere reads of a mailbox: at most `2·Σ rank + messages under way` -/
theorem cancelled_progress_bounded (N : Nat) (s s' : Sys) (h : Rel N s' s) : K N s' ≤ K N s := by
  rcases step_decreases N s s' h with h1 | ⟨h1, _⟩ <;> omega

end NextestModel.System

/-! ### every run ends: the same with retry budgets instead of cancellation -/

namespace NextestModel.System
open NextestModel.Dispatcher

def rk (p : UPhase) (l : Nat) : Nat :=
  match p with
  | .notStarted => 10 * l + 6 | .waitStart => 10 * l + 5 | .running => 10 * l + 4
  | .delay => 10 * l + 9 | .waitRetry => 10 * l + 8 | .done => 0 | .gone => 0

def Kb (N : Nat) (b : BSys) : Nat := 2 * sumOver N (fun i => rk (b.s.phase i) (b.left i)) + b.s.chan.length

/-- one step of the dispatcher or of one of the `N` units (no new signal), from a state the system can be in -/
def BRel (N : Nat) (b' b : BSys) : Prop :=
  Inv b.s ∧ Inv2 b.s ∧ ∃ a, (∀ e, a ≠ .external e) ∧ (∀ i, unitOf a = some i → i < N) ∧ bstep b a = some b'

theorem sum_point (N : Nat) (f g : Nat → Nat) (i : Nat) (hfg : ∀ j, j ≠ i → g j = f j) :
    (i < N → sumOver N g + f i = sumOver N f + g i) ∧ (N ≤ i → sumOver N g = sumOver N f) := by
  have hg : g = (fun j => if j = i then g i else f j) := by
    funext j; by_cases hj : j = i
    · subst hj; simp
    · simp [hj, hfg j hj]
  refine ⟨fun hi => ?_, fun hi => ?_⟩
  · have := sumOver_update N f i (g i) hi
    rw [← hg] at this; exact this
  · have := sumOver_update_out N f i (g i) hi
    rw [← hg] at this; exact this


/-- a step that changes phase / budget at unit `i` only, from rank `old` to rank `new`, and the channel by `dc` -/
theorem Kb_change (N : Nat) (b b' : BSys) (i : Nat)
    (hsame : ∀ j, j ≠ i → b'.s.phase j = b.s.phase j ∧ b'.left j = b.left j) :
    (i < N → 2 * sumOver N (fun j => rk (b'.s.phase j) (b'.left j)) + 2 * rk (b.s.phase i) (b.left i) =
        2 * sumOver N (fun j => rk (b.s.phase j) (b.left j)) + 2 * rk (b'.s.phase i) (b'.left i)) ∧
    (N ≤ i → sumOver N (fun j => rk (b'.s.phase j) (b'.left j)) = sumOver N (fun j => rk (b.s.phase j) (b.left j))) := by
  have h := sum_point N (fun j => rk (b.s.phase j) (b.left j)) (fun j => rk (b'.s.phase j) (b'.left j)) i
    (fun j hj => by show rk (b'.s.phase j) (b'.left j) = rk (b.s.phase j) (b.left j); rw [(hsame j hj).1, (hsame j hj).2])
  exact ⟨fun hi => by have := h.1 hi; omega, h.2⟩

theorem Kb_lt (N : Nat) (b b' : BSys) (i : Nat) (hi : i < N)
    (hsame : ∀ j, j ≠ i → b'.s.phase j = b.s.phase j ∧ b'.left j = b.left j)
    (hchan : b'.s.chan.length ≤ b.s.chan.length + 1)
    (hr : rk (b'.s.phase i) (b'.left i) + 1 ≤ rk (b.s.phase i) (b.left i)) : Kb N b' < Kb N b := by
  have := (Kb_change N b b' i hsame).1 hi
  unfold Kb; omega

theorem Kb_lt_deliver (N : Nat) (b b' : BSys) (i : Nat)
    (hsame : ∀ j, j ≠ i → b'.s.phase j = b.s.phase j ∧ b'.left j = b.left j)
    (hchan : b'.s.chan.length + 1 = b.s.chan.length)
    (hr : rk (b'.s.phase i) (b'.left i) ≤ rk (b.s.phase i) (b.left i)) : Kb N b' < Kb N b := by
  have hc := Kb_change N b b' i hsame
  unfold Kb
  by_cases hi : i < N
  · have := hc.1 hi; omega
  · have := hc.2 (by omega); omega

theorem bstep_decreases (N : Nat) (b b' : BSys) (h : BRel N b' b) :
    Kb N b' < Kb N b ∨ (Kb N b' = Kb N b ∧ mails N b'.s < mails N b.s) := by
  obtain ⟨h1, h2, a, hext, hN, hs⟩ := h
  cases a with
  | external e => exact absurd rfl (hext e)
  | dispatch i =>
    have hi := hN i rfl
    simp only [bstep, step] at hs
    split at hs
    · rename_i hp
      simp only [Option.map_some, Option.some.injEq] at hs; subst hs
      left
      exact Kb_lt N b _ i hi (fun j hj => ⟨by simp [send, setPhase, hj], rfl⟩) (by simp [send, setPhase])
        (by simp [send, setPhase, hp, rk])
    · simp at hs
  | exitFinish i r sl =>
    have hi := hN i rfl
    simp only [bstep, step] at hs
    split at hs
    · rename_i hp
      simp only [Option.map_some, Option.some.injEq] at hs; subst hs
      left
      exact Kb_lt N b _ i hi (fun j hj => ⟨by simp [send, setPhase, hj], rfl⟩) (by simp [send, setPhase])
        (by simp [send, setPhase, hp, rk])
    · simp at hs
  | exitRetry i r sl =>
    have hi := hN i rfl
    simp only [bstep] at hs
    split at hs
    · rename_i hl
      simp only [step] at hs
      split at hs
      · rename_i hp
        simp only [Option.map_some, Option.some.injEq] at hs; subst hs
        left
        exact Kb_lt N b _ i hi (fun j hj => ⟨by simp [send, setPhase, hj], by simp [hj]⟩) (by simp [send, setPhase])
          (by simp [send, setPhase, hp, rk]; omega)
      · simp at hs
    · cases hs
  | delayExpires i x y =>
    have hi := hN i rfl
    simp only [bstep, step] at hs
    split at hs
    · rename_i hp
      simp only [Option.map_some, Option.some.injEq] at hs; subst hs
      left
      exact Kb_lt N b _ i hi (fun j hj => ⟨by simp [send, setPhase, hj], rfl⟩) (by simp [send, setPhase])
        (by simp [send, setPhase, hp, rk])
    · simp at hs
  | recv i =>
    have hi := hN i rfl
    simp only [bstep, step] at hs
    split at hs
    · simp at hs
    · rename_i r rest hm
      split at hs
      · simp only [Option.map_some, Option.some.injEq] at hs; subst hs
        right
        exact ⟨by simp [Kb, setMail], by have := mails_setMail N b.s i r rest hm hi; simp only; omega⟩
      · rename_i hp
        split at hs
        · simp only [Option.map_some, Option.some.injEq] at hs; subst hs
          left
          exact Kb_lt N b _ i hi (fun j hj => ⟨by simp [send, setPhase, setMail, hj], rfl⟩) (by simp [send, setPhase, setMail])
            (by simp [send, setPhase, setMail, hp, rk])
        · simp only [Option.map_some, Option.some.injEq] at hs; subst hs
          right
          exact ⟨by simp [Kb, setMail], by have := mails_setMail N b.s i r rest hm hi; simp only; omega⟩
      · simp only [Option.map_some, Option.some.injEq] at hs; subst hs
        right
        exact ⟨by simp [Kb, setMail], by have := mails_setMail N b.s i r rest hm hi; simp only; omega⟩
      · simp at hs
  | deliver =>
    simp only [bstep, step] at hs
    split at hs
    · simp at hs
    · rename_i e rest hch
      split at hs
      · simp at hs
      · rename_i d' o hd
        left
        have hlen : b.s.chan.length = rest.length + 1 := by rw [hch]; simp
        -- the unit whose announcement is delivered is waiting for the reply
        have hproj : ∀ u, mentions u e = true → proj u b.s.chan = e :: proj u rest := by
          intro u hm; rw [hch, proj_cons, hm]; simp
        cases e with
        | started i =>
          have hpat := h2.pat i
          rw [hproj i (by simp [mentions])] at hpat
          obtain ⟨hph, _⟩ := (pat_head i _ _ _ hpat).1 rfl
          simp only at hs
          split at hs
          · simp only [Option.map_some, Option.some.injEq] at hs; subst hs
            exact Kb_lt_deliver N b _ i (fun j hj => ⟨by simp [setPhase, applyOut, hj], rfl⟩) (by simp [setPhase, applyOut, hlen])
              (by simp [setPhase, applyOut, hph, rk])
          · simp only [Option.map_some, Option.some.injEq] at hs; subst hs
            exact Kb_lt_deliver N b _ i (fun j hj => ⟨by simp [setPhase, applyOut, hj], rfl⟩) (by simp [setPhase, applyOut, hlen])
              (by simp [setPhase, applyOut, hph, rk])
        | retryStarted i x y =>
          have hpat := h2.pat i
          rw [hproj i (by simp [mentions])] at hpat
          obtain ⟨hph, _⟩ := (pat_head i _ _ _ hpat).2.1 x y rfl
          simp only at hs
          split at hs
          · simp only [Option.map_some, Option.some.injEq] at hs; subst hs
            exact Kb_lt_deliver N b _ i (fun j hj => ⟨by simp [setPhase, applyOut, hj], rfl⟩) (by simp [setPhase, applyOut, hlen])
              (by simp [setPhase, applyOut, hph, rk])
          · simp only [Option.map_some, Option.some.injEq] at hs; subst hs
            exact Kb_lt_deliver N b _ i (fun j hj => ⟨by simp [setPhase, applyOut, hj], rfl⟩) (by simp [setPhase, applyOut, hlen])
              (by simp [setPhase, applyOut, hph, rk])
        | _ =>
          simp only [Option.map_some, Option.some.injEq] at hs; subst hs
          simp only [Kb, applyOut]
          rw [hlen]; omega

theorem all_steps_wf (N : Nat) : WellFounded (BRel N) := by
  have hwf : WellFounded (Prod.Lex (fun (a b : Nat) => a < b) (fun (a b : Nat) => a < b)) := (Prod.lex Nat.lt_wfRel Nat.lt_wfRel).wf
  refine Subrelation.wf (r := InvImage (Prod.Lex (fun (a b : Nat) => a < b) (fun (a b : Nat) => a < b)) (fun b => (Kb N b, mails N b.s))) ?_ (InvImage.wf _ hwf)
  intro b' b h
  rcases bstep_decreases N b b' h with h1 | ⟨h1, h2⟩
  · exact Prod.Lex.left _ _ h1
  · show Prod.Lex _ _ (Kb N b', mails N b'.s) (Kb N b, mails N b.s)
    rw [h1]; exact Prod.Lex.right _ h2


theorem bstep_is_step (b b' : BSys) (a : Act) (h : bstep b a = some b') : step b.s a = some b'.s := by
  cases a with
  | exitRetry i r sl =>
    simp only [bstep] at h
    split at h
    · cases hs : step b.s (.exitRetry i r sl) with
      | none => simp [hs] at h
      | some s' => simp only [hs, Option.map_some, Option.some.injEq] at h; subst h; rfl
    · cases h
  | _ =>
    simp only [bstep] at h
    first
      | (cases hs : step b.s _ with
         | none => simp [hs] at h
         | some s' => simp only [hs, Option.map_some, Option.some.injEq] at h; subst h; rfl)

theorem brun_is_run : ∀ (acts : List Act) (b b' : BSys), brunActs b acts = some b' → runActs b.s acts = some b'.s := by
  intro acts
  induction acts with
  | nil => intro b b' h; simp only [brunActs, Option.some.injEq] at h; subst h; rfl
  | cons a as ih =>
    intro b b' h
    simp only [brunActs] at h
    split at h
    · cases h
    · rename_i b1 hb1
      simp only [runActs, bstep_is_step b b1 a hb1]
      exact ih b1 b' h

end NextestModel.System
