/-
  Liveness of the scheduler model under per-group uniform weights (C02 `uncancelled_complete_partial`).

  future-queue 0.4.0 drains a group's queue only when a member of *that* group completes (defect F7).  When all members of
  a group have the same threads-required the completing member releases exactly the global weight the queue's head needs,
  so "queue g non-empty ⇒ some member of g is running" is an invariant, and the stream can only end with every queue empty.
-/
import NextestModel.Lemmas.Sched
namespace NextestModel.SchedLive
open NextestModel.Sched NextestModel.C08

/-- weights are uniform within each group: the weight of a grouped item is a function of its group -/
def Uniform (wg : Nat → Nat) (it : Item) : Prop := ∀ g, it.group = some g → it.weight = wg g

def HasMember (s : SState) (g : Nat) : Prop := ∃ r ∈ s.running, r.item.group = some g

/-- group `g`'s parked items are waited for by a running member of `g` -/
def LiveAt (s : SState) (g : Nat) : Prop := s.queues.getD g [] ≠ [] → HasMember s g

/-- the part of the invariant that holds at every intermediate point of an operation -/
structure Base (wg : Nat → Nat) (s : SState) : Prop where
  glob : GlobalOk s
  grp : GroupOk s
  qok : QueuesOk s
  qlen : s.queues.length = s.groupMax.length
  up : ∀ it ∈ s.pending, Uniform wg it
  uq : ∀ g, ∀ it ∈ s.queues.getD g [], Uniform wg it
  ur : ∀ r ∈ s.running, Uniform wg r.item
  rok : RunningOk s

/-- everything not yet started, as one list -/
def waiting (s : SState) : List Item := s.pending ++ s.queues.flatten

theorem sum_pos_mem (l : List Running) (f : Running → Nat) (h : 0 < (l.map f).sum) : ∃ r ∈ l, 0 < f r := by
  induction l with
  | nil => simp at h
  | cons a as ih =>
    simp only [List.map_cons, List.sum_cons] at h
    by_cases ha : 0 < f a
    · exact ⟨a, List.mem_cons_self .., ha⟩
    · obtain ⟨r, hr, hp⟩ := ih (by omega)
      exact ⟨r, List.mem_cons_of_mem _ hr, hp⟩

/-- a group whose accounted weight is positive has a running member -/
theorem member_of_gcur_pos (s : SState) (g : Nat) (h : GroupOk s) (hp : 0 < s.gcur.getD g 0) : HasMember s g := by
  have h1 := (h.2 g).1
  rw [h1] at hp
  obtain ⟨r, hr, hpos⟩ := sum_pos_mem s.running (grw s.groupMax g) hp
  refine ⟨r, hr, ?_⟩
  simp only [grw] at hpos
  split at hpos
  · assumption
  · omega

/-- a group with no running member has accounted weight 0 -/
theorem gcur_zero_of_no_member (s : SState) (g : Nat) (h : GroupOk s) (hn : ¬ HasMember s g) : s.gcur.getD g 0 = 0 := by
  cases hz : s.gcur.getD g 0 with
  | zero => rfl
  | succ n => exact absurd (member_of_gcur_pos s g h (by omega)) hn

theorem start_running (s : SState) (it : Item) : (s.start it).1.running = s.running ++ [(s.start it).2] ∧ (s.start it).2.item = it :=
  ⟨(start_facts s it).2.2.1, (start_facts s it).2.2.2.1⟩

theorem start_hasMember (s : SState) (it : Item) (g : Nat) (h : HasMember s g) : HasMember (s.start it).1 g := by
  obtain ⟨r, hr, hg⟩ := h
  exact ⟨r, by rw [(start_running s it).1]; exact List.mem_append_left _ hr, hg⟩

theorem start_hasMember_self (s : SState) (it : Item) (g : Nat) (hg : it.group = some g) : HasMember (s.start it).1 g :=
  ⟨(s.start it).2, by rw [(start_running s it).1]; simp, by rw [(start_running s it).2]; exact hg⟩

/-- `start` keeps the base invariant when there is room for the item globally and in its group -/
theorem start_base (wg : Nat → Nat) (s : SState) (it : Item) (h : Base wg s) (hu : Uniform wg it)
    (hs : hasSpace s.cur s.maxW it.weight = true)
    (hsg : ∀ g, it.group = some g → hasSpace (s.gcur.getD g 0) (s.groupMax.getD g 0) it.weight = true) :
    Base wg (s.start it).1 := by
  obtain ⟨f1, f2, f3, f4, f5, f6, f7⟩ := start_facts s it
  refine ⟨start_ok s it h.glob hs, start_gok s it h.grp hsg, ?_, ?_, ?_, ?_, ?_, start_rok s it h.rok⟩
  · unfold QueuesOk; rw [f7]; exact h.qok
  · rw [f7, f6]; exact h.qlen
  · rw [f5]; exact h.up
  · rw [f7]; exact h.uq
  · intro r hr
    rw [f3] at hr
    rcases List.mem_append.mp hr with hr | hr
    · exact h.ur r hr
    · simp only [List.mem_singleton] at hr; subst hr; rw [f4]; exact hu

theorem base_congr (wg : Nat → Nat) (s t : SState) (h : Base wg s)
    (h1 : t.cur = s.cur) (h2 : t.running = s.running) (h3 : t.maxW = s.maxW) (h4 : t.gcur = s.gcur) (h5 : t.groupMax = s.groupMax)
    (hq : QueuesOk t) (hql : t.queues.length = t.groupMax.length) (hp : ∀ it ∈ t.pending, Uniform wg it)
    (huq : ∀ g, ∀ it ∈ t.queues.getD g [], Uniform wg it) : Base wg t :=
  ⟨ok_congr s t h1 h2 h3 h.glob, gok_congr s t h4 h2 h5 h.grp, hq, hql, hp, huq, by rw [h2]; exact h.ur,
   by unfold RunningOk; rw [h2]; exact h.rok⟩

theorem flatten_set_append {α} : ∀ (qs : List (List α)) (g : Nat) (x : α), g < qs.length →
    ((qs.set g (qs.getD g [] ++ [x])).flatten).Perm (x :: qs.flatten) := by
  intro qs
  induction qs with
  | nil => intro g x h; simp at h
  | cons q qs ih =>
    intro g x h
    cases g with
    | zero =>
      simp only [List.set_cons_zero, List.flatten_cons, List.getD_cons_zero, List.append_assoc, List.singleton_append]
      exact List.perm_middle
    | succ g =>
      simp only [List.set_cons_succ, List.flatten_cons, List.getD_cons_succ]
      exact (List.Perm.append_left q (ih g x (by simpa using h))).trans List.perm_middle

theorem flatten_set_pop {α} : ∀ (qs : List (List α)) (g : Nat) (x : α) (rest : List α), qs.getD g [] = x :: rest →
    (x :: (qs.set g rest).flatten).Perm qs.flatten := by
  intro qs
  induction qs with
  | nil => intro g x rest h; simp at h
  | cons q qs ih =>
    intro g x rest h
    cases g with
    | zero =>
      simp only [List.getD_cons_zero] at h
      subst h
      simp
    | succ g =>
      simp only [List.getD_cons_succ] at h
      simp only [List.set_cons_succ, List.flatten_cons]
      exact List.perm_middle.symm.trans (List.Perm.append_left q (ih g x rest h))

theorem lt_length_of_getD_ne {α} (l : List (List α)) (g : Nat) (h : l.getD g [] ≠ []) : g < l.length := by
  apply Classical.byContradiction
  intro hn
  apply h
  simp only [List.getD_eq_getElem?_getD]
  rw [List.getElem?_eq_none (by omega)]; rfl

theorem mem_eraseP_of_ne {α} (p : α → Bool) : ∀ (l : List α) (x a : α), l.find? p = some x → a ∈ l → a ≠ x → a ∈ l.eraseP p := by
  intro l
  induction l with
  | nil => intro x a h; simp at h
  | cons b bs ih =>
    intro x a h ha hne
    by_cases hp : p b = true
    · simp only [List.find?_cons, hp, Option.some.injEq] at h
      subst h
      simp only [List.eraseP_cons, hp]
      rcases List.mem_cons.mp ha with ha | ha
      · exact absurd ha hne
      · exact ha
    · simp only [List.find?_cons, hp] at h
      simp only [List.eraseP_cons, hp]
      rcases List.mem_cons.mp ha with ha | ha
      · subst ha; exact List.mem_cons_self ..
      · exact List.mem_cons_of_mem _ (ih x a h ha hne)

theorem hasSpace_zero (max w : Nat) : hasSpace 0 max w = true := by simp [hasSpace]

/-- what `pull` guarantees: invariants, conservation of items, and (with enough fuel) it stops only when the stream is
    exhausted or the global limit is reached by running futures -/
theorem pull_live (wg : Nat → Nat) : ∀ (fuel : Nat) (s : SState), Base wg s → (∀ g, LiveAt s g) →
    Base wg (s.pull fuel).1 ∧ (∀ g, LiveAt (s.pull fuel).1 g) ∧
    (((s.pull fuel).2.map (·.item)) ++ waiting (s.pull fuel).1).Perm (waiting s) ∧
    (s.pending.length < fuel → (s.pull fuel).1.pending ≠ [] → (s.pull fuel).1.running ≠ []) := by
  intro fuel
  induction fuel with
  | zero => intro s hb hl; exact ⟨hb, hl, by simp [SState.pull], by intro h; omega⟩
  | succ f ih =>
    intro s hb hl
    simp only [SState.pull]
    split
    · rename_i hp
      exact ⟨hb, hl, by simp, by intro _ h; exact absurd hp h⟩
    · rename_i it rest hp
      have huit : Uniform wg it := hb.up it (by rw [hp]; simp)
      split
      · rename_i hsp
        refine ⟨hb, hl, by simp, ?_⟩
        intro _ _ hrun
        -- the head does not fit: the accounted global weight is positive, so something is running
        have hrun' : s.running = [] := hrun
        have hg := hb.glob
        simp only [GlobalOk, wsum, hrun', List.map_nil, List.sum_nil] at hg
        rw [hg.1, hasSpace_zero] at hsp
        simp at hsp
      · rename_i hsp
        have hsp' : hasSpace s.cur s.maxW it.weight = true := by
          cases hh : hasSpace s.cur s.maxW it.weight <;> simp_all
        have hb1 : Base wg { s with pending := rest } :=
          base_congr wg s _ hb rfl rfl rfl rfl rfl hb.qok hb.qlen (fun x hx => hb.up x (by rw [hp]; exact List.mem_cons_of_mem _ hx)) hb.uq
        have hl1 : ∀ g, LiveAt { s with pending := rest } g := hl
        have hw : waiting s = it :: waiting { s with pending := rest } := by simp [waiting, hp]
        have hstartw : waiting ({ s with pending := rest }.start it).1 = waiting { s with pending := rest } := by
          obtain ⟨_, _, _, _, f5, _, f7⟩ := start_facts { s with pending := rest } it
          simp only [waiting, f5, f7]
        have hstartl : ∀ g, LiveAt ({ s with pending := rest }.start it).1 g := by
          intro g hq
          rw [(start_facts _ it).2.2.2.2.2.2] at hq
          exact start_hasMember _ it g (hl1 g hq)
        have hlen : rest.length < f → ({ s with pending := rest }.start it).1.pending.length < f := by
          intro h; rw [(start_facts _ it).2.2.2.2.1]; exact h
        split
        · rename_i hg
          have hb2 := start_base wg _ it hb1 huit hsp' (by intro g hg'; rw [hg] at hg'; cases hg')
          obtain ⟨i1, i2, i3, i4⟩ := ih _ hb2 hstartl
          refine ⟨i1, i2, ?_, ?_⟩
          · rw [hw]
            simp only [List.map_cons, List.cons_append, (start_running _ it).2]
            exact List.Perm.cons it (i3.trans (by rw [hstartw]))
          · intro hlt; exact i4 (hlen (by rw [hp] at hlt; simp at hlt; omega))
        · rename_i g hg
          split
          · rename_i hspg
            have hb2 := start_base wg _ it hb1 huit hsp' (by intro g' hg'; rw [hg] at hg'; cases hg'; exact hspg)
            obtain ⟨i1, i2, i3, i4⟩ := ih _ hb2 hstartl
            refine ⟨i1, i2, ?_, ?_⟩
            · rw [hw]
              simp only [List.map_cons, List.cons_append, (start_running _ it).2]
              exact List.Perm.cons it (i3.trans (by rw [hstartw]))
            · intro hlt; exact i4 (hlen (by rw [hp] at hlt; simp at hlt; omega))
          · rename_i hspg
            -- parked: the group has no room, so its accounted weight is positive and a member is running
            have hpos : 0 < s.gcur.getD g 0 := by
              cases hz : s.gcur.getD g 0 with
              | zero => simp only [hz, hasSpace_zero] at hspg; exact absurd trivial hspg
              | succ n => omega
            have hmem : HasMember s g := member_of_gcur_pos s g hb.grp hpos
            have hgl : g < s.queues.length := by
              rw [hb.qlen, ← hb.grp.1]
              apply Classical.byContradiction
              intro hn
              have : s.gcur.getD g 0 = 0 := by
                simp only [List.getD_eq_getElem?_getD]
                rw [List.getElem?_eq_none (by omega)]; rfl
              omega
            have hb2 : Base wg { s with pending := rest, queues := setAt s.queues g (s.queues.getD g [] ++ [it]) } := by
              refine base_congr wg s _ hb rfl rfl rfl rfl rfl ?_ (by simp [setAt, hb.qlen]) (fun x hx => hb.up x (by rw [hp]; exact List.mem_cons_of_mem _ hx)) ?_
              · intro g' x hx
                simp only [getD_setAt] at hx
                split at hx
                · rename_i hc
                  rcases List.mem_append.mp hx with hx | hx
                  · rw [← hc.1]; exact hb.qok g x hx
                  · simp at hx; subst hx; rw [← hc.1]; exact hg
                · exact hb.qok g' x hx
              · intro g' x hx
                simp only [getD_setAt] at hx
                split at hx
                · rcases List.mem_append.mp hx with hx | hx
                  · exact hb.uq g x hx
                  · simp at hx; subst hx; exact huit
                · exact hb.uq g' x hx
            have hl2 : ∀ g', LiveAt { s with pending := rest, queues := setAt s.queues g (s.queues.getD g [] ++ [it]) } g' := by
              intro g' hq
              by_cases hgg : g = g'
              · subst hgg; exact hmem
              · simp only [getD_setAt, hgg, false_and, if_false] at hq
                exact hl g' hq
            obtain ⟨i1, i2, i3, i4⟩ := ih _ hb2 hl2
            refine ⟨i1, i2, ?_, ?_⟩
            · refine i3.trans ?_
              rw [hw]
              simp only [waiting, setAt]
              exact (List.Perm.append_left rest (flatten_set_append s.queues g it hgl)).trans List.perm_middle
            · intro hlt; exact i4 (by rw [hp] at hlt; simp at hlt; simpa using hlt)

/-- what `drainGroup g` guarantees.  On entry group `g` may have lost its last running member (the one that just
    completed); then the precondition is that the global limit has room for every parked member of `g`. -/
theorem drain_live (wg : Nat → Nat) (g : Nat) : ∀ (fuel : Nat) (s : SState), Base wg s → (∀ g', g' ≠ g → LiveAt s g') →
    (¬ HasMember s g → ∀ it ∈ s.queues.getD g [], hasSpace s.cur s.maxW it.weight = true) →
    0 < fuel →
    Base wg (s.drainGroup g fuel).1 ∧ (∀ g', LiveAt (s.drainGroup g fuel).1 g') ∧
    (((s.drainGroup g fuel).2.map (·.item)) ++ waiting (s.drainGroup g fuel).1).Perm (waiting s) := by
  intro fuel
  induction fuel with
  | zero => intro s _ _ _ h; omega
  | succ f ih =>
    intro s hb hl hP _
    simp only [SState.drainGroup]
    split
    · rename_i hq
      refine ⟨hb, ?_, by simp⟩
      intro g'
      by_cases hgg : g' = g
      · subst hgg; intro hne; exact absurd hq hne
      · exact hl g' hgg
    · rename_i it rest hq
      have hitg : it.group = some g := hb.qok g it (by rw [hq]; simp)
      have huit : Uniform wg it := hb.uq g it (by rw [hq]; simp)
      have hgl : g < s.queues.length := lt_length_of_getD_ne s.queues g (by rw [hq]; simp)
      split
      · rename_i hsp
        simp only [Bool.and_eq_true] at hsp
        have hb1 : Base wg { s with queues := setAt s.queues g rest } := by
          refine base_congr wg s _ hb rfl rfl rfl rfl rfl ?_ (by simp [setAt, hb.qlen]) hb.up ?_
          · intro g' x hx
            simp only [getD_setAt] at hx
            split at hx
            · rename_i hc; rw [← hc.1]; exact hb.qok g x (by rw [hq]; simp [hx])
            · exact hb.qok g' x hx
          · intro g' x hx
            simp only [getD_setAt] at hx
            split at hx
            · exact hb.uq g x (by rw [hq]; simp [hx])
            · exact hb.uq g' x hx
        have hb2 := start_base wg _ it hb1 huit hsp.1 (by intro g' hg'; rw [hitg] at hg'; cases hg'; exact hsp.2)
        have hmem : HasMember ({ s with queues := setAt s.queues g rest }.start it).1 g := start_hasMember_self _ it g hitg
        have hl2 : ∀ g', g' ≠ g → LiveAt ({ s with queues := setAt s.queues g rest }.start it).1 g' := by
          intro g' hgg hne
          rw [(start_facts _ it).2.2.2.2.2.2] at hne
          have hgg' : ¬ g = g' := fun e => hgg e.symm
          simp only [getD_setAt, hgg', false_and, if_false] at hne
          exact start_hasMember _ it g' (hl g' hgg hne)
        have hw : (it :: waiting ({ s with queues := setAt s.queues g rest }.start it).1).Perm (waiting s) := by
          obtain ⟨_, _, _, _, f5, _, f7⟩ := start_facts { s with queues := setAt s.queues g rest } it
          have hwe : waiting ({ s with queues := setAt s.queues g rest }.start it).1 = s.pending ++ (s.queues.set g rest).flatten := by
            simp only [waiting, f5, f7]; rfl
          rw [hwe]
          exact List.perm_middle.symm.trans (List.Perm.append_left s.pending (flatten_set_pop s.queues g it rest hq))
        cases f with
        | zero =>
          -- out of fuel: only reachable with `rest = []`; the statement still holds because the started member is running
          simp only [SState.drainGroup]
          refine ⟨hb2, ?_, ?_⟩
          · intro g'
            by_cases hgg : g' = g
            · subst hgg; intro _; exact hmem
            · exact hl2 g' hgg
          · simp only [List.map_cons, List.map_nil, List.cons_append, List.nil_append, (start_running _ it).2]
            exact hw
        | succ f' =>
          obtain ⟨i1, i2, i3⟩ := ih _ hb2 hl2 (fun hn => absurd hmem hn) (by omega)
          refine ⟨i1, i2, ?_⟩
          simp only [List.map_cons, List.cons_append, (start_running _ it).2]
          exact (List.Perm.cons it i3).trans hw
      · rename_i hsp
        refine ⟨hb, ?_, by simp⟩
        intro g'
        by_cases hgg : g' = g
        · subst hgg
          intro _
          apply Classical.byContradiction
          intro hn
          apply hsp
          simp only [Bool.and_eq_true]
          refine ⟨hP hn it (by rw [hq]; simp), ?_⟩
          rw [gcur_zero_of_no_member s g' hb.grp hn]; exact hasSpace_zero _ _
        · exact hl g' hgg

/-- removing a completed future (and releasing its weights) keeps the weight accounting exact -/
theorem remove_glob (s : SState) (p : Running → Bool) (r : Running) (h : GlobalOk s) (hr : s.running.find? p = some r)
    (t : SState) (h1 : t.running = s.running.eraseP p) (h2 : t.cur = s.cur - min r.item.weight s.maxW) (h3 : t.maxW = s.maxW) :
    GlobalOk t ∧ t.cur + min r.item.weight s.maxW ≤ s.maxW := by
  obtain ⟨g1, g2⟩ := h
  have hsum := sum_eraseP s.running p (gw s.maxW) r hr
  simp only [GlobalOk, wsum, h1, h2, h3] at *
  simp only [gw] at hsum ⊢
  refine ⟨⟨by omega, by omega⟩, by omega⟩

theorem remove_grp_some (s : SState) (p : Running → Bool) (r : Running) (g : Nat) (h : GroupOk s) (hr : s.running.find? p = some r)
    (hg : r.item.group = some g)
    (t : SState) (h1 : t.running = s.running.eraseP p)
    (h2 : t.gcur = setAt s.gcur g (s.gcur.getD g 0 - min r.item.weight (s.groupMax.getD g 0))) (h3 : t.groupMax = s.groupMax) :
    GroupOk t := by
  obtain ⟨hlen, hall⟩ := h
  refine ⟨by rw [h2, h3]; simp [setAt, hlen], ?_⟩
  intro g'
  obtain ⟨a1, a2⟩ := hall g'
  have hsum := gsum_eraseP s p g' r hr
  simp only [gsum, h1, h2, h3] at a1 ⊢
  simp only [getD_setAt]
  by_cases hgg : g = g'
  · subst hgg
    have hgr : grw s.groupMax g r = min r.item.weight (s.groupMax.getD g 0) := by simp [grw, hg]
    by_cases hl : g < s.gcur.length
    · simp only [hl, and_self, if_true]
      exact ⟨by omega, by omega⟩
    · have hz : s.groupMax.getD g 0 = 0 := by
        simp only [List.getD_eq_getElem?_getD]
        rw [List.getElem?_eq_none (by omega)]; rfl
      simp only [hl, and_false, if_false]
      rw [hgr, hz] at hsum
      exact ⟨by simp at hsum; omega, a2⟩
  · have hgr : grw s.groupMax g' r = 0 := by
      have : ¬ r.item.group = some g' := by rw [hg]; intro e; exact hgg (Option.some.inj e)
      simp [grw, this]
    simp only [hgg, false_and, if_false]
    exact ⟨by omega, a2⟩

theorem remove_grp_none (s : SState) (p : Running → Bool) (r : Running) (h : GroupOk s) (hr : s.running.find? p = some r)
    (hg : r.item.group = none)
    (t : SState) (h1 : t.running = s.running.eraseP p) (h2 : t.gcur = s.gcur) (h3 : t.groupMax = s.groupMax) :
    GroupOk t := by
  obtain ⟨hlen, hall⟩ := h
  refine ⟨by rw [h2, h3]; exact hlen, ?_⟩
  intro g'
  obtain ⟨a1, a2⟩ := hall g'
  have hsum := gsum_eraseP s p g' r hr
  have hgr : grw s.groupMax g' r = 0 := by simp [grw, hg]
  simp only [gsum, h1, h2, h3] at a1 ⊢
  exact ⟨by omega, a2⟩

/-- the whole invariant between operations -/
structure Inv (wg : Nat → Nat) (s : SState) : Prop where
  base : Base wg s
  live : ∀ g, LiveAt s g

/-- the state right after a grouped future was removed: everything but group `g`'s liveness survives, and the global limit
    has room for every parked member of `g` (uniform weights: it needs exactly what was released) -/
theorem removed_grouped (wg : Nat → Nat) (s : SState) (p : Running → Bool) (r : Running) (g : Nat) (h : Inv wg s)
    (hfind : s.running.find? p = some r) (hg : r.item.group = some g) (t : SState)
    (h1 : t.running = s.running.eraseP p) (h2 : t.cur = s.cur - min r.item.weight s.maxW) (h3 : t.maxW = s.maxW)
    (h4 : t.gcur = setAt s.gcur g (s.gcur.getD g 0 - min r.item.weight (s.groupMax.getD g 0))) (h5 : t.groupMax = s.groupMax)
    (h6 : t.queues = s.queues) (h7 : t.pending = s.pending) :
    Base wg t ∧ (∀ g', g' ≠ g → LiveAt t g') ∧
    (¬ HasMember t g → ∀ it ∈ t.queues.getD g [], hasSpace t.cur t.maxW it.weight = true) ∧ waiting t = waiting s := by
  have hb := h.base
  have hmem : r ∈ s.running := List.mem_of_find?_eq_some hfind
  have hglob := remove_glob s p r hb.glob hfind t h1 h2 h3
  have hgrp := remove_grp_some s p r g hb.grp hfind hg t h1 h4 h5
  refine ⟨⟨hglob.1, hgrp, ?_, ?_, ?_, ?_, ?_, ?_⟩, ?_, ?_, ?_⟩
  · unfold QueuesOk; rw [h6]; exact hb.qok
  · rw [h6, h5]; exact hb.qlen
  · rw [h7]; exact hb.up
  · rw [h6]; exact hb.uq
  · rw [h1]; exact fun x hx => hb.ur x (List.mem_of_mem_eraseP hx)
  · unfold RunningOk; rw [h1]; exact fun x hx => hb.rok x (List.mem_of_mem_eraseP hx)
  · intro g' hgg hq
    unfold LiveAt at *
    rw [h6] at hq
    obtain ⟨x, hx, hxg⟩ := h.live g' hq
    refine ⟨x, ?_, hxg⟩
    rw [h1]
    exact mem_eraseP_of_ne p s.running r x hfind hx (by intro e; subst e; rw [hg] at hxg; exact hgg (Option.some.inj hxg).symm)
  · intro _ it hit
    rw [h6] at hit
    have hw : it.weight = r.item.weight := by
      rw [hb.uq g it hit g (hb.qok g it hit), hb.ur r hmem g hg]
    have := hglob.2
    simp only [hasSpace, hw, decide_eq_true_eq, h3]
    omega
  · simp only [waiting, h6, h7]

theorem removed_ungrouped (wg : Nat → Nat) (s : SState) (p : Running → Bool) (r : Running) (h : Inv wg s)
    (hfind : s.running.find? p = some r) (hg : r.item.group = none) (t : SState)
    (h1 : t.running = s.running.eraseP p) (h2 : t.cur = s.cur - min r.item.weight s.maxW) (h3 : t.maxW = s.maxW)
    (h4 : t.gcur = s.gcur) (h5 : t.groupMax = s.groupMax) (h6 : t.queues = s.queues) (h7 : t.pending = s.pending) :
    Base wg t ∧ (∀ g', LiveAt t g') ∧ waiting t = waiting s := by
  have hb := h.base
  have hglob := remove_glob s p r hb.glob hfind t h1 h2 h3
  have hgrp := remove_grp_none s p r hb.grp hfind hg t h1 h4 h5
  refine ⟨⟨hglob.1, hgrp, ?_, ?_, ?_, ?_, ?_, ?_⟩, ?_, ?_⟩
  · unfold QueuesOk; rw [h6]; exact hb.qok
  · rw [h6, h5]; exact hb.qlen
  · rw [h7]; exact hb.up
  · rw [h6]; exact hb.uq
  · rw [h1]; exact fun x hx => hb.ur x (List.mem_of_mem_eraseP hx)
  · unfold RunningOk; rw [h1]; exact fun x hx => hb.rok x (List.mem_of_mem_eraseP hx)
  · intro g' hq
    unfold LiveAt at *
    rw [h6] at hq
    obtain ⟨x, hx, hxg⟩ := h.live g' hq
    refine ⟨x, ?_, hxg⟩
    rw [h1]
    exact mem_eraseP_of_ne p s.running r x hfind hx (by intro e; subst e; rw [hg] at hxg; cases hxg)
  · simp only [waiting, h6, h7]

/-- **one operation**: the invariant is kept, the items started by the operation are taken from the waiting ones, and
    afterwards the scheduler is idle only if nothing is left in the stream -/
theorem step_live (wg : Nat → Nat) (s : SState) (op : Op) (s' : SState) (started : List Running)
    (h : Inv wg s) (hstep : s.step op = some (s', started)) :
    Inv wg s' ∧ ((started.map (·.item)) ++ waiting s').Perm (waiting s) ∧ (s'.pending ≠ [] → s'.running ≠ []) := by
  cases op with
  | poll =>
    simp only [SState.step, SState.first, Option.some.injEq] at hstep
    obtain ⟨i1, i2, i3, i4⟩ := pull_live wg (s.pending.length + 1) s h.base h.live
    rw [hstep] at i1 i2 i3 i4
    exact ⟨⟨i1, i2⟩, i3, i4 (by omega)⟩
  | complete id =>
    simp only [SState.step, SState.complete] at hstep
    split at hstep
    · cases hstep
    · rename_i r hfind
      simp only [Option.some.injEq, Prod.mk.injEq] at hstep
      obtain ⟨hs, hst⟩ := hstep
      rw [← hs, ← hst]
      have hrg := h.base.rok r (List.mem_of_find?_eq_some hfind)
      split
      · rename_i g gsl hg hgs
        obtain ⟨hb1, hl1, hP, hw⟩ := removed_grouped wg s (fun x => x.item.id == id) r g h hfind hg
          { s with running := s.running.eraseP (fun x => x.item.id == id),
                   cur := s.cur - min r.item.weight s.maxW, slots := s.slots.release r.globalSlot,
                   gcur := setAt s.gcur g (s.gcur.getD g 0 - min r.item.weight (s.groupMax.getD g 0)),
                   gslots := setAt s.gslots g ((s.gslots.getD g {}).release gsl) } rfl rfl rfl rfl rfl rfl rfl
        obtain ⟨d1, d2, d3⟩ := drain_live wg g ((s.queues.getD g []).length + 1) _ hb1 hl1 hP (by omega)
        obtain ⟨i1, i2, i3, i4⟩ := pull_live wg _ _ d1 d2
        refine ⟨⟨i1, i2⟩, ?_, i4 (by omega)⟩
        simp only [List.map_append, List.append_assoc]
        rw [← hw]
        exact (List.Perm.append_left _ i3).trans d3
      · rename_i hnot
        have hng : r.item.group = none := by
          cases hgo : r.item.group with
          | none => rfl
          | some g =>
            cases hso : r.groupSlot with
            | none => rw [hgo, hso] at hrg; simp at hrg
            | some gs => exact (hnot g gs hgo hso).elim
        obtain ⟨hb1, hl1, hw⟩ := removed_ungrouped wg s (fun x => x.item.id == id) r h hfind hng
          { s with running := s.running.eraseP (fun x => x.item.id == id),
                   cur := s.cur - min r.item.weight s.maxW, slots := s.slots.release r.globalSlot } rfl rfl rfl rfl rfl rfl rfl
        obtain ⟨i1, i2, i3, i4⟩ := pull_live wg _ _ hb1 hl1
        refine ⟨⟨i1, i2⟩, ?_, i4 (Nat.lt_succ_self _)⟩
        rw [← hw]
        simpa using i3

/-- run a list of operations, collecting the items whose futures were created, in creation order -/
def runTrace (s : SState) : List Op → Option (SState × List Item)
  | [] => some (s, [])
  | o :: os => match s.step o with
    | none => none
    | some (s', st) => match runTrace s' os with
      | none => none
      | some (s'', more) => some (s'', st.map (·.item) ++ more)

theorem runTrace_live (wg : Nat → Nat) : ∀ (ops : List Op) (s s' : SState) (started : List Item),
    Inv wg s → runTrace s ops = some (s', started) →
    Inv wg s' ∧ (started ++ waiting s').Perm (waiting s) ∧ (ops ≠ [] → s'.pending ≠ [] → s'.running ≠ []) := by
  intro ops
  induction ops with
  | nil =>
    intro s s' started h hr
    simp only [runTrace, Option.some.injEq, Prod.mk.injEq] at hr
    obtain ⟨rfl, rfl⟩ := hr
    exact ⟨h, by simp, fun hn => absurd rfl hn⟩
  | cons o os ih =>
    intro s s' started h hr
    simp only [runTrace] at hr
    split at hr
    · cases hr
    · rename_i s1 st hstep
      split at hr
      · cases hr
      · rename_i s2 more hrest
        simp only [Option.some.injEq, Prod.mk.injEq] at hr
        obtain ⟨rfl, rfl⟩ := hr
        obtain ⟨j1, j2, j3⟩ := step_live wg s o s1 st h hstep
        obtain ⟨k1, k2, k3⟩ := ih s1 s2 more j1 hrest
        refine ⟨k1, ?_, ?_⟩
        · rw [List.append_assoc]
          exact (List.Perm.append_left _ k2).trans j2
        · intro _
          cases os with
          | nil =>
            simp only [runTrace, Option.some.injEq, Prod.mk.injEq] at hrest
            obtain ⟨rfl, _⟩ := hrest
            exact j3
          | cons o' os' => exact k3 (by simp)

/-- with every queue's waiting members covered by a running member, "nothing runs" means "nothing is parked" -/
theorem queues_empty_of_idle (wg : Nat → Nat) (s : SState) (h : Inv wg s) (hr : s.running = []) : s.queues.flatten = [] := by
  rw [List.flatten_eq_nil_iff]
  intro q hq
  obtain ⟨g, hg, hget⟩ := List.getElem_of_mem hq
  apply Classical.byContradiction
  intro hne
  have hd : s.queues.getD g [] = q := by
    simp only [List.getD_eq_getElem?_getD, List.getElem?_eq_getElem hg, hget]; rfl
  obtain ⟨r, hrm, _⟩ := h.live g (by rw [hd]; exact hne)
  rw [hr] at hrm; cases hrm

theorem queued_zero_of_flatten_nil (s : SState) (h : s.queues.flatten = []) : s.queued = 0 := by
  have hlen : s.queues.flatten.length = 0 := by rw [h]; rfl
  simpa [SState.queued, List.length_flatten] using hlen

end NextestModel.SchedLive
