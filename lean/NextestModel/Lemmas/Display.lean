/-
  Helper lemmas for the display model (Model/Display): what the pieces written for a unit's output add up to, and that the
  description picked by the heuristics is a part of the stream it was taken from.
-/
import NextestModel.Model.Display
namespace NextestModel.Display

/-! ### lists -/

theorem dropLast_getLast? {α} (out : List α) (a : α) (h : out.getLast? = some a) : out.dropLast ++ [a] = out := by
  cases out with
  | nil => simp at h
  | cons x xs =>
    have hne : (x :: xs) ≠ [] := by simp
    have := List.dropLast_concat_getLast hne
    rw [List.getLast?_eq_some_getLast hne] at h
    simp only [Option.some.injEq] at h
    rw [← h]; exact this

theorem linesWTGo_flatten : ∀ (s acc : Bytes), (linesWTGo s acc).flatten = acc.reverse ++ s := by
  intro s
  induction s with
  | nil => intro acc; simp only [linesWTGo]; split <;> simp_all
  | cons c r ih =>
    intro acc
    simp only [linesWTGo]
    split
    · simp [ih]
    · simp [ih]

theorem linesWT_flatten (s : Bytes) : (linesWT s).flatten = s := by
  simp [linesWT, linesWTGo_flatten]

theorem trimEnd_prefix (p : UInt8 → Bool) (l : Bytes) :
    l = (l.reverse.dropWhile p).reverse ++ (l.reverse.takeWhile p).reverse := by
  have := List.takeWhile_append_dropWhile (p := p) (l := l.reverse)
  have h2 := congrArg List.reverse this
  simp only [List.reverse_append, List.reverse_reverse] at h2
  exact h2.symm

theorem trimEndCrLf_split (l : Bytes) : trimEndCrLf l ++ l.drop (trimEndCrLf l).length = l := by
  have h := trimEnd_prefix (fun c => c = NL || c = CR) l
  unfold trimEndCrLf
  generalize (l.reverse.dropWhile (fun c => c = NL || c = CR)).reverse = a at h ⊢
  generalize (l.reverse.takeWhile (fun c => c = NL || c = CR)).reverse = b at h
  subst h
  simp

theorem trimEndCrLf_length (l : Bytes) : (trimEndCrLf l).length ≤ l.length := by
  have h := congrArg List.length (trimEndCrLf_split l)
  simp only [List.length_append] at h
  omega

/-! ### what is written -/

theorem fed_append (a b : List Piece) : fed (a ++ b) = fed a ++ fed b := by
  induction a with
  | nil => rfl
  | cons x xs ih => cases x <;> simp [fed, ih]

theorem highlightLine_fed (line : Bytes) : fed (highlightLine line) = line := by
  simp only [highlightLine, fed, List.append_nil]
  exact trimEndCrLf_split line

theorem fed_flatMap (ls : List Bytes) : fed (ls.flatMap highlightLine) = ls.flatten := by
  induction ls with
  | nil => rfl
  | cons l ls ih => simp [List.flatMap_cons, fed_append, highlightLine_fed, ih]

theorem dropOneNl_append (a b : Bytes) (hb : b ≠ []) : dropOneNl (a ++ b) = a ++ dropOneNl b := by
  unfold dropOneNl
  have hl : (a ++ b).getLast? = b.getLast? := by
    rw [List.getLast?_append]
    cases hx : b.getLast? with
    | none => exact absurd (List.getLast?_eq_none_iff.mp hx) hb
    | some x => rfl
  rw [hl]
  split
  · rw [List.dropLast_append_of_ne_nil hb]
  · rfl

theorem findNl_lt : ∀ (s : Bytes) (i : Nat), findNl s = some i → i < s.length := by
  intro s
  induction s with
  | nil => intro i h; cases h
  | cons c r ih =>
    intro i h
    simp only [findNl] at h
    split at h
    · cases h; simp
    · cases hr : findNl r with
      | none => simp [hr] at h
      | some j => simp [hr] at h; subst h; have := ih j hr; simp; omega

theorem highlightEnd_le (s : Bytes) : highlightEnd s ≤ s.length := by
  unfold highlightEnd
  split
  · exact Nat.le_refl _
  · rename_i i hi
    have h1 := findNl_lt s i hi
    split
    · exact Nat.le_refl _
    · rename_i j hj
      have h2 := findNl_lt _ j hj
      simp only [List.length_drop] at h2
      omega

theorem writeHighlight_fed (output : Bytes) (d : Subslice) (ps : List Piece) (h : writeHighlight output d = some ps) :
    fed ps = output.take (d.start + highlightEnd d.slice) ++ dropOneNl (output.drop (d.start + highlightEnd d.slice)) ++ [NL] := by
  unfold writeHighlight at h
  simp only at h
  split at h
  · simp only [Option.some.injEq] at h
    subst h
    simp only [fed_append, fed, fed_flatMap, linesWT_flatten, List.append_nil, Nat.add_sub_cancel_left]
    rw [List.take_add]
    simp [List.append_assoc]
  · cases h

/-! ### white space at the end -/

theorem trimWsRev_suffix : ∀ (f : Nat) (r : Bytes), ∃ k, trimWsRev f r = r.drop k := by
  intro f
  induction f with
  | zero => intro r; exact ⟨0, by simp [trimWsRev]⟩
  | succ f ih =>
    intro r
    simp only [trimWsRev]
    split
    · exact ⟨0, by simp⟩
    · obtain ⟨k, hk⟩ := ih (r.drop (wsSuffixLen r))
      exact ⟨wsSuffixLen r + k, by rw [hk, List.drop_drop]⟩

theorem trimEndWs_prefix (l : Bytes) : ∃ t, l = trimEndWs l ++ t := by
  unfold trimEndWs
  obtain ⟨k, hk⟩ := trimWsRev_suffix l.length l.reverse
  rw [hk]
  refine ⟨(l.reverse.take k).reverse, ?_⟩
  have := List.take_append_drop k l.reverse
  have h2 := congrArg List.reverse this
  simp only [List.reverse_append, List.reverse_reverse] at h2
  exact h2.symm

theorem trimLastTerminator_prefix (l : Bytes) : ∃ t, l = trimLastTerminator l ++ t := by
  unfold trimLastTerminator
  split
  · rename_i c r hr
    have hl : l = r.reverse ++ [c] := by
      have := congrArg List.reverse hr
      simpa using this
    split
    · split
      · rename_i d r'
        split
        · exact ⟨[d, c], by simp [hl]⟩
        · exact ⟨[c], hl⟩
      · exact ⟨l, by simp⟩
    · exact ⟨[], by simp⟩
  · exact ⟨[], by simp⟩

/-! ### where the description lies -/

/-- `d` is a part of `buf`: `buf[d.start .. d.start + d.slice.len()] == d.slice` -/
def InBounds (buf : Bytes) (d : Subslice) : Prop := ∃ pre post, buf = pre ++ d.slice ++ post ∧ d.start = pre.length

theorem InBounds.le {buf : Bytes} {d : Subslice} (h : InBounds buf d) : d.start + d.slice.length ≤ buf.length := by
  obtain ⟨pre, post, h1, h2⟩ := h
  rw [h1, h2]; simp only [List.length_append]; omega

theorem inBounds_of_trim (buf : Bytes) (start : Nat) (hs : start ≤ buf.length) :
    InBounds buf { start := start, slice := trimEndWs (buf.drop start) } := by
  obtain ⟨t, ht⟩ := trimEndWs_prefix (buf.drop start)
  refine ⟨buf.take start, t, ?_, by simp [Nat.min_eq_left hs]⟩
  simp only
  rw [List.append_assoc, ← ht, List.take_append_drop]

theorem lastPanicked_range : ∀ (f : Nat) (s : Bytes) (pos : Nat) (ls : Bool) (best : Option Nat) (m : Nat),
    lastPanicked f s pos ls best = some m → best = some m ∨ (pos ≤ m ∧ m < pos + s.length) := by
  intro f
  induction f with
  | zero => intro s pos ls best m h; simp only [lastPanicked] at h; exact Or.inl h
  | succ f ih =>
    intro s pos ls best m h
    simp only [lastPanicked] at h
    split at h
    · exact Or.inl h
    · rename_i c r
      split at h
      · rename_i n _
        rcases ih _ _ _ _ m h with h1 | ⟨h1, h2⟩
        · simp only [Option.some.injEq] at h1; subst h1
          exact Or.inr ⟨Nat.le_refl _, by simp⟩
        · simp only [List.length_drop] at h2
          exact Or.inr ⟨by omega, by omega⟩
      · rcases ih _ _ _ _ m h with h1 | ⟨h1, h2⟩
        · exact Or.inl h1
        · simp only [List.length_cons]
          exact Or.inr ⟨by omega, by omega⟩

theorem firstError_range : ∀ (s : Bytes) (pos : Nat) (ls : Bool) (m : Nat),
    firstError s pos ls = some m → pos ≤ m ∧ m < pos + s.length := by
  intro s
  induction s with
  | nil => intro pos ls m h; cases h
  | cons c r ih =>
    intro pos ls m h
    simp only [firstError] at h
    split at h
    · simp only [Option.some.injEq] at h; subst h; simp
    · have := ih _ _ m h
      simp only [List.length_cons]; omega

theorem rfindNl_lt (s : Bytes) (p : Nat) (h : rfindNl s = some p) : p < s.length := by
  unfold rfindNl at h
  split at h
  · cases h
  · rename_i i hi
    have := findNl_lt _ i hi
    simp only [List.length_reverse] at this
    simp only [Option.some.injEq] at h
    omega

theorem heuristicPanicMessage_inBounds (stderr : Bytes) (d : Subslice) (h : heuristicPanicMessage stderr = some d) :
    InBounds stderr d := by
  unfold heuristicPanicMessage at h
  split at h
  · cases h
  · rename_i m hm
    have hm' : m < stderr.length := by
      rcases lastPanicked_range _ _ _ _ _ m hm with h1 | ⟨_, h2⟩
      · cases h1
      · simpa using h2
    simp only [Option.some.injEq] at h
    subst h
    apply inBounds_of_trim
    have hpl : (trimEndCrLf (stderr.take m)).length ≤ m := by
      have := trimEndCrLf_length (stderr.take m)
      simp only [List.length_take] at this
      omega
    split
    · rename_i p hp
      have := rfindNl_lt _ p hp
      split
      · show p + 1 ≤ stderr.length; omega
      · omega
    · omega

theorem heuristicErrorStr_inBounds (stderr : Bytes) (d : Subslice) (h : heuristicErrorStr stderr = some d) :
    InBounds stderr d := by
  unfold heuristicErrorStr at h
  split at h
  · cases h
  · rename_i m hm
    have := firstError_range _ _ _ m hm
    simp only [Option.some.injEq] at h
    subst h
    exact inBounds_of_trim _ _ (by omega)

theorem findShouldPanic_spec : ∀ (ls : List Bytes) (off : Nat) (d : Subslice), findShouldPanic ls off = some d →
    ∃ pre post, ls.flatten = pre ++ d.slice ++ post ∧ d.start = off + pre.length := by
  intro ls
  induction ls with
  | nil => intro off d h; cases h
  | cons l ls ih =>
    intro off d h
    simp only [findShouldPanic] at h
    split at h
    · simp only [Option.some.injEq] at h
      subst h
      obtain ⟨t, ht⟩ := trimLastTerminator_prefix l
      refine ⟨[], t ++ ls.flatten, ?_, by simp⟩
      simp only [List.flatten_cons, List.nil_append]
      rw [← List.append_assoc, ← ht]
    · obtain ⟨pre, post, h1, h2⟩ := ih _ d h
      refine ⟨l ++ pre, post, ?_, by rw [h2]; simp; omega⟩
      simp only [List.flatten_cons, h1, List.append_assoc]

theorem heuristicShouldPanic_inBounds (stdout : Bytes) (d : Subslice) (h : heuristicShouldPanic stdout = some d) :
    InBounds stdout d := by
  unfold heuristicShouldPanic at h
  obtain ⟨pre, post, h1, h2⟩ := findShouldPanic_spec _ 0 d h
  rw [linesWT_flatten] at h1
  exact ⟨pre, post, h1, by simpa using h2⟩

end NextestModel.Display
