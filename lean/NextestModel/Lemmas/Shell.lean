/-
  Helper lemmas for `split (join ws) = some ws` (C15 `shell_roundtrip`).
-/
import NextestModel.Model.Shell
namespace NextestModel.Shell

theorem not_special {c : Char} (h : isSpecial c = false) :
    c ≠ '\n' ∧ c ≠ '\'' ∧ c ≠ '"' ∧ c ≠ '\\' ∧ c ≠ ' ' ∧ c ≠ '\t' ∧ c ≠ '#' := by
  simp [isSpecial] at h
  simp [h]

/-- unquoted run of ordinary characters -/
theorem go_unquoted_plain (w rest u : List Char) (ws : List (List Char))
    (h : ∀ c ∈ w, isSpecial c = false) :
    splitGo .unquoted (w ++ rest) u ws = splitGo .unquoted rest (u ++ w) ws := by
  induction w generalizing u with
  | nil => simp
  | cons c cs ih =>
    have hc := not_special (h c (by simp))
    simp only [List.cons_append, splitGo, hc, false_or, ite_false]
    rw [ih _ (fun d hd => h d (by simp [hd]))]
    simp

/-- style `None`: a non-empty word of ordinary characters read from the delimiter state -/
theorem go_delim_plain (w rest : List Char) (ws : List (List Char)) (hne : w ≠ [])
    (h : ∀ c ∈ w, isSpecial c = false) :
    splitGo .delim (w ++ rest) [] ws = splitGo .unquoted rest w ws := by
  cases w with
  | nil => exact absurd rfl hne
  | cons c cs =>
    have hc := not_special (h c (by simp))
    simp only [List.cons_append, splitGo, hc, false_or, ite_false]
    rw [go_unquoted_plain cs rest _ ws (fun d hd => h d (by simp [hd]))]
    simp

/-- inside single quotes, characters other than `'` are literal -/
theorem go_single_plain (w rest u : List Char) (ws : List (List Char)) (h : ∀ c ∈ w, c ≠ '\'') :
    splitGo .single (w ++ rest) u ws = splitGo .single rest (u ++ w) ws := by
  induction w generalizing u with
  | nil => simp
  | cons c cs ih =>
    have hc := h c (by simp)
    simp only [List.cons_append, splitGo, hc, ite_false]
    rw [ih _ (fun d hd => h d (by simp [hd]))]
    simp

/-- the `Mixed` escaping read back inside single quotes yields the original characters -/
theorem go_single_mixed (w rest u : List Char) (ws : List (List Char)) :
    splitGo .single (escMixed w ++ rest) u ws = splitGo .single rest (u ++ w) ws := by
  induction w generalizing u with
  | nil => simp [escMixed]
  | cons c cs ih =>
    by_cases hc : c = '\''
    · subst hc
      simp only [escMixed, if_true, List.cons_append, List.nil_append, splitGo]
      simp only [show ('\\' : Char) ≠ '\'' by decide, show ('\\' : Char) ≠ '"' by decide, ite_false,
        show ('\'' : Char) ≠ '\n' by decide]
      rw [ih]; simp
    · simp only [escMixed, hc, ite_false, List.cons_append, List.nil_append, splitGo]
      rw [ih]; simp

theorem escapeStyle_none {s : List Char} (h : escapeStyle s = .none) : s ≠ [] ∧ ∀ c ∈ s, isSpecial c = false := by
  unfold escapeStyle at h
  split at h
  · cases h
  · rename_i hne
    split at h
    · rename_i hs
      constructor
      · intro e; simp [e] at hne
      · intro c hc
        simp only [Bool.not_eq_true', List.any_eq_false] at hs
        simpa using hs c hc
    · split at h <;> cases h

theorem escapeStyle_single {s : List Char} (h : escapeStyle s = .singleQuoted) : ∀ c ∈ s, c ≠ '\'' := by
  unfold escapeStyle at h
  split at h
  · rename_i he; intro c hc; simp at he; simp [he] at hc
  · split at h
    · cases h
    · split at h
      · rename_i hq
        intro c hc
        simp only [Bool.and_eq_true, Bool.not_eq_true', List.any_eq_false] at hq
        simpa using hq.2 c hc
      · cases h

/-- **reading one quoted word**: from the delimiter state, `quote w` followed by anything leaves the
    machine in `Unquoted` with exactly `w` as the current word -/
theorem go_quote (w rest : List Char) (ws : List (List Char)) :
    splitGo .delim (quote w ++ rest) [] ws = splitGo .unquoted rest w ws := by
  unfold quote
  cases hs : escapeStyle w with
  | none =>
    obtain ⟨hne, hp⟩ := escapeStyle_none hs
    exact go_delim_plain w rest ws hne hp
  | singleQuoted =>
    have hq := escapeStyle_single hs
    simp only [List.cons_append, splitGo, if_true, List.append_assoc]
    rw [go_single_plain w _ [] ws hq]
    simp [splitGo]
  | mixed =>
    simp only [List.cons_append, splitGo, if_true, List.append_assoc]
    rw [go_single_mixed w _ [] ws]
    simp [splitGo]

/-- `join` written without the trailing-blank trick -/
def joinSpec : List (List Char) → List Char
  | [] => []
  | [w] => quote w
  | w :: w' :: rest => quote w ++ ' ' :: joinSpec (w' :: rest)

theorem foldl_join (ws : List (List Char)) (acc : List Char) :
    ws.foldl (fun line w => line ++ quote w ++ [' ']) acc = acc ++ ws.flatMap (fun w => quote w ++ [' ']) := by
  induction ws generalizing acc with
  | nil => simp
  | cons w ws ih => rw [List.foldl_cons, ih, List.flatMap_cons]; simp [List.append_assoc]

theorem dropLast_flat (ws : List (List Char)) :
    (ws.flatMap (fun w => quote w ++ [' '])).dropLast = joinSpec ws := by
  induction ws with
  | nil => simp [joinSpec]
  | cons w ws ih =>
    cases ws with
    | nil => simp [joinSpec]
    | cons w' rest =>
      have hne : (w' :: rest).flatMap (fun w => quote w ++ [' ']) ≠ [] := by simp
      rw [List.flatMap_cons, List.dropLast_append_of_ne_nil hne, ih]
      simp [joinSpec, List.append_assoc]

theorem join_eq_spec (ws : List (List Char)) : join ws = joinSpec ws := by
  unfold join
  rw [foldl_join]
  simpa using dropLast_flat ws

theorem go_joinSpec (w : List Char) (ws : List (List Char)) (acc : List (List Char)) :
    splitGo .delim (joinSpec (w :: ws)) [] acc = some (acc ++ w :: ws) := by
  induction ws generalizing w acc with
  | nil =>
    have := go_quote w [] acc
    simp only [List.append_nil] at this
    simp [joinSpec, this, splitGo]
  | cons w' rest ih =>
    simp only [joinSpec]
    rw [go_quote]
    simp only [splitGo, show (' ' : Char) ≠ '\'' by decide, show (' ' : Char) ≠ '"' by decide,
      show (' ' : Char) ≠ '\\' by decide, ite_false, or_true, true_or, if_true]
    rw [ih]
    simp

end NextestModel.Shell
