/-
  `result_or_error` (C20): whenever the model parser yields no expression it has recorded at least one error.
  One lemma per parser function: the error list never shrinks, and a `none` result means it grew.
-/
import NextestModel.Model.Syntax
namespace NextestModel.Syntax

/-- the error list did not shrink; and if `bad` then it grew -/
def G (bad : Prop) (st st' : St) : Prop := st.errs.length ≤ st'.errs.length ∧ (bad → st.errs.length < st'.errs.length)

theorem G.refl (st : St) : G False st st := ⟨Nat.le_refl _, fun h => h.elim⟩
theorem G.mono {p q : Prop} {a b : St} (h : G p a b) (hq : q → p) : G q a b := ⟨h.1, fun x => h.2 (hq x)⟩
theorem G.trans_l {p : Prop} {a b c : St} (h1 : G p a b) (h2 : G False b c) : G p a c :=
  ⟨Nat.le_trans h1.1 h2.1, fun x => Nat.lt_of_lt_of_le (h1.2 x) h2.1⟩
theorem G.trans_r {p : Prop} {a b c : St} (h1 : G False a b) (h2 : G p b c) : G p a c :=
  ⟨Nat.le_trans h1.1 h2.1, fun x => Nat.lt_of_le_of_lt h1.1 (h2.2 x)⟩
theorem G.trans_or {p q : Prop} {a b c : St} (h1 : G p a b) (h2 : G q b c) : G (p ∨ q) a c :=
  ⟨Nat.le_trans h1.1 h2.1, fun x => x.elim (fun hp => Nat.lt_of_lt_of_le (h1.2 hp) h2.1) (fun hq => Nat.lt_of_le_of_lt h1.1 (h2.2 hq))⟩

theorem G.of_withRest {p : Prop} {st x : St} {r : List Char} (h : G p (st.withRest r) x) : G p st x := h
theorem G.of_withRest2 {p : Prop} {st x : St} {r r' : List Char} (h : G p ((st.withRest r).withRest r') x) : G p st x := h

theorem g_report (st : St) (k : ErrKind) (a b : Nat) : G True st (st.report k a b) :=
  ⟨by simp [St.report], fun _ => by simp [St.report]⟩
theorem g_withRest (st : St) (r : List Char) : G False st (st.withRest r) := ⟨Nat.le_refl _, fun h => h.elim⟩

theorem g_expectChar (cx : Ctx) (c : Char) (k : ErrKind) (st : St) : G False st (expectChar cx c k st) := by
  unfold expectChar
  split
  · split
    · exact g_withRest st _
    · exact (g_report st k _ _).mono (fun h => h.elim)
  · exact (g_report st k _ _).mono (fun h => h.elim)

theorem g_stringLoop (cx : Ctx) : ∀ (f : Nat) (acc : Option (List Char)) (st : St),
    G ((parseStringLoop cx f acc st).1 = none ∧ acc ≠ none) st (parseStringLoop cx f acc st).2 := by
  intro f
  induction f with
  | zero => intro acc st; simp only [parseStringLoop]; exact ⟨Nat.le_refl _, fun h => absurd h.1 h.2⟩
  | succ f ih =>
    intro acc st
    cases hrest : st.rest with
    | nil => simp only [parseStringLoop, hrest]; exact ⟨Nat.le_refl _, fun h => absurd h.1 h.2⟩
    | cons c cs =>
      by_cases hc : c = '\\'
      · subst hc
        simp only [parseStringLoop, hrest]
        cases he : parseEscapeBody cs with
        | some cr =>
          obtain ⟨ch, rest'⟩ := cr
          simp only
          have i := ih (acc.map (· ++ [ch])) (st.withRest rest')
          refine ⟨i.1, fun h => i.2 ⟨h.1, ?_⟩⟩
          cases acc with
          | none => exact absurd rfl h.2
          | some a => simp
        | none =>
          simp only
          have i := ih none ((st.withRest cs).report .invalidEscape (pos cx (st.withRest cs) - 1) (min (remLen (st.withRest cs)) 2))
          have hr := g_report (st.withRest cs) .invalidEscape (pos cx (st.withRest cs) - 1) (min (remLen (st.withRest cs)) 2)
          have hlen : st.errs.length < (parseStringLoop cx f none ((st.withRest cs).report .invalidEscape (pos cx (st.withRest cs) - 1) (min (remLen (st.withRest cs)) 2))).2.errs.length :=
            Nat.lt_of_lt_of_le (hr.2 trivial) i.1
          exact ⟨Nat.le_of_lt hlen, fun _ => hlen⟩
      · have hmatch : parseStringLoop cx (f + 1) acc st =
            (if c == ',' || c == ')' then (acc, st)
             else parseStringLoop cx f (acc.map (· ++ (takeTill isStringStop (c :: cs)).1)) (st.withRest (takeTill isStringStop (c :: cs)).2)) := by
          simp only [parseStringLoop, hrest]
        rw [hmatch]
        split
        · exact ⟨Nat.le_refl _, fun h => absurd h.1 h.2⟩
        · have i := ih (acc.map (· ++ (takeTill isStringStop (c :: cs)).1)) (st.withRest (takeTill isStringStop (c :: cs)).2)
          refine ⟨i.1, fun h => i.2 ⟨h.1, ?_⟩⟩
          cases acc with
          | none => exact absurd rfl h.2
          | some a => simp

theorem g_parseString (cx : Ctx) (st : St) : G ((parseString cx st).1 = none) st (parseString cx st).2 :=
  (g_stringLoop cx _ (some []) st).mono (fun h => ⟨h, by simp⟩)

theorem g_matcherText (cx : Ctx) (st : St) : G ((parseMatcherText cx st).1 = none) st (parseMatcherText cx st).2 := by
  have i := g_parseString cx st
  unfold parseMatcherText
  generalize parseString cx st = p at i
  obtain ⟨res, st'⟩ := p
  simp only at i ⊢
  split
  · exact ⟨Nat.le_trans i.1 (g_report st' _ _ _).1, fun h => by cases h⟩
  · exact i

theorem g_valid (cx : Ctx) (st : St) (isRegex : Bool) (text : List Char) : (st.valid cx isRegex text).2.errs = st.errs := by
  unfold St.valid; split <;> rfl

theorem g_parseRegex (cx : Ctx) (st : St) : G ((parseRegex cx st).1 = none) st (parseRegex cx st).2 := by
  unfold parseRegex
  simp only
  split
  · split
    · refine ⟨by rw [g_valid]; exact Nat.le_refl _, fun h => by cases h⟩
    · have hv := g_valid cx (st.withRest (regexLoop (st.rest.length + 1) [] st.rest).2) true (regexLoop (st.rest.length + 1) [] st.rest).1
      have hv' : ((st.withRest (regexLoop (st.rest.length + 1) [] st.rest).2).valid cx true (regexLoop (st.rest.length + 1) [] st.rest).1).2.errs.length = st.errs.length := by
        rw [hv]; rfl
      split
      · exact ⟨by simp only [St.report, List.length_append, List.length_singleton, hv']; omega,
               fun _ => by simp only [St.report, List.length_append, List.length_singleton, hv']; omega⟩
      · exact ⟨by simp only [St.report, List.length_append, List.length_singleton, hv']; omega,
               fun _ => by simp only [St.report, List.length_append, List.length_singleton, hv']; omega⟩
  · have := g_report (st.withRest (takeTill (· == ')') st.rest).2) .expectedCloseRegex (pos cx (st.withRest (takeTill (· == ')') st.rest).2)) 0
    exact ⟨this.1, fun _ => this.2 trivial⟩

theorem g_parseGlobM (cx : Ctx) (implicit : Bool) (st : St) : G ((parseGlobM cx implicit st).1 = none) st (parseGlobM cx implicit st).2 := by
  have i := g_matcherText cx st
  unfold parseGlobM
  simp only
  split
  · rename_i hres; exact ⟨i.1, fun _ => i.2 hres⟩
  · rename_i v hv
    split
    · refine ⟨by rw [g_valid]; exact i.1, fun h => by cases h⟩
    · have hv := g_valid cx (parseMatcherText cx st).2 false v
      have := i.1
      exact ⟨by simp only [St.report, hv, List.length_append, List.length_singleton]; omega,
             fun _ => by simp only [St.report, hv, List.length_append, List.length_singleton]; omega⟩

theorem map_none {α β} (f : α → β) (o : Option α) (h : o.map f = none) : o = none := by cases o <;> simp_all

theorem g_setMatcher (cx : Ctx) (dm : DefaultMatcher) (st : St) : G ((setMatcher cx dm st).1 = none) st (setMatcher cx dm st).2 := by
  unfold setMatcher
  simp only
  split
  · rename_i cs _
    have i := g_parseRegex cx ((st.withRest (skipWs st.rest)).withRest cs)
    split
    · exact ⟨i.1, i.2⟩
    · exact i
  · rename_i cs _; exact G.of_withRest2 (g_parseGlobM cx false ((st.withRest (skipWs st.rest)).withRest cs))
  · rename_i cs _
    have i := g_matcherText cx ((st.withRest (skipWs st.rest)).withRest cs)
    exact ⟨i.1, fun h => i.2 (map_none _ _ h)⟩
  · rename_i cs _
    have i := g_matcherText cx ((st.withRest (skipWs st.rest)).withRest cs)
    exact ⟨i.1, fun h => i.2 (map_none _ _ h)⟩
  · split
    · have i := g_matcherText cx (st.withRest (skipWs st.rest)); exact ⟨i.1, fun h => i.2 (map_none _ _ h)⟩
    · have i := g_matcherText cx (st.withRest (skipWs st.rest)); exact ⟨i.1, fun h => i.2 (map_none _ _ h)⟩
    · exact G.of_withRest (g_parseGlobM cx true (st.withRest (skipWs st.rest)))

theorem g_recoverComma (cx : Ctx) (st : St) : G False st (recoverComma cx st) := by
  unfold recoverComma
  split
  · exact ⟨(g_report st _ _ _).1, fun h => h.elim⟩
  · exact G.refl st

theorem g_unaryBody (cx : Ctx) (dm : DefaultMatcher) (p : Pred) (st : St) : G ((unaryBody cx dm p st).1 = none) st (unaryBody cx dm p st).2 := by
  unfold unaryBody
  simp only
  have h1 := g_expectChar cx '(' .expectedOpenParen st
  have h2 := g_setMatcher cx dm (expectChar cx '(' .expectedOpenParen st)
  have h3 := g_recoverComma cx (setMatcher cx dm (expectChar cx '(' .expectedOpenParen st)).2
  have h4 := g_expectChar cx ')' .expectedCloseParen (recoverComma cx (setMatcher cx dm (expectChar cx '(' .expectedOpenParen st)).2)
  exact ((h1.trans_r h2).trans_l (⟨Nat.le_trans h3.1 h4.1, fun h => h.elim⟩)).mono (fun h => map_none _ _ h)

theorem g_platformBody (cx : Ctx) (st : St) : G ((platformBody cx st).1 = none) st (platformBody cx st).2 := by
  unfold platformBody
  simp only
  have h1 := g_expectChar cx '(' .expectedOpenParen st
  have h2 := g_matcherText cx ((expectChar cx '(' .expectedOpenParen st).withRest (skipWs (expectChar cx '(' .expectedOpenParen st).rest))
  have h3 := g_recoverComma cx (parseMatcherText cx ((expectChar cx '(' .expectedOpenParen st).withRest (skipWs (expectChar cx '(' .expectedOpenParen st).rest))).2
  have h4 := g_expectChar cx ')' .expectedCloseParen (recoverComma cx (parseMatcherText cx ((expectChar cx '(' .expectedOpenParen st).withRest (skipWs (expectChar cx '(' .expectedOpenParen st).rest))).2)
  have hall := (h1.trans_r h2).trans_l (⟨Nat.le_trans h3.1 h4.1, fun h => h.elim⟩ : G False _ _)
  split
  · rename_i hres; exact ⟨hall.1, fun _ => hall.2 hres⟩
  · split
    · exact ⟨hall.1, fun h => by cases h⟩
    · split
      · exact ⟨hall.1, fun h => by cases h⟩
      · have hr := g_report (expectChar cx ')' .expectedCloseParen (recoverComma cx (parseMatcherText cx ((expectChar cx '(' .expectedOpenParen st).withRest (skipWs (expectChar cx '(' .expectedOpenParen st).rest))).2)) .invalidPlatform
          (pos cx (expectChar cx '(' .expectedOpenParen st))
          (pos cx (parseMatcherText cx ((expectChar cx '(' .expectedOpenParen st).withRest (skipWs (expectChar cx '(' .expectedOpenParen st).rest))).2 - pos cx (expectChar cx '(' .expectedOpenParen st))
        exact ⟨Nat.le_trans hall.1 hr.1, fun _ => Nat.lt_of_le_of_lt hall.1 (hr.2 trivial)⟩

theorem g_nullaryBody (cx : Ctx) (start : Nat) (mk : Span → SetDef) (st : St) :
    G ((nullaryBody cx start mk st).1 = none) st (nullaryBody cx start mk st).2 := by
  unfold nullaryBody
  simp only
  have h1 := g_expectChar cx '(' .expectedOpenParen st
  refine ⟨?_, fun h => by cases h⟩
  have h4 := fun s => (g_expectChar cx ')' .expectedCloseParen s).1
  refine Nat.le_trans ?_ (h4 _)
  split
  · exact h1.1
  · exact Nat.le_trans h1.1 (g_report _ _ _ _).1

theorem g_tryUnary (cx : Ctx) (st : St) : ∀ (tbl : List (String × DefaultMatcher × Pred)) (r : Option SetDef × St),
    tryUnary cx st tbl = some r → G (r.1 = none) st r.2 := by
  intro tbl
  induction tbl with
  | nil => intro r hr; simp [tryUnary] at hr
  | cons e more ih =>
    intro r hr
    obtain ⟨name, dm, p⟩ := e
    simp only [tryUnary] at hr
    split at hr
    · rename_i rest _
      simp only [Option.some.injEq] at hr; subst hr
      exact G.of_withRest (g_unaryBody cx dm p (st.withRest rest))
    · exact ih r hr

theorem g_parseSetDef (cx : Ctx) (st : St) (r : Option SetDef × St) (hr : parseSetDef cx st = some r) : G (r.1 = none) st r.2 := by
  unfold parseSetDef at hr
  simp only at hr
  split at hr
  · rename_i r' hu
    simp only [Option.some.injEq] at hr; subst hr
    exact G.of_withRest (g_tryUnary cx (st.withRest (skipWs st.rest)) _ _ hu)
  · split at hr
    · rename_i rest _; simp only [Option.some.injEq] at hr; subst hr; exact G.of_withRest2 (g_platformBody cx ((st.withRest (skipWs st.rest)).withRest rest))
    · split at hr
      · rename_i rest _; simp only [Option.some.injEq] at hr; subst hr; exact G.of_withRest2 (g_nullaryBody cx _ _ ((st.withRest (skipWs st.rest)).withRest rest))
      · split at hr
        · rename_i rest _; simp only [Option.some.injEq] at hr; subst hr; exact G.of_withRest2 (g_nullaryBody cx _ _ ((st.withRest (skipWs st.rest)).withRest rest))
        · split at hr
          · rename_i rest _; simp only [Option.some.injEq] at hr; subst hr; exact G.of_withRest2 (g_nullaryBody cx _ _ ((st.withRest (skipWs st.rest)).withRest rest))
          · cases hr

theorem g_parseOrOp (cx : Ctx) (st : St) (r : Option OrOp × St) (hr : parseOrOp cx st = some r) : G (r.1 = none) st r.2 := by
  unfold parseOrOp at hr
  simp only at hr
  split at hr
  · simp only [Option.some.injEq] at hr; subst hr
    exact ⟨(g_report _ _ _ _).1, fun _ => (g_report (st.withRest (skipWs st.rest)) .invalidOrOperator _ 2).2 trivial⟩
  · split at hr
    · simp only [Option.some.injEq] at hr; subst hr
      exact ⟨(g_report _ _ _ _).1, fun _ => (g_report (st.withRest (skipWs st.rest)) .invalidOrOperator _ 3).2 trivial⟩
    · split at hr
      · simp only [Option.some.injEq] at hr; subst hr; exact ⟨Nat.le_refl _, fun h => by cases h⟩
      · split at hr
        · simp only [Option.some.injEq] at hr; subst hr; exact ⟨Nat.le_refl _, fun h => by cases h⟩
        · simp only [Option.some.injEq] at hr; subst hr; exact ⟨Nat.le_refl _, fun h => by cases h⟩
        · cases hr

theorem g_parseAndOp (cx : Ctx) (st : St) (r : Option AndDiffOp × St) (hr : parseAndOp cx st = some r) : G (r.1 = none) st r.2 := by
  unfold parseAndOp at hr
  simp only at hr
  split at hr
  · simp only [Option.some.injEq] at hr; subst hr
    exact ⟨(g_report _ _ _ _).1, fun _ => (g_report (st.withRest (skipWs st.rest)) .invalidAndOperator _ 2).2 trivial⟩
  · split at hr
    · simp only [Option.some.injEq] at hr; subst hr
      exact ⟨(g_report _ _ _ _).1, fun _ => (g_report (st.withRest (skipWs st.rest)) .invalidAndOperator _ 4).2 trivial⟩
    · split at hr
      · simp only [Option.some.injEq] at hr; subst hr; exact ⟨Nat.le_refl _, fun h => by cases h⟩
      · split at hr
        · simp only [Option.some.injEq] at hr; subst hr; exact ⟨Nat.le_refl _, fun h => by cases h⟩
        · simp only [Option.some.injEq] at hr; subst hr; exact ⟨Nat.le_refl _, fun h => by cases h⟩
        · cases hr

theorem combineOr_none (a : ERes) (op : Option OrOp) (b : ERes) (h : combineOr a op b = none) : a = none ∨ op = none ∨ b = none := by
  cases a <;> cases b <;> (cases op with
    | none => simp
    | some o => simp [combineOr] at h ⊢)
theorem combineAnd_none (a : ERes) (op : Option AndDiffOp) (b : ERes) (h : combineAnd a op b = none) : a = none ∨ op = none ∨ b = none := by
  cases a <;> cases b <;> (cases op with
    | none => simp
    | some o => cases o <;> simp [combineAnd] at h ⊢)

theorem g_fuel (st : St) : G True st (st.report .outOfFuel 0 0) := g_report st _ _ _

theorem g_expr (cx : Ctx) : ∀ (f : Nat),
    (∀ st, G ((parseExpr cx f st).1 = none) st (parseExpr cx f st).2) ∧
    (∀ acc st, G ((orLoop cx f acc st).1 = none ∧ acc ≠ none) st (orLoop cx f acc st).2) ∧
    (∀ st, G ((parseAndOr cx f st).1 = none) st (parseAndOr cx f st).2) ∧
    (∀ acc st, G ((andLoop cx f acc st).1 = none ∧ acc ≠ none) st (andLoop cx f acc st).2) ∧
    (∀ st, G ((basicOrMissing cx f st).1 = none) st (basicOrMissing cx f st).2) ∧
    (∀ st r, parseBasic cx f st = some r → G (r.1 = none) st r.2) := by
  intro f
  induction f with
  | zero =>
    refine ⟨?_, ?_, ?_, ?_, ?_, ?_⟩
    · intro st; simp only [parseExpr]; exact (g_fuel st).mono (fun _ => trivial)
    · intro acc st; simp only [orLoop]; exact (g_fuel st).mono (fun _ => trivial)
    · intro st; simp only [parseAndOr]; exact (g_fuel st).mono (fun _ => trivial)
    · intro acc st; simp only [andLoop]; exact (g_fuel st).mono (fun _ => trivial)
    · intro st; simp only [basicOrMissing]; exact (g_fuel st).mono (fun _ => trivial)
    · intro st r hr; simp only [parseBasic, Option.some.injEq] at hr; subst hr; exact (g_fuel st).mono (fun _ => trivial)
  | succ f ih =>
    obtain ⟨iE, iO, iA, iL, iB, iP⟩ := ih
    refine ⟨?_, ?_, ?_, ?_, ?_, ?_⟩
    · intro st
      simp only [parseExpr]
      have h1 := iA st
      have h2 := iO (parseAndOr cx f st).1 (parseAndOr cx f st).2
      refine ⟨Nat.le_trans h1.1 h2.1, fun h => ?_⟩
      by_cases hn : (parseAndOr cx f st).1 = none
      · exact Nat.lt_of_lt_of_le (h1.2 hn) h2.1
      · exact Nat.lt_of_le_of_lt h1.1 (h2.2 ⟨h, hn⟩)
    · intro acc st
      simp only [orLoop]
      split
      · exact ⟨Nat.le_refl _, fun h => absurd h.1 h.2⟩
      · rename_i op st1 hop
        have h1 := g_parseOrOp cx st (op, st1) hop
        have h2 := iA st1
        have h3 := iO (combineOr acc op (parseAndOr cx f st1).1) (parseAndOr cx f st1).2
        refine ⟨Nat.le_trans h1.1 (Nat.le_trans h2.1 h3.1), fun h => ?_⟩
        by_cases hc : combineOr acc op (parseAndOr cx f st1).1 = none
        · rcases combineOr_none _ _ _ hc with ha | ho | hb
          · exact absurd ha h.2
          · exact Nat.lt_of_lt_of_le (h1.2 ho) (Nat.le_trans h2.1 h3.1)
          · exact Nat.lt_of_le_of_lt h1.1 (Nat.lt_of_lt_of_le (h2.2 hb) h3.1)
        · exact Nat.lt_of_le_of_lt (Nat.le_trans h1.1 h2.1) (h3.2 ⟨h.1, hc⟩)
    · intro st
      simp only [parseAndOr]
      have h1 := iB st
      have h2 := iL (basicOrMissing cx f st).1 (basicOrMissing cx f st).2
      refine ⟨Nat.le_trans h1.1 h2.1, fun h => ?_⟩
      by_cases hn : (basicOrMissing cx f st).1 = none
      · exact Nat.lt_of_lt_of_le (h1.2 hn) h2.1
      · exact Nat.lt_of_le_of_lt h1.1 (h2.2 ⟨h, hn⟩)
    · intro acc st
      simp only [andLoop]
      split
      · exact ⟨Nat.le_refl _, fun h => absurd h.1 h.2⟩
      · rename_i op st1 hop
        have h1 := g_parseAndOp cx st (op, st1) hop
        have h2 := iB st1
        have h3 := iL (combineAnd acc op (basicOrMissing cx f st1).1) (basicOrMissing cx f st1).2
        refine ⟨Nat.le_trans h1.1 (Nat.le_trans h2.1 h3.1), fun h => ?_⟩
        by_cases hc : combineAnd acc op (basicOrMissing cx f st1).1 = none
        · rcases combineAnd_none _ _ _ hc with ha | ho | hb
          · exact absurd ha h.2
          · exact Nat.lt_of_lt_of_le (h1.2 ho) (Nat.le_trans h2.1 h3.1)
          · exact Nat.lt_of_le_of_lt h1.1 (Nat.lt_of_lt_of_le (h2.2 hb) h3.1)
        · exact Nat.lt_of_le_of_lt (Nat.le_trans h1.1 h2.1) (h3.2 ⟨h.1, hc⟩)
    · intro st
      simp only [basicOrMissing]
      split
      · rename_i r hr; exact iP st r hr
      · unfold missingExpr; exact (g_report st _ _ _).mono (fun _ => trivial)
    · intro st r hr
      simp only [parseBasic] at hr
      split at hr
      · rename_i sd st1 hsd
        simp only [Option.some.injEq] at hr; subst hr
        have := g_parseSetDef cx _ (sd, st1) hsd
        exact ⟨this.1, fun h => this.2 (map_none _ _ h)⟩
      · split at hr
        · rename_i op rest hnot
          simp only [Option.some.injEq] at hr; subst hr
          have := iB ((st.withRest (skipWs st.rest)).withRest rest)
          exact ⟨this.1, fun h => this.2 (map_none _ _ h)⟩
        · split at hr
          · rename_i rest hc
            simp only [Option.some.injEq] at hr; subst hr
            have h2 := iE ((st.withRest (skipWs st.rest)).withRest rest)
            have h3 := g_expectChar cx ')' .expectedCloseParen (parseExpr cx f ((st.withRest (skipWs st.rest)).withRest rest)).2
            exact ⟨Nat.le_trans h2.1 h3.1, fun h => Nat.lt_of_lt_of_le (h2.2 (map_none _ _ h)) h3.1⟩
          · cases hr

/-- **no expression ⇒ at least one error** -/
theorem parseTop_none_errs (cx : Ctx) (input : List Char) (h : (parseTop cx input).1 = none) : (parseTop cx input).2.errs ≠ [] := by
  have h1 := (g_expr cx (fuelFor input)).1 { rest := input, errs := [], needs := [] }
  unfold parseTop at h ⊢
  simp only at h ⊢
  split
  · rename_i hsk
    rw [hsk] at h; simp only at h
    have := h1.2 h
    intro he; simp only [St.withRest] at he; rw [he] at this; simp at this
  · rename_i hsk
    intro he; simp [St.report] at he

end NextestModel.Syntax
