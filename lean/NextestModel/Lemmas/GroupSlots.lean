/-
  Group slots (C14): the allocator invariant of Thm/C14 lifted to every test group of the scheduler model — a started member of
  group `g` gets the least group slot no alive member of `g` holds, group slots of alive members are distinct and below the
  group's max-threads, in every reachable state.
-/
import NextestModel.Thm.C14
import NextestModel.Lemmas.SchedLive
set_option linter.unusedSimpArgs false
namespace NextestModel.GroupSlots
open NextestModel.Sched NextestModel.C08 NextestModel.C14

/-- the group slot a running future holds in group `g` (none if it is not a member) -/
def gslotOf (g : Nat) (r : Running) : Option Nat := if r.item.group = some g then r.groupSlot else none

/-- the group slots held by the alive members of `g` -/
def gheld (s : SState) (g : Nat) : List Nat := s.running.filterMap (gslotOf g)

structure GInv (s : SState) : Prop where
  gok : GroupOk s
  qok : QueuesOk s
  lenS : s.gslots.length = s.groupMax.length
  slots : ∀ g, g < s.groupMax.length → SlotsInv (gheld s g) (s.gslots.getD g {})
  hasSlot : ∀ r ∈ s.running, ∀ g, r.item.group = some g →
    g < s.groupMax.length ∧ ∃ sl, r.groupSlot = some sl ∧ sl < s.groupMax.getD g 0
  rangeP : ∀ it ∈ s.pending, ∀ g, it.group = some g → g < s.groupMax.length
  rangeQ : ∀ g', ∀ it ∈ s.queues.getD g' [], ∀ g, it.group = some g → g < s.groupMax.length
  posR : ∀ r ∈ s.running, 1 ≤ r.item.weight
  posP : ∀ it ∈ s.pending, 1 ≤ it.weight
  posQ : ∀ g', ∀ it ∈ s.queues.getD g' [], 1 ≤ it.weight
  gmaxPos : ∀ g, g < s.groupMax.length → 1 ≤ s.groupMax.getD g 0

theorem getD_setAt {α} (l : List α) (i j : Nat) (v d : α) :
    (setAt l i v).getD j d = if i = j ∧ i < l.length then v else l.getD j d := by
  simp only [setAt, List.getD_eq_getElem?_getD, List.getElem?_set]
  by_cases h : i = j
  · subst h
    by_cases hl : i < l.length
    · simp [hl]
    · simp [hl]
  · simp [h]

theorem filterMap_length_le (gm : List Nat) (g : Nat) (hg : 1 ≤ gm.getD g 0) : ∀ (l : List Running), (∀ r ∈ l, 1 ≤ r.item.weight) →
    (l.filterMap (gslotOf g)).length ≤ (l.map (grw gm g)).sum := by
  intro l
  induction l with
  | nil => intro _; simp
  | cons a as ih =>
    intro hpos
    have iha := ih (fun r hr => hpos r (List.mem_cons_of_mem _ hr))
    have ha := hpos a (List.mem_cons_self ..)
    simp only [List.filterMap_cons, List.map_cons, List.sum_cons]
    cases hs : gslotOf g a with
    | none => simp only; omega
    | some sl =>
      have hmem : a.item.group = some g := by
        unfold gslotOf at hs; split at hs
        · assumption
        · cases hs
      have : 1 ≤ grw gm g a := by simp only [grw, hmem, if_true]; omega
      simp only [List.length_cons]; omega

/-- every alive member of `g` holds a slot and weighs at least 1 there: there are at most as many as the accounted weight -/
theorem gheld_length_le (s : SState) (g : Nat) (hpos : ∀ r ∈ s.running, 1 ≤ r.item.weight) (hg : 1 ≤ s.groupMax.getD g 0) :
    (gheld s g).length ≤ gsum s g :=
  filterMap_length_le s.groupMax g hg s.running hpos

theorem start_parts (s : SState) (it : Item) :
    (s.start it).1.groupMax = s.groupMax ∧ (s.start it).1.running = s.running ++ [(s.start it).2] ∧ (s.start it).2.item = it ∧
    (s.start it).1.pending = s.pending ∧ (s.start it).1.queues = s.queues ∧
    (s.start it).2.groupSlot = (match it.group with | none => none | some g => some (s.gslots.getD g {}).reserve.1) ∧
    (s.start it).1.gslots = (match it.group with | none => s.gslots | some g => setAt s.gslots g (s.gslots.getD g {}).reserve.2) := by
  unfold SState.start
  cases it.group <;> simp

/-- **starting a test**: in its group it gets the least slot no alive member holds, distinct from theirs and below max-threads -/
theorem start_ginv (s : SState) (it : Item) (h : GInv s) (hw : 1 ≤ it.weight)
    (hr : ∀ g, it.group = some g → g < s.groupMax.length)
    (hsg : ∀ g, it.group = some g → hasSpace (s.gcur.getD g 0) (s.groupMax.getD g 0) it.weight = true) :
    GInv (s.start it).1 ∧
    (∀ g, it.group = some g → ∃ sl, (s.start it).2.groupSlot = some sl ∧ sl ∉ gheld s g ∧ ∀ y, y < sl → y ∈ gheld s g) := by
  obtain ⟨f1, f2, f3, f4, f5, f6, f7⟩ := start_parts s it
  have hgok := start_gok s it h.gok hsg
  have hqok : QueuesOk (s.start it).1 := by unfold QueuesOk; rw [f5]; exact h.qok
  have hheld : ∀ g, gheld (s.start it).1 g = gheld s g ++ (match gslotOf g (s.start it).2 with | some x => [x] | none => []) := by
    intro g
    simp only [gheld, f2, List.filterMap_append, List.filterMap_cons, List.filterMap_nil]
    cases gslotOf g (s.start it).2 <;> rfl
  cases hgrp : it.group with
  | none =>
    -- no group: nothing changes in any group
    have hnone : ∀ g, gslotOf g (s.start it).2 = none := by intro g; simp [gslotOf, f3, hgrp]
    rw [hgrp] at f6 f7
    refine ⟨⟨hgok, hqok, by rw [f7, f1]; exact h.lenS, ?_, ?_, by rw [f4, f1]; exact h.rangeP, by rw [f5, f1]; exact h.rangeQ, ?_,
      by rw [f4]; exact h.posP, by rw [f5]; exact h.posQ, by rw [f1]; exact h.gmaxPos⟩, fun g hg => by cases hg⟩
    · intro g hg
      rw [f1] at hg
      rw [hheld, hnone, f7]; simpa using h.slots g hg
    · intro r hr' g hg
      rw [f2] at hr'; rw [f1]
      rcases List.mem_append.mp hr' with hr' | hr'
      · exact h.hasSlot r hr' g hg
      · simp at hr'; subst hr'; rw [f3, hgrp] at hg; cases hg
    · intro r hr'
      rw [f2] at hr'
      rcases List.mem_append.mp hr' with hr' | hr'
      · exact h.posR r hr'
      · simp at hr'; subst hr'; rw [f3]; exact hw
  | some g =>
    have hgr : g < s.groupMax.length := hr g hgrp
    rw [hgrp] at f6 f7
    have hsl := h.slots g hgr
    obtain ⟨r1, r2, r3⟩ := reserve_is_least_free (gheld s g) (s.gslots.getD g {}) hsl
    have hself : gslotOf g (s.start it).2 = some (s.gslots.getD g {}).reserve.1 := by simp [gslotOf, f3, hgrp, f6]
    have hother : ∀ g', g' ≠ g → gslotOf g' (s.start it).2 = none := by
      intro g' hne; simp only [gslotOf, f3, hgrp]
      have : ¬ (some g = some g') := by intro e; exact hne (Option.some.inj e).symm
      simp [this]
    -- the new slot is below max-threads: at most as many members as the accounted weight, which leaves room for one more
    have hsp : s.gcur.getD g 0 + min it.weight (s.groupMax.getD g 0) ≤ s.groupMax.getD g 0 := by
      have := hsg g hgrp; simp only [hasSpace, decide_eq_true_eq] at this; omega
    have hgm := h.gmaxPos g hgr
    have hcount := gheld_length_le s g h.posR hgm
    have hacct := (h.gok.2 g).1
    have hslot : (s.gslots.getD g {}).reserve.1 ≤ (gheld s g).length := le_length_of_all_below _ _ hsl.1 r2
    have hbelow : (s.gslots.getD g {}).reserve.1 < s.groupMax.getD g 0 := by
      have : 1 ≤ min it.weight (s.groupMax.getD g 0) := by omega
      omega
    refine ⟨⟨hgok, hqok, by rw [f7, f1]; simp [setAt, h.lenS], ?_, ?_, by rw [f4, f1]; exact h.rangeP, by rw [f5, f1]; exact h.rangeQ, ?_,
      by rw [f4]; exact h.posP, by rw [f5]; exact h.posQ, by rw [f1]; exact h.gmaxPos⟩, ?_⟩
    · intro g' hg'
      rw [f1] at hg'
      rw [hheld, f7, getD_setAt]
      by_cases hgg : g = g'
      · subst hgg
        have hl : g < s.gslots.length := by rw [h.lenS]; exact hgr
        simp only [hself, hl, and_self, if_true]
        exact slotsInv_perm _ _ _ (by simpa using List.perm_append_comm (l₁ := gheld s g) (l₂ := [(s.gslots.getD g {}).reserve.1])) r3
      · have hne : g' ≠ g := fun e => hgg e.symm
        simp only [hother g' hne, hgg, false_and, if_false, List.append_nil]
        exact h.slots g' hg'
    · intro r hr' g' hg'
      rw [f2] at hr'; rw [f1]
      rcases List.mem_append.mp hr' with hr' | hr'
      · exact h.hasSlot r hr' g' hg'
      · simp at hr'; subst hr'
        rw [f3, hgrp] at hg'
        simp only [Option.some.injEq] at hg'; subst hg'
        exact ⟨hgr, _, f6, hbelow⟩
    · intro r hr'
      rw [f2] at hr'
      rcases List.mem_append.mp hr' with hr' | hr'
      · exact h.posR r hr'
      · simp at hr'; subst hr'; rw [f3]; exact hw
    · intro g' hg'
      simp only [Option.some.injEq] at hg'; subst hg'
      exact ⟨_, f6, r1, r2⟩

theorem ginv_congr (s t : SState) (h : GInv s) (h1 : t.gcur = s.gcur) (h2 : t.running = s.running) (h3 : t.groupMax = s.groupMax)
    (h4 : t.gslots = s.gslots) (hq : QueuesOk t)
    (hrp : ∀ it ∈ t.pending, ∀ g, it.group = some g → g < t.groupMax.length)
    (hrq : ∀ g', ∀ it ∈ t.queues.getD g' [], ∀ g, it.group = some g → g < t.groupMax.length)
    (hpp : ∀ it ∈ t.pending, 1 ≤ it.weight) (hpq : ∀ g', ∀ it ∈ t.queues.getD g' [], 1 ≤ it.weight) : GInv t := by
  refine ⟨gok_congr s t h1 h2 h3 h.gok, hq, by rw [h4, h3]; exact h.lenS, ?_, ?_, hrp, hrq, by rw [h2]; exact h.posR, hpp, hpq,
    by rw [h3]; exact h.gmaxPos⟩
  · intro g hg; rw [h3] at hg
    have : gheld t g = gheld s g := by simp only [gheld, h2]
    rw [this, h4]; exact h.slots g hg
  · intro r hr g hg; rw [h2] at hr; rw [h3]; exact h.hasSlot r hr g hg

theorem pull_ginv (fuel : Nat) : ∀ (s : SState), GInv s → GInv (s.pull fuel).1 := by
  induction fuel with
  | zero => intro s h; exact h
  | succ f ih =>
    intro s h
    simp only [SState.pull]
    split
    · exact h
    · rename_i it rest hp
      split
      · exact h
      · have hw : 1 ≤ it.weight := h.posP it (by rw [hp]; simp)
        have hrng : ∀ g, it.group = some g → g < s.groupMax.length := h.rangeP it (by rw [hp]; simp)
        have hs1 : GInv { s with pending := rest } :=
          ginv_congr s _ h rfl rfl rfl rfl h.qok (fun x hx => h.rangeP x (by rw [hp]; simp [hx])) h.rangeQ
            (fun x hx => h.posP x (by rw [hp]; simp [hx])) h.posQ
        split
        · rename_i hg
          exact ih _ (start_ginv { s with pending := rest } it hs1 hw hrng (by intro g hg'; rw [hg] at hg'; cases hg')).1
        · rename_i g hg
          split
          · rename_i hsp
            exact ih _ (start_ginv { s with pending := rest } it hs1 hw hrng (by intro g' hg'; rw [hg] at hg'; cases hg'; exact hsp)).1
          · refine ih _ (ginv_congr s _ h rfl rfl rfl rfl ?_ (fun x hx => h.rangeP x (by rw [hp]; simp [hx])) ?_
              (fun x hx => h.posP x (by rw [hp]; simp [hx])) ?_)
            · intro g' x hx
              simp only [getD_setAt] at hx
              split at hx
              · rename_i hc
                rcases List.mem_append.mp hx with hx | hx
                · rw [← hc.1]; exact h.qok g x hx
                · simp at hx; subst hx; rw [← hc.1]; exact hg
              · exact h.qok g' x hx
            · intro g' x hx
              simp only [getD_setAt] at hx
              split at hx
              · rcases List.mem_append.mp hx with hx | hx
                · exact h.rangeQ g x hx
                · simp at hx; subst hx; exact hrng
              · exact h.rangeQ g' x hx
            · intro g' x hx
              simp only [getD_setAt] at hx
              split at hx
              · rcases List.mem_append.mp hx with hx | hx
                · exact h.posQ g x hx
                · simp at hx; subst hx; exact hw
              · exact h.posQ g' x hx

theorem drain_ginv (g : Nat) (fuel : Nat) : ∀ (s : SState), GInv s → GInv (s.drainGroup g fuel).1 := by
  induction fuel with
  | zero => intro s h; exact h
  | succ f ih =>
    intro s h
    simp only [SState.drainGroup]
    split
    · exact h
    · rename_i it rest hqg
      split
      · rename_i hsp
        simp only [Bool.and_eq_true] at hsp
        have hmem : it ∈ s.queues.getD g [] := by rw [hqg]; simp
        have hw : 1 ≤ it.weight := h.posQ g it hmem
        have hitg : it.group = some g := h.qok g it hmem
        have hrng : ∀ g', it.group = some g' → g' < s.groupMax.length := h.rangeQ g it hmem
        have hs1 : GInv { s with queues := setAt s.queues g rest } := by
          refine ginv_congr s _ h rfl rfl rfl rfl ?_ h.rangeP ?_ h.posP ?_
          · intro g' x hx
            simp only [getD_setAt] at hx
            split at hx
            · rename_i hc; rw [← hc.1]; exact h.qok g x (by rw [hqg]; simp [hx])
            · exact h.qok g' x hx
          · intro g' x hx
            simp only [getD_setAt] at hx
            split at hx
            · exact h.rangeQ g x (by rw [hqg]; simp [hx])
            · exact h.rangeQ g' x hx
          · intro g' x hx
            simp only [getD_setAt] at hx
            split at hx
            · exact h.posQ g x (by rw [hqg]; simp [hx])
            · exact h.posQ g' x hx
        exact ih _ (start_ginv _ it hs1 hw hrng (by intro g' hg'; rw [hitg] at hg'; cases hg'; exact hsp.2)).1
      · exact h

theorem filterMap_eraseP_some {α β} [DecidableEq β] (f : α → Option β) (p : α → Bool) : ∀ (l : List α) (x : α) (v : β),
    l.find? p = some x → f x = some v → (l.filterMap f).Nodup → (l.eraseP p).filterMap f = (l.filterMap f).erase v := by
  intro l
  induction l with
  | nil => intro x v h; simp at h
  | cons a as ih =>
    intro x v hf hx hnd
    by_cases hp : p a = true
    · simp only [List.find?_cons, hp, Option.some.injEq] at hf; subst hf
      simp [List.eraseP_cons, hp, List.filterMap_cons, hx]
    · have hp' : p a = false := by simpa using hp
      simp only [List.find?_cons, hp'] at hf
      have hv : v ∈ as.filterMap f := List.mem_filterMap.mpr ⟨x, List.mem_of_find?_eq_some hf, hx⟩
      simp only [List.eraseP_cons, hp', cond_false, List.filterMap_cons]
      cases ha : f a with
      | none =>
        simp only [List.filterMap_cons, ha] at hnd ⊢
        exact ih x v hf hx hnd
      | some u =>
        simp only [List.filterMap_cons, ha, List.nodup_cons] at hnd ⊢
        have hne : u ≠ v := fun e => hnd.1 (e ▸ hv)
        rw [List.erase_cons]
        have : (u == v) = false := by simp [hne]
        simp only [this, Bool.false_eq_true, if_false]
        rw [ih x v hf hx hnd.2]

theorem filterMap_eraseP_none {α β} (f : α → Option β) (p : α → Bool) : ∀ (l : List α) (x : α),
    l.find? p = some x → f x = none → (l.eraseP p).filterMap f = l.filterMap f := by
  intro l
  induction l with
  | nil => intro x h; simp at h
  | cons a as ih =>
    intro x hf hx
    by_cases hp : p a = true
    · simp only [List.find?_cons, hp, Option.some.injEq] at hf; subst hf
      simp [List.eraseP_cons, hp, List.filterMap_cons, hx]
    · have hp' : p a = false := by simpa using hp
      simp only [List.find?_cons, hp'] at hf
      simp only [List.eraseP_cons, hp', cond_false, List.filterMap_cons, ih x hf hx]

/-- **Every operation keeps the group slots of concurrently alive members distinct, least-free and below max-threads** -/
theorem ginv_step (s : SState) (op : Op) (s' : SState) (started : List Running)
    (h : GInv s) (hstep : s.step op = some (s', started)) : GInv s' := by
  cases op with
  | poll =>
    simp only [SState.step, SState.first, Option.some.injEq] at hstep
    have := pull_ginv (s.pending.length + 1) s h
    rw [hstep] at this; exact this
  | complete id =>
    simp only [SState.step, SState.complete] at hstep
    split at hstep
    · cases hstep
    · rename_i r hfind
      simp only [Option.some.injEq, Prod.mk.injEq] at hstep
      obtain ⟨hs, _⟩ := hstep
      rw [← hs]
      have hmem : r ∈ s.running := List.mem_of_find?_eq_some hfind
      have hsub : ∀ x ∈ s.running.eraseP (fun x => x.item.id == id), x ∈ s.running := fun x hx => List.mem_of_mem_eraseP hx
      split
      · rename_i g gsl hg hgs
        obtain ⟨hgr, sl, hsl, _⟩ := h.hasSlot r hmem g hg
        have hsl' : sl = gsl := by rw [hgs] at hsl; exact (Option.some.inj hsl).symm
        subst hsl'
        have hself : gslotOf g r = some sl := by simp [gslotOf, hg, hgs]
        have hrem : GInv { s with running := s.running.eraseP (fun x => x.item.id == id),
                                   cur := s.cur - min r.item.weight s.maxW, slots := s.slots.release r.globalSlot,
                                   gcur := setAt s.gcur g (s.gcur.getD g 0 - min r.item.weight (s.groupMax.getD g 0)),
                                   gslots := setAt s.gslots g ((s.gslots.getD g {}).release sl) } := by
          refine ⟨SchedLive.remove_grp_some s _ r g h.gok hfind hg _ rfl rfl rfl, h.qok, by simp [setAt, h.lenS], ?_, ?_, h.rangeP, h.rangeQ,
            fun x hx => h.posR x (hsub x hx), h.posP, h.posQ, h.gmaxPos⟩
          · intro g' hg'
            simp only [gheld, getD_setAt]
            by_cases hgg : g = g'
            · subst hgg
              have hl : g < s.gslots.length := by rw [h.lenS]; exact hgr
              simp only [hl, and_self, if_true]
              have hnd := (h.slots g hgr).1
              rw [filterMap_eraseP_some (gslotOf g) _ s.running r sl hfind hself hnd]
              exact release_keeps_invariant (gheld s g) _ sl (h.slots g hgr) (List.mem_filterMap.mpr ⟨r, hmem, hself⟩)
            · have hnone : gslotOf g' r = none := by
                simp only [gslotOf, hg]
                have : ¬ (some g = some g') := fun e => hgg (Option.some.inj e)
                simp [this]
              simp only [hgg, false_and, if_false]
              rw [filterMap_eraseP_none (gslotOf g') _ s.running r hfind hnone]
              exact h.slots g' hg'
          · intro x hx g' hg'
            exact h.hasSlot x (hsub x hx) g' hg'
        exact pull_ginv _ _ (drain_ginv _ _ _ hrem)
      · rename_i hnot
        have hng : r.item.group = none := by
          cases hgo : r.item.group with
          | none => rfl
          | some g =>
            obtain ⟨_, sl, hsl, _⟩ := h.hasSlot r hmem g hgo
            exact (hnot g sl hgo hsl).elim
        have hrem : GInv { s with running := s.running.eraseP (fun x => x.item.id == id),
                                   cur := s.cur - min r.item.weight s.maxW, slots := s.slots.release r.globalSlot } := by
          refine ⟨SchedLive.remove_grp_none s _ r h.gok hfind hng _ rfl rfl rfl, h.qok, h.lenS, ?_, ?_, h.rangeP, h.rangeQ,
            fun x hx => h.posR x (hsub x hx), h.posP, h.posQ, h.gmaxPos⟩
          · intro g' hg'
            have hnone : gslotOf g' r = none := by simp [gslotOf, hng]
            simp only [gheld]
            rw [filterMap_eraseP_none (gslotOf g') _ s.running r hfind hnone]
            exact h.slots g' hg'
          · intro x hx g' hg'
            exact h.hasSlot x (hsub x hx) g' hg'
        exact pull_ginv _ _ hrem

theorem ginv_init (maxW : Nat) (gm : List Nat) (items : List Item)
    (hw : ∀ it ∈ items, 1 ≤ it.weight) (hr : ∀ it ∈ items, ∀ g, it.group = some g → g < gm.length)
    (hgm : ∀ g, g < gm.length → 1 ≤ gm.getD g 0) : GInv (SState.init maxW gm items) := by
  have hq : ∀ g, (SState.init maxW gm items).queues.getD g [] = [] := by
    intro g
    simp only [SState.init, List.getD_eq_getElem?_getD, List.getElem?_map]
    cases gm[g]? <;> rfl
  refine ⟨group_init_ok maxW gm items, queues_init_ok maxW gm items, by simp [SState.init], ?_, ?_, hr, ?_, ?_, hw, ?_, hgm⟩
  · intro g hg
    have : (SState.init maxW gm items).gslots.getD g {} = {} := by
      simp only [SState.init, List.getD_eq_getElem?_getD, List.getElem?_map]
      cases gm[g]? <;> rfl
    rw [this]
    simpa [gheld, SState.init] using slots_init
  · intro r hr'; simp [SState.init] at hr'
  · intro g' it hit; rw [hq g'] at hit; cases hit
  · intro r hr'; simp [SState.init] at hr'
  · intro g' it hit; rw [hq g'] at hit; cases hit

theorem ginv_run (ops : List Op) : ∀ (s s' : SState), GInv s → runOps s ops = some s' → GInv s' := by
  induction ops with
  | nil => intro s s' h hr; simp [runOps] at hr; subst hr; exact h
  | cons o os ih =>
    intro s s' h hr
    simp only [runOps] at hr
    split at hr
    · cases hr
    · rename_i s1 st hstep
      exact ih s1 s' (ginv_step s o s1 st h hstep) hr

end NextestModel.GroupSlots
