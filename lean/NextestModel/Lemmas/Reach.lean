/-
  The fuelled search `Graph.reachF` (C05 `deps` / `rdeps`; guppy's `depends_on`) decides exactly the reflexive-transitive closure
  of the dependency edges: soundness by induction on the fuel, completeness because a walk can be shortened to one that visits
  no package twice, and such a walk has at most as many vertices as there are packages (pigeonhole).
-/
import NextestModel.Model.Expr
namespace NextestModel.ReachLemmas
open NextestModel

/-- reflexive-transitive closure of the dependency edges -/
inductive Reach (g : Graph) : Nat → Nat → Prop
  | refl (a : Nat) : Reach g a a
  | step {a c b : Nat} : c ∈ g.succ a → Reach g c b → Reach g a b

/-- every edge points to a package of the graph -/
def Valid (g : Graph) : Prop := ∀ i c, c ∈ g.succ i → c < g.names.length

theorem reachF_sound (g : Graph) : ∀ (f a b : Nat), g.reachF f a b = true → Reach g a b := by
  intro f
  induction f with
  | zero => intro a b h; simp [Graph.reachF] at h; subst h; exact Reach.refl a
  | succ f ih =>
    intro a b h
    simp only [Graph.reachF, Bool.or_eq_true, beq_iff_eq, List.any_eq_true] at h
    rcases h with rfl | ⟨c, hc, hr⟩
    · exact Reach.refl a
    · exact Reach.step hc (ih c b hr)

theorem reachF_mono (g : Graph) : ∀ (f a b : Nat), g.reachF f a b = true → g.reachF (f + 1) a b = true := by
  intro f
  induction f with
  | zero => intro a b h; simp [Graph.reachF] at h ⊢; exact Or.inl h
  | succ f ih =>
    intro a b h
    simp only [Graph.reachF, Bool.or_eq_true, beq_iff_eq, List.any_eq_true] at h
    rw [Graph.reachF]
    simp only [Bool.or_eq_true, beq_iff_eq, List.any_eq_true]
    rcases h with rfl | ⟨c, hc, hr⟩
    · exact Or.inl rfl
    · exact Or.inr ⟨c, hc, ih c b hr⟩

theorem reachF_mono_le (g : Graph) (a b : Nat) : ∀ (f f' : Nat), f ≤ f' → g.reachF f a b = true → g.reachF f' a b = true := by
  intro f f' hle h
  induction f' with
  | zero => have : f = 0 := by omega
            subst this; exact h
  | succ k ih =>
    by_cases hk : f ≤ k
    · exact reachF_mono g k a b (ih hk)
    · have : f = k + 1 := by omega
      subst this; exact h

/-- a walk: consecutive vertices are joined by an edge -/
def IsWalk (g : Graph) : List Nat → Prop
  | [] => True
  | [_] => True
  | a :: c :: r => c ∈ g.succ a ∧ IsWalk g (c :: r)

theorem isWalk_suffix (g : Graph) : ∀ (s : List Nat) (a : Nat) (t : List Nat), IsWalk g (s ++ a :: t) → IsWalk g (a :: t) := by
  intro s
  induction s with
  | nil => intro a t h; exact h
  | cons x xs ih =>
    intro a t h
    cases xs with
    | nil => exact h.2
    | cons y ys => exact ih a t h.2

/-- a walk `a :: l` to `b` needs fuel `l.length` -/
theorem reachF_of_walk (g : Graph) : ∀ (l : List Nat) (a b : Nat), IsWalk g (a :: l) → (a :: l).getLast? = some b →
    g.reachF l.length a b = true := by
  intro l
  induction l with
  | nil => intro a b _ hl; simp at hl; subst hl; simp [Graph.reachF]
  | cons c r ih =>
    intro a b hw hl
    rw [List.length_cons, Graph.reachF]
    simp only [Bool.or_eq_true, beq_iff_eq, List.any_eq_true]
    refine Or.inr ⟨c, hw.1, ih c b hw.2 ?_⟩
    rw [List.getLast?_cons_cons] at hl; exact hl

theorem walk_of_reach (g : Graph) {a b : Nat} (h : Reach g a b) : ∃ l, IsWalk g (a :: l) ∧ (a :: l).getLast? = some b := by
  induction h with
  | refl a => exact ⟨[], trivial, rfl⟩
  | step hc _ ih =>
    obtain ⟨l, hw, hl⟩ := ih
    exact ⟨_ :: l, ⟨hc, hw⟩, by rw [List.getLast?_cons_cons]; exact hl⟩

/-- every walk can be shortened to one that visits no vertex twice -/
theorem shorten (g : Graph) : ∀ (l : List Nat) (a b : Nat), IsWalk g (a :: l) → (a :: l).getLast? = some b →
    ∃ l', IsWalk g (a :: l') ∧ (a :: l').getLast? = some b ∧ (a :: l').Nodup ∧ ∀ x ∈ l', x ∈ l := by
  intro l
  induction l with
  | nil => intro a b hw hl; exact ⟨[], hw, hl, by simp, by simp⟩
  | cons c r ih =>
    intro a b hw hl
    rw [List.getLast?_cons_cons] at hl
    obtain ⟨l', hw', hl', hnd, hsub⟩ := ih c b hw.2 hl
    by_cases ha : a ∈ c :: l'
    · -- the walk comes back to `a`: cut the loop
      obtain ⟨s, t, hst⟩ := List.append_of_mem ha
      refine ⟨t, ?_, ?_, ?_, ?_⟩
      · exact isWalk_suffix g s a t (by rw [← hst]; exact hw')
      · have : (c :: l').getLast? = (a :: t).getLast? := by
          rw [hst, List.getLast?_append]
          cases h : (a :: t).getLast? with
          | none => simp at h
          | some x => rfl
        rw [← this]; exact hl'
      · rw [hst] at hnd
        exact (List.nodup_append.mp hnd).2.1
      · intro x hx
        have : x ∈ c :: l' := by rw [hst]; simp [hx]
        rcases List.mem_cons.mp this with rfl | h
        · exact List.mem_cons_self ..
        · exact List.mem_cons_of_mem _ (hsub x h)
    · refine ⟨c :: l', ⟨hw.1, hw'⟩, by rw [List.getLast?_cons_cons]; exact hl', List.nodup_cons.mpr ⟨ha, hnd⟩, ?_⟩
      intro x hx
      rcases List.mem_cons.mp hx with rfl | h
      · exact List.mem_cons_self ..
      · exact List.mem_cons_of_mem _ (hsub x h)

/-- pigeonhole: a list of distinct numbers below `n` has at most `n` elements -/
theorem nodup_length_le : ∀ (n : Nat) (l : List Nat), l.Nodup → (∀ x ∈ l, x < n) → l.length ≤ n := by
  intro n
  induction n with
  | zero =>
    intro l _ h
    cases l with
    | nil => simp
    | cons x xs => exact absurd (h x (List.mem_cons_self ..)) (by omega)
  | succ n ih =>
    intro l hd h
    by_cases hn : n ∈ l
    · have h1 := ih (l.erase n) (hd.erase n) (by
        intro x hx
        have := (hd.mem_erase_iff).mp hx
        have := h x this.2
        omega)
      rw [List.length_erase_of_mem hn] at h1
      omega
    · have := ih l hd (by
        intro x hx
        have := h x hx
        have : x ≠ n := by intro e; subst e; exact hn hx
        omega)
      omega

theorem walk_vertices_valid (g : Graph) (hv : Valid g) : ∀ (l : List Nat) (a : Nat), IsWalk g (a :: l) → ∀ x ∈ l, x < g.names.length := by
  intro l
  induction l with
  | nil => intro a _ x hx; cases hx
  | cons c r ih =>
    intro a hw x hx
    rcases List.mem_cons.mp hx with rfl | h
    · exact hv a _ hw.1
    · exact ih c hw.2 x h

/-- **the fuelled search is complete**: with as much fuel as there are packages, everything reachable is found -/
theorem reachF_complete (g : Graph) (hv : Valid g) (a b : Nat) (ha : a < g.names.length) (h : Reach g a b) :
    g.reachF g.names.length a b = true := by
  obtain ⟨l, hw, hl⟩ := walk_of_reach g h
  obtain ⟨l', hw', hl', hnd, _⟩ := shorten g l a b hw hl
  have hlen : (a :: l').length ≤ g.names.length := by
    apply nodup_length_le _ _ hnd
    intro x hx
    rcases List.mem_cons.mp hx with rfl | hx'
    · exact ha
    · exact walk_vertices_valid g hv l' _ hw' x hx'
  exact reachF_mono_le g a b l'.length _ (by simp at hlen; omega) (reachF_of_walk g l' a b hw' hl')

end NextestModel.ReachLemmas
