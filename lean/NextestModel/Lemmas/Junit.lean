/-
  Helper lemmas about the JUnit aggregation model (C17).
-/
import NextestModel.Model.Junit
namespace NextestModel.Junit
open NextestModel.Dispatcher

/-- the test cases of the suite with key `k` (empty if there is no such suite) -/
def casesFor (k : Key) : List Suite → List Case
  | [] => []
  | s :: ss => if s.key = k then s.cases else casesFor k ss

def allCases (ss : List Suite) : List Case := ss.flatMap (·.cases)

/-- the case an event contributes to suite `k` -/
def contribTo (k : Key) (e : Ev) : Option Case :=
  match contribution e with
  | some (some (k', c)) => if k' = k then some c else none
  | _ => none

/-- the case an event contributes to whichever suite -/
def contrib (e : Ev) : Option Case :=
  match contribution e with
  | some (some (_, c)) => some c
  | _ => none

theorem casesFor_addCase (ss : List Suite) (k k' : Key) (c : Case) :
    casesFor k' (addCase ss k c) = if k' = k then casesFor k ss ++ [c] else casesFor k' ss := by
  induction ss with
  | nil =>
    simp only [addCase, casesFor]
    by_cases h : k = k'
    · subst h; simp
    · have h' : ¬ k' = k := fun e => h e.symm
      simp [h, h']
  | cons s ss ih =>
    simp only [addCase]
    by_cases hs : s.key = k
    · simp only [hs, if_true, casesFor]
      by_cases h : k = k'
      · subst h; simp [hs]
      · have h' : ¬ k' = k := fun e => h e.symm
        simp [h, h', hs]
    · simp only [hs, if_false, casesFor]
      by_cases h2 : s.key = k'
      · have h' : ¬ k' = k := fun e => hs (h2.trans e)
        simp [h2, h']
      · simp [h2, ih]

theorem allCases_addCase_countP (p : Case → Bool) (ss : List Suite) (k : Key) (c : Case) :
    (allCases (addCase ss k c)).countP p = (allCases ss).countP p + (if p c then 1 else 0) := by
  induction ss with
  | nil => simp [addCase, allCases, List.countP_cons]
  | cons s ss ih =>
    simp only [addCase]
    by_cases hs : s.key = k
    · simp only [hs, if_true, allCases, List.flatMap_cons, List.countP_append, List.countP_cons, List.countP_nil]
      omega
    · simp only [hs, if_false, allCases, List.flatMap_cons, List.countP_append] at ih ⊢
      omega

/-- **the report is the grouping of the per-event test cases by suite key, in event order** -/
theorem writeEvents_casesFor (k : Key) (evs : List Ev) (S R : List Suite) (h : writeEvents S evs = some R) :
    casesFor k R = casesFor k S ++ evs.filterMap (contribTo k) := by
  induction evs generalizing S with
  | nil => simp [writeEvents] at h; subst h; simp
  | cons e es ih =>
    simp only [writeEvents] at h
    cases hc : contribution e with
    | none => simp [hc] at h
    | some o =>
      cases o with
      | none =>
        simp only [hc] at h
        rw [ih S h]
        simp [List.filterMap_cons, contribTo, hc]
      | some kc =>
        obtain ⟨k', c⟩ := kc
        simp only [hc] at h
        rw [ih _ h, casesFor_addCase]
        by_cases hk : k = k'
        · subst hk; simp [List.filterMap_cons, contribTo, hc]
        · have hk' : ¬ k' = k := fun e => hk e.symm
          simp [List.filterMap_cons, contribTo, hc, hk, hk']

theorem writeEvents_countP (p : Case → Bool) (evs : List Ev) (S R : List Suite) (h : writeEvents S evs = some R) :
    (allCases R).countP p = (allCases S).countP p + (evs.filterMap contrib).countP p := by
  induction evs generalizing S with
  | nil => simp [writeEvents] at h; subst h; simp
  | cons e es ih =>
    simp only [writeEvents] at h
    cases hc : contribution e with
    | none => simp [hc] at h
    | some o =>
      cases o with
      | none =>
        simp only [hc] at h
        rw [ih S h]
        simp [List.filterMap_cons, contrib, hc]
      | some kc =>
        obtain ⟨k', c⟩ := kc
        simp only [hc] at h
        rw [ih _ h, allCases_addCase_countP]
        simp only [List.filterMap_cons, contrib, hc, List.countP_cons]
        omega

/-- suites keep distinct keys -/
theorem addCase_keys (ss : List Suite) (k : Key) (c : Case) :
    (addCase ss k c).map (·.key) = if k ∈ ss.map (·.key) then ss.map (·.key) else ss.map (·.key) ++ [k] := by
  induction ss with
  | nil => simp [addCase]
  | cons s ss ih =>
    simp only [addCase]
    by_cases hs : s.key = k
    · simp [hs]
    · have hs' : ¬ k = s.key := fun e => hs e.symm
      simp only [hs, if_false, List.map_cons, ih, List.mem_cons, hs', false_or]
      split <;> simp

theorem addCase_nodup (ss : List Suite) (k : Key) (c : Case) (h : (ss.map (·.key)).Nodup) :
    ((addCase ss k c).map (·.key)).Nodup := by
  rw [addCase_keys]
  split
  · exact h
  · rename_i hk
    exact List.nodup_append.mpr ⟨h, by simp, by intro a ha b hb; simp at hb; subst hb; intro e; subst e; exact hk ha⟩

theorem writeEvents_nodup (evs : List Ev) (S R : List Suite) (hS : (S.map (·.key)).Nodup)
    (h : writeEvents S evs = some R) : (R.map (·.key)).Nodup := by
  induction evs generalizing S with
  | nil => simp [writeEvents] at h; subst h; exact hS
  | cons e es ih =>
    simp only [writeEvents] at h
    cases hc : contribution e with
    | none => simp [hc] at h
    | some o =>
      cases o with
      | none => simp only [hc] at h; exact ih S hS h
      | some kc =>
        obtain ⟨k', c⟩ := kc
        simp only [hc] at h
        exact ih _ (addCase_nodup S k' c hS) h

/-! ### Reruns -/

theorem rerunsFrom_some (storeF : Bool) (off : Nat) (rs : List Res) (h : ∀ r ∈ rs, r.isSuccess = false) :
    ∃ rr, rerunsFrom storeF off rs = some rr := by
  induction rs generalizing off with
  | nil => exact ⟨[], rfl⟩
  | cons r rs ih =>
    obtain ⟨rest, hrest⟩ := ih (off + 1) (fun x hx => h x (by simp [hx]))
    have hr := h r (by simp)
    cases r <;> simp [Res.isSuccess] at hr
    all_goals (first
      | (rename_i sg lk; cases sg <;> cases lk <;> simp [rerunsFrom, kindAndType, hrest])
      | simp [rerunsFrom, kindAndType, hrest])

theorem rerunsFrom_spec (storeF : Bool) (off : Nat) (rs : List Res) (rr : List Rerun) (h : rerunsFrom storeF off rs = some rr) :
    rr.length = rs.length ∧ rr.map (·.attempt) = List.range' off rs.length ∧ (∀ x ∈ rr, x.stored = storeF) ∧
    rr.map (fun x => some (x.kind, x.ty)) = rs.map (kindAndType "test") := by
  induction rs generalizing off rr with
  | nil => simp [rerunsFrom] at h; subst h; simp
  | cons r rs ih =>
    simp only [rerunsFrom] at h
    cases hk : kindAndType "test" r with
    | none => simp [hk] at h
    | some kt =>
      obtain ⟨k, ty⟩ := kt
      cases hr : rerunsFrom storeF (off + 1) rs with
      | none => simp [hk, hr] at h
      | some rest =>
        simp only [hk, hr, Option.some.injEq] at h
        subst h
        obtain ⟨h1, h2, h3, h4⟩ := ih (off + 1) rest hr
        refine ⟨by simp [h1], ?_, ?_, ?_⟩
        · simp [h2, List.range'_succ]
        · intro x hx
          rcases List.mem_cons.mp hx with rfl | hx
          · rfl
          · exact h3 x hx
        · simp [h4, hk]

end NextestModel.Junit
