/-
  Invariants of the dispatcher × units system (`Model/System`).
-/
import NextestModel.Model.System
set_option linter.unusedSimpArgs false
namespace NextestModel.System
open NextestModel.Dispatcher

/-- unit `i` is in `running_tests` and its request receiver is open: a broadcast reaches it -/
def registered (d : DState) (i : Nat) : Prop := d.running.any (·.1 == i) = true ∧ d.rxOpen.contains i = true

theorem any_insertSorted (i : Nat) (v : List Res) (j : Nat) : ∀ l : List (Nat × List Res),
    (insertSorted i v l).any (·.1 == j) = ((i == j) || l.any (·.1 == j)) := by
  intro l
  induction l with
  | nil => simp [insertSorted]
  | cons a as ih =>
    obtain ⟨k, w⟩ := a
    simp only [insertSorted]
    split
    · simp
    · simp only [List.any_cons, ih]
      cases (k == j) <;> cases (i == j) <;> simp

theorem any_map_keys (l : List (Nat × List Res)) (f : Nat × List Res → Nat × List Res) (hf : ∀ e, (f e).1 = e.1) (j : Nat) :
    (l.map f).any (·.1 == j) = l.any (·.1 == j) := by
  induction l with
  | nil => rfl
  | cons a as ih => simp only [List.map_cons, List.any_cons, ih, hf]

theorem any_filter_ne (l : List (Nat × List Res)) (i j : Nat) (h : j ≠ i) :
    (l.filter (·.1 != i)).any (·.1 == j) = l.any (·.1 == j) := by
  induction l with
  | nil => rfl
  | cons a as ih =>
    simp only [List.filter_cons]
    by_cases ha : a.1 = i
    · have : (a.1 != i) = false := by simp [ha]
      have h2 : (a.1 == j) = false := by simp [ha]; exact fun e => h e.symm
      simp only [this, Bool.false_eq_true, if_false, List.any_cons, h2, Bool.false_or, ih]
    · have : (a.1 != i) = true := by simp [ha]
      simp only [this, if_true, List.any_cons, ih]

theorem contains_filter_ne (l : List Nat) (i j : Nat) (h : j ≠ i) : (l.filter (· != i)).contains j = l.contains j := by
  induction l with
  | nil => rfl
  | cons a as ih =>
    simp only [List.filter_cons]
    by_cases ha : a = i
    · have : (a != i) = false := by simp [ha]
      have h2 : (j == a) = false := by simp [ha, h]
      simp only [this, Bool.false_eq_true, if_false, List.contains_cons, h2, Bool.false_or, ih]
    · have : (a != i) = true := by simp [ha]
      simp only [this, if_true, List.contains_cons, ih]

/-- the broadcast reaches every registered unit -/
theorem broadcast_reaches (d : DState) (r : Req) (i : Nat) (h : registered d i) : (some i, r) ∈ (d.broadcast r).1 := by
  obtain ⟨h1, h2⟩ := h
  simp only [DState.broadcast, List.mem_append, List.mem_map, List.mem_filter]
  right
  rw [List.any_eq_true] at h1
  obtain ⟨e, he, hk⟩ := h1
  have hk' : e.1 = i := by simpa using hk
  exact ⟨e, ⟨he, by rw [hk']; exact h2⟩, by rw [hk']⟩

theorem beginCancel_reg (s : DState) (reason : CancelReason) (resp : Response) :
    (beginCancel s reason resp).1.running = s.running ∧ (beginCancel s reason resp).1.rxOpen = s.rxOpen := by
  unfold beginCancel
  split
  · exact ⟨rfl, rfl⟩
  · split <;> exact ⟨rfl, rfl⟩

/-- `begin_cancel` sets the cancel state only together with a response that is broadcast as a wake-up request -/
theorem beginCancel_wake (s : DState) (reason : CancelReason) (resp : Response)
    (hresp : resp = .cancelReport ∨ resp = .cancelTestFailure ∨ ∃ r, resp = .cancelSignal r)
    (hc : s.cancel = none) (hc' : (beginCancel s reason resp).1.cancel ≠ none) :
    ∃ r, responseRequest (beginCancel s reason resp).2.1 = some r ∧ isWake r = true := by
  unfold beginCancel at hc' ⊢
  split
  · rename_i h1
    simp only [h1, if_true] at hc'
    exact absurd hc hc'
  · split
    · rcases hresp with rfl | rfl | ⟨r, rfl⟩
      · exact ⟨_, rfl, rfl⟩
      · exact ⟨_, rfl, rfl⟩
      · exact ⟨_, rfl, rfl⟩
    · rename_i h1 h2
      simp only [h1, h2, Bool.false_eq_true, if_false] at hc'
      exact absurd hc hc'

theorem registered_congr {d d' : DState} (h1 : d'.running = d.running) (h2 : d'.rxOpen = d.rxOpen) (j : Nat) :
    registered d' j ↔ registered d j := by
  unfold registered; rw [h1, h2]

/-- what one `handle_event` does to registration and to the cancel state -/
theorem core_facts (d : DState) (e : DEvent) (st : DState) (resp : Response) (reply : Reply) (em : List Emitted)
    (h : stepCore d e = .ok (st, resp, reply, em)) :
    (∀ j, registered d j → (∀ r sl, e ≠ .finished j r sl) → e ≠ .closeRx j → registered st j) ∧
    (d.cancel = none → st.cancel ≠ none → ∃ r, responseRequest resp = some r ∧ isWake r = true) ∧
    (∀ j, e = .started j → reply = .ack → registered st j) := by
  -- the branches that end in `withCancel`
  have wc : ∀ (s1 : DState) (em0 : List Emitted) (reason : CancelReason) (rsp : Response),
      withCancel s1 em0 reason rsp = (st, resp, reply, em) →
      (rsp = .cancelReport ∨ rsp = .cancelTestFailure ∨ ∃ r, rsp = .cancelSignal r) → s1.cancel = d.cancel →
      (∀ j, registered s1 j → registered st j) ∧
      (d.cancel = none → st.cancel ≠ none → ∃ r, responseRequest resp = some r ∧ isWake r = true) := by
    intro s1 em0 reason rsp hw hrsp hc1
    unfold withCancel at hw
    simp only [Prod.mk.injEq] at hw
    obtain ⟨h1, h2, _, _⟩ := hw
    subst h1 h2
    have hr := beginCancel_reg s1 reason rsp
    exact ⟨fun j hj => (registered_congr hr.1 hr.2 j).mpr hj,
           fun hc hc' => beginCancel_wake s1 reason rsp hrsp (by rw [hc1]; exact hc) hc'⟩
  cases e <;> simp only [stepCore] at h
  case closeRx i =>
    simp only [Except.ok.injEq, Prod.mk.injEq] at h
    obtain ⟨rfl, rfl, rfl, rfl⟩ := h
    refine ⟨?_, fun hc hc' => absurd hc hc', fun j hj => by cases hj⟩
    intro j hj _ hne
    have hji : j ≠ i := by intro e; subst e; exact hne rfl
    exact ⟨hj.1, by simp only; rw [contains_filter_ne _ _ _ hji]; exact hj.2⟩
  case scriptCloseRx =>
    simp only [Except.ok.injEq, Prod.mk.injEq] at h
    obtain ⟨rfl, rfl, rfl, rfl⟩ := h
    exact ⟨fun j hj _ _ => hj, fun hc hc' => absurd hc hc', fun j hj => by cases hj⟩
  case started i =>
    split at h
    · simp only [Except.ok.injEq, Prod.mk.injEq] at h
      obtain ⟨rfl, rfl, rfl, rfl⟩ := h
      exact ⟨fun j hj _ _ => hj, fun hc hc' => absurd hc hc', fun j _ hr => by cases hr⟩
    · split at h
      · cases h
      · simp only [Except.ok.injEq, Prod.mk.injEq] at h
        obtain ⟨rfl, rfl, rfl, rfl⟩ := h
        refine ⟨?_, fun hc hc' => absurd hc hc', ?_⟩
        · intro j hj _ _
          refine ⟨by simp only [any_insertSorted]; rw [hj.1]; simp, ?_⟩
          simp only [List.contains_cons]
          by_cases hji : j = i
          · simp [hji]
          · rw [contains_filter_ne _ _ _ hji, hj.2]; simp
        · intro j hj _
          simp only [DEvent.started.injEq] at hj
          subst hj
          exact ⟨by simp [any_insertSorted], by simp⟩
  case retryStarted i a t =>
    split at h <;>
    · simp only [Except.ok.injEq, Prod.mk.injEq] at h
      obtain ⟨rfl, rfl, rfl, rfl⟩ := h
      exact ⟨fun j hj _ _ => hj, fun hc hc' => absurd hc hc', fun j hj => by cases hj⟩
  case attemptFailedWillRetry i r sl =>
    split at h
    · cases h
    · simp only [Except.ok.injEq, Prod.mk.injEq] at h
      obtain ⟨rfl, rfl, rfl, rfl⟩ := h
      refine ⟨?_, fun hc hc' => absurd hc hc', fun j hj => by cases hj⟩
      intro j hj _ _
      exact ⟨by simp only; rw [any_map_keys _ _ (by intro e; split <;> rfl)]; exact hj.1, hj.2⟩
  case finished i r sl =>
    split at h
    · cases h
    · rename_i e0 he0
      have hkeep : ∀ j, registered d j → (∀ r' sl', DEvent.finished i r sl ≠ .finished j r' sl') →
          registered (d.afterFinish i (d.stats.onTestFinished r sl (e0.2 ++ [r]).length)) j := by
        intro j hj hne
        have hji : j ≠ i := by intro e; subst e; exact hne r sl rfl
        exact ⟨by simp only [DState.afterFinish]; rw [any_filter_ne _ _ _ hji]; exact hj.1,
               by simp only [DState.afterFinish]; rw [contains_filter_ne _ _ _ hji]; exact hj.2⟩
      split at h
      · simp only [Except.ok.injEq] at h
        obtain ⟨w1, w2⟩ := wc _ _ _ _ h (Or.inr (Or.inl rfl)) (by simp [DState.afterFinish])
        exact ⟨fun j hj hne _ => w1 j (hkeep j hj hne), w2, fun j hj => by cases hj⟩
      · simp only [Except.ok.injEq, Prod.mk.injEq] at h
        obtain ⟨rfl, rfl, rfl, rfl⟩ := h
        exact ⟨fun j hj hne _ => hkeep j hj hne, fun hc hc' => absurd (by simpa [DState.afterFinish] using hc) hc',
               fun j hj => by cases hj⟩
  case skipped i =>
    simp only [Except.ok.injEq, Prod.mk.injEq] at h
    obtain ⟨rfl, rfl, rfl, rfl⟩ := h
    exact ⟨fun j hj _ _ => hj, fun hc hc' => absurd hc hc', fun j hj => by cases hj⟩
  case scriptStarted a b =>
    split at h
    · simp only [Except.ok.injEq, Prod.mk.injEq] at h
      obtain ⟨rfl, rfl, rfl, rfl⟩ := h
      exact ⟨fun j hj _ _ => hj, fun hc hc' => absurd hc hc', fun j hj => by cases hj⟩
    · split at h
      · cases h
      · simp only [Except.ok.injEq, Prod.mk.injEq] at h
        obtain ⟨rfl, rfl, rfl, rfl⟩ := h
        exact ⟨fun j hj _ _ => hj, fun hc hc' => absurd hc hc', fun j hj => by cases hj⟩
  case scriptFinished a res =>
    split at h
    · cases h
    · split at h
      · simp only [Except.ok.injEq] at h
        obtain ⟨w1, w2⟩ := wc _ _ _ _ h (Or.inr (Or.inl rfl)) rfl
        exact ⟨fun j hj _ _ => w1 j hj, w2, fun j hj => by cases hj⟩
      · simp only [Except.ok.injEq, Prod.mk.injEq] at h
        obtain ⟨rfl, rfl, rfl, rfl⟩ := h
        exact ⟨fun j hj _ _ => hj, fun hc hc' => absurd hc hc', fun j hj => by cases hj⟩
  case shutdown sg =>
    split at h
    · cases h
    · simp only [Except.ok.injEq] at h
      obtain ⟨w1, w2⟩ := wc _ _ _ _ h (Or.inr (Or.inr ⟨_, rfl⟩)) rfl
      exact ⟨fun j hj _ _ => w1 j hj, w2, fun j hj => by cases hj⟩
  case stop =>
    split at h <;>
    · simp only [Except.ok.injEq, Prod.mk.injEq] at h
      obtain ⟨rfl, rfl, rfl, rfl⟩ := h
      exact ⟨fun j hj _ _ => hj, fun hc hc' => absurd hc hc', fun j hj => by cases hj⟩
  case «continue» =>
    split at h <;>
    · simp only [Except.ok.injEq, Prod.mk.injEq] at h
      obtain ⟨rfl, rfl, rfl, rfl⟩ := h
      exact ⟨fun j hj _ _ => hj, fun hc hc' => absurd hc hc', fun j hj => by cases hj⟩
  case info =>
    simp only [Except.ok.injEq, Prod.mk.injEq] at h
    obtain ⟨rfl, rfl, rfl, rfl⟩ := h
    exact ⟨fun j hj _ _ => hj, fun hc hc' => absurd hc hc', fun j hj => by cases hj⟩
  case reportCancel =>
    simp only [Except.ok.injEq] at h
    obtain ⟨w1, w2⟩ := wc _ _ _ _ h (Or.inl rfl) rfl
    exact ⟨fun j hj _ _ => w1 j hj, w2, fun j hj => by cases hj⟩
  case inputEnter =>
    simp only [Except.ok.injEq, Prod.mk.injEq] at h
    obtain ⟨rfl, rfl, rfl, rfl⟩ := h
    exact ⟨fun j hj _ _ => hj, fun hc hc' => absurd hc hc', fun j hj => by cases hj⟩

/-- what one dispatcher step (`handle_event` + the response's broadcast + the direct deliveries) does -/
theorem dstep_facts (d : DState) (e : DEvent) (d' : DState) (o : Out) (h : Dispatcher.step d e = .ok (d', o)) :
    (∀ j, registered d j → (∀ r sl, e ≠ .finished j r sl) → e ≠ .closeRx j → registered d' j) ∧
    (d.cancel = none → d'.cancel ≠ none → ∀ j, registered d' j → ∃ r, isWake r = true ∧ (some j, r) ∈ o.delivered) ∧
    (∀ j, e = .started j → o.reply = .ack → registered d' j) ∧
    (∀ j r sl, e = .attemptFailedWillRetry j r sl → d.cancel ≠ none → registered d j → (some j, Req.otherCancel) ∈ o.delivered) ∧
    (∀ j r sl, e = .attemptFailedWillRetry j r sl → d'.cancel = d.cancel) := by
  unfold Dispatcher.step at h
  split at h
  · cases h
  · rename_i r hr
    obtain ⟨st, resp, reply, em⟩ := r
    obtain ⟨c1, c2, c3⟩ := core_facts d e st resp reply em hr
    simp only [Except.ok.injEq, Prod.mk.injEq] at h
    obtain ⟨h1, h2⟩ := h
    have hst : (finishStep st resp reply em).1 = st := by unfold finishStep; split <;> rfl
    have hrep : (finishStep st resp reply em).2.reply = reply := by unfold finishStep; split <;> rfl
    have hdel : ∀ rq, responseRequest resp = some rq → ∀ j, registered st j → (some j, rq) ∈ (finishStep st resp reply em).2.delivered := by
      intro rq hrq j hj
      unfold finishStep
      simp only [hrq]
      exact broadcast_reaches st rq j hj
    rw [hst] at h1
    subst h1
    subst h2
    refine ⟨c1, ?_, ?_, ?_, ?_⟩
    · intro hc hc' j hj
      obtain ⟨rq, hrq, hw⟩ := c2 hc hc'
      exact ⟨rq, hw, by simp only [Out.withDirect]; exact List.mem_append_right _ (hdel rq hrq j hj)⟩
    · intro j he hr'
      exact c3 j he (by simpa [Out.withDirect, hrep] using hr')
    · intro j r sl he hc hreg
      subst he
      simp only [Out.withDirect, directDelivery]
      apply List.mem_append_left
      have hcs : d.cancel.isSome = true := by cases hd : d.cancel with
        | none => exact absurd hd hc
        | some _ => rfl
      have hmem : j ∈ d.rxOpen := by simpa using hreg.2
      simp [hcs, hreg.1, hmem]
    · intro j r sl he
      subst he
      simp only [stepCore] at hr
      split at hr
      · cases hr
      · simp only [Except.ok.injEq, Prod.mk.injEq] at hr
        obtain ⟨rfl, _⟩ := hr
        rfl

/-! ### the system invariant -/

def cnt (p : DEvent → Bool) (l : List DEvent) : Nat := (l.filter p).length

theorem cnt_append_single (p : DEvent → Bool) (l : List DEvent) (e : DEvent) : cnt p (l ++ [e]) = cnt p l + (if p e then 1 else 0) := by
  simp only [cnt, List.filter_append, List.length_append, List.filter_cons, List.filter_nil]
  split <;> simp

theorem cnt_cons (p : DEvent → Bool) (l : List DEvent) (e : DEvent) : cnt p (e :: l) = cnt p l + (if p e then 1 else 0) := by
  simp only [cnt, List.filter_cons]
  split <;> simp

theorem cnt_pos_of_mem (p : DEvent → Bool) (l : List DEvent) (e : DEvent) (he : e ∈ l) (hp : p e = true) : 0 < cnt p l := by
  simp only [cnt]
  exact List.length_pos_of_mem (List.mem_filter.mpr ⟨he, hp⟩)

def isStartedOf (i : Nat) : DEvent → Bool
  | .started j => j == i
  | _ => false
def isRetryOf (i : Nat) : DEvent → Bool
  | .retryStarted j _ _ => j == i
  | _ => false
def isFinishedOf (i : Nat) : DEvent → Bool
  | .finished j _ _ => j == i
  | _ => false

/-- the events units send -/
def UnitEvent (e : DEvent) : Prop :=
  (∃ i, e = .started i) ∨ (∃ i a t, e = .retryStarted i a t) ∨ (∃ i r sl, e = .attemptFailedWillRetry i r sl) ∨ (∃ i r sl, e = .finished i r sl)

/-- unit `i` has a wake-up pending: a cancellation request in its mailbox, or its `AttemptFailedWillRetry` still on its way
    to the dispatcher (which answers it with one) -/
def WakePending (s : Sys) (i : Nat) : Prop :=
  (∃ r ∈ s.mail i, isWake r = true) ∨ (∃ r sl, DEvent.attemptFailedWillRetry i r sl ∈ s.chan)

structure Inv (s : Sys) : Prop where
  /-- a unit whose attempt runs, or that is between attempts, is registered with the dispatcher and reachable -/
  reg : ∀ i, (s.phase i = .running ∨ s.phase i = .delay ∨ s.phase i = .waitRetry) → registered s.d i
  unitEv : ∀ e ∈ s.chan, UnitEvent e
  cS : ∀ i, cnt (isStartedOf i) s.chan ≤ (if s.phase i = .waitStart then 1 else 0)
  cR : ∀ i, cnt (isRetryOf i) s.chan ≤ (if s.phase i = .waitRetry then 1 else 0)
  cF : ∀ i, cnt (isFinishedOf i) s.chan ≤ (if s.phase i = .done then 1 else 0)
  /-- **a cancelled run has no unit that would sit out its retry delay** -/
  wake : ∀ i, s.phase i = .delay → s.d.cancel ≠ none → WakePending s i

theorem inv_init (n : Nat) (mf : MaxFail) : Inv (Sys.init n mf) := by
  refine ⟨?_, ?_, ?_, ?_, ?_, ?_⟩ <;> intros <;> simp_all [Sys.init, cnt]

theorem wake_mono {s s' : Sys} (i : Nat) (hm : ∀ r ∈ s.mail i, r ∈ s'.mail i) (hc : ∀ e ∈ s.chan, e ∈ s'.chan)
    (h : WakePending s i) : WakePending s' i := by
  rcases h with ⟨r, hr, hw⟩ | ⟨r, sl, he⟩
  · exact Or.inl ⟨r, hm r hr, hw⟩
  · exact Or.inr ⟨r, sl, hc _ he⟩

/-- appending a unit's message and changing that unit's phase -/
theorem inv_send (s : Sys) (i : Nat) (p : UPhase) (e : DEvent) (h : Inv s)
    (hue : UnitEvent e)
    (hreg : (p = .running ∨ p = .delay ∨ p = .waitRetry) → registered s.d i)
    (hS : ∀ k, isStartedOf k e = true → k = i ∧ p = .waitStart ∧ s.phase i ≠ .waitStart)
    (hR : ∀ k, isRetryOf k e = true → k = i ∧ p = .waitRetry ∧ s.phase i ≠ .waitRetry)
    (hF : ∀ k, isFinishedOf k e = true → k = i ∧ p = .done ∧ s.phase i ≠ .done)
    (hS' : s.phase i = .waitStart → p = .waitStart) (hR' : s.phase i = .waitRetry → p = .waitRetry) (hF' : s.phase i = .done → p = .done)
    (hW : p = .delay → s.d.cancel ≠ none → WakePending (send (setPhase s i p) e) i) :
    Inv (send (setPhase s i p) e) := by
  have hph : ∀ k, (send (setPhase s i p) e).phase k = if k = i then p else s.phase k := fun k => rfl
  have hch : (send (setPhase s i p) e).chan = s.chan ++ [e] := rfl
  have hcount : ∀ (q : Nat → DEvent → Bool) (tgt : UPhase),
      (∀ k, cnt (q k) s.chan ≤ (if s.phase k = tgt then 1 else 0)) →
      (∀ k, q k e = true → k = i ∧ p = tgt ∧ s.phase i ≠ tgt) → (s.phase i = tgt → p = tgt) →
      ∀ k, cnt (q k) (s.chan ++ [e]) ≤ (if (if k = i then p else s.phase k) = tgt then 1 else 0) := by
    intro q tgt hold hnew hkeep k
    rw [cnt_append_single]
    have ho := hold k
    by_cases hq : q k e = true
    · obtain ⟨rfl, rfl, hne⟩ := hnew k hq
      simp only [hq, if_true, hne, if_false] at ho ⊢
      omega
    · simp only [hq, Bool.false_eq_true, if_false, Nat.add_zero]
      by_cases hk : k = i
      · subst hk
        simp only [if_true]
        by_cases ht : s.phase k = tgt
        · rw [hkeep ht]; simp only [ht, if_true] at ho ⊢; exact ho
        · simp only [ht, if_false] at ho; omega
      · simp only [hk, if_false]; exact ho
  refine ⟨?_, ?_, ?_, ?_, ?_, ?_⟩
  · intro k hk
    rw [hph] at hk
    by_cases hki : k = i
    · subst hki; simp only [if_true] at hk; exact hreg hk
    · simp only [hki, if_false] at hk; exact h.reg k hk
  · intro x hx
    rw [hch] at hx
    rcases List.mem_append.mp hx with hx | hx
    · exact h.unitEv x hx
    · simp at hx; subst hx; exact hue
  · intro k; rw [hch, hph]; exact hcount isStartedOf .waitStart h.cS hS hS' k
  · intro k; rw [hch, hph]; exact hcount isRetryOf .waitRetry h.cR hR hR' k
  · intro k; rw [hch, hph]; exact hcount isFinishedOf .done h.cF hF hF' k
  · intro k hk hc
    rw [hph] at hk
    by_cases hki : k = i
    · subst hki; simp only [if_true] at hk; exact hW hk hc
    · simp only [hki, if_false] at hk
      exact wake_mono (s := s) k (fun r hr => hr) (fun x hx => by rw [hch]; exact List.mem_append_left _ hx) (h.wake k hk hc)

theorem mem_deliveredTo (dl : List (Option Nat × Req)) (i : Nat) (r : Req) (h : (some i, r) ∈ dl) : r ∈ deliveredTo dl i := by
  simp only [deliveredTo, List.mem_filterMap]
  exact ⟨(some i, r), h, by simp⟩

def Active (p : UPhase) : Prop := p = .running ∨ p = .delay ∨ p = .waitRetry

/-- a dispatcher step applied to the system (phases unchanged; the channel may lose its head) -/
theorem inv_apply (s : Sys) (h : Inv s) (e : DEvent) (d' : DState) (o : Out) (hd : Dispatcher.step s.d e = .ok (d', o))
    (chan' : List DEvent) (hsub : ∀ x ∈ chan', x ∈ s.chan) (hcnt : ∀ q, cnt q chan' ≤ cnt q s.chan)
    (h1 : ∀ k, Active (s.phase k) → (∀ r sl, e ≠ .finished k r sl) ∧ e ≠ .closeRx k)
    (h3 : ∀ i r sl, DEvent.attemptFailedWillRetry i r sl ∈ s.chan →
      DEvent.attemptFailedWillRetry i r sl ∈ chan' ∨ e = .attemptFailedWillRetry i r sl) :
    Inv (applyOut { s with chan := chan' } d' o) := by
  obtain ⟨f1, f2, _, f4, _⟩ := dstep_facts s.d e d' o hd
  have hreg' : ∀ k, Active (s.phase k) → registered d' k := fun k hk => f1 k (h.reg k hk) (h1 k hk).1 (h1 k hk).2
  refine ⟨hreg', fun x hx => h.unitEv x (hsub x hx), ?_, ?_, ?_, ?_⟩
  · intro k; exact Nat.le_trans (hcnt _) (h.cS k)
  · intro k; exact Nat.le_trans (hcnt _) (h.cR k)
  · intro k; exact Nat.le_trans (hcnt _) (h.cF k)
  · intro k hk hc'
    have hk' : s.phase k = .delay := hk
    have hc'' : d'.cancel ≠ none := hc'
    have hact : Active (s.phase k) := Or.inr (Or.inl hk')
    show WakePending (applyOut { s with chan := chan' } d' o) k
    by_cases hc : s.d.cancel = none
    · obtain ⟨r, hw, hr⟩ := f2 hc hc'' k (hreg' k hact)
      exact Or.inl ⟨r, List.mem_append_right _ (mem_deliveredTo _ _ _ hr), hw⟩
    · rcases h.wake k hk' hc with ⟨r, hr, hw⟩ | ⟨r, sl, he⟩
      · exact Or.inl ⟨r, List.mem_append_left _ hr, hw⟩
      · rcases h3 k r sl he with hin | heq
        · exact Or.inr ⟨r, sl, hin⟩
        · have := f4 k r sl heq hc (h.reg k hact)
          exact Or.inl ⟨.otherCancel, List.mem_append_right _ (mem_deliveredTo _ _ _ this), rfl⟩

/-- the reply to a `Started` / `RetryStarted`: the unit runs, or is gone (receiver dropped) -/
theorem inv_reply (s : Sys) (h : Inv s) (i : Nat) (ack : Bool)
    (hS0 : cnt (isStartedOf i) s.chan = 0) (hR0 : cnt (isRetryOf i) s.chan = 0) (hnd : s.phase i ≠ .done)
    (hreg : ack = true → registered s.d i) :
    Inv (if ack then setPhase s i .running
         else setPhase { s with d := { s.d with rxOpen := s.d.rxOpen.filter (· != i) } } i .gone) := by
  cases ack with
  | true =>
    simp only [if_true]
    refine ⟨?_, h.unitEv, ?_, ?_, ?_, ?_⟩
    · intro k hk
      by_cases hki : k = i
      · subst hki; exact hreg rfl
      · simp only [setPhase, hki, if_false] at hk; exact h.reg k hk
    · intro k
      by_cases hki : k = i
      · subst hki; simp only [setPhase]; rw [hS0]; exact Nat.zero_le _
      · simp only [setPhase, hki, if_false]; exact h.cS k
    · intro k
      by_cases hki : k = i
      · subst hki; simp only [setPhase]; rw [hR0]; exact Nat.zero_le _
      · simp only [setPhase, hki, if_false]; exact h.cR k
    · intro k
      by_cases hki : k = i
      · subst hki
        have := h.cF k
        simp only [hnd, if_false] at this
        simp only [setPhase]; omega
      · simp only [setPhase, hki, if_false]; exact h.cF k
    · intro k hk hc
      by_cases hki : k = i
      · subst hki; simp [setPhase] at hk
      · simp only [setPhase, hki, if_false] at hk
        exact h.wake k hk hc
  | false =>
    simp only [Bool.false_eq_true, if_false]
    refine ⟨?_, h.unitEv, ?_, ?_, ?_, ?_⟩
    · intro k hk
      by_cases hki : k = i
      · subst hki; simp [setPhase] at hk
      · simp only [setPhase, hki, if_false] at hk
        have := h.reg k hk
        exact ⟨this.1, by simp only [setPhase]; rw [contains_filter_ne _ _ _ hki]; exact this.2⟩
    · intro k
      by_cases hki : k = i
      · subst hki; simp only [setPhase]; rw [hS0]; exact Nat.zero_le _
      · simp only [setPhase, hki, if_false]; exact h.cS k
    · intro k
      by_cases hki : k = i
      · subst hki; simp only [setPhase]; rw [hR0]; exact Nat.zero_le _
      · simp only [setPhase, hki, if_false]; exact h.cR k
    · intro k
      by_cases hki : k = i
      · subst hki
        have := h.cF k
        simp only [hnd, if_false] at this
        simp only [setPhase]; omega
      · simp only [setPhase, hki, if_false]; exact h.cF k
    · intro k hk hc
      by_cases hki : k = i
      · subst hki; simp [setPhase] at hk
      · simp only [setPhase, hki, if_false] at hk
        exact h.wake k hk hc

theorem inv_setMail (s : Sys) (h : Inv s) (i : Nat) (r : Req) (rest : List Req) (hm : s.mail i = r :: rest)
    (hcond : s.phase i = .delay → isWake r = false) : Inv (setMail s i rest) := by
  refine ⟨h.reg, h.unitEv, h.cS, h.cR, h.cF, ?_⟩
  intro k hk hc
  have hk' : s.phase k = .delay := hk
  rcases h.wake k hk' hc with ⟨r', hr', hw⟩ | hch
  · left
    by_cases hki : k = i
    · subst hki
      rw [hm] at hr'
      rcases List.mem_cons.mp hr' with rfl | hin
      · rw [hcond hk'] at hw; cases hw
      · exact ⟨r', by simp only [setMail, if_true]; exact hin, hw⟩
    · exact ⟨r', by simp only [setMail, hki, if_false]; exact hr', hw⟩
  · exact Or.inr hch

theorem unitEvent_ne (e : DEvent) (h : UnitEvent e) (k : Nat) : e ≠ .closeRx k := by
  rcases h with ⟨i, rfl⟩ | ⟨i, a, t, rfl⟩ | ⟨i, r, sl, rfl⟩ | ⟨i, r, sl, rfl⟩ <;> intro e <;> cases e

theorem external_ne (e : DEvent) (h : isExternal e = true) (k : Nat) : (∀ r sl, e ≠ .finished k r sl) ∧ e ≠ .closeRx k := by
  cases e <;> simp [isExternal] at h <;> exact ⟨fun _ _ hh => (by cases hh), fun hh => (by cases hh)⟩

/-- **every transition keeps the invariant** -/
theorem inv_step (s : Sys) (a : Act) (s' : Sys) (h : Inv s) (hs : step s a = some s') : Inv s' := by
  cases a with
  | dispatch i =>
    simp only [step] at hs
    split at hs
    · rename_i hp
      simp only [Option.some.injEq] at hs; subst hs
      apply inv_send s i .waitStart (.started i) h (Or.inl ⟨i, rfl⟩)
      · intro hh; rcases hh with hh | hh | hh <;> cases hh
      · intro k hk; simp only [isStartedOf, beq_iff_eq] at hk; exact ⟨hk.symm, rfl, by rw [hp]; intro e; cases e⟩
      · intro k hk; simp [isRetryOf] at hk
      · intro k hk; simp [isFinishedOf] at hk
      · intro _; rfl
      · intro hh; rw [hp] at hh; cases hh
      · intro hh; rw [hp] at hh; cases hh
      · intro hh; cases hh
    · cases hs
  | exitFinish i r slow =>
    simp only [step] at hs
    split at hs
    · rename_i hp
      simp only [Option.some.injEq] at hs; subst hs
      apply inv_send s i .done (.finished i r slow) h (Or.inr (Or.inr (Or.inr ⟨i, r, slow, rfl⟩)))
      · intro hh; rcases hh with hh | hh | hh <;> cases hh
      · intro k hk; simp [isStartedOf] at hk
      · intro k hk; simp [isRetryOf] at hk
      · intro k hk; simp only [isFinishedOf, beq_iff_eq] at hk; exact ⟨hk.symm, rfl, by rw [hp]; intro e; cases e⟩
      · intro hh; rw [hp] at hh; cases hh
      · intro hh; rw [hp] at hh; cases hh
      · intro _; rfl
      · intro hh; cases hh
    · cases hs
  | exitRetry i r slow =>
    simp only [step] at hs
    split at hs
    · rename_i hp
      simp only [Option.some.injEq] at hs; subst hs
      apply inv_send s i .delay (.attemptFailedWillRetry i r slow) h (Or.inr (Or.inr (Or.inl ⟨i, r, slow, rfl⟩)))
      · intro _; exact h.reg i (Or.inl hp)
      · intro k hk; simp [isStartedOf] at hk
      · intro k hk; simp [isRetryOf] at hk
      · intro k hk; simp [isFinishedOf] at hk
      · intro hh; rw [hp] at hh; cases hh
      · intro hh; rw [hp] at hh; cases hh
      · intro hh; rw [hp] at hh; cases hh
      · intro _ _; exact Or.inr ⟨r, slow, by simp [send]⟩
    · cases hs
  | delayExpires i at' t =>
    simp only [step] at hs
    split at hs
    · rename_i hp
      simp only [Option.some.injEq] at hs; subst hs
      apply inv_send s i .waitRetry (.retryStarted i at' t) h (Or.inr (Or.inl ⟨i, at', t, rfl⟩))
      · intro _; exact h.reg i (Or.inr (Or.inl hp))
      · intro k hk; simp [isStartedOf] at hk
      · intro k hk; simp only [isRetryOf, beq_iff_eq] at hk; exact ⟨hk.symm, rfl, by rw [hp]; intro e; cases e⟩
      · intro k hk; simp [isFinishedOf] at hk
      · intro hh; rw [hp] at hh; cases hh
      · intro _; rfl
      · intro hh; rw [hp] at hh; cases hh
      · intro hh; cases hh
    · cases hs
  | recv i =>
    simp only [step] at hs
    split at hs
    · cases hs
    · rename_i r rest hm
      split at hs
      · rename_i hp
        simp only [Option.some.injEq] at hs; subst hs
        exact inv_setMail s h i r rest hm (by intro hh; rw [hp] at hh; cases hh)
      · rename_i hp
        split at hs
        · rename_i hw
          simp only [Option.some.injEq] at hs; subst hs
          -- woken: RetryStarted is sent; the mailbox loses its head
          have h1 : Inv (send (setPhase s i .waitRetry) (.retryStarted i 0 0)) := by
            apply inv_send s i .waitRetry (.retryStarted i 0 0) h (Or.inr (Or.inl ⟨i, 0, 0, rfl⟩))
            · intro _; exact h.reg i (Or.inr (Or.inl hp))
            · intro k hk; simp [isStartedOf] at hk
            · intro k hk; simp only [isRetryOf, beq_iff_eq] at hk; exact ⟨hk.symm, rfl, by rw [hp]; intro e; cases e⟩
            · intro k hk; simp [isFinishedOf] at hk
            · intro hh; rw [hp] at hh; cases hh
            · intro _; rfl
            · intro hh; rw [hp] at hh; cases hh
            · intro hh; cases hh
          exact inv_setMail _ h1 i r rest hm (by intro hh; simp [send, setPhase] at hh)
        · rename_i hw
          simp only [Option.some.injEq] at hs; subst hs
          exact inv_setMail s h i r rest hm (by intro _; simpa using hw)
      · rename_i hp
        simp only [Option.some.injEq] at hs; subst hs
        exact inv_setMail s h i r rest hm (by intro hh; rw [hp] at hh; cases hh)
      · cases hs
  | external e =>
    simp only [step] at hs
    split at hs
    · rename_i hext
      split at hs
      · cases hs
      · rename_i d' o hd
        simp only [Option.some.injEq] at hs; subst hs
        exact inv_apply s h e d' o hd s.chan (fun x hx => hx) (fun q => Nat.le_refl _)
          (fun k _ => external_ne e hext k) (fun i r sl hin => Or.inl hin)
    · cases hs
  | deliver =>
    simp only [step] at hs
    split at hs
    · cases hs
    · rename_i e rest hch
      split at hs
      · cases hs
      · rename_i d' o hd
        have hue : UnitEvent e := h.unitEv e (by rw [hch]; exact List.mem_cons_self ..)
        have hcntle : ∀ q, cnt q rest ≤ cnt q s.chan := by intro q; rw [hch, cnt_cons]; omega
        have h1 : ∀ k, Active (s.phase k) → (∀ r sl, e ≠ .finished k r sl) ∧ e ≠ .closeRx k := by
          intro k hk
          refine ⟨?_, unitEvent_ne e hue k⟩
          intro r sl heq
          have hc := h.cF k
          rw [hch, cnt_cons, heq] at hc
          simp only [isFinishedOf, beq_self_eq_true, if_true] at hc
          have : s.phase k = .done := by
            by_cases hd' : s.phase k = .done
            · exact hd'
            · simp only [hd', if_false] at hc; omega
          rcases hk with hk | hk | hk <;> rw [this] at hk <;> cases hk
        have hA := inv_apply s h e d' o hd rest (fun x hx => by rw [hch]; exact List.mem_cons_of_mem _ hx) hcntle h1
          (by intro i r sl hin; rw [hch] at hin; rcases List.mem_cons.mp hin with heq | hin'
              · exact Or.inr heq.symm
              · exact Or.inl hin')
        have f3 := (dstep_facts s.d e d' o hd).2.2.1
        split at hs
        · -- Started
          rename_i i
          have hcs := h.cS i
          rw [hch, cnt_cons] at hcs
          simp only [isStartedOf, beq_self_eq_true, if_true] at hcs
          have hp : s.phase i = .waitStart := by
            by_cases hd' : s.phase i = .waitStart
            · exact hd'
            · simp only [hd', if_false] at hcs; omega
          have hS0 : cnt (isStartedOf i) rest = 0 := by simp only [hp, if_true] at hcs; omega
          have hR0 : cnt (isRetryOf i) rest = 0 := by
            have := h.cR i
            rw [hch, cnt_cons] at this
            simp only [isRetryOf, Bool.false_eq_true, if_false, hp] at this
            have hne : ¬ (UPhase.waitStart = UPhase.waitRetry) := by intro e; cases e
            simp only [hne, if_false] at this; omega
          split at hs
          · rename_i hack
            simp only [Option.some.injEq] at hs; subst hs
            have := inv_reply _ hA i true hS0 hR0 (by show s.phase i ≠ .done; rw [hp]; intro e; cases e) (fun _ => f3 i rfl hack)
            simpa using this
          · simp only [Option.some.injEq] at hs; subst hs
            have := inv_reply _ hA i false hS0 hR0 (by show s.phase i ≠ .done; rw [hp]; intro e; cases e) (fun hh => by cases hh)
            simpa using this
        · -- RetryStarted
          rename_i i at' t
          have hcr := h.cR i
          rw [hch, cnt_cons] at hcr
          simp only [isRetryOf, beq_self_eq_true, if_true] at hcr
          have hp : s.phase i = .waitRetry := by
            by_cases hd' : s.phase i = .waitRetry
            · exact hd'
            · simp only [hd', if_false] at hcr; omega
          have hR0 : cnt (isRetryOf i) rest = 0 := by simp only [hp, if_true] at hcr; omega
          have hS0 : cnt (isStartedOf i) rest = 0 := by
            have := h.cS i
            rw [hch, cnt_cons] at this
            simp only [isStartedOf, Bool.false_eq_true, if_false, hp] at this
            have hne : ¬ (UPhase.waitRetry = UPhase.waitStart) := by intro e; cases e
            simp only [hne, if_false] at this; omega
          have hregA : registered d' i := hA.reg i (Or.inr (Or.inr hp))
          split at hs
          · simp only [Option.some.injEq] at hs; subst hs
            have := inv_reply _ hA i true hS0 hR0 (by show s.phase i ≠ .done; rw [hp]; intro e; cases e) (fun _ => hregA)
            simpa using this
          · simp only [Option.some.injEq] at hs; subst hs
            have := inv_reply _ hA i false hS0 hR0 (by show s.phase i ≠ .done; rw [hp]; intro e; cases e) (fun hh => by cases hh)
            simpa using this
        · simp only [Option.some.injEq] at hs; subst hs
          exact hA

/-- the invariant holds in every reachable state -/
theorem inv_run : ∀ (acts : List Act) (s s' : Sys), Inv s → runActs s acts = some s' → Inv s' := by
  intro acts
  induction acts with
  | nil => intro s s' h hr; simp only [runActs, Option.some.injEq] at hr; subst hr; exact h
  | cons a as ih =>
    intro s s' h hr
    simp only [runActs] at hr
    split at hr
    · cases hr
    · rename_i s1 hs
      exact ih s1 s' (inv_step s a s1 h hs) hr

/-! ### the dispatcher never panics in the system -/

/-- test `i` is in `running_tests` -/
def keyed (d : DState) (i : Nat) : Prop := d.running.any (·.1 == i) = true

/-- what one `handle_event` does to the keys of `running_tests` -/
theorem keys_facts (d : DState) (e : DEvent) (st : DState) (resp : Response) (reply : Reply) (em : List Emitted)
    (h : stepCore d e = .ok (st, resp, reply, em)) (j : Nat) :
    (keyed st j → keyed d j ∨ (e = .started j ∧ reply = .ack)) ∧
    (keyed d j → (∀ r sl, e ≠ .finished j r sl) → keyed st j) ∧
    (∀ r sl, e = .finished j r sl → ¬ keyed st j) := by
  have wc : ∀ (s1 : DState) (em0 : List Emitted) (reason : CancelReason) (rsp : Response),
      withCancel s1 em0 reason rsp = (st, resp, reply, em) → st.running = s1.running := by
    intro s1 em0 reason rsp hw
    unfold withCancel at hw
    simp only [Prod.mk.injEq] at hw
    obtain ⟨h1, _⟩ := hw
    subst h1
    exact (beginCancel_reg s1 reason rsp).1
  have same : st.running = d.running → (keyed st j → keyed d j ∨ (e = .started j ∧ reply = .ack)) ∧
      (keyed d j → (∀ r sl, e ≠ .finished j r sl) → keyed st j) := by
    intro hr; unfold keyed; rw [hr]; exact ⟨fun h => Or.inl h, fun h _ => h⟩
  cases e <;> simp only [stepCore] at h
  case closeRx i =>
    simp only [Except.ok.injEq, Prod.mk.injEq] at h; obtain ⟨rfl, rfl, rfl, rfl⟩ := h
    exact ⟨(same rfl).1, (same rfl).2, fun r sl hh => by cases hh⟩
  case scriptCloseRx =>
    simp only [Except.ok.injEq, Prod.mk.injEq] at h; obtain ⟨rfl, rfl, rfl, rfl⟩ := h
    exact ⟨(same rfl).1, (same rfl).2, fun r sl hh => by cases hh⟩
  case started i =>
    split at h
    · simp only [Except.ok.injEq, Prod.mk.injEq] at h; obtain ⟨rfl, rfl, rfl, rfl⟩ := h
      exact ⟨(same rfl).1, (same rfl).2, fun r sl hh => by cases hh⟩
    · split at h
      · cases h
      · simp only [Except.ok.injEq, Prod.mk.injEq] at h; obtain ⟨rfl, rfl, rfl, rfl⟩ := h
        refine ⟨?_, ?_, fun r sl hh => by cases hh⟩
        · intro hk
          simp only [keyed, any_insertSorted, Bool.or_eq_true, beq_iff_eq] at hk
          rcases hk with rfl | hk
          · exact Or.inr ⟨rfl, rfl⟩
          · exact Or.inl hk
        · intro hk _
          simp only [keyed, any_insertSorted, Bool.or_eq_true]
          exact Or.inr hk
  case retryStarted i a t =>
    split at h <;>
    · simp only [Except.ok.injEq, Prod.mk.injEq] at h; obtain ⟨rfl, rfl, rfl, rfl⟩ := h
      exact ⟨(same rfl).1, (same rfl).2, fun r sl hh => by cases hh⟩
  case attemptFailedWillRetry i r sl =>
    split at h
    · cases h
    · simp only [Except.ok.injEq, Prod.mk.injEq] at h; obtain ⟨rfl, rfl, rfl, rfl⟩ := h
      have hk : ∀ x, (d.running.map (fun e => if (e.1 == i) = true then (e.1, e.2 ++ [r]) else e)).any (·.1 == x) = d.running.any (·.1 == x) :=
        fun x => any_map_keys _ _ (by intro e; split <;> rfl) x
      refine ⟨?_, ?_, fun r sl hh => by cases hh⟩
      · intro h1; left; unfold keyed at *; simp only at h1; rw [hk] at h1; exact h1
      · intro h1 _; unfold keyed at *; simp only; rw [hk]; exact h1
  case finished i r sl =>
    split at h
    · cases h
    · rename_i e0 he0
      have hrun : st.running = d.running.filter (·.1 != i) := by
        split at h
        · simp only [Except.ok.injEq] at h
          rw [wc _ _ _ _ h]; rfl
        · simp only [Except.ok.injEq, Prod.mk.injEq] at h; obtain ⟨rfl, _⟩ := h; rfl
      refine ⟨?_, ?_, ?_⟩
      · intro hk
        left
        unfold keyed at *
        rw [hrun] at hk
        by_cases hji : j = i
        · subst hji
          simp only [List.any_filter] at hk
          rw [List.any_eq_true] at hk
          obtain ⟨x, _, hx⟩ := hk
          simp at hx
        · rw [any_filter_ne _ _ _ hji] at hk; exact hk
      · intro hk hne
        have hji : j ≠ i := by intro e; subst e; exact hne r sl rfl
        unfold keyed at *
        rw [hrun, any_filter_ne _ _ _ hji]; exact hk
      · intro r' sl' heq
        simp only [DEvent.finished.injEq] at heq
        obtain ⟨rfl, _, _⟩ := heq
        unfold keyed
        rw [hrun]
        simp only [List.any_filter]
        rw [List.any_eq_true]
        rintro ⟨x, _, hx⟩
        simp at hx
  case skipped i =>
    simp only [Except.ok.injEq, Prod.mk.injEq] at h; obtain ⟨rfl, rfl, rfl, rfl⟩ := h
    exact ⟨(same rfl).1, (same rfl).2, fun r sl hh => by cases hh⟩
  case scriptStarted a b =>
    split at h
    · simp only [Except.ok.injEq, Prod.mk.injEq] at h; obtain ⟨rfl, rfl, rfl, rfl⟩ := h
      exact ⟨(same rfl).1, (same rfl).2, fun r sl hh => by cases hh⟩
    · split at h
      · cases h
      · simp only [Except.ok.injEq, Prod.mk.injEq] at h; obtain ⟨rfl, rfl, rfl, rfl⟩ := h
        exact ⟨(same rfl).1, (same rfl).2, fun r sl hh => by cases hh⟩
  case scriptFinished a res =>
    split at h
    · cases h
    · split at h
      · simp only [Except.ok.injEq] at h
        have := wc _ _ _ _ h
        exact ⟨(same this).1, (same this).2, fun r sl hh => by cases hh⟩
      · simp only [Except.ok.injEq, Prod.mk.injEq] at h; obtain ⟨rfl, rfl, rfl, rfl⟩ := h
        exact ⟨(same rfl).1, (same rfl).2, fun r sl hh => by cases hh⟩
  case shutdown sg =>
    split at h
    · cases h
    · simp only [Except.ok.injEq] at h
      have := wc _ _ _ _ h
      exact ⟨(same this).1, (same this).2, fun r sl hh => by cases hh⟩
  case stop =>
    split at h <;>
    · simp only [Except.ok.injEq, Prod.mk.injEq] at h; obtain ⟨rfl, rfl, rfl, rfl⟩ := h
      exact ⟨(same rfl).1, (same rfl).2, fun r sl hh => by cases hh⟩
  case «continue» =>
    split at h <;>
    · simp only [Except.ok.injEq, Prod.mk.injEq] at h; obtain ⟨rfl, rfl, rfl, rfl⟩ := h
      exact ⟨(same rfl).1, (same rfl).2, fun r sl hh => by cases hh⟩
  case info =>
    simp only [Except.ok.injEq, Prod.mk.injEq] at h; obtain ⟨rfl, rfl, rfl, rfl⟩ := h
    exact ⟨(same rfl).1, (same rfl).2, fun r sl hh => by cases hh⟩
  case reportCancel =>
    simp only [Except.ok.injEq] at h
    have := wc _ _ _ _ h
    exact ⟨(same this).1, (same this).2, fun r sl hh => by cases hh⟩
  case inputEnter =>
    simp only [Except.ok.injEq, Prod.mk.injEq] at h; obtain ⟨rfl, rfl, rfl, rfl⟩ := h
    exact ⟨(same rfl).1, (same rfl).2, fun r sl hh => by cases hh⟩

/-- the unit an executor event belongs to -/
def mentions (i : Nat) : DEvent → Bool
  | .started j => j == i
  | .retryStarted j _ _ => j == i
  | .attemptFailedWillRetry j _ _ => j == i
  | .finished j _ _ => j == i
  | _ => false

/-- unit `i`'s undelivered messages, in order -/
def proj (i : Nat) (l : List DEvent) : List DEvent := l.filter (mentions i)

/-- what unit `i`'s undelivered messages can be, phase by phase (the channel is FIFO and a unit is sequential) -/
def Pat (i : Nat) : UPhase → List DEvent → Prop
  | .notStarted, l => l = []
  | .waitStart, l => l = [.started i]
  | .running, l => l = []
  | .delay, l => l = [] ∨ ∃ r sl, l = [.attemptFailedWillRetry i r sl]
  | .waitRetry, l => (∃ a t, l = [.retryStarted i a t]) ∨ ∃ r sl a t, l = [.attemptFailedWillRetry i r sl, .retryStarted i a t]
  | .done, l => l = [] ∨ ∃ r sl, l = [.finished i r sl]
  | .gone, l => l = []

structure Inv2 (s : Sys) : Prop where
  pat : ∀ i, Pat i (s.phase i) (proj i s.chan)
  /-- a unit that has not been acknowledged is not in `running_tests` -/
  k1 : ∀ i, (s.phase i = .notStarted ∨ s.phase i = .waitStart) → ¬ keyed s.d i
  /-- a unit whose `Finished` is still on its way is -/
  k2 : ∀ i, s.phase i = .done → proj i s.chan ≠ [] → keyed s.d i

theorem inv2_init (n : Nat) (mf : MaxFail) : Inv2 (Sys.init n mf) := by
  refine ⟨?_, ?_, ?_⟩ <;> intros <;> simp_all [Sys.init, proj, Pat, keyed, DState.init]

theorem proj_append_single (i : Nat) (l : List DEvent) (e : DEvent) :
    proj i (l ++ [e]) = proj i l ++ (if mentions i e then [e] else []) := by
  simp only [proj, List.filter_append, List.filter_cons, List.filter_nil]

theorem proj_cons (i : Nat) (l : List DEvent) (e : DEvent) :
    proj i (e :: l) = if mentions i e then e :: proj i l else proj i l := by
  simp only [proj, List.filter_cons]

/-- the dispatcher step's effect on the keys -/
theorem dstep_keys (d : DState) (e : DEvent) (d' : DState) (o : Out) (h : Dispatcher.step d e = .ok (d', o)) (j : Nat) :
    (keyed d' j → keyed d j ∨ (e = .started j ∧ o.reply = .ack)) ∧
    (keyed d j → (∀ r sl, e ≠ .finished j r sl) → keyed d' j) := by
  unfold Dispatcher.step at h
  split at h
  · cases h
  · rename_i r hr
    obtain ⟨st, resp, reply, em⟩ := r
    obtain ⟨c1, c2, _⟩ := keys_facts d e st resp reply em hr j
    simp only [Except.ok.injEq, Prod.mk.injEq] at h
    obtain ⟨h1, h2⟩ := h
    have hst : (finishStep st resp reply em).1 = st := by unfold finishStep; split <;> rfl
    have hrep : (finishStep st resp reply em).2.reply = reply := by unfold finishStep; split <;> rfl
    rw [hst] at h1
    subst h1 h2
    refine ⟨fun hk => ?_, c2⟩
    rcases c1 hk with h' | ⟨h1', h2'⟩
    · exact Or.inl h'
    · exact Or.inr ⟨h1', by simpa [Out.withDirect, hrep] using h2'⟩

theorem find_of_any (l : List (Nat × List Res)) (i : Nat) (h : l.any (·.1 == i) = true) : ∃ x, l.find? (·.1 == i) = some x := by
  induction l with
  | nil => simp at h
  | cons a as ih =>
    by_cases ha : (a.1 == i) = true
    · exact ⟨a, by simp [List.find?_cons, ha]⟩
    · simp only [List.any_cons, ha, Bool.false_or] at h
      obtain ⟨x, hx⟩ := ih h
      exact ⟨x, by simp [List.find?_cons, ha, hx]⟩

/-- the head of a unit's undelivered messages tells its phase -/
theorem pat_head (i : Nat) (p : UPhase) (e : DEvent) (tl : List DEvent) (h : Pat i p (e :: tl)) :
    (e = .started i → p = .waitStart ∧ tl = []) ∧
    (∀ a t, e = .retryStarted i a t → p = .waitRetry ∧ tl = []) ∧
    (∀ r sl, e = .attemptFailedWillRetry i r sl → (p = .delay ∧ tl = []) ∨ (p = .waitRetry ∧ ∃ a t, tl = [.retryStarted i a t])) ∧
    (∀ r sl, e = .finished i r sl → p = .done ∧ tl = []) := by
  cases p <;> simp only [Pat] at h
  case notStarted => cases h
  case waitStart =>
    simp only [List.cons.injEq] at h; obtain ⟨rfl, rfl⟩ := h
    exact ⟨fun _ => ⟨rfl, rfl⟩, fun a t hh => (by cases hh), fun r sl hh => (by cases hh), fun r sl hh => by cases hh⟩
  case running => cases h
  case delay =>
    rcases h with h | ⟨r, sl, h⟩
    · cases h
    · simp only [List.cons.injEq] at h; obtain ⟨rfl, rfl⟩ := h
      exact ⟨fun hh => (by cases hh), fun a t hh => (by cases hh), fun r sl _ => Or.inl ⟨rfl, rfl⟩, fun r sl hh => by cases hh⟩
  case waitRetry =>
    rcases h with ⟨a, t, h⟩ | ⟨r, sl, a, t, h⟩
    · simp only [List.cons.injEq] at h; obtain ⟨rfl, rfl⟩ := h
      exact ⟨fun hh => (by cases hh), fun a t _ => ⟨rfl, rfl⟩, fun r sl hh => (by cases hh), fun r sl hh => by cases hh⟩
    · simp only [List.cons.injEq] at h; obtain ⟨rfl, rfl⟩ := h
      exact ⟨fun hh => (by cases hh), fun a t hh => (by cases hh), fun r sl _ => Or.inr ⟨rfl, a, t, rfl⟩, fun r sl hh => by cases hh⟩
  case done =>
    rcases h with h | ⟨r, sl, h⟩
    · cases h
    · simp only [List.cons.injEq] at h; obtain ⟨rfl, rfl⟩ := h
      exact ⟨fun hh => (by cases hh), fun a t hh => (by cases hh), fun r sl hh => (by cases hh), fun r sl _ => ⟨rfl, rfl⟩⟩
  case gone => cases h

theorem inv2_send (s : Sys) (i : Nat) (p : UPhase) (e : DEvent) (h2 : Inv2 s)
    (hm : ∀ k, mentions k e = (i == k))
    (hpat : Pat i p (proj i s.chan ++ [e]))
    (hk1 : (p = .notStarted ∨ p = .waitStart) → ¬ keyed s.d i)
    (hk2 : p = .done → keyed s.d i) : Inv2 (send (setPhase s i p) e) := by
  have hph : ∀ k, (send (setPhase s i p) e).phase k = if k = i then p else s.phase k := fun k => rfl
  have hch : (send (setPhase s i p) e).chan = s.chan ++ [e] := rfl
  have hprojk : ∀ k, k ≠ i → proj k (s.chan ++ [e]) = proj k s.chan := by
    intro k hk
    rw [proj_append_single, hm k]
    have : (i == k) = false := by simp; exact fun e => hk e.symm
    simp [this]
  have hproji : proj i (s.chan ++ [e]) = proj i s.chan ++ [e] := by
    rw [proj_append_single, hm i]; simp
  refine ⟨?_, ?_, ?_⟩
  · intro k
    rw [hph, hch]
    by_cases hk : k = i
    · subst hk; simp only [if_true]; rw [hproji]; exact hpat
    · simp only [hk, if_false]; rw [hprojk k hk]; exact h2.pat k
  · intro k hk
    rw [hph] at hk
    by_cases hki : k = i
    · subst hki; simp only [if_true] at hk; exact hk1 hk
    · simp only [hki, if_false] at hk; exact h2.k1 k hk
  · intro k hk hne
    rw [hph] at hk
    by_cases hki : k = i
    · subst hki; simp only [if_true] at hk; exact hk2 hk
    · simp only [hki, if_false] at hk
      rw [hch, hprojk k hki] at hne
      exact h2.k2 k hk hne

/-- the dispatcher's step applied: keys change only by an acknowledged start and a processed finish -/
theorem inv2_keys (s : Sys) (h2 : Inv2 s) (e : DEvent) (d' : DState) (o : Out) (hd : Dispatcher.step s.d e = .ok (d', o))
    (chan' : List DEvent) (hpat : ∀ i, Pat i (s.phase i) (proj i chan'))
    (hne1 : ∀ j, (s.phase j = .notStarted ∨ s.phase j = .waitStart) → ¬ (e = .started j ∧ o.reply = .ack))
    (hne2 : ∀ j, s.phase j = .done → proj j chan' ≠ [] → proj j s.chan ≠ [] ∧ ∀ r sl, e ≠ .finished j r sl) :
    Inv2 (applyOut { s with chan := chan' } d' o) := by
  refine ⟨hpat, ?_, ?_⟩
  · intro j hj hk
    have hk' : keyed d' j := hk
    rcases (dstep_keys s.d e d' o hd j).1 hk' with h | h
    · exact h2.k1 j hj h
    · exact hne1 j hj h
  · intro j hj hne
    obtain ⟨h1, h2'⟩ := hne2 j hj hne
    exact (dstep_keys s.d e d' o hd j).2 (h2.k2 j hj h1) h2'

theorem inv2_reply (s : Sys) (h2 : Inv2 s) (i : Nat) (ack : Bool) (hp : proj i s.chan = [])
    (hph : s.phase i = .waitStart ∨ s.phase i = .waitRetry) :
    Inv2 (if ack then setPhase s i .running
          else setPhase { s with d := { s.d with rxOpen := s.d.rxOpen.filter (· != i) } } i .gone) := by
  have hne : s.phase i ≠ .done := by rcases hph with h | h <;> rw [h] <;> intro e <;> cases e
  cases ack with
  | true =>
    simp only [if_true]
    refine ⟨?_, ?_, ?_⟩
    · intro k
      by_cases hk : k = i
      · subst hk; simp only [setPhase, if_true, Pat]; exact hp
      · simp only [setPhase, hk, if_false]; exact h2.pat k
    · intro k hk
      by_cases hki : k = i
      · subst hki; simp [setPhase] at hk
      · simp only [setPhase, hki, if_false] at hk; exact h2.k1 k hk
    · intro k hk hne'
      by_cases hki : k = i
      · subst hki; simp [setPhase] at hk
      · simp only [setPhase, hki, if_false] at hk; exact h2.k2 k hk hne'
  | false =>
    simp only [Bool.false_eq_true, if_false]
    refine ⟨?_, ?_, ?_⟩
    · intro k
      by_cases hk : k = i
      · subst hk; simp only [setPhase, if_true, Pat]; exact hp
      · simp only [setPhase, hk, if_false]; exact h2.pat k
    · intro k hk
      by_cases hki : k = i
      · subst hki; simp [setPhase] at hk
      · simp only [setPhase, hki, if_false] at hk; exact h2.k1 k hk
    · intro k hk hne'
      by_cases hki : k = i
      · subst hki; simp [setPhase] at hk
      · simp only [setPhase, hki, if_false] at hk; exact h2.k2 k hk hne'

theorem inv2_final (s : Sys) (h2 : Inv2 s) (e : DEvent) (d' : DState) (o : Out) (hd : Dispatcher.step s.d e = .ok (d', o)) (s' : Sys)
    (hd' : ∀ j, keyed s'.d j ↔ keyed d' j)
    (hpat : ∀ i, Pat i (s'.phase i) (proj i s'.chan))
    (hk1 : ∀ j, (s'.phase j = .notStarted ∨ s'.phase j = .waitStart) →
      (s.phase j = .notStarted ∨ s.phase j = .waitStart) ∧ ¬ (e = .started j ∧ o.reply = .ack))
    (hk2 : ∀ j, s'.phase j = .done → proj j s'.chan ≠ [] →
      s.phase j = .done ∧ proj j s.chan ≠ [] ∧ ∀ r sl, e ≠ .finished j r sl) : Inv2 s' := by
  refine ⟨hpat, ?_, ?_⟩
  · intro j hj hk
    obtain ⟨h1, h3⟩ := hk1 j hj
    rcases (dstep_keys s.d e d' o hd j).1 ((hd' j).mp hk) with h | h
    · exact h2.k1 j h1 h
    · exact h3 h
  · intro j hj hne
    obtain ⟨h1, h3, h4⟩ := hk2 j hj hne
    exact (hd' j).mpr ((dstep_keys s.d e d' o hd j).2 (h2.k2 j h1 h3) h4)

theorem mentions_started (i k : Nat) : mentions k (.started i) = (i == k) := rfl
theorem mentions_retry (i a t k : Nat) : mentions k (.retryStarted i a t) = (i == k) := rfl
theorem mentions_failed (i : Nat) (r : Res) (sl : Bool) (k : Nat) : mentions k (.attemptFailedWillRetry i r sl) = (i == k) := rfl
theorem mentions_finished (i : Nat) (r : Res) (sl : Bool) (k : Nat) : mentions k (.finished i r sl) = (i == k) := rfl

theorem external_mentions (e : DEvent) (h : isExternal e = true) (k : Nat) : mentions k e = false := by
  cases e <;> simp [isExternal] at h <;> rfl

/-- every transition keeps the second invariant too -/
theorem inv2_step (s : Sys) (a : Act) (s' : Sys) (h : Inv s) (h2 : Inv2 s) (hs : step s a = some s') : Inv2 s' := by
  cases a with
  | dispatch i =>
    simp only [step] at hs
    split at hs
    · rename_i hp
      simp only [Option.some.injEq] at hs; subst hs
      have hpi := h2.pat i
      rw [hp] at hpi
      simp only [Pat] at hpi
      exact inv2_send s i .waitStart (.started i) h2 (mentions_started i) (by rw [hpi]; rfl)
        (fun _ => h2.k1 i (Or.inl hp)) (fun hh => by cases hh)
    · cases hs
  | exitFinish i r slow =>
    simp only [step] at hs
    split at hs
    · rename_i hp
      simp only [Option.some.injEq] at hs; subst hs
      have hpi := h2.pat i
      rw [hp] at hpi
      simp only [Pat] at hpi
      exact inv2_send s i .done (.finished i r slow) h2 (mentions_finished i r slow) (by rw [hpi]; exact Or.inr ⟨r, slow, rfl⟩)
        (fun hh => by rcases hh with hh | hh <;> cases hh) (fun _ => (h.reg i (Or.inl hp)).1)
    · cases hs
  | exitRetry i r slow =>
    simp only [step] at hs
    split at hs
    · rename_i hp
      simp only [Option.some.injEq] at hs; subst hs
      have hpi := h2.pat i
      rw [hp] at hpi
      simp only [Pat] at hpi
      exact inv2_send s i .delay (.attemptFailedWillRetry i r slow) h2 (mentions_failed i r slow) (by rw [hpi]; exact Or.inr ⟨r, slow, rfl⟩)
        (fun hh => by rcases hh with hh | hh <;> cases hh) (fun hh => by cases hh)
    · cases hs
  | delayExpires i at' t =>
    simp only [step] at hs
    split at hs
    · rename_i hp
      simp only [Option.some.injEq] at hs; subst hs
      have hpi := h2.pat i
      rw [hp] at hpi
      simp only [Pat] at hpi
      refine inv2_send s i .waitRetry (.retryStarted i at' t) h2 (mentions_retry i at' t) ?_
        (fun hh => by rcases hh with hh | hh <;> cases hh) (fun hh => by cases hh)
      rcases hpi with hpi | ⟨r, sl, hpi⟩
      · rw [hpi]; exact Or.inl ⟨at', t, rfl⟩
      · rw [hpi]; exact Or.inr ⟨r, sl, at', t, rfl⟩
    · cases hs
  | recv i =>
    simp only [step] at hs
    split at hs
    · cases hs
    · rename_i r rest hm
      split at hs
      · simp only [Option.some.injEq] at hs; subst hs; exact ⟨h2.pat, h2.k1, h2.k2⟩
      · rename_i hp
        split at hs
        · simp only [Option.some.injEq] at hs; subst hs
          have hpi := h2.pat i
          rw [hp] at hpi
          simp only [Pat] at hpi
          have h2m : Inv2 (setMail s i rest) := ⟨h2.pat, h2.k1, h2.k2⟩
          refine inv2_send (setMail s i rest) i .waitRetry (.retryStarted i 0 0) h2m (mentions_retry i 0 0) ?_
            (fun hh => by rcases hh with hh | hh <;> cases hh) (fun hh => by cases hh)
          show Pat i .waitRetry (proj i s.chan ++ [.retryStarted i 0 0])
          rcases hpi with hpi | ⟨r', sl, hpi⟩
          · rw [hpi]; exact Or.inl ⟨0, 0, rfl⟩
          · rw [hpi]; exact Or.inr ⟨r', sl, 0, 0, rfl⟩
        · simp only [Option.some.injEq] at hs; subst hs; exact ⟨h2.pat, h2.k1, h2.k2⟩
      · simp only [Option.some.injEq] at hs; subst hs; exact ⟨h2.pat, h2.k1, h2.k2⟩
      · cases hs
  | external e =>
    simp only [step] at hs
    split at hs
    · rename_i hext
      split at hs
      · cases hs
      · rename_i d' o hd
        simp only [Option.some.injEq] at hs; subst hs
        refine inv2_final s h2 e d' o hd _ (fun j => Iff.rfl) h2.pat ?_ ?_
        · intro j hj
          refine ⟨hj, ?_⟩
          rintro ⟨he, _⟩
          rw [he] at hext; cases hext
        · intro j hj hne
          exact ⟨hj, hne, (external_ne e hext j).1⟩
    · cases hs
  | deliver =>
    simp only [step] at hs
    split at hs
    · cases hs
    · rename_i e rest hch
      split at hs
      · cases hs
      · rename_i d' o hd
        have hue : UnitEvent e := h.unitEv e (by rw [hch]; exact List.mem_cons_self ..)
        -- the unit `u` the head belongs to; all other units' projections are untouched
        have key : ∀ u, (∀ k, mentions k e = (u == k)) →
            proj u s.chan = e :: proj u rest ∧ ∀ k, k ≠ u → proj k s.chan = proj k rest := by
          intro u hm
          refine ⟨by rw [hch, proj_cons, hm u]; simp, ?_⟩
          intro k hk
          rw [hch, proj_cons, hm k]
          have : (u == k) = false := by simp; exact fun e => hk e.symm
          simp [this]
        split at hs
        · -- Started
          rename_i i
          obtain ⟨hpi, hpk⟩ := key i (mentions_started i)
          have hpat := h2.pat i
          rw [hpi] at hpat
          obtain ⟨hph, hrest⟩ := (pat_head i _ _ _ hpat).1 rfl
          have hfin : ∀ (ack : Bool) (s'' : Sys), s'' = (if ack then setPhase (applyOut { s with chan := rest } d' o) i .running
              else setPhase { (applyOut { s with chan := rest } d' o) with d := { d' with rxOpen := d'.rxOpen.filter (· != i) } } i .gone) →
              (ack = true ↔ o.reply = .ack) → Inv2 s'' := by
            intro ack s'' hs'' hack
            have hphase : ∀ k, s''.phase k = if k = i then (if ack then .running else .gone) else s.phase k := by
              intro k; subst hs''; cases ack <;> rfl
            have hchan : s''.chan = rest := by subst hs''; cases ack <;> rfl
            refine inv2_final s h2 _ d' o hd s'' (by intro j; subst hs''; cases ack <;> exact Iff.rfl) ?_ ?_ ?_
            · intro k
              rw [hphase, hchan]
              by_cases hk : k = i
              · subst hk; simp only [if_true]; rw [hrest]; cases ack <;> rfl
              · simp only [hk, if_false]; rw [← hpk k hk]; exact h2.pat k
            · intro j hj
              rw [hphase] at hj
              by_cases hji : j = i
              · subst hji; simp only [if_true] at hj; cases ack <;> rcases hj with hj | hj <;> cases hj
              · simp only [hji, if_false] at hj
                refine ⟨hj, ?_⟩
                rintro ⟨he, _⟩
                simp only [DEvent.started.injEq] at he
                exact hji he.symm
            · intro j hj hne
              rw [hphase] at hj
              rw [hchan] at hne
              by_cases hji : j = i
              · subst hji; simp only [if_true] at hj; cases ack <;> cases hj
              · simp only [hji, if_false] at hj
                exact ⟨hj, by rw [hpk j hji]; exact hne, fun r sl hh => by cases hh⟩
          split at hs
          · rename_i hack
            simp only [Option.some.injEq] at hs
            exact hfin true s' (by rw [← hs]; rfl) (by simp [hack])
          · rename_i hack
            simp only [Option.some.injEq] at hs
            exact hfin false s' (by rw [← hs]; rfl) (by simp [hack])
        · -- RetryStarted
          rename_i i at' t
          obtain ⟨hpi, hpk⟩ := key i (mentions_retry i at' t)
          have hpat := h2.pat i
          rw [hpi] at hpat
          obtain ⟨hph, hrest⟩ := (pat_head i _ _ _ hpat).2.1 at' t rfl
          have hfin : ∀ (ack : Bool) (s'' : Sys), s'' = (if ack then setPhase (applyOut { s with chan := rest } d' o) i .running
              else setPhase { (applyOut { s with chan := rest } d' o) with d := { d' with rxOpen := d'.rxOpen.filter (· != i) } } i .gone) →
              Inv2 s'' := by
            intro ack s'' hs''
            have hphase : ∀ k, s''.phase k = if k = i then (if ack then .running else .gone) else s.phase k := by
              intro k; subst hs''; cases ack <;> rfl
            have hchan : s''.chan = rest := by subst hs''; cases ack <;> rfl
            refine inv2_final s h2 _ d' o hd s'' (by intro j; subst hs''; cases ack <;> exact Iff.rfl) ?_ ?_ ?_
            · intro k
              rw [hphase, hchan]
              by_cases hk : k = i
              · subst hk; simp only [if_true]; rw [hrest]; cases ack <;> rfl
              · simp only [hk, if_false]; rw [← hpk k hk]; exact h2.pat k
            · intro j hj
              rw [hphase] at hj
              by_cases hji : j = i
              · subst hji; simp only [if_true] at hj; cases ack <;> rcases hj with hj | hj <;> cases hj
              · simp only [hji, if_false] at hj
                exact ⟨hj, fun hh => by cases hh.1⟩
            · intro j hj hne
              rw [hphase] at hj
              rw [hchan] at hne
              by_cases hji : j = i
              · subst hji; simp only [if_true] at hj; cases ack <;> cases hj
              · simp only [hji, if_false] at hj
                exact ⟨hj, by rw [hpk j hji]; exact hne, fun r sl hh => by cases hh⟩
          split at hs
          · simp only [Option.some.injEq] at hs
            exact hfin true s' (by rw [← hs]; rfl)
          · simp only [Option.some.injEq] at hs
            exact hfin false s' (by rw [← hs]; rfl)
        · -- AttemptFailedWillRetry or Finished: phases unchanged
          rename_i hns hnr
          simp only [Option.some.injEq] at hs; subst hs
          rcases hue with ⟨i, rfl⟩ | ⟨i, a, t, rfl⟩ | ⟨i, r, sl, rfl⟩ | ⟨i, r, sl, rfl⟩
          · exact absurd rfl (hns i)
          · exact absurd rfl (hnr i a t)
          · obtain ⟨hpi, hpk⟩ := key i (mentions_failed i r sl)
            have hpat := h2.pat i
            rw [hpi] at hpat
            have hh := (pat_head i _ _ _ hpat).2.2.1 r sl rfl
            refine inv2_final s h2 _ d' o hd _ (fun j => Iff.rfl) ?_ ?_ ?_
            · intro k
              show Pat k (s.phase k) (proj k rest)
              by_cases hk : k = i
              · subst hk
                rcases hh with ⟨hp, hr⟩ | ⟨hp, a, t, hr⟩
                · rw [hp, hr]; exact Or.inl rfl
                · rw [hp, hr]; exact Or.inl ⟨a, t, rfl⟩
              · rw [← hpk k hk]; exact h2.pat k
            · intro j hj
              exact ⟨hj, fun hh' => by cases hh'.1⟩
            · intro j hj hne
              have hne' : proj j rest ≠ [] := hne
              by_cases hji : j = i
              · subst hji
                have hj' : s.phase j = .done := hj
                rcases hh with ⟨hp, _⟩ | ⟨hp, _⟩ <;> rw [hp] at hj' <;> cases hj'
              · exact ⟨hj, by rw [hpk j hji]; exact hne', fun r' sl' hh' => by cases hh'⟩
          · obtain ⟨hpi, hpk⟩ := key i (mentions_finished i r sl)
            have hpat := h2.pat i
            rw [hpi] at hpat
            obtain ⟨hp, hr⟩ := (pat_head i _ _ _ hpat).2.2.2 r sl rfl
            refine inv2_final s h2 _ d' o hd _ (fun j => Iff.rfl) ?_ ?_ ?_
            · intro k
              show Pat k (s.phase k) (proj k rest)
              by_cases hk : k = i
              · subst hk; rw [hp, hr]; exact Or.inl rfl
              · rw [← hpk k hk]; exact h2.pat k
            · intro j hj
              exact ⟨hj, fun hh' => by cases hh'.1⟩
            · intro j hj hne
              have hne' : proj j rest ≠ [] := hne
              by_cases hji : j = i
              · subst hji; exact absurd hr hne'
              · refine ⟨hj, by rw [hpk j hji]; exact hne', ?_⟩
                intro r' sl' hh'
                simp only [DEvent.finished.injEq] at hh'
                exact hji hh'.1.symm

theorem inv12_run : ∀ (acts : List Act) (s s' : Sys), Inv s → Inv2 s → runActs s acts = some s' → Inv s' ∧ Inv2 s' := by
  intro acts
  induction acts with
  | nil => intro s s' h h2 hr; simp only [runActs, Option.some.injEq] at hr; subst hr; exact ⟨h, h2⟩
  | cons a as ih =>
    intro s s' h h2 hr
    simp only [runActs] at hr
    split at hr
    · cases hr
    · rename_i s1 hs
      exact ih s1 s' (inv_step s a s1 h hs) (inv2_step s a s1 h h2 hs) hr

/-- the dispatcher handles the head of the channel without panicking -/
theorem head_no_panic (s : Sys) (h : Inv s) (h2 : Inv2 s) (e : DEvent) (rest : List DEvent) (hch : s.chan = e :: rest) :
    ∃ r, Dispatcher.step s.d e = .ok r := by
  have hue : UnitEvent e := h.unitEv e (by rw [hch]; exact List.mem_cons_self ..)
  have hcore : (∃ r, stepCore s.d e = .ok r) → ∃ r, Dispatcher.step s.d e = .ok r := by
    rintro ⟨r, hr⟩
    unfold Dispatcher.step
    rw [hr]
    exact ⟨_, rfl⟩
  apply hcore
  have hproj : ∀ u, mentions u e = true → proj u s.chan = e :: proj u rest := by
    intro u hm; rw [hch, proj_cons, hm]; simp
  rcases hue with ⟨i, rfl⟩ | ⟨i, a, t, rfl⟩ | ⟨i, r, sl, rfl⟩ | ⟨i, r, sl, rfl⟩
  · -- Started: not yet in `running_tests`
    have hp := h2.pat i
    rw [hproj i (by simp [mentions])] at hp
    obtain ⟨hph, _⟩ := (pat_head i _ _ _ hp).1 rfl
    have hk := h2.k1 i (Or.inr hph)
    simp only [stepCore]
    split
    · exact ⟨_, rfl⟩
    · have : (s.d.running.any (·.1 == i)) = false := by
        cases hh : s.d.running.any (·.1 == i) with
        | false => rfl
        | true => exact absurd hh hk
      simp only [this, Bool.false_eq_true, if_false]
      exact ⟨_, rfl⟩
  · simp only [stepCore]; split <;> exact ⟨_, rfl⟩
  · -- AttemptFailedWillRetry: the unit is between attempts, hence registered
    have hp := h2.pat i
    rw [hproj i (by simp [mentions])] at hp
    have hph := (pat_head i _ _ _ hp).2.2.1 r sl rfl
    have hreg : registered s.d i := by
      rcases hph with ⟨hph, _⟩ | ⟨hph, _⟩
      · exact h.reg i (Or.inr (Or.inl hph))
      · exact h.reg i (Or.inr (Or.inr hph))
    obtain ⟨x, hx⟩ := find_of_any _ _ hreg.1
    simp only [stepCore, hx]
    exact ⟨_, rfl⟩
  · -- Finished: still in `running_tests`
    have hp := h2.pat i
    rw [hproj i (by simp [mentions])] at hp
    obtain ⟨hph, _⟩ := (pat_head i _ _ _ hp).2.2.2 r sl rfl
    have hk := h2.k2 i hph (by rw [hproj i (by simp [mentions])]; simp)
    obtain ⟨x, hx⟩ := find_of_any _ _ hk
    simp only [stepCore, hx]
    split <;> exact ⟨_, rfl⟩

/-- **the dispatcher never panics on what its units send**: whenever the channel is non-empty, `deliver` is enabled -/
theorem deliver_enabled (s : Sys) (h : Inv s) (h2 : Inv2 s) (hne : s.chan ≠ []) : ∃ s', step s .deliver = some s' := by
  cases hch : s.chan with
  | nil => exact absurd hch hne
  | cons e rest =>
    obtain ⟨⟨d', o⟩, hr⟩ := head_no_panic s h h2 e rest hch
    simp only [step, hch, hr]
    split
    · split <;> exact ⟨_, rfl⟩
    · split <;> exact ⟨_, rfl⟩
    · exact ⟨_, rfl⟩

/-! ### a shutdown signal reaches every running unit -/

/-- before the first shutdown signal the cancel state is below the signal level -/
def SigInv (d : DState) : Prop := d.signalCount = 0 → ∀ c, d.cancel = some c → c.rank < 3

theorem beginCancel_sig (s : DState) (reason : CancelReason) (resp : Response) (hr : reason.rank < 3) (h : SigInv s) :
    SigInv (beginCancel s reason resp).1 := by
  unfold beginCancel
  split
  · exact h
  · split
    · intro _ c hc
      simp only [Option.some.injEq] at hc
      subst hc; exact hr
    · exact h

theorem beginCancel_count (s : DState) (reason : CancelReason) (resp : Response) :
    (beginCancel s reason resp).1.signalCount = s.signalCount := by
  unfold beginCancel; split
  · rfl
  · split <;> rfl

theorem sigInv_core (d : DState) (e : DEvent) (st : DState) (resp : Response) (reply : Reply) (em : List Emitted)
    (h : stepCore d e = .ok (st, resp, reply, em)) (hi : SigInv d) : SigInv st := by
  have wc : ∀ (s1 : DState) (em0 : List Emitted) (reason : CancelReason) (rsp : Response),
      withCancel s1 em0 reason rsp = (st, resp, reply, em) → reason.rank < 3 → SigInv s1 → SigInv st := by
    intro s1 em0 reason rsp hw hr h1
    unfold withCancel at hw
    simp only [Prod.mk.injEq] at hw
    obtain ⟨e1, _⟩ := hw
    subst e1
    exact beginCancel_sig s1 reason rsp hr h1
  have same : st.cancel = d.cancel → st.signalCount = d.signalCount → SigInv st := by
    intro h1 h2; unfold SigInv; rw [h1, h2]; exact hi
  cases e <;> simp only [stepCore] at h
  case closeRx i => simp only [Except.ok.injEq, Prod.mk.injEq] at h; obtain ⟨rfl, _⟩ := h; exact same rfl rfl
  case scriptCloseRx => simp only [Except.ok.injEq, Prod.mk.injEq] at h; obtain ⟨rfl, _⟩ := h; exact same rfl rfl
  case started i =>
    split at h
    · simp only [Except.ok.injEq, Prod.mk.injEq] at h; obtain ⟨rfl, _⟩ := h; exact hi
    · split at h
      · cases h
      · simp only [Except.ok.injEq, Prod.mk.injEq] at h; obtain ⟨rfl, _⟩ := h; exact same rfl rfl
  case retryStarted i a t => split at h <;> (simp only [Except.ok.injEq, Prod.mk.injEq] at h; obtain ⟨rfl, _⟩ := h; exact hi)
  case attemptFailedWillRetry i r sl =>
    split at h
    · cases h
    · simp only [Except.ok.injEq, Prod.mk.injEq] at h; obtain ⟨rfl, _⟩ := h; exact same rfl rfl
  case finished i r sl =>
    split at h
    · cases h
    · split at h
      · simp only [Except.ok.injEq] at h
        exact wc _ _ _ _ h (by decide) (by unfold SigInv; simp only [DState.afterFinish]; exact hi)
      · simp only [Except.ok.injEq, Prod.mk.injEq] at h; obtain ⟨rfl, _⟩ := h
        unfold SigInv; simp only [DState.afterFinish]; exact hi
  case skipped i => simp only [Except.ok.injEq, Prod.mk.injEq] at h; obtain ⟨rfl, _⟩ := h; exact same rfl rfl
  case scriptStarted a b =>
    split at h
    · simp only [Except.ok.injEq, Prod.mk.injEq] at h; obtain ⟨rfl, _⟩ := h; exact hi
    · split at h
      · cases h
      · simp only [Except.ok.injEq, Prod.mk.injEq] at h; obtain ⟨rfl, _⟩ := h; exact same rfl rfl
  case scriptFinished a res =>
    split at h
    · cases h
    · split at h
      · simp only [Except.ok.injEq] at h
        exact wc _ _ _ _ h (by decide) (by unfold SigInv; exact hi)
      · simp only [Except.ok.injEq, Prod.mk.injEq] at h; obtain ⟨rfl, _⟩ := h; exact same rfl rfl
  case shutdown sg =>
    split at h
    · cases h
    · simp only [Except.ok.injEq] at h
      unfold withCancel at h
      simp only [Prod.mk.injEq] at h
      obtain ⟨e1, _⟩ := h
      subst e1
      intro hc
      rw [beginCancel_count] at hc
      simp at hc
  case stop => split at h <;> (simp only [Except.ok.injEq, Prod.mk.injEq] at h; obtain ⟨rfl, _⟩ := h; first | exact hi | exact same rfl rfl)
  case «continue» => split at h <;> (simp only [Except.ok.injEq, Prod.mk.injEq] at h; obtain ⟨rfl, _⟩ := h; first | exact hi | exact same rfl rfl)
  case info => simp only [Except.ok.injEq, Prod.mk.injEq] at h; obtain ⟨rfl, _⟩ := h; exact hi
  case reportCancel =>
    simp only [Except.ok.injEq] at h
    exact wc _ _ _ _ h (by decide) hi
  case inputEnter => simp only [Except.ok.injEq, Prod.mk.injEq] at h; obtain ⟨rfl, _⟩ := h; exact hi

theorem sigInv_step (d : DState) (e : DEvent) (d' : DState) (o : Out) (h : Dispatcher.step d e = .ok (d', o)) (hi : SigInv d) :
    SigInv d' := by
  unfold Dispatcher.step at h
  split at h
  · cases h
  · rename_i r hr
    obtain ⟨st, resp, reply, em⟩ := r
    simp only [Except.ok.injEq, Prod.mk.injEq] at h
    obtain ⟨h1, _⟩ := h
    have hst : (finishStep st resp reply em).1 = st := by unfold finishStep; split <;> rfl
    rw [hst] at h1; subst h1
    exact sigInv_core d e st resp reply em hr hi

/-- the request a shutdown signal is turned into: the signal itself the first time, "kill" the second -/
def shutdownReqFor (d : DState) (sg : Sig) : ShutdownReq := if d.signalCount + 1 == 1 then .once sg else .twice

/-- **a shutdown signal is broadcast to every registered unit** (first signal: that signal; second: kill) -/
theorem shutdown_broadcast (d : DState) (sg : Sig) (d' : DState) (o : Out) (hi : SigInv d)
    (h : Dispatcher.step d (.shutdown sg) = .ok (d', o)) (j : Nat) (hj : registered d j) :
    (some j, Req.shutdown (shutdownReqFor d sg)) ∈ o.delivered := by
  unfold Dispatcher.step at h
  split at h
  · cases h
  · rename_i r hr
    obtain ⟨st, resp, reply, em⟩ := r
    simp only [Except.ok.injEq, Prod.mk.injEq] at h
    obtain ⟨_, h2⟩ := h
    subst h2
    simp only [stepCore] at hr
    split at hr
    · cases hr
    · rename_i hcount
      simp only [Except.ok.injEq] at hr
      unfold withCancel at hr
      simp only [Prod.mk.injEq] at hr
      obtain ⟨e1, e2, _, _⟩ := hr
      -- the response is the signal request: `begin_cancel` does not swallow it
      have hresp : resp = .cancelSignal (shutdownReqFor d sg) := by
        rw [← e2]
        unfold beginCancel shutdownReqFor
        simp only
        by_cases hfirst : d.signalCount = 0
        · have hlt : cancelLt d.cancel (sigReason sg) = true := by
            unfold cancelLt
            cases hc : d.cancel with
            | none => rfl
            | some c =>
              have := hi hfirst c hc
              cases c <;> cases sg <;> simp_all [sigReason, CancelReason.rank]
          simp [hfirst, hlt]
        · have : (d.signalCount + 1 == 1) = false := by simp; omega
          simp [this]
      have hreg : registered st j := by
        rw [← e1]
        exact (registered_congr (beginCancel_reg _ _ _).1 (beginCancel_reg _ _ _).2 j).mpr hj
      simp only [Out.withDirect]
      apply List.mem_append_right
      unfold finishStep
      simp only [hresp, responseRequest]
      exact broadcast_reaches st _ j hreg

theorem sig_sys_step (s : Sys) (a : Act) (s' : Sys) (hi : SigInv s.d) (hs : step s a = some s') : SigInv s'.d := by
  cases a with
  | dispatch i =>
    simp only [step] at hs
    split at hs
    · simp only [Option.some.injEq] at hs; subst hs; exact hi
    · cases hs
  | exitFinish i r sl =>
    simp only [step] at hs
    split at hs
    · simp only [Option.some.injEq] at hs; subst hs; exact hi
    · cases hs
  | exitRetry i r sl =>
    simp only [step] at hs
    split at hs
    · simp only [Option.some.injEq] at hs; subst hs; exact hi
    · cases hs
  | delayExpires i a t =>
    simp only [step] at hs
    split at hs
    · simp only [Option.some.injEq] at hs; subst hs; exact hi
    · cases hs
  | recv i =>
    simp only [step] at hs
    split at hs
    · cases hs
    · split at hs
      · simp only [Option.some.injEq] at hs; subst hs; exact hi
      · split at hs <;> (simp only [Option.some.injEq] at hs; subst hs; exact hi)
      · simp only [Option.some.injEq] at hs; subst hs; exact hi
      · cases hs
  | external e =>
    simp only [step] at hs
    split at hs
    · split at hs
      · cases hs
      · rename_i d' o hd
        simp only [Option.some.injEq] at hs; subst hs
        exact sigInv_step s.d e d' o hd hi
    · cases hs
  | deliver =>
    simp only [step] at hs
    split at hs
    · cases hs
    · rename_i e rest hch
      split at hs
      · cases hs
      · rename_i d' o hd
        have := sigInv_step s.d e d' o hd hi
        split at hs
        · split at hs <;> (simp only [Option.some.injEq] at hs; subst hs; exact this)
        · split at hs <;> (simp only [Option.some.injEq] at hs; subst hs; exact this)
        · simp only [Option.some.injEq] at hs; subst hs; exact this

theorem sig_run : ∀ (acts : List Act) (s s' : Sys), SigInv s.d → runActs s acts = some s' → SigInv s'.d := by
  intro acts
  induction acts with
  | nil => intro s s' h hr; simp only [runActs, Option.some.injEq] at hr; subst hr; exact h
  | cons a as ih =>
    intro s s' h hr
    simp only [runActs] at hr
    split at hr
    · cases hr
    · rename_i s1 hs
      exact ih s1 s' (sig_sys_step s a s1 h hs) hr

theorem sigInv_init (n : Nat) (mf : MaxFail) : SigInv (Sys.init n mf).d := by
  intro _ c hc; simp [Sys.init, DState.init] at hc

/-! ### progress: nobody waits for the dispatcher for ever -/

/-- what a delivery does to the channel and to the phases -/
theorem deliver_facts (s s' : Sys) (h : step s .deliver = some s') :
    ∃ e rest, s.chan = e :: rest ∧ s'.chan = rest ∧
      ∀ j, s'.phase j = s.phase j ∨
        ((e = .started j ∨ ∃ a t, e = .retryStarted j a t) ∧ (s'.phase j = .running ∨ s'.phase j = .gone)) := by
  simp only [step] at h
  split at h
  · cases h
  · rename_i e rest hch
    split at h
    · cases h
    · rename_i d' o _
      refine ⟨e, rest, hch, ?_⟩
      have other : ∀ (t : Sys) (i : Nat) (p : UPhase), (p = .running ∨ p = .gone) → (∀ j, t.phase j = s.phase j) →
          (e = .started i ∨ ∃ a b, e = .retryStarted i a b) → ∀ j, (setPhase t i p).phase j = s.phase j ∨
            ((e = .started j ∨ ∃ a b, e = .retryStarted j a b) ∧ ((setPhase t i p).phase j = .running ∨ (setPhase t i p).phase j = .gone)) := by
        intro t i p hp ht he j
        by_cases hj : j = i
        · subst hj
          refine Or.inr ⟨he, ?_⟩
          rcases hp with rfl | rfl <;> simp [setPhase]
        · exact Or.inl (by simp [setPhase, hj, ht j])
      cases e with
      | started i =>
        simp only at h
        split at h <;> (simp only [Option.some.injEq] at h; subst h)
        · exact ⟨rfl, other _ i _ (Or.inl rfl) (fun j => rfl) (Or.inl rfl)⟩
        · exact ⟨rfl, other _ i _ (Or.inr rfl) (fun j => rfl) (Or.inl rfl)⟩
      | retryStarted i a t =>
        simp only at h
        split at h <;> (simp only [Option.some.injEq] at h; subst h)
        · exact ⟨rfl, other _ i _ (Or.inl rfl) (fun j => rfl) (Or.inr ⟨a, t, rfl⟩)⟩
        · exact ⟨rfl, other _ i _ (Or.inr rfl) (fun j => rfl) (Or.inr ⟨a, t, rfl⟩)⟩
      | _ =>
        simp only [Option.some.injEq] at h; subst h
        exact ⟨rfl, fun j => Or.inl rfl⟩

/-- a unit waiting for the reply to its `Started` / `RetryStarted` has it after at most as many deliveries as there are messages in the channel -/
theorem waiting_answered : ∀ (n : Nat) (s : Sys), Inv s → Inv2 s → s.chan.length = n → ∀ i,
    (s.phase i = .waitStart ∨ s.phase i = .waitRetry) →
    ∃ k s', k ≤ n ∧ runActs s (List.replicate k .deliver) = some s' ∧ (s'.phase i = .running ∨ s'.phase i = .gone) := by
  intro n
  induction n with
  | zero =>
    intro s _ h2 hl i hp
    have hch : s.chan = [] := List.eq_nil_of_length_eq_zero hl
    have := h2.pat i
    rw [hch] at this
    rcases hp with hp | hp <;> rw [hp] at this <;> simp [Pat, proj] at this
  | succ n ih =>
    intro s h1 h2 hl i hp
    have hne : s.chan ≠ [] := by intro h; rw [h] at hl; simp at hl
    obtain ⟨s1, hs1⟩ := deliver_enabled s h1 h2 hne
    obtain ⟨e, rest, hch, hch', hph⟩ := deliver_facts s s1 hs1
    have h1' := inv_step s .deliver s1 h1 hs1
    have h2' := inv2_step s .deliver s1 h1 h2 hs1
    rcases hph i with hsame | ⟨_, hdone⟩
    · have hl' : s1.chan.length = n := by rw [hch', ← Nat.succ_inj]; rw [hch] at hl; simpa using hl
      obtain ⟨k, s', hk, hr, hfin⟩ := ih s1 h1' h2' hl' i (by rw [hsame]; exact hp)
      exact ⟨k + 1, s', by omega, by simp [List.replicate_succ, runActs, hs1, hr], hfin⟩
    · exact ⟨1, s1, by omega, by simp [List.replicate, runActs, hs1], hdone⟩


theorem progress_possible (s : Sys) (h2 : Inv2 s) (h1 : Inv s) (i : Nat) (hp : s.phase i ≠ .done ∧ s.phase i ≠ .gone) :
    ∃ a, (a = .dispatch i ∨ a = .deliver ∨ (∃ r sl, a = .exitFinish i r sl) ∨ ∃ x y, a = .delayExpires i x y) ∧
      (step s a).isSome = true := by
  cases hph : s.phase i with
  | notStarted => exact ⟨.dispatch i, Or.inl rfl, by simp [step, hph]⟩
  | waitStart =>
    have hne : s.chan ≠ [] := by
      intro hc; have := h2.pat i; rw [hph, hc] at this; simp [Pat, proj] at this
    obtain ⟨s', hs'⟩ := deliver_enabled s h1 h2 hne
    exact ⟨.deliver, Or.inr (Or.inl rfl), by rw [hs']; rfl⟩
  | waitRetry =>
    have hne : s.chan ≠ [] := by
      intro hc; have := h2.pat i; rw [hph, hc] at this; simp [Pat, proj] at this
    obtain ⟨s', hs'⟩ := deliver_enabled s h1 h2 hne
    exact ⟨.deliver, Or.inr (Or.inl rfl), by rw [hs']; rfl⟩
  | running => exact ⟨.exitFinish i .pass false, Or.inr (Or.inr (Or.inl ⟨_, _, rfl⟩)), by simp [step, hph]⟩
  | delay => exact ⟨.delayExpires i 0 0, Or.inr (Or.inr (Or.inr ⟨_, _, rfl⟩)), by simp [step, hph]⟩
  | done => exact absurd hph hp.1
  | gone => exact absurd hph hp.2

/-- a `Finished` in flight is handled after at most as many deliveries as there are messages in the channel -/
theorem finished_processed : ∀ (n : Nat) (s : Sys), Inv s → Inv2 s → s.chan.length = n → ∀ i, s.phase i = .done →
    ∃ k s', k ≤ n ∧ runActs s (List.replicate k .deliver) = some s' ∧ s'.phase i = .done ∧ proj i s'.chan = [] := by
  intro n
  induction n with
  | zero =>
    intro s _ _ hl i hp
    have hch : s.chan = [] := List.eq_nil_of_length_eq_zero hl
    exact ⟨0, s, by omega, by simp [runActs], hp, by rw [hch]; rfl⟩
  | succ n ih =>
    intro s h1 h2 hl i hp
    by_cases hpr : proj i s.chan = []
    · exact ⟨0, s, by omega, by simp [runActs], hp, hpr⟩
    · have hne : s.chan ≠ [] := by intro h; rw [h] at hpr; exact hpr rfl
      obtain ⟨s1, hs1⟩ := deliver_enabled s h1 h2 hne
      obtain ⟨e, rest, hch, hch', hph⟩ := deliver_facts s s1 hs1
      have h1' := inv_step s .deliver s1 h1 hs1
      have h2' := inv2_step s .deliver s1 h1 h2 hs1
      have hl' : s1.chan.length = n := by rw [hch', ← Nat.succ_inj]; rw [hch] at hl; simpa using hl
      have hsame : s1.phase i = .done := by
        rcases hph i with hs | ⟨he, _⟩
        · rw [hs]; exact hp
        · -- the head would be a Started / RetryStarted of a unit that is done: not among its undelivered messages
          have hpat := h2.pat i
          rw [hp, hch] at hpat
          rcases he with rfl | ⟨a, t, rfl⟩
          · simp [Pat, proj, mentions] at hpat
          · simp [Pat, proj, mentions] at hpat
      obtain ⟨k, s', hk, hr, hfin⟩ := ih s1 h1' h2' hl' i hsame
      exact ⟨k + 1, s', by omega, by simp [List.replicate_succ, runActs, hs1, hr], hfin⟩

end NextestModel.System
