/-
  Scheduler invariants: the definitions the C08 / C14 / C02 theorems are stated with (`GlobalOk`, `GroupOk`, `QueuesOk`,
  `RunningOk`) and the helper lemmas showing that `start`, `pull` and `drainGroup` preserve them.  The property theorems
  themselves are in Thm/C08.lean, Thm/C14.lean and Thm/C02.lean.
-/
import NextestModel.Model.Sched
namespace NextestModel.C08
open NextestModel.Sched
/-- the weight a running future holds globally: `min(threads-required, test-threads)` -/
def gw (maxW : Nat) (r : Running) : Nat := min r.item.weight maxW

/-- Σ over the futures alive right now -/
def wsum (s : SState) : Nat := (s.running.map (gw s.maxW)).sum

/-- **The global limit**: the accounted weight is exactly the sum over alive futures, and it never
    exceeds the test-thread count. -/
def GlobalOk (s : SState) : Prop := s.cur = wsum s ∧ s.cur ≤ s.maxW

theorem ok_congr (s t : SState) (h1 : t.cur = s.cur) (h2 : t.running = s.running) (h3 : t.maxW = s.maxW)
    (h : GlobalOk s) : GlobalOk t := by
  unfold GlobalOk wsum at *
  rw [h1, h2, h3]; exact h

theorem sum_ones (l : List Running) (f : Running → Nat) (h : ∀ r ∈ l, f r = 1) : (l.map f).sum = l.length := by
  induction l with
  | nil => rfl
  | cons a as ih =>
    simp only [List.map_cons, List.sum_cons, List.length_cons]
    rw [h a (List.mem_cons_self ..), ih (fun r hr => h r (List.mem_cons_of_mem _ hr))]
    omega

theorem hasSpace_le {cur max w : Nat} (h : hasSpace cur max w = true) : cur + min w max ≤ max := by
  simp [hasSpace] at h; omega

theorem start_facts (s : SState) (it : Item) :
    (s.start it).1.maxW = s.maxW ∧ (s.start it).1.cur = s.cur + min it.weight s.maxW ∧
    (s.start it).1.running = s.running ++ [(s.start it).2] ∧ (s.start it).2.item = it ∧
    (s.start it).1.pending = s.pending ∧ (s.start it).1.groupMax = s.groupMax ∧ (s.start it).1.queues = s.queues := by
  unfold SState.start
  cases it.group <;> simp

theorem start_ok (s : SState) (it : Item) (h : GlobalOk s) (hs : hasSpace s.cur s.maxW it.weight = true) :
    GlobalOk (s.start it).1 := by
  obtain ⟨f1, f2, f3, f4, _⟩ := start_facts s it
  obtain ⟨h1, h2⟩ := h
  refine ⟨?_, ?_⟩
  · simp only [wsum, f1, f2, f3, List.map_append, List.sum_append, List.map_cons, List.map_nil, List.sum_cons, List.sum_nil, gw, f4]
    rw [h1]; simp [wsum, gw]
  · rw [f1, f2]; exact hasSpace_le hs

theorem pull_ok (fuel : Nat) : ∀ (s : SState) (m : Nat), GlobalOk s → s.maxW = m →
    GlobalOk (s.pull fuel).1 ∧ (s.pull fuel).1.maxW = m := by
  induction fuel with
  | zero => intro s m h hm; exact ⟨h, hm⟩
  | succ f ih =>
    intro s m h hm
    simp only [SState.pull]
    split
    · exact ⟨h, hm⟩
    · rename_i it rest hp
      split
      · exact ⟨h, hm⟩
      · rename_i hsp
        simp only [Bool.not_eq_true] at hsp
        have hsp' : hasSpace s.cur s.maxW it.weight = true := by
          cases hh : hasSpace s.cur s.maxW it.weight <;> simp_all
        have hs1 : GlobalOk { s with pending := rest } := ok_congr s _ rfl rfl rfl h
        split
        · refine ih _ m (start_ok { s with pending := rest } it hs1 hsp') ?_
          rw [(start_facts _ _).1]; exact hm
        · split
          · refine ih _ m (start_ok { s with pending := rest } it hs1 hsp') ?_
            rw [(start_facts _ _).1]; exact hm
          · exact ih _ m (ok_congr s _ rfl rfl rfl h) hm

theorem drain_ok (g : Nat) (fuel : Nat) : ∀ (s : SState) (m : Nat), GlobalOk s → s.maxW = m →
    GlobalOk (s.drainGroup g fuel).1 ∧ (s.drainGroup g fuel).1.maxW = m := by
  induction fuel with
  | zero => intro s m h hm; exact ⟨h, hm⟩
  | succ f ih =>
    intro s m h hm
    simp only [SState.drainGroup]
    split
    · exact ⟨h, hm⟩
    · rename_i it rest hq
      split
      · rename_i hsp
        simp only [Bool.and_eq_true] at hsp
        have hs1 : GlobalOk { s with queues := setAt s.queues g rest } := ok_congr s _ rfl rfl rfl h
        refine ih _ m (start_ok { s with queues := setAt s.queues g rest } it hs1 hsp.1) ?_
        rw [(start_facts _ _).1]; exact hm
      · exact ⟨h, hm⟩

theorem sum_eraseP (l : List Running) (p : Running → Bool) (f : Running → Nat) (x : Running)
    (h : l.find? p = some x) : (l.map f).sum = ((l.eraseP p).map f).sum + f x := by
  induction l with
  | nil => simp at h
  | cons a as ih =>
    by_cases hp : p a = true
    · simp [List.find?_cons, hp] at h
      subst h
      simp [List.eraseP_cons, hp]; omega
    · simp [List.find?_cons, hp] at h
      simp [List.eraseP_cons, hp, ih h]; omega

/-! ## The per-group limit -/

/-- the weight a running future holds in group `g`: `min(threads-required, max-threads of g)` if it belongs to `g` -/
def grw (gm : List Nat) (g : Nat) (r : Running) : Nat := if r.item.group = some g then min r.item.weight (gm.getD g 0) else 0

def gsum (s : SState) (g : Nat) : Nat := (s.running.map (grw s.groupMax g)).sum

/-- **The group limit**: for every test group, the accounted weight is exactly the sum over the alive members, and never
    exceeds the group's max-threads. -/
def GroupOk (s : SState) : Prop :=
  s.gcur.length = s.groupMax.length ∧ ∀ g, s.gcur.getD g 0 = gsum s g ∧ s.gcur.getD g 0 ≤ s.groupMax.getD g 0

theorem getD_setAt {α} (l : List α) (i j : Nat) (v d : α) :
    (setAt l i v).getD j d = if i = j ∧ i < l.length then v else l.getD j d := by
  simp only [setAt, List.getD_eq_getElem?_getD, List.getElem?_set]
  by_cases h : i = j
  · subst h
    by_cases hl : i < l.length
    · simp [hl]
    · simp [hl]
  · simp [h]

/-- an item parked in group `g`'s queue belongs to group `g` -/
def QueuesOk (s : SState) : Prop := ∀ g, ∀ it ∈ s.queues.getD g [], it.group = some g

theorem gok_congr (s t : SState) (h1 : t.gcur = s.gcur) (h2 : t.running = s.running) (h3 : t.groupMax = s.groupMax)
    (h : GroupOk s) : GroupOk t := by
  unfold GroupOk gsum at *
  rw [h1, h2, h3]; exact h

theorem start_gfacts (s : SState) (it : Item) :
    (s.start it).1.groupMax = s.groupMax ∧ (s.start it).1.running = s.running ++ [(s.start it).2] ∧ (s.start it).2.item = it ∧
    (s.start it).1.gcur = (match it.group with
      | none => s.gcur
      | some g => setAt s.gcur g (s.gcur.getD g 0 + min it.weight (s.groupMax.getD g 0))) ∧
    (s.start it).1.queues = s.queues := by
  unfold SState.start
  cases it.group <;> simp

theorem start_gok (s : SState) (it : Item) (h : GroupOk s)
    (hs : ∀ g, it.group = some g → hasSpace (s.gcur.getD g 0) (s.groupMax.getD g 0) it.weight = true) :
    GroupOk (s.start it).1 := by
  obtain ⟨f1, f2, f3, f4, _⟩ := start_gfacts s it
  obtain ⟨hlen, hall⟩ := h
  refine ⟨?_, ?_⟩
  · rw [f1, f4]; cases it.group <;> simp [setAt, hlen]
  · intro g
    obtain ⟨h1, h2⟩ := hall g
    have hsum : gsum (s.start it).1 g = gsum s g + (if it.group = some g then min it.weight (s.groupMax.getD g 0) else 0) := by
      simp only [gsum, f1, f2, List.map_append, List.sum_append, List.map_cons, List.map_nil, List.sum_cons, List.sum_nil, grw, f3, Nat.add_zero]
    rw [hsum, f1, f4]
    cases hg : it.group with
    | none => simp only [reduceCtorEq, if_false, Nat.add_zero]; exact ⟨h1, h2⟩
    | some g' =>
      simp only [getD_setAt]
      by_cases hgg : g' = g
      · subst hgg
        have hsp := hasSpace_le (hs g' hg)
        simp only [if_true]
        by_cases hl : g' < s.gcur.length
        · simp only [hl, and_self, if_true]
          exact ⟨by rw [h1], by omega⟩
        · -- out of range: the group has max-threads 0 and nothing is ever accounted
          have hz : s.groupMax.getD g' 0 = 0 := by
            simp only [List.getD_eq_getElem?_getD]
            rw [List.getElem?_eq_none (by omega)]; rfl
          simp only [hl, and_false, if_false]
          exact ⟨by rw [h1, hz]; simp, h2⟩
      · have hne : ¬ some g' = some g := by intro e; exact hgg (Option.some.inj e)
        simp only [hgg, false_and, if_false, hne, Nat.add_zero]
        exact ⟨h1, h2⟩

theorem pull_gok (fuel : Nat) : ∀ (s : SState), GroupOk s → QueuesOk s →
    GroupOk (s.pull fuel).1 ∧ QueuesOk (s.pull fuel).1 := by
  induction fuel with
  | zero => intro s h hq; exact ⟨h, hq⟩
  | succ f ih =>
    intro s h hq
    simp only [SState.pull]
    split
    · exact ⟨h, hq⟩
    · rename_i it rest hp
      split
      · exact ⟨h, hq⟩
      · have hs1 : GroupOk { s with pending := rest } := gok_congr s _ rfl rfl rfl h
        have hq1 : QueuesOk { s with pending := rest } := hq
        have hqstart : ∀ (t : SState) (x : Item), QueuesOk t → QueuesOk (t.start x).1 := by
          intro t x ht; unfold QueuesOk; rw [(start_gfacts t x).2.2.2.2]; exact ht
        split
        · rename_i hg
          exact ih _ (start_gok { s with pending := rest } it hs1 (by intro g hg'; rw [hg] at hg'; cases hg')) (hqstart _ _ hq1)
        · rename_i g hg
          split
          · rename_i hsp
            exact ih _ (start_gok { s with pending := rest } it hs1 (by intro g' hg'; rw [hg] at hg'; cases hg'; exact hsp)) (hqstart _ _ hq1)
          · refine ih _ (gok_congr s _ rfl rfl rfl h) ?_
            intro g' x hx
            simp only [getD_setAt] at hx
            split at hx
            · rename_i hc
              rcases List.mem_append.mp hx with hx | hx
              · rw [← hc.1]; exact hq g x hx
              · simp at hx; subst hx; rw [← hc.1]; exact hg
            · exact hq g' x hx

theorem drain_gok (g : Nat) (fuel : Nat) : ∀ (s : SState), GroupOk s → QueuesOk s →
    GroupOk (s.drainGroup g fuel).1 ∧ QueuesOk (s.drainGroup g fuel).1 := by
  induction fuel with
  | zero => intro s h hq; exact ⟨h, hq⟩
  | succ f ih =>
    intro s h hq
    simp only [SState.drainGroup]
    split
    · exact ⟨h, hq⟩
    · rename_i it rest hqg
      split
      · rename_i hsp
        simp only [Bool.and_eq_true] at hsp
        have hs1 : GroupOk { s with queues := setAt s.queues g rest } := gok_congr s _ rfl rfl rfl h
        have hitg : it.group = some g := hq g it (by rw [hqg]; simp)
        have hq1 : QueuesOk { s with queues := setAt s.queues g rest } := by
          intro g' x hx
          simp only [getD_setAt] at hx
          split at hx
          · rename_i hc; rw [← hc.1]; exact hq g x (by rw [hqg]; simp [hx])
          · exact hq g' x hx
        have hq2 : QueuesOk ({ s with queues := setAt s.queues g rest }.start it).1 := by
          unfold QueuesOk; rw [(start_gfacts _ it).2.2.2.2]; exact hq1
        refine ih _ (start_gok { s with queues := setAt s.queues g rest } it hs1 ?_) hq2
        intro g' hg'
        rw [hitg] at hg'; cases hg'; exact hsp.2
      · exact ⟨h, hq⟩

theorem gsum_eraseP (s : SState) (p : Running → Bool) (g : Nat) (x : Running) (h : s.running.find? p = some x) :
    (s.running.map (grw s.groupMax g)).sum = ((s.running.eraseP p).map (grw s.groupMax g)).sum + grw s.groupMax g x :=
  sum_eraseP s.running p (grw s.groupMax g) x h

/-- a running future remembers its group slot iff it has a group (how `start` creates it) -/
def RunningOk (s : SState) : Prop := ∀ r ∈ s.running, (r.item.group.isSome = r.groupSlot.isSome)

theorem start_rok (s : SState) (it : Item) (h : RunningOk s) : RunningOk (s.start it).1 := by
  intro r hr
  have hrun : (s.start it).1.running = s.running ++ [(s.start it).2] := (start_gfacts s it).2.1
  rw [hrun] at hr
  rcases List.mem_append.mp hr with hr | hr
  · exact h r hr
  · simp only [List.mem_singleton] at hr; subst hr
    unfold SState.start
    cases hg : it.group <;> simp [hg]

theorem pull_rok (fuel : Nat) : ∀ (s : SState), RunningOk s → RunningOk (s.pull fuel).1 := by
  induction fuel with
  | zero => intro s h; exact h
  | succ f ih =>
    intro s h
    simp only [SState.pull]
    split
    · exact h
    · split
      · exact h
      · split
        · exact ih _ (start_rok _ _ h)
        · split
          · exact ih _ (start_rok _ _ h)
          · exact ih _ h

theorem drain_rok (g : Nat) (fuel : Nat) : ∀ (s : SState), RunningOk s → RunningOk (s.drainGroup g fuel).1 := by
  induction fuel with
  | zero => intro s h; exact h
  | succ f ih =>
    intro s h
    simp only [SState.drainGroup]
    split
    · exact h
    · split
      · exact ih _ (start_rok _ _ h)
      · exact h

theorem groupMax_step (s : SState) (op : Op) (s' : SState) (started : List Running)
    (hstep : s.step op = some (s', started)) : s'.groupMax = s.groupMax := by
  have hstart : ∀ (t : SState) (x : Item), (t.start x).1.groupMax = t.groupMax := fun t x => (start_gfacts t x).1
  have hpull : ∀ fuel (t : SState), (t.pull fuel).1.groupMax = t.groupMax := by
    intro fuel
    induction fuel with
    | zero => intro t; rfl
    | succ f ih =>
      intro t
      simp only [SState.pull]
      split
      · rfl
      · split
        · rfl
        · split
          · rw [ih, hstart]
          · split
            · rw [ih, hstart]
            · rw [ih]
  have hdrain : ∀ g fuel (t : SState), (t.drainGroup g fuel).1.groupMax = t.groupMax := by
    intro g fuel
    induction fuel with
    | zero => intro t; rfl
    | succ f ih =>
      intro t
      simp only [SState.drainGroup]
      split
      · rfl
      · split
        · rw [ih, hstart]
        · rfl
  cases op with
  | poll =>
    simp only [SState.step, SState.first, Option.some.injEq] at hstep
    have := hpull (s.pending.length + 1) s
    rw [hstep] at this; exact this
  | complete id =>
    simp only [SState.step, SState.complete] at hstep
    split at hstep
    · cases hstep
    · simp only [Option.some.injEq, Prod.mk.injEq] at hstep
      obtain ⟨hs, _⟩ := hstep
      rw [← hs]
      split
      · rw [hpull, hdrain]
      · rw [hpull]


end NextestModel.C08
