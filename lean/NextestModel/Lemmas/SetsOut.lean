/-
  What an error-free parse produces (C20): every set definition of the expression `Filterset::parse` returns carries a matcher
  with a non-empty value, in the implicit form only for the predicate's own default matcher, a regex text that does not end in
  a backslash, and regex / glob texts the validity oracle did not reject.  This is the hypothesis of the whole-expression round
  trip (`print_parse_roundtrip`), shown here to hold of every parser output, so that "printing a PARSED expression round-trips"
  holds without side conditions on the expression.
-/
import NextestModel.Lemmas.ResultOrError
import NextestModel.Lemmas.ExprRoundTrip
set_option linter.unusedSimpArgs false
namespace NextestModel.SetsOut
open NextestModel NextestModel.Syntax NextestModel.ExprRT

def MatcherOut (cx : Ctx) (dm : DefaultMatcher) : Matcher → Prop
  | .equal v imp => v ≠ [] ∧ (imp = true → dm = .equal)
  | .contains v imp => v ≠ [] ∧ (imp = true → dm = .contains)
  | .glob v imp => v ≠ [] ∧ (imp = true → dm = .glob) ∧ lookup cx.globValid v ≠ some false
  | .regex v => endsWithBackslash v = false ∧ lookup cx.regexValid v ≠ some false

def SetOut (cx : Ctx) : SetDef → Prop
  | .unary p m _ => MatcherOut cx (dmOf p) m
  | _ => True

def SetsOut (cx : Ctx) : PExpr → Prop
  | .set s => SetOut cx s
  | .not _ e => SetsOut cx e
  | .parens e => SetsOut cx e
  | .union _ a b => SetsOut cx a ∧ SetsOut cx b
  | .inter _ a b => SetsOut cx a ∧ SetsOut cx b
  | .diff a b => SetsOut cx a ∧ SetsOut cx b

/-- no error was recorded between the two states -/
def Quiet (st st' : St) : Prop := st'.errs.length = st.errs.length

theorem quiet_squeeze {a b c : St} (h1 : a.errs.length ≤ b.errs.length) (h2 : b.errs.length ≤ c.errs.length) (hq : Quiet a c) :
    Quiet a b ∧ Quiet b c := by
  unfold Quiet at *; omega

/-! ### values -/

theorem matcherText_out (cx : Ctx) (st : St) (hq : Quiet st (parseMatcherText cx st).2) (v : List Char)
    (hv : (parseMatcherText cx st).1 = some v) : v ≠ [] := by
  have i := g_parseString cx st
  unfold parseMatcherText at hq hv
  generalize parseString cx st = p at i hq hv
  obtain ⟨res, st'⟩ := p
  cases res with
  | none => simp at hv
  | some w =>
    cases w with
    | nil =>
      -- the empty string is reported
      have hi : st.errs.length ≤ st'.errs.length := i.1
      simp only [Quiet, St.report, List.length_append, List.length_singleton] at hq
      omega
    | cons c cs =>
      simp only [Option.some.injEq] at hv
      subst hv; simp

/-- the accumulated text ends in a backslash only if what follows is not the closing delimiter -/
def RegexInv (acc cs : List Char) : Prop := endsWithBackslash acc = true → ∀ r, cs ≠ '/' :: r

theorem endsWithBackslash_append_singleton (acc : List Char) (c : Char) : endsWithBackslash (acc ++ [c]) = (c == '\\') := by
  induction acc with
  | nil => rfl
  | cons a as ih =>
    cases as with
    | nil => simp [endsWithBackslash]
    | cons b bs => simp only [List.cons_append, endsWithBackslash] at ih ⊢; exact ih

theorem endsWithBackslash_append (acc l : List Char) (hl : l ≠ []) : endsWithBackslash (acc ++ l) = endsWithBackslash l := by
  induction acc with
  | nil => rfl
  | cons a as ih =>
    cases h : as ++ l with
    | nil => simp at h; exact absurd h.2 hl
    | cons b bs => simp only [List.cons_append, h, endsWithBackslash]; rw [← h]; exact ih

theorem takeTill_no_backslash (p : Char → Bool) (hp : p '\\' = true) : ∀ (cs : List Char), endsWithBackslash (takeTill p cs).1 = false := by
  intro cs
  induction cs with
  | nil => rfl
  | cons c cs ih =>
    simp only [takeTill]
    split
    · rfl
    · rename_i hc
      have hne : c ≠ '\\' := by intro e; subst e; exact hc hp
      cases h : (takeTill p cs).1 with
      | nil => simp [endsWithBackslash, h, hne]
      | cons d ds => simp only [h, endsWithBackslash] at ih ⊢; exact ih

theorem regexLoop_inv : ∀ (f : Nat) (acc cs : List Char), RegexInv acc cs →
    RegexInv (regexLoop f acc cs).1 (regexLoop f acc cs).2 := by
  intro f
  induction f with
  | zero => intro acc cs h; exact h
  | succ f ih =>
    intro acc cs h
    cases cs with
    | nil => simp only [regexLoop]; exact h
    | cons c r =>
      by_cases hb : c = '\\'
      · subst hb
        cases r with
        | nil =>
          simp only [regexLoop]
          apply ih
          intro _ r' e; cases e
        | cons d r2 =>
          by_cases hd : d = '/'
          · subst hd
            simp only [regexLoop]
            apply ih
            intro he; rw [endsWithBackslash_append_singleton] at he; exact absurd he (by decide)
          · have : regexLoop (f + 1) acc ('\\' :: d :: r2) = regexLoop f (acc ++ ['\\']) (d :: r2) := by
              rw [regexLoop]
              intro r' e; simp at e; exact hd e.1
            rw [this]
            apply ih
            intro _ r' e; simp at e; exact hd e.1
      · by_cases hs : c = '/'
        · subst hs
          simp only [regexLoop]; exact h
        · have : regexLoop (f + 1) acc (c :: r) =
              regexLoop f (acc ++ (takeTill (fun c => c == '\\' || c == '/') (c :: r)).1) (takeTill (fun c => c == '\\' || c == '/') (c :: r)).2 := by
            rw [regexLoop]
            · intro r' e _; exact hb e
            · intro e; exact hb e
            · intro e; exact hs e
          rw [this]
          apply ih
          intro he
          have hnb := takeTill_no_backslash (fun c => c == '\\' || c == '/') (by decide) (c :: r)
          have hne : (takeTill (fun c => c == '\\' || c == '/') (c :: r)).1 ≠ [] := by
            simp only [takeTill]
            split
            · rename_i hc
              simp only [Bool.or_eq_true, beq_iff_eq] at hc
              rcases hc with e | e
              · exact absurd e hb
              · exact absurd e hs
            · simp
          rw [endsWithBackslash_append _ _ hne, hnb] at he
          cases he

theorem parseRegex_out (cx : Ctx) (st : St) (hq : Quiet st (parseRegex cx st).2) (m : Matcher)
    (hm : (parseRegex cx st).1 = some m) : MatcherOut cx .glob m ∧ ∀ dm, MatcherOut cx dm m := by
  have hinv := regexLoop_inv (st.rest.length + 1) [] st.rest (by intro h; cases h)
  unfold parseRegex at hq hm
  simp only at hq hm
  split at hm
  · rename_i r hrest
    simp only [St.valid] at hm hq
    have hnb : endsWithBackslash (regexLoop (st.rest.length + 1) [] st.rest).1 = false := by
      cases hb : endsWithBackslash (regexLoop (st.rest.length + 1) [] st.rest).1 with
      | false => rfl
      | true => exact absurd hrest (hinv hb r)
    cases hl : lookup cx.regexValid (regexLoop (st.rest.length + 1) [] st.rest).1 with
    | none =>
      simp only [hl, if_true] at hm
      simp only [Option.some.injEq] at hm; subst hm
      exact ⟨⟨hnb, by rw [hl]; simp⟩, fun _ => ⟨hnb, by rw [hl]; simp⟩⟩
    | some b =>
      cases b with
      | true =>
        simp only [hl, if_true] at hm
        simp only [Option.some.injEq] at hm; subst hm
        exact ⟨⟨hnb, by rw [hl]; simp⟩, fun _ => ⟨hnb, by rw [hl]; simp⟩⟩
      | false =>
        simp [hl] at hm
        split at hm <;> simp at hm
  · cases hm

theorem parseGlobM_out (cx : Ctx) (implicit : Bool) (st : St) (hq : Quiet st (parseGlobM cx implicit st).2) (m : Matcher)
    (hm : (parseGlobM cx implicit st).1 = some m) :
    ∃ v, m = .glob v implicit ∧ v ≠ [] ∧ lookup cx.globValid v ≠ some false := by
  have i := g_matcherText cx st
  have htext := matcherText_out cx st
  unfold parseGlobM at hq hm
  generalize parseMatcherText cx st = p at i htext hq hm
  obtain ⟨res, st1⟩ := p
  cases res with
  | none => simp at hm
  | some v =>
    simp only [St.valid, Bool.false_eq_true, if_false] at hm hq
    cases hl : lookup cx.globValid v with
    | none =>
      simp only [hl, if_true] at hm hq
      simp only [Option.some.injEq] at hm; subst hm
      exact ⟨v, rfl, htext (by simpa [Quiet] using hq) v rfl, by rw [hl]; simp⟩
    | some b =>
      cases b with
      | true =>
        simp only [hl, if_true] at hm hq
        simp only [Option.some.injEq] at hm; subst hm
        exact ⟨v, rfl, htext hq v rfl, by rw [hl]; simp⟩
      | false => simp [hl] at hm

theorem map_some {α β} (f : α → β) (o : Option α) (y : β) (h : o.map f = some y) : ∃ x, o = some x ∧ y = f x := by
  cases o with
  | none => simp at h
  | some x => simp at h; exact ⟨x, rfl, h.symm⟩

theorem text_branch_out (cx : Ctx) (st : St) (mk : List Char → Matcher) (m : Matcher)
    (hq : Quiet st (parseMatcherText cx st).2) (hm : (parseMatcherText cx st).1.map mk = some m) :
    ∃ v, m = mk v ∧ v ≠ [] := by
  obtain ⟨v, hv, rfl⟩ := map_some _ _ _ hm
  exact ⟨v, rfl, matcherText_out cx st hq v hv⟩

theorem setMatcher_out' (cx : Ctx) (dm : DefaultMatcher) (st : St) (m : Matcher) (st' : St)
    (h : setMatcher cx dm st = (some m, st')) (hq : Quiet st st') : MatcherOut cx dm m := by
  unfold setMatcher at h
  simp only at h
  split at h
  · -- regex
    rename_i cs _
    simp only [Prod.mk.injEq] at h
    obtain ⟨hm, hst⟩ := h
    have hq' : Quiet ((st.withRest (skipWs st.rest)).withRest cs) (parseRegex cx ((st.withRest (skipWs st.rest)).withRest cs)).2 := by
      subst hst
      simp only [Quiet] at hq ⊢
      split at hq <;> exact hq
    exact (parseRegex_out cx _ hq' m hm).2 dm
  · rename_i cs _
    obtain ⟨v, rfl, hv, hl⟩ := parseGlobM_out cx false ((st.withRest (skipWs st.rest)).withRest cs) (by rw [h]; exact hq) m (by rw [h])
    exact ⟨hv, fun hh => (by cases hh), hl⟩
  · rename_i cs _
    simp only [Prod.mk.injEq] at h
    obtain ⟨hm, hst⟩ := h
    obtain ⟨v, rfl, hv⟩ := text_branch_out cx _ (Matcher.equal · false) m (by rw [hst]; exact hq) hm
    exact ⟨hv, fun hh => by cases hh⟩
  · rename_i cs _
    simp only [Prod.mk.injEq] at h
    obtain ⟨hm, hst⟩ := h
    obtain ⟨v, rfl, hv⟩ := text_branch_out cx _ (Matcher.contains · false) m (by rw [hst]; exact hq) hm
    exact ⟨hv, fun hh => by cases hh⟩
  · split at h
    · simp only [Prod.mk.injEq] at h
      obtain ⟨hm, hst⟩ := h
      obtain ⟨v, rfl, hv⟩ := text_branch_out cx _ (Matcher.equal · true) m (by rw [hst]; exact hq) hm
      exact ⟨hv, fun _ => rfl⟩
    · simp only [Prod.mk.injEq] at h
      obtain ⟨hm, hst⟩ := h
      obtain ⟨v, rfl, hv⟩ := text_branch_out cx _ (Matcher.contains · true) m (by rw [hst]; exact hq) hm
      exact ⟨hv, fun _ => rfl⟩
    · obtain ⟨v, rfl, hv, hl⟩ := parseGlobM_out cx true (st.withRest (skipWs st.rest)) (by rw [h]; exact hq) m (by rw [h])
      exact ⟨hv, fun _ => rfl, hl⟩

theorem setMatcher_out (cx : Ctx) (dm : DefaultMatcher) (st : St) (hq : Quiet st (setMatcher cx dm st).2) (m : Matcher)
    (hm : (setMatcher cx dm st).1 = some m) : MatcherOut cx dm m :=
  setMatcher_out' cx dm st m (setMatcher cx dm st).2 (by rw [← hm]) hq

theorem unaryBody_out (cx : Ctx) (dm : DefaultMatcher) (p : Pred) (st : St) (hq : Quiet st (unaryBody cx dm p st).2) (s : SetDef)
    (hs : (unaryBody cx dm p st).1 = some s) : ∃ m sp, s = .unary p m sp ∧ MatcherOut cx dm m := by
  have h1 := (g_expectChar cx '(' .expectedOpenParen st).1
  have h2 := (g_setMatcher cx dm (expectChar cx '(' .expectedOpenParen st)).1
  have h3 := (g_recoverComma cx (setMatcher cx dm (expectChar cx '(' .expectedOpenParen st)).2).1
  have h4 := (g_expectChar cx ')' .expectedCloseParen (recoverComma cx (setMatcher cx dm (expectChar cx '(' .expectedOpenParen st)).2)).1
  unfold unaryBody at hq hs
  simp only at hq hs
  obtain ⟨m, hm, rfl⟩ := map_some _ _ _ hs
  refine ⟨m, _, rfl, setMatcher_out cx dm _ ?_ m hm⟩
  simp only [Quiet] at hq ⊢
  omega

theorem tryUnary_out (cx : Ctx) (st : St) : ∀ (tbl : List (String × DefaultMatcher × Pred)),
    (∀ e ∈ tbl, e.2.1 = dmOf e.2.2) → ∀ (r : Option SetDef × St), tryUnary cx st tbl = some r → Quiet st r.2 →
    ∀ s, r.1 = some s → SetOut cx s := by
  intro tbl
  induction tbl with
  | nil => intro _ r hr; simp [tryUnary] at hr
  | cons e more ih =>
    intro htbl r hr hq s hs
    obtain ⟨name, dm, p⟩ := e
    simp only [tryUnary] at hr
    split at hr
    · rename_i rest _
      simp only [Option.some.injEq] at hr; subst hr
      obtain ⟨m, sp, rfl, hmo⟩ := unaryBody_out cx dm p (st.withRest rest) hq s hs
      have : dm = dmOf p := htbl (name, dm, p) (List.mem_cons_self ..)
      subst this
      exact hmo
    · exact ih (fun e he => htbl e (List.mem_cons_of_mem _ he)) r hr hq s hs

theorem unaryTable_dm : ∀ e ∈ unaryTable, e.2.1 = dmOf e.2.2 := by decide

theorem nullaryBody_kind (cx : Ctx) (start : Nat) (mk : Span → SetDef) (st : St) (s : SetDef)
    (hs : (nullaryBody cx start mk st).1 = some s) : ∃ sp, s = mk sp := by
  unfold nullaryBody at hs
  simp only [Option.some.injEq] at hs
  exact ⟨_, hs.symm⟩

theorem platformBody_kind (cx : Ctx) (st : St) (s : SetDef) (hs : (platformBody cx st).1 = some s) : ∃ pl sp, s = .platform pl sp := by
  unfold platformBody at hs
  simp only at hs
  split at hs
  · cases hs
  · split at hs
    · simp only [Option.some.injEq] at hs; exact ⟨_, _, hs.symm⟩
    · split at hs
      · simp only [Option.some.injEq] at hs; exact ⟨_, _, hs.symm⟩
      · cases hs

theorem parseSetDef_out (cx : Ctx) (st : St) (r : Option SetDef × St) (hr : parseSetDef cx st = some r) (hq : Quiet st r.2)
    (s : SetDef) (hs : r.1 = some s) : SetOut cx s := by
  unfold parseSetDef at hr
  simp only at hr
  split at hr
  · rename_i r' hu
    simp only [Option.some.injEq] at hr; subst hr
    exact tryUnary_out cx (st.withRest (skipWs st.rest)) unaryTable unaryTable_dm _ hu hq s hs
  · split at hr
    · simp only [Option.some.injEq] at hr; subst hr
      obtain ⟨pl, sp, rfl⟩ := platformBody_kind cx _ s hs
      trivial
    · split at hr
      · simp only [Option.some.injEq] at hr; subst hr
        obtain ⟨sp, rfl⟩ := nullaryBody_kind cx _ _ _ s hs
        trivial
      · split at hr
        · simp only [Option.some.injEq] at hr; subst hr
          obtain ⟨sp, rfl⟩ := nullaryBody_kind cx _ _ _ s hs
          trivial
        · split at hr
          · simp only [Option.some.injEq] at hr; subst hr
            obtain ⟨sp, rfl⟩ := nullaryBody_kind cx _ _ _ s hs
            trivial
          · cases hr

/-! ### expressions -/

theorem combineOr_out (cx : Ctx) {acc : ERes} {op e2 r} (h : combineOr acc op e2 = some r)
    (ha : ∀ a, acc = some a → SetsOut cx a) (hb : ∀ b, e2 = some b → SetsOut cx b) : SetsOut cx r := by
  unfold combineOr at h
  split at h
  · rename_i o x y; cases h; exact ⟨ha x rfl, hb y rfl⟩
  · cases h

theorem combineAnd_out (cx : Ctx) {acc : ERes} {op e2 r} (h : combineAnd acc op e2 = some r)
    (ha : ∀ a, acc = some a → SetsOut cx a) (hb : ∀ b, e2 = some b → SetsOut cx b) : SetsOut cx r := by
  unfold combineAnd at h
  split at h
  · rename_i o x y; cases h; exact ⟨ha x rfl, hb y rfl⟩
  · rename_i x y; cases h; exact ⟨ha x rfl, hb y rfl⟩
  · cases h

theorem out_all (cx : Ctx) : ∀ f,
    (∀ st e st', parseExpr cx f st = (some e, st') → Quiet st st' → SetsOut cx e) ∧
    (∀ acc st e st', (∀ a, acc = some a → SetsOut cx a) → orLoop cx f acc st = (some e, st') → Quiet st st' → SetsOut cx e) ∧
    (∀ st e st', parseAndOr cx f st = (some e, st') → Quiet st st' → SetsOut cx e) ∧
    (∀ acc st e st', (∀ a, acc = some a → SetsOut cx a) → andLoop cx f acc st = (some e, st') → Quiet st st' → SetsOut cx e) ∧
    (∀ st e st', basicOrMissing cx f st = (some e, st') → Quiet st st' → SetsOut cx e) ∧
    (∀ st e st', parseBasic cx f st = some (some e, st') → Quiet st st' → SetsOut cx e) := by
  intro f
  induction f with
  | zero =>
    refine ⟨?_, ?_, ?_, ?_, ?_, ?_⟩ <;> intros <;> simp_all [parseExpr, orLoop, parseAndOr, andLoop, basicOrMissing, parseBasic]
  | succ f ih =>
    obtain ⟨ihE, ihOL, ihA, ihAL, ihBM, ihB⟩ := ih
    obtain ⟨gE, gOL, gA, gAL, gBM, gB⟩ := g_expr cx f
    refine ⟨?_, ?_, ?_, ?_, ?_, ?_⟩
    · intro st e st' h hq
      simp only [parseExpr] at h
      have m1 := (gA st).1
      have m2 := (gOL (parseAndOr cx f st).1 (parseAndOr cx f st).2).1
      rw [h] at m2
      obtain ⟨q1, q2⟩ := quiet_squeeze m1 m2 hq
      exact ihOL _ _ _ _ (fun a ha => ihA st a _ (by rw [← ha]) q1) h q2
    · intro acc st e st' hacc h hq
      simp only [orLoop] at h
      split at h
      · simp only [Prod.mk.injEq] at h; exact hacc _ h.1
      · rename_i op st1 hop
        have m0 := (g_parseOrOp cx st (op, st1) hop).1
        have m1 := (gA st1).1
        have m2 := (gOL (combineOr acc op (parseAndOr cx f st1).1) (parseAndOr cx f st1).2).1
        rw [h] at m2
        simp only at m0
        obtain ⟨q0, q12⟩ := quiet_squeeze m0 (Nat.le_trans m1 m2) hq
        obtain ⟨q1, q2⟩ := quiet_squeeze m1 m2 q12
        refine ihOL _ _ _ _ ?_ h q2
        intro a ha
        exact combineOr_out cx ha hacc (fun b hb => ihA st1 b _ (by rw [← hb]) q1)
    · intro st e st' h hq
      simp only [parseAndOr] at h
      have m1 := (gBM st).1
      have m2 := (gAL (basicOrMissing cx f st).1 (basicOrMissing cx f st).2).1
      rw [h] at m2
      obtain ⟨q1, q2⟩ := quiet_squeeze m1 m2 hq
      exact ihAL _ _ _ _ (fun a ha => ihBM st a _ (by rw [← ha]) q1) h q2
    · intro acc st e st' hacc h hq
      simp only [andLoop] at h
      split at h
      · simp only [Prod.mk.injEq] at h; exact hacc _ h.1
      · rename_i op st1 hop
        have m0 := (g_parseAndOp cx st (op, st1) hop).1
        have m1 := (gBM st1).1
        have m2 := (gAL (combineAnd acc op (basicOrMissing cx f st1).1) (basicOrMissing cx f st1).2).1
        rw [h] at m2
        simp only at m0
        obtain ⟨q0, q12⟩ := quiet_squeeze m0 (Nat.le_trans m1 m2) hq
        obtain ⟨q1, q2⟩ := quiet_squeeze m1 m2 q12
        refine ihAL _ _ _ _ ?_ h q2
        intro a ha
        exact combineAnd_out cx ha hacc (fun b hb => ihBM st1 b _ (by rw [← hb]) q1)
    · intro st e st' h hq
      simp only [basicOrMissing] at h
      split at h
      · rename_i r hr
        cases r with
        | mk e1 st1 => simp only [Prod.mk.injEq] at h; obtain ⟨rfl, rfl⟩ := h; exact ihB _ _ _ hr hq
      · simp [missingExpr] at h
    · intro st e st' h hq
      simp only [parseBasic] at h
      split at h
      · rename_i s st1 hsd
        simp only [Option.some.injEq, Prod.mk.injEq] at h
        obtain ⟨h1, rfl⟩ := h
        obtain ⟨sd, rfl, rfl⟩ := map_some _ _ _ h1
        exact parseSetDef_out cx _ _ hsd hq sd rfl
      · split at h
        · rename_i op r _
          simp only [Option.some.injEq, Prod.mk.injEq] at h
          obtain ⟨h1, h2⟩ := h
          obtain ⟨e1, he1, rfl⟩ := map_some _ _ _ h1
          exact ihBM ((st.withRest (skipWs st.rest)).withRest r) e1 st' (by rw [← he1, ← h2]) hq
        · split at h
          · rename_i r _
            simp only [Option.some.injEq, Prod.mk.injEq] at h
            obtain ⟨h1, h2⟩ := h
            obtain ⟨e1, he1, rfl⟩ := map_some _ _ _ h1
            have m1 := (gE ((st.withRest (skipWs st.rest)).withRest r)).1
            have m2 := (g_expectChar cx ')' .expectedCloseParen (parseExpr cx f ((st.withRest (skipWs st.rest)).withRest r)).2).1
            rw [h2] at m2
            obtain ⟨q1, _⟩ := quiet_squeeze (a := (st.withRest (skipWs st.rest)).withRest r) m1 m2 hq
            exact ihE ((st.withRest (skipWs st.rest)).withRest r) e1 _ (by rw [← he1]) q1
          · simp at h

/-- **every set definition of an error-free parse is well-formed** -/
theorem parseFilterset_out (input : List Char) (rv gv : List (List Char × Bool)) (re : List (List Char × Nat × Nat)) (e : PExpr)
    (h : parseFilterset input rv gv re = .ok e) : SetsOut (mkCtx input rv gv re) e := by
  unfold parseFilterset at h
  generalize hpt : parseTop (mkCtx input rv gv re) input = pt at h
  obtain ⟨eo, stf⟩ := pt
  simp only at h
  cases eo with
  | none => simp at h
  | some e0 =>
    cases hs : stf.errs with
    | cons x xs => simp [hs] at h
    | nil =>
      simp only [hs, Except.ok.injEq] at h
      subst h
      -- the parse recorded no error at all, so in particular none during `parseExpr`
      unfold parseTop at hpt
      simp only at hpt
      generalize hp : parseExpr (mkCtx input rv gv re) (fuelFor input) { rest := input, errs := [], needs := [] } = r at hpt
      obtain ⟨e1, st1⟩ := r
      simp only at hpt
      split at hpt
      · simp only [Prod.mk.injEq] at hpt
        obtain ⟨rfl, rfl⟩ := hpt
        exact (out_all (mkCtx input rv gv re) (fuelFor input)).1 _ _ _ hp (by simpa [Quiet, St.withRest] using hs)
      · simp only [Prod.mk.injEq] at hpt
        obtain ⟨_, rfl⟩ := hpt
        simp [St.report] at hs

end NextestModel.SetsOut
