/-
  Lemmas about the attempt loop (`Model/Attempts`), each by induction along the loop.
-/
import NextestModel.Model.Attempts
namespace NextestModel.Attempts
open NextestModel.Dispatcher NextestModel.Classify

/-- the `expect` on the backoff iterator never fails when the iterator holds one delay per remaining retry -/
theorem loop_some (total : Nat) (env : Env) (fuel done : Nat) (acc : List Res) (ds : List Nat)
    (hds : ds.length + done + 1 = total) (hf : fuel + done = total) :
    ∃ evs, loop total env fuel done acc ds = some evs := by
  induction fuel generalizing done acc ds with
  | zero => exact ⟨[], rfl⟩
  | succ fuel ih =>
    simp only [loop]
    split
    · exact ⟨_, rfl⟩
    · split
      · exact ⟨_, rfl⟩
      · split
        · rename_i hlt
          cases ds with
          | nil => simp at hds; omega
          | cons d ds' =>
            obtain ⟨rest, hrest⟩ := ih (done + 1) (acc ++ [env.outcome (done + 1)]) ds' (by simp at hds; omega) (by omega)
            simp [hrest]
        · exact ⟨_, rfl⟩

/-- spawned attempts are numbered consecutively from `done + 1`, at most up to `total` -/
theorem loop_spawns (total : Nat) (env : Env) (fuel done : Nat) (acc : List Res) (ds : List Nat) (evs : List XEv)
    (hf : fuel + done = total) (h : loop total env fuel done acc ds = some evs) :
    spawns evs = List.range' (done + 1) (spawns evs).length ∧ done + (spawns evs).length ≤ total := by
  induction fuel generalizing done acc ds evs with
  | zero => simp [loop] at h; subst h; simp [spawns]; omega
  | succ fuel ih =>
    simp only [loop] at h
    split at h
    · simp at h; subst h; simp [spawns]; omega
    · split at h
      · simp at h; subst h
        split <;> simp [spawns, List.range'] <;> omega
      · split at h
        · cases ds with
          | nil => simp at h
          | cons d ds' =>
            simp only at h
            cases hr : loop total env fuel (done + 1) (acc ++ [env.outcome (done + 1)]) ds' with
            | none => simp [hr] at h
            | some rest =>
              simp only [hr, Option.some.injEq] at h; subst h
              obtain ⟨i1, i2⟩ := ih (done + 1) _ ds' rest (by omega) hr
              have hsp : ∀ pre : List XEv, (pre = [] ∨ ∃ k, pre = [.retryStarted k]) →
                  spawns (pre ++ [XEv.spawn (done + 1), XEv.willRetry (done + 1) (env.outcome (done + 1)) d] ++ rest) = (done + 1) :: spawns rest := by
                intro pre hp
                rcases hp with rfl | ⟨k, rfl⟩ <;> simp [spawns]
              have := hsp (if done + 1 > 1 then [XEv.retryStarted (done + 1)] else []) (by split <;> simp)
              rw [this]
              constructor
              · rw [i1]; simp [List.range'_succ]
              · simp; omega
        · simp at h; subst h
          split <;> simp [spawns, List.range'] <;> omega

theorem getLast?_append_ne {α} (l m : List α) (h : m ≠ []) : (l ++ m).getLast? = m.getLast? := by
  induction l with
  | nil => rfl
  | cons a l ih =>
    cases hl : l ++ m with
    | nil => simp at hl; exact absurd hl.2 h
    | cons x xs => rw [List.cons_append, hl, List.getLast?_cons_cons, ← hl, ih]

/-- the optional `RetryStarted` in front of an attempt -/
def pre (done : Nat) : List XEv := if done + 1 > 1 then [XEv.retryStarted (done + 1)] else []

theorem pre_cases (done : Nat) : pre done = [] ∨ pre done = [XEv.retryStarted (done + 1)] := by
  unfold pre; split <;> simp

theorem spawns_pre (done : Nat) (l : List XEv) : spawns (pre done ++ l) = spawns l := by
  rcases pre_cases done with h | h <;> simp [h, spawns]
theorem finisheds_pre (done : Nat) (l : List XEv) : finisheds (pre done ++ l) = finisheds l := by
  rcases pre_cases done with h | h <;> simp [h, finisheds]
theorem delays_pre (done : Nat) (l : List XEv) : announcedDelays (pre done ++ l) = announcedDelays l := by
  rcases pre_cases done with h | h <;> simp [h, announcedDelays]

/-- one unfolding of the loop, with the three ways an iteration ends spelled out -/
theorem loop_unfold (total : Nat) (env : Env) (fuel done : Nat) (acc : List Res) (ds : List Nat) (evs : List XEv)
    (h : loop total env (fuel + 1) done acc ds = some evs) :
    (done + 1 > 1 ∧ env.ackRetry (done + 1) = false ∧ evs = [.retryStarted (done + 1)]) ∨
    ((done + 1 ≤ 1 ∨ env.ackRetry (done + 1) = true) ∧
      (((env.outcome (done + 1)).isSuccess = true ∨ ¬ done + 1 < total) ∧
          evs = pre done ++ [.spawn (done + 1), .finished (acc ++ [env.outcome (done + 1)])] ∨
       ((env.outcome (done + 1)).isSuccess = false ∧ done + 1 < total ∧ ∃ d ds' rest, ds = d :: ds' ∧
          loop total env fuel (done + 1) (acc ++ [env.outcome (done + 1)]) ds' = some rest ∧
          evs = pre done ++ [.spawn (done + 1), .willRetry (done + 1) (env.outcome (done + 1)) d] ++ rest))) := by
  simp only [loop] at h
  split at h
  · rename_i hc
    simp only [Bool.and_eq_true, decide_eq_true_eq, Bool.not_eq_true'] at hc
    simp at h; subst h
    exact Or.inl ⟨hc.1, hc.2, rfl⟩
  · rename_i hc
    have hack : done + 1 ≤ 1 ∨ env.ackRetry (done + 1) = true := by
      simp only [Bool.and_eq_true, decide_eq_true_eq, Bool.not_eq_true', not_and, Bool.not_eq_false] at hc
      by_cases hd : done + 1 > 1
      · exact Or.inr (hc hd)
      · exact Or.inl (by omega)
    refine Or.inr ⟨hack, ?_⟩
    split at h
    · rename_i hs
      simp only [Option.some.injEq] at h; subst h
      exact Or.inl ⟨Or.inl hs, rfl⟩
    · rename_i hs
      split at h
      · rename_i hlt
        cases ds with
        | nil => simp at h
        | cons d ds' =>
          simp only at h
          cases hr : loop total env fuel (done + 1) (acc ++ [env.outcome (done + 1)]) ds' with
          | none => simp [hr] at h
          | some rest =>
            simp only [hr, Option.some.injEq] at h; subst h
            exact Or.inr ⟨by simpa using hs, hlt, d, ds', rest, rfl, hr, rfl⟩
      · rename_i hlt
        simp only [Option.some.injEq] at h; subst h
        exact Or.inl ⟨Or.inr hlt, rfl⟩

/-- **every spawned attempt but the last one failed** (the loop stops at the first success) and **every attempt after the first
    was acknowledged by the dispatcher** (no retry once the run is being cancelled) -/
theorem loop_discipline (total : Nat) (env : Env) (fuel done : Nat) (acc : List Res) (ds : List Nat) (evs : List XEv)
    (h : loop total env fuel done acc ds = some evs) :
    (∀ k ∈ (spawns evs).dropLast, (env.outcome k).isSuccess = false) ∧
    (∀ k ∈ spawns evs, k ≤ 1 ∨ env.ackRetry k = true) := by
  induction fuel generalizing done acc ds evs with
  | zero => simp [loop] at h; subst h; simp [spawns]
  | succ fuel ih =>
    rcases loop_unfold total env fuel done acc ds evs h with ⟨_, _, rfl⟩ | ⟨hack, ⟨_, rfl⟩ | ⟨hf, _, d, ds', rest, rfl, hr, rfl⟩⟩
    · simp [spawns]
    · rw [spawns_pre]; simp only [spawns, List.dropLast_singleton]
      exact ⟨by simp, by intro k hk; simp at hk; subst hk; exact hack⟩
    · obtain ⟨i1, i2⟩ := ih (done + 1) _ ds' rest hr
      rw [List.append_assoc, spawns_pre]; simp only [List.cons_append, List.nil_append, spawns]
      constructor
      · intro k hk
        cases hsr : spawns rest with
        | nil => simp [hsr] at hk
        | cons x xs =>
          rw [hsr, List.dropLast_cons_cons] at hk
          rcases List.mem_cons.mp hk with rfl | hk
          · exact hf
          · exact i1 k (by rw [hsr]; exact hk)
      · intro k hk
        rcases List.mem_cons.mp hk with rfl | hk
        · exact hack
        · exact i2 k hk

/-- **at most one `Finished`, and it carries exactly the statuses of the attempts made**: `acc` followed by the outcome of every
    spawned attempt; it ends in a success or has used every allowed attempt -/
theorem loop_finished (total : Nat) (env : Env) (fuel done : Nat) (acc : List Res) (ds : List Nat) (evs : List XEv)
    (hf : fuel + done = total) (h : loop total env fuel done acc ds = some evs) :
    finisheds evs = [] ∨
    (finisheds evs = [acc ++ (spawns evs).map env.outcome] ∧ evs.getLast? = some (.finished (acc ++ (spawns evs).map env.outcome)) ∧
      spawns evs ≠ [] ∧
      (∃ k, (spawns evs).getLast? = some k ∧ ((env.outcome k).isSuccess = true ∨ k = total))) := by
  induction fuel generalizing done acc ds evs with
  | zero => simp [loop] at h; subst h; simp [finisheds]
  | succ fuel ih =>
    rcases loop_unfold total env fuel done acc ds evs h with ⟨_, _, rfl⟩ | ⟨hack, ⟨hend, rfl⟩ | ⟨hfl, hlt, d, ds', rest, rfl, hr, rfl⟩⟩
    · simp [finisheds]
    · right
      rw [finisheds_pre, spawns_pre]
      simp only [finisheds, spawns, List.map_cons, List.map_nil]
      refine ⟨trivial, ?_, by simp, done + 1, by simp, ?_⟩
      · rcases pre_cases done with hp | hp <;> simp [hp]
      · rcases hend with hs | hn
        · exact Or.inl hs
        · exact Or.inr (by omega)
    · rw [List.append_assoc, finisheds_pre, spawns_pre]
      simp only [List.cons_append, List.nil_append, finisheds, spawns]
      rcases ih (done + 1) _ ds' rest (by omega) hr with h0 | ⟨h1, h2, h3, k, hk, hk2⟩
      · exact Or.inl h0
      · right
        refine ⟨by simp [h1, List.append_assoc], ?_, by simp, k, ?_, hk2⟩
        · have hne : rest ≠ [] := by intro e; simp [e] at h2
          have : pre done ++ XEv.spawn (done + 1) :: XEv.willRetry (done + 1) (env.outcome (done + 1)) d :: rest =
              (pre done ++ [XEv.spawn (done + 1), XEv.willRetry (done + 1) (env.outcome (done + 1)) d]) ++ rest := by simp
          rw [this, getLast?_append_ne _ _ hne, h2]; simp [List.append_assoc]
        · cases hsr : spawns rest with
          | nil => exact absurd hsr h3
          | cons x xs => rw [hsr] at hk; rw [List.getLast?_cons_cons]; exact hk

/-- the delays announced with `AttemptFailedWillRetry` are the backoff iterator's, in order -/
theorem loop_delays (total : Nat) (env : Env) (fuel done : Nat) (acc : List Res) (ds : List Nat) (evs : List XEv)
    (h : loop total env fuel done acc ds = some evs) : announcedDelays evs <+: ds := by
  induction fuel generalizing done acc ds evs with
  | zero => simp [loop] at h; subst h; simp [announcedDelays]
  | succ fuel ih =>
    rcases loop_unfold total env fuel done acc ds evs h with ⟨_, _, rfl⟩ | ⟨_, ⟨_, rfl⟩ | ⟨_, _, d, ds', rest, rfl, hr, rfl⟩⟩
    · simp [announcedDelays]
    · rw [delays_pre]; simp [announcedDelays]
    · rw [List.append_assoc, delays_pre]; simp only [List.cons_append, List.nil_append, announcedDelays]
      exact List.cons_prefix_cons.mpr ⟨rfl, ih (done + 1) _ ds' rest hr⟩

end NextestModel.Attempts
