/-
  Whole-expression round trip (C20 `print_parse_roundtrip`): parsing the printed form of any expression of the shape the
  parser produces yields that expression again (modulo source spans), consumes exactly the printed text and reports nothing.

  The matcher-level round trip is a parameter (`hm`), discharged in Thm/C20 by `matcher_roundtrip`.
-/
import NextestModel.Model.Syntax
import NextestModel.Lemmas.StringRoundTrip
set_option linter.unusedSimpArgs false
namespace NextestModel.ExprRT
open NextestModel NextestModel.Syntax

/-! ### small facts -/

def NonWs (c : Char) : Prop := c ≠ ' ' ∧ c ≠ '\n' ∧ c ≠ '\r'

theorem skipWs_cons_nonws (c : Char) (cs : List Char) (h : NonWs c) : skipWs (c :: cs) = c :: cs := by
  obtain ⟨h1, h2, h3⟩ := h
  rw [skipWs]
  · intro cs' e; simp at e; exact h1 e.1
  · intro cs' e; simp at e; exact h2 e.1
  · intro cs' e; simp at e; exact h3 e.1

theorem skipWs_space (cs : List Char) : skipWs (' ' :: cs) = skipWs cs := by rw [skipWs]

@[simp] theorem withRest_withRest (st : St) (a b : List Char) : (st.withRest a).withRest b = st.withRest b := rfl
@[simp] theorem withRest_rest (st : St) (a : List Char) : (st.withRest a).rest = a := rfl
theorem withRest_eq (st : St) (a : List Char) : st.withRest a = { rest := a, errs := st.errs, needs := st.needs } := rfl

theorem lit_append (name : String) (r : List Char) : lit name (name.toList ++ r) = some r := by
  have hl : name.length = name.toList.length := Eq.symm String.length_toList
  simp only [lit, hl, List.drop_left]
  have : name.toList.isPrefixOf (name.toList ++ r) = true := by
    rw [List.isPrefixOf_iff_prefix]; exact List.prefix_append _ _
  simp [this]

/-- the default matcher of each predicate (the `alt` table of `parse_set_def`) -/
def dmOf : Pred → DefaultMatcher
  | .package => .glob | .deps => .glob | .rdeps => .glob | .kind => .equal
  | .binaryId => .glob | .binary => .glob | .test => .contains

/-- the matcher-level round trip, as a hypothesis -/
def MatcherRT (cx : Ctx) (MOk : DefaultMatcher → Matcher → Prop) : Prop :=
  ∀ (dm : DefaultMatcher) (m : Matcher) (tail : List Char) (errs : List PErr) (needs : List (Bool × List Char)),
    MOk dm m →
    setMatcher cx dm { rest := printMatcher m ++ ')' :: tail, errs := errs, needs := needs } =
      (some m, { rest := ')' :: tail, errs := errs, needs := needs })

def SetOk (MOk : DefaultMatcher → Matcher → Prop) : SetDef → Prop
  | .unary p m _ => MOk (dmOf p) m
  | _ => True

theorem expectChar_hit (cx : Ctx) (c : Char) (k : ErrKind) (st : St) (r : List Char) (hc : NonWs c) (h : st.rest = c :: r) :
    expectChar cx c k st = st.withRest r := by
  simp [expectChar, h, skipWs_cons_nonws c r hc]

theorem recoverComma_close (cx : Ctx) (st : St) (r : List Char) (h : st.rest = ')' :: r) : recoverComma cx st = st := by
  have : skipWs (')' :: r) = ')' :: r := skipWs_cons_nonws _ _ ⟨by decide, by decide, by decide⟩
  simp [recoverComma, h, this]

theorem unaryBody_printed (cx : Ctx) (MOk : DefaultMatcher → Matcher → Prop) (hm : MatcherRT cx MOk)
    (dm : DefaultMatcher) (p : Pred) (m : Matcher) (T : List Char) (st : St) (hok : MOk dm m) :
    ∃ sp, unaryBody cx dm p (st.withRest ('(' :: (printMatcher m ++ ')' :: T))) = (some (SetDef.unary p m sp), st.withRest T) := by
  have h1 : expectChar cx '(' .expectedOpenParen (st.withRest ('(' :: (printMatcher m ++ ')' :: T))) =
      st.withRest (printMatcher m ++ ')' :: T) :=
    expectChar_hit cx '(' _ _ _ ⟨by decide, by decide, by decide⟩ rfl
  have h2 := hm dm m T st.errs st.needs hok
  have h3 : recoverComma cx (st.withRest (')' :: T)) = st.withRest (')' :: T) := recoverComma_close cx _ T rfl
  have h4 : expectChar cx ')' .expectedCloseParen (st.withRest (')' :: T)) = st.withRest T :=
    expectChar_hit cx ')' _ _ _ ⟨by decide, by decide, by decide⟩ rfl
  refine ⟨⟨pos cx (st.withRest (printMatcher m ++ ')' :: T)),
    pos cx (st.withRest (')' :: T)) - pos cx (st.withRest (printMatcher m ++ ')' :: T))⟩, ?_⟩
  simp only [unaryBody, h1]
  rw [withRest_eq st (printMatcher m ++ ')' :: T), h2]
  simp only [← withRest_eq, h3, h4, Option.map_some]

theorem nullaryBody_printed (cx : Ctx) (start : Nat) (mk : Span → SetDef) (T : List Char) (st : St) :
    ∃ sp, nullaryBody cx start mk (st.withRest ('(' :: ')' :: T)) = (some (mk sp), st.withRest T) := by
  have h1 : expectChar cx '(' .expectedOpenParen (st.withRest ('(' :: ')' :: T)) = st.withRest (')' :: T) :=
    expectChar_hit cx '(' _ _ _ ⟨by decide, by decide, by decide⟩ rfl
  have h4 : expectChar cx ')' .expectedCloseParen (st.withRest (')' :: T)) = st.withRest T :=
    expectChar_hit cx ')' _ _ _ ⟨by decide, by decide, by decide⟩ rfl
  refine ⟨⟨start, pos cx (st.withRest T) - start⟩, ?_⟩
  simp only [nullaryBody, h1, withRest_rest, takeTill]
  simp [rustTrim, h4]

def platText : Platform → List Char
  | .host => "host".toList
  | .target => "target".toList

theorem platformBody_text (cx : Ctx) (pl : Platform) (v T : List Char) (st : St)
    (hv : v ≠ []) (hp : printString v = v) (hh : NonWs (v.headD 'x'))
    (h1 : pl = .host → (rustTrim v == "host".toList) = true)
    (h2 : pl = .target → (rustTrim v == "host".toList) = false ∧ (rustTrim v == "target".toList) = true) :
    platformBody cx (st.withRest ('(' :: (v ++ ')' :: T))) =
      (some (SetDef.platform pl ⟨pos cx (st.withRest (v ++ ')' :: T)),
        pos cx (st.withRest (')' :: T)) - pos cx (st.withRest (v ++ ')' :: T))⟩), st.withRest T) := by
  have hterm : Terminated (')' :: T) := Or.inr ⟨T, Or.inr rfl⟩
  have h4 : expectChar cx ')' .expectedCloseParen (st.withRest (')' :: T)) = st.withRest T :=
    expectChar_hit cx ')' _ _ _ ⟨by decide, by decide, by decide⟩ rfl
  have h3 : recoverComma cx (st.withRest (')' :: T)) = st.withRest (')' :: T) := recoverComma_close cx _ T rfl
  have hs : skipWs (v ++ ')' :: T) = v ++ ')' :: T := by
    cases v with
    | nil => exact absurd rfl hv
    | cons c cs => exact skipWs_cons_nonws c _ hh
  have text : parseMatcherText cx (st.withRest (v ++ ')' :: T)) = (some v, st.withRest (')' :: T)) := by
    have := loop_printed cx (')' :: T) hterm st.errs st.needs v.length v (Nat.le_refl _) 0 [] ((printStringFrom 0 v ++ ')' :: T).length + 1) (Nat.lt_succ_self _)
    have hp' : printStringFrom 0 v = v := hp
    rw [hp'] at this
    simp only [parseMatcherText, parseString, withRest_rest]
    rw [withRest_eq, this]
    cases v with
    | nil => exact absurd rfl hv
    | cons _ _ => rfl
  have h0 : expectChar cx '(' .expectedOpenParen (st.withRest ('(' :: (v ++ ')' :: T))) = st.withRest (v ++ ')' :: T) :=
    expectChar_hit cx '(' _ _ _ ⟨by decide, by decide, by decide⟩ rfl
  simp only [platformBody, h0, withRest_rest, withRest_withRest, hs, text, h3, h4]
  cases pl with
  | host => simp only [h1 rfl, if_true]
  | target => simp only [(h2 rfl).1, (h2 rfl).2, if_true, Bool.false_eq_true, if_false]

theorem platformBody_printed (cx : Ctx) (pl : Platform) (T : List Char) (st : St) :
    ∃ sp, platformBody cx (st.withRest ('(' :: (platText pl ++ ')' :: T))) = (some (SetDef.platform pl sp), st.withRest T) := by
  refine ⟨_, platformBody_text cx pl (platText pl) T st ?_ ?_ ?_ ?_ ?_⟩
  · cases pl <;> decide
  · cases pl <;> decide
  · cases pl <;> exact ⟨by decide, by decide, by decide⟩
  · intro h; subst h; decide
  · intro h; subst h; exact ⟨by decide, by decide⟩

theorem strlens : "package".length = 7 ∧ "deps".length = 4 ∧ "rdeps".length = 5 ∧ "kind".length = 4 ∧ "binary_id".length = 9 ∧
    "binary".length = 6 ∧ "test".length = 4 ∧ "platform".length = 8 ∧ "default".length = 7 ∧ "all".length = 3 ∧ "none".length = 4 ∧
    "not ".length = 4 ∧ "or ".length = 3 ∧ "and ".length = 4 ∧ "||".length = 2 ∧ "OR ".length = 3 ∧ "&&".length = 2 ∧ "AND ".length = 4 := by
  decide

theorem tryUnary_printed (cx : Ctx) (p : Pred) (R : List Char) (st : St) :
    tryUnary cx (st.withRest ((predName p).toList ++ '(' :: R)) unaryTable =
      some (unaryBody cx (dmOf p) p (st.withRest ('(' :: R))) := by
  obtain ⟨l1, l2, l3, l4, l5, l6, l7, _⟩ := strlens
  cases p <;> simp [tryUnary, unaryTable, lit, predName, dmOf, List.isPrefixOf, St.withRest, l1, l2, l3, l4, l5, l6, l7]

theorem predName_head (p : Pred) (R : List Char) : skipWs ((predName p).toList ++ R) = (predName p).toList ++ R := by
  cases p <;> exact skipWs_cons_nonws _ _ ⟨by decide, by decide, by decide⟩

/-- **every set definition round-trips** (modulo its source span) -/
theorem parseSetDef_printed (cx : Ctx) (MOk : DefaultMatcher → Matcher → Prop) (hm : MatcherRT cx MOk)
    (s : SetDef) (T : List Char) (st : St) (hok : SetOk MOk s) :
    ∃ s', parseSetDef cx (st.withRest (printSet s ++ T)) = some (some s', st.withRest T) ∧ SetDef.dropSpan s' = SetDef.dropSpan s := by
  obtain ⟨l1, l2, l3, l4, l5, l6, l7, l8, l9, l10, l11, _⟩ := strlens
  cases s with
  | unary p m sp =>
    obtain ⟨sp', h⟩ := unaryBody_printed cx MOk hm (dmOf p) p m T st hok
    refine ⟨SetDef.unary p m sp', ?_, rfl⟩
    have hpr : printSet (SetDef.unary p m sp) ++ T = (predName p).toList ++ '(' :: (printMatcher m ++ ')' :: T) := by
      have : printSet (SetDef.unary p m sp) = (predName p).toList ++ ['('] ++ printMatcher m ++ [')'] := rfl
      rw [this]
      simp only [List.append_assoc, List.singleton_append, List.cons_append, List.nil_append]
    simp only [parseSetDef, hpr, withRest_rest, withRest_withRest, predName_head, tryUnary_printed, h]
  | platform pl sp =>
    obtain ⟨sp', h⟩ := platformBody_printed cx pl T st
    refine ⟨SetDef.platform pl sp', ?_, rfl⟩
    have hpr : printSet (SetDef.platform pl sp) ++ T = 'p' :: 'l' :: 'a' :: 't' :: 'f' :: 'o' :: 'r' :: 'm' :: '(' :: (platText pl ++ ')' :: T) := by
      cases pl <;> rfl
    have hws : skipWs ('p' :: 'l' :: 'a' :: 't' :: 'f' :: 'o' :: 'r' :: 'm' :: '(' :: (platText pl ++ ')' :: T)) = _ :=
      skipWs_cons_nonws _ _ ⟨by decide, by decide, by decide⟩
    simp only [parseSetDef, hpr, withRest_rest, withRest_withRest, hws]
    simp [tryUnary, unaryTable, lit, List.isPrefixOf, St.withRest, l1, l2, l3, l4, l5, l6, l7, l8]
    simpa [St.withRest] using h
  | default sp =>
    obtain ⟨sp', h⟩ := nullaryBody_printed cx (pos cx (st.withRest ('d' :: 'e' :: 'f' :: 'a' :: 'u' :: 'l' :: 't' :: '(' :: ')' :: T))) (fun s => SetDef.default s) T st
    refine ⟨SetDef.default sp', ?_, rfl⟩
    have hpr : printSet (SetDef.default sp) ++ T = 'd' :: 'e' :: 'f' :: 'a' :: 'u' :: 'l' :: 't' :: '(' :: ')' :: T := rfl
    have hws : skipWs ('d' :: 'e' :: 'f' :: 'a' :: 'u' :: 'l' :: 't' :: '(' :: ')' :: T) = _ :=
      skipWs_cons_nonws _ _ ⟨by decide, by decide, by decide⟩
    simp only [parseSetDef, hpr, withRest_rest, withRest_withRest, hws]
    simp [tryUnary, unaryTable, lit, List.isPrefixOf, St.withRest, l1, l2, l3, l4, l5, l6, l7, l8, l9]
    simpa [St.withRest] using h
  | all =>
    obtain ⟨sp', h⟩ := nullaryBody_printed cx (pos cx (st.withRest ('a' :: 'l' :: 'l' :: '(' :: ')' :: T))) (fun _ => SetDef.all) T st
    refine ⟨SetDef.all, ?_, rfl⟩
    have hpr : printSet SetDef.all ++ T = 'a' :: 'l' :: 'l' :: '(' :: ')' :: T := rfl
    have hws : skipWs ('a' :: 'l' :: 'l' :: '(' :: ')' :: T) = _ := skipWs_cons_nonws _ _ ⟨by decide, by decide, by decide⟩
    simp only [parseSetDef, hpr, withRest_rest, withRest_withRest, hws]
    simp [tryUnary, unaryTable, lit, List.isPrefixOf, St.withRest, l1, l2, l3, l4, l5, l6, l7, l8, l9, l10]
    simpa [St.withRest] using h
  | none =>
    obtain ⟨sp', h⟩ := nullaryBody_printed cx (pos cx (st.withRest ('n' :: 'o' :: 'n' :: 'e' :: '(' :: ')' :: T))) (fun _ => SetDef.none) T st
    refine ⟨SetDef.none, ?_, rfl⟩
    have hpr : printSet SetDef.none ++ T = 'n' :: 'o' :: 'n' :: 'e' :: '(' :: ')' :: T := rfl
    have hws : skipWs ('n' :: 'o' :: 'n' :: 'e' :: '(' :: ')' :: T) = _ := skipWs_cons_nonws _ _ ⟨by decide, by decide, by decide⟩
    simp only [parseSetDef, hpr, withRest_rest, withRest_withRest, hws]
    simp [tryUnary, unaryTable, lit, List.isPrefixOf, St.withRest, l1, l2, l3, l4, l5, l6, l7, l8, l9, l10, l11]
    simpa [St.withRest] using h

/-! ### operators -/

def NoAndOp (T : List Char) : Prop := ∀ (cx : Ctx) (st : St), parseAndOp cx (st.withRest T) = none
def NoOrOp (T : List Char) : Prop := ∀ (cx : Ctx) (st : St), parseOrOp cx (st.withRest T) = none

theorem noAndOp_nil : NoAndOp [] := by
  intro cx st; simp [parseAndOp, skipWs, lit, St.withRest, List.isPrefixOf]
theorem noOrOp_nil : NoOrOp [] := by
  intro cx st; simp [parseOrOp, skipWs, lit, St.withRest, List.isPrefixOf]
theorem noAndOp_close (t : List Char) : NoAndOp (')' :: t) := by
  intro cx st
  have : skipWs (')' :: t) = ')' :: t := skipWs_cons_nonws _ _ ⟨by decide, by decide, by decide⟩
  simp [parseAndOp, this, lit, St.withRest, List.isPrefixOf]
theorem noOrOp_close (t : List Char) : NoOrOp (')' :: t) := by
  intro cx st
  have : skipWs (')' :: t) = ')' :: t := skipWs_cons_nonws _ _ ⟨by decide, by decide, by decide⟩
  simp [parseOrOp, this, lit, St.withRest, List.isPrefixOf]

def orText : OrOp → List Char
  | .literalOr => ['o', 'r'] | .pipe => ['|'] | .plus => ['+']
def andText : AndDiffOp → List Char
  | .and .literalAnd => ['a', 'n', 'd'] | .and .ampersand => ['&'] | .diff => ['-']

theorem noAndOp_or (op : OrOp) (t : List Char) : NoAndOp (' ' :: (orText op ++ ' ' :: t)) := by
  intro cx st
  cases op
  · have : skipWs ('o' :: 'r' :: ' ' :: t) = 'o' :: 'r' :: ' ' :: t := skipWs_cons_nonws _ _ ⟨by decide, by decide, by decide⟩
    simp [parseAndOp, orText, skipWs_space, this, lit, St.withRest, List.isPrefixOf]
  · have : skipWs ('|' :: ' ' :: t) = '|' :: ' ' :: t := skipWs_cons_nonws _ _ ⟨by decide, by decide, by decide⟩
    simp [parseAndOp, orText, skipWs_space, this, lit, St.withRest, List.isPrefixOf]
  · have : skipWs ('+' :: ' ' :: t) = '+' :: ' ' :: t := skipWs_cons_nonws _ _ ⟨by decide, by decide, by decide⟩
    simp [parseAndOp, orText, skipWs_space, this, lit, St.withRest, List.isPrefixOf]

/-- the printed and/difference operator is read back; what is left is the blank-prefixed (or bare) right operand -/
theorem parseAndOp_printed (cx : Ctx) (op : AndDiffOp) (R : List Char) (st : St) :
    ∃ R', parseAndOp cx (st.withRest (' ' :: (andText op ++ ' ' :: R))) = some (some op, st.withRest R') ∧ skipWs R' = skipWs R := by
  obtain ⟨_, _, _, _, _, _, _, _, _, _, _, _, _, l14, _, _, l17, l18⟩ := strlens
  cases op with
  | and a =>
    cases a
    · refine ⟨R, ?_, rfl⟩
      have : skipWs ('a' :: 'n' :: 'd' :: ' ' :: R) = 'a' :: 'n' :: 'd' :: ' ' :: R := skipWs_cons_nonws _ _ ⟨by decide, by decide, by decide⟩
      simp [parseAndOp, andText, skipWs_space, this, lit, St.withRest, List.isPrefixOf, l14, l17, l18]
    · refine ⟨' ' :: R, ?_, skipWs_space R⟩
      have : skipWs ('&' :: ' ' :: R) = '&' :: ' ' :: R := skipWs_cons_nonws _ _ ⟨by decide, by decide, by decide⟩
      simp [parseAndOp, andText, skipWs_space, this, lit, St.withRest, List.isPrefixOf, l14, l17, l18]
  | diff =>
    refine ⟨' ' :: R, ?_, skipWs_space R⟩
    have : skipWs ('-' :: ' ' :: R) = '-' :: ' ' :: R := skipWs_cons_nonws _ _ ⟨by decide, by decide, by decide⟩
    simp [parseAndOp, andText, skipWs_space, this, lit, St.withRest, List.isPrefixOf, l14, l17, l18]

theorem parseOrOp_printed (cx : Ctx) (op : OrOp) (R : List Char) (st : St) :
    ∃ R', parseOrOp cx (st.withRest (' ' :: (orText op ++ ' ' :: R))) = some (some op, st.withRest R') ∧ skipWs R' = skipWs R := by
  obtain ⟨_, _, _, _, _, _, _, _, _, _, _, _, l13, _, l15, l16, _, _⟩ := strlens
  cases op
  · refine ⟨R, ?_, rfl⟩
    have : skipWs ('o' :: 'r' :: ' ' :: R) = 'o' :: 'r' :: ' ' :: R := skipWs_cons_nonws _ _ ⟨by decide, by decide, by decide⟩
    simp [parseOrOp, orText, skipWs_space, this, lit, St.withRest, List.isPrefixOf, l13, l15, l16]
  · refine ⟨' ' :: R, ?_, skipWs_space R⟩
    have : skipWs ('|' :: ' ' :: R) = '|' :: ' ' :: R := skipWs_cons_nonws _ _ ⟨by decide, by decide, by decide⟩
    simp [parseOrOp, orText, skipWs_space, this, lit, St.withRest, List.isPrefixOf, l13, l15, l16]
  · refine ⟨' ' :: R, ?_, skipWs_space R⟩
    have : skipWs ('+' :: ' ' :: R) = '+' :: ' ' :: R := skipWs_cons_nonws _ _ ⟨by decide, by decide, by decide⟩
    simp [parseOrOp, orText, skipWs_space, this, lit, St.withRest, List.isPrefixOf, l13, l15, l16]

/-! ### printing facts -/

theorem printExpr_not (op : NotOp) (e : PExpr) : printExpr (.not op e) = (printNot op).toList ++ [' '] ++ printExpr e := rfl
theorem printExpr_union (op : OrOp) (a b : PExpr) :
    printExpr (.union op a b) = printExpr a ++ (' ' :: (orText op ++ ' ' :: printExpr b)) := by
  have : printExpr (.union op a b) = printExpr a ++ [' '] ++ (printOr op).toList ++ [' '] ++ printExpr b := rfl
  rw [this]; cases op <;> simp [orText, printOr]
theorem printExpr_inter (op : AndOp) (a b : PExpr) :
    printExpr (.inter op a b) = printExpr a ++ (' ' :: (andText (.and op) ++ ' ' :: printExpr b)) := by
  have : printExpr (.inter op a b) = printExpr a ++ [' '] ++ (printAnd op).toList ++ [' '] ++ printExpr b := rfl
  rw [this]; cases op <;> simp [andText, printAnd]
theorem printExpr_diff (a b : PExpr) :
    printExpr (.diff a b) = printExpr a ++ (' ' :: (andText .diff ++ ' ' :: printExpr b)) := by
  have : printExpr (.diff a b) = printExpr a ++ " - ".toList ++ printExpr b := rfl
  rw [this]; simp [andText]
theorem printExpr_parens (e : PExpr) : printExpr (.parens e) = '(' :: (printExpr e ++ [')']) := rfl
theorem printExpr_set (s : SetDef) : printExpr (.set s) = printSet s := rfl

theorem printSet_head (s : SetDef) : ∃ c r, printSet s = c :: r ∧ NonWs c := by
  cases s with
  | unary p m sp =>
    have : printSet (SetDef.unary p m sp) = (predName p).toList ++ ['('] ++ printMatcher m ++ [')'] := rfl
    rw [this]
    cases p <;> exact ⟨_, _, rfl, by decide, by decide, by decide⟩
  | platform pl sp => cases pl <;> exact ⟨_, _, rfl, by decide, by decide, by decide⟩
  | default sp => exact ⟨_, _, rfl, by decide, by decide, by decide⟩
  | all => exact ⟨_, _, rfl, by decide, by decide, by decide⟩
  | none => exact ⟨_, _, rfl, by decide, by decide, by decide⟩

theorem printExpr_head : ∀ e : PExpr, ∃ c r, printExpr e = c :: r ∧ NonWs c := by
  intro e
  induction e with
  | not op e _ => cases op <;> exact ⟨_, _, rfl, by decide, by decide, by decide⟩
  | union op a b iha _ =>
    obtain ⟨c, r, h, hc⟩ := iha
    exact ⟨c, _, by rw [printExpr_union, h]; rfl, hc⟩
  | inter op a b iha _ =>
    obtain ⟨c, r, h, hc⟩ := iha
    exact ⟨c, _, by rw [printExpr_inter, h]; rfl, hc⟩
  | diff a b iha _ =>
    obtain ⟨c, r, h, hc⟩ := iha
    exact ⟨c, _, by rw [printExpr_diff, h]; rfl, hc⟩
  | parens e _ => exact ⟨'(', _, rfl, by decide, by decide, by decide⟩
  | set s => exact printSet_head s

theorem skipWs_printExpr (e : PExpr) (T : List Char) : skipWs (printExpr e ++ T) = printExpr e ++ T := by
  obtain ⟨c, r, h, hc⟩ := printExpr_head e
  rw [h]; exact skipWs_cons_nonws c _ hc

/-! ### shape, size, fuel -/

def sz : PExpr → Nat
  | .not _ e => sz e + 1
  | .union _ a b => sz a + sz b + 1
  | .inter _ a b => sz a + sz b + 1
  | .diff a b => sz a + sz b + 1
  | .parens e => sz e + 1
  | .set _ => 1

/-- operators on the left spine at the and-level / or-level -/
def nand : PExpr → Nat
  | .inter _ a _ => nand a + 1
  | .diff a _ => nand a + 1
  | _ => 0
def nor : PExpr → Nat
  | .union _ a _ => nor a + 1
  | _ => 0

theorem sz_pos (e : PExpr) : 1 ≤ sz e := by cases e <;> simp [sz]
theorem nand_lt (e : PExpr) : nand e < sz e := by
  induction e with
  | inter op a b iha _ => simp only [nand, sz]; omega
  | diff a b iha _ => simp only [nand, sz]; omega
  | _ => simp [nand, sz]
theorem nor_lt (e : PExpr) : nor e < sz e := by
  induction e with
  | union op a b iha _ => simp only [nor, sz]; omega
  | _ => simp [nor, sz]

/-- the shape of the parser's output (level 0 = basic, 1 = and-level, 2 = or-level), with well-formed matchers -/
def wf (MOk : DefaultMatcher → Matcher → Prop) : Nat → PExpr → Prop
  | _, .set s => SetOk MOk s
  | _, .not _ e => wf MOk 0 e
  | _, .parens e => wf MOk 2 e
  | l, .inter _ a b => 1 ≤ l ∧ wf MOk 1 a ∧ wf MOk 0 b
  | l, .diff a b => 1 ≤ l ∧ wf MOk 1 a ∧ wf MOk 0 b
  | l, .union _ a b => 2 ≤ l ∧ wf MOk 2 a ∧ wf MOk 1 b

theorem andLoop_stop (cx : Ctx) (g : Nat) (acc : ERes) (st : St) (h : parseAndOp cx st = none) :
    andLoop cx (g + 1) acc st = (acc, st) := by
  simp only [andLoop, h]
theorem orLoop_stop (cx : Ctx) (g : Nat) (acc : ERes) (st : St) (h : parseOrOp cx st = none) :
    orLoop cx (g + 1) acc st = (acc, st) := by
  simp only [orLoop, h]

/-! ### the three levels -/

section levels
variable (cx : Ctx) (MOk : DefaultMatcher → Matcher → Prop)

/-- `parse_basic_expr` on the printed form of a basic expression -/
def PB (e : PExpr) : Prop := ∀ (f : Nat) (r T : List Char) (st : St), skipWs r = printExpr e ++ T → 4 * sz e ≤ f + 3 →
  ∃ e', parseBasic cx f (st.withRest r) = some (some e', st.withRest T) ∧ dropSpans e' = dropSpans e

/-- `parse_and_or_difference_expr` on the printed form of an and-level expression: after the printed text the loop is in the
    state "accumulated = the expression, fuel reduced by one per operator" -/
def PA (e : PExpr) : Prop := ∀ (F : Nat) (r T : List Char) (st : St), skipWs r = printExpr e ++ T → 4 * sz e ≤ F + 1 →
  ∃ e', dropSpans e' = dropSpans e ∧ parseAndOr cx F (st.withRest r) = andLoop cx (F - 1 - nand e) (some e') (st.withRest T)

/-- `parse_expr` on the printed form of an or-level expression -/
def PE (e : PExpr) : Prop := ∀ (F : Nat) (r T : List Char) (st : St), skipWs r = printExpr e ++ T → NoAndOp T → 4 * sz e ≤ F →
  ∃ e', dropSpans e' = dropSpans e ∧ parseExpr cx F (st.withRest r) = orLoop cx (F - 1 - nor e) (some e') (st.withRest T)

theorem bm_of_pb (e : PExpr) (h : PB cx e) (g : Nat) (r T : List Char) (st : St) (hr : skipWs r = printExpr e ++ T)
    (hf : 4 * sz e ≤ g + 2) : ∃ e', basicOrMissing cx g (st.withRest r) = (some e', st.withRest T) ∧ dropSpans e' = dropSpans e := by
  have hpos := sz_pos e
  cases g with
  | zero => omega
  | succ g' =>
    obtain ⟨e', h1, h2⟩ := h g' r T st hr (by omega)
    exact ⟨e', by simp only [basicOrMissing, h1], h2⟩

theorem pa_of_pb (e : PExpr) (hn : nand e = 0) (h : PB cx e) : PA cx e := by
  intro F r T st hr hf
  have hpos := sz_pos e
  cases F with
  | zero => omega
  | succ F' =>
    obtain ⟨e', h1, h2⟩ := bm_of_pb cx e h F' r T st hr (by omega)
    refine ⟨e', h2, ?_⟩
    simp only [parseAndOr, h1, hn]
    congr 1

theorem pe_of_pa (e : PExpr) (hn : nor e = 0) (h : PA cx e) : PE cx e := by
  intro F r T st hr hT hf
  have hpos := sz_pos e
  have hnl := nand_lt e
  cases F with
  | zero => omega
  | succ F' =>
    obtain ⟨e', h2, h1⟩ := h F' r T st hr (by omega)
    refine ⟨e', h2, ?_⟩
    have hstop : andLoop cx (F' - 1 - nand e) (some e') (st.withRest T) = (some e', st.withRest T) := by
      have : F' - 1 - nand e = (F' - 2 - nand e) + 1 := by omega
      rw [this]; exact andLoop_stop cx _ _ _ (hT cx st)
    simp only [parseExpr, h1, hstop, hn]
    congr 1

theorem dropSpans_set (s s' : SetDef) (h : SetDef.dropSpan s' = SetDef.dropSpan s) : dropSpans (.set s') = dropSpans (.set s) := by
  simp only [dropSpans, h]

theorem parseSetDef_none_of_head (cx : Ctx) (st : St) (c : Char) (R : List Char) (hws : NonWs c)
    (hc : c ≠ 'p' ∧ c ≠ 'd' ∧ c ≠ 'r' ∧ c ≠ 'k' ∧ c ≠ 'b' ∧ c ≠ 't' ∧ c ≠ 'a' ∧ c ≠ 'n') :
    parseSetDef cx (st.withRest (c :: R)) = none := by
  obtain ⟨h1, h2, h3, h4, h5, h6, h7, h8⟩ := hc
  have hs : skipWs (c :: R) = c :: R := skipWs_cons_nonws c R hws
  have e1 : ('p' == c) = false := by simp [Ne.symm h1]
  have e2 : ('d' == c) = false := by simp [Ne.symm h2]
  have e3 : ('r' == c) = false := by simp [Ne.symm h3]
  have e4 : ('k' == c) = false := by simp [Ne.symm h4]
  have e5 : ('b' == c) = false := by simp [Ne.symm h5]
  have e6 : ('t' == c) = false := by simp [Ne.symm h6]
  have e7 : ('a' == c) = false := by simp [Ne.symm h7]
  have e8 : ('n' == c) = false := by simp [Ne.symm h8]
  simp [parseSetDef, hs, tryUnary, unaryTable, lit, List.isPrefixOf, St.withRest, e1, e2, e3, e4, e5, e6, e7, e8]

theorem parseSetDef_none_not (cx : Ctx) (st : St) (R : List Char) :
    parseSetDef cx (st.withRest ('n' :: 'o' :: 't' :: ' ' :: R)) = none := by
  have hs : skipWs ('n' :: 'o' :: 't' :: ' ' :: R) = 'n' :: 'o' :: 't' :: ' ' :: R := skipWs_cons_nonws _ _ ⟨by decide, by decide, by decide⟩
  simp [parseSetDef, hs, tryUnary, unaryTable, lit, List.isPrefixOf, St.withRest]

variable (hm : MatcherRT cx MOk)
include hm

theorem levels : ∀ e : PExpr, (wf MOk 0 e → PB cx e) ∧ (wf MOk 1 e → PA cx e) ∧ (wf MOk 2 e → PE cx e) := by
  obtain ⟨_, _, _, _, _, _, _, _, _, _, _, l12, _⟩ := strlens
  intro e
  induction e with
  | set s =>
    have hb : wf MOk 0 (.set s) → PB cx (.set s) := by
      intro hw f r T st hr hf
      cases f with
      | zero => simp [sz] at hf
      | succ f' =>
        obtain ⟨s', h1, h2⟩ := parseSetDef_printed cx MOk hm s T st hw
        refine ⟨.set s', ?_, dropSpans_set s s' h2⟩
        rw [printExpr_set] at hr
        simp only [parseBasic, withRest_rest, withRest_withRest, hr, h1, Option.map_some]
    exact ⟨hb, fun hw => pa_of_pb cx _ rfl (hb hw), fun hw => pe_of_pa cx _ rfl (pa_of_pb cx _ rfl (hb hw))⟩
  | not op e ih =>
    have hb : wf MOk 0 (.not op e) → PB cx (.not op e) := by
      intro hw f r T st hr hf
      have hpb : PB cx e := ih.1 hw
      simp only [sz] at hf
      cases f with
      | zero => omega
      | succ f' =>
        rw [printExpr_not] at hr
        cases op with
        | literalNot =>
          have hr' : skipWs r = 'n' :: 'o' :: 't' :: ' ' :: (printExpr e ++ T) := by rw [hr]; rfl
          obtain ⟨e', h1, h2⟩ := bm_of_pb cx e hpb f' (printExpr e ++ T) T st (skipWs_printExpr e T) (by omega)
          refine ⟨.not .literalNot e', ?_, by simp only [dropSpans, h2]⟩
          simp only [parseBasic, withRest_rest, withRest_withRest, hr', parseSetDef_none_not]
          simp [lit, List.isPrefixOf, l12, St.withRest]
          have h1' := h1
          simp only [St.withRest] at h1'
          simp [h1']
        | exclamation =>
          have hr' : skipWs r = '!' :: ' ' :: (printExpr e ++ T) := by rw [hr]; rfl
          obtain ⟨e', h1, h2⟩ := bm_of_pb cx e hpb f' (' ' :: (printExpr e ++ T)) T st
            (by rw [skipWs_space]; exact skipWs_printExpr e T) (by omega)
          refine ⟨.not .exclamation e', ?_, by simp only [dropSpans, h2]⟩
          have hnone := parseSetDef_none_of_head cx st '!' (' ' :: (printExpr e ++ T)) ⟨by decide, by decide, by decide⟩
            ⟨by decide, by decide, by decide, by decide, by decide, by decide, by decide, by decide⟩
          simp only [parseBasic, withRest_rest, withRest_withRest, hr', hnone]
          simp [lit, List.isPrefixOf, l12, St.withRest]
          have h1' := h1
          simp only [St.withRest] at h1'
          simp [h1']
    exact ⟨hb, fun hw => pa_of_pb cx _ rfl (hb hw), fun hw => pe_of_pa cx _ rfl (pa_of_pb cx _ rfl (hb hw))⟩
  | parens e ih =>
    have hb : wf MOk 0 (.parens e) → PB cx (.parens e) := by
      intro hw f r T st hr hf
      have hpe : PE cx e := ih.2.2 hw
      simp only [sz] at hf
      have hnl := nor_lt e
      cases f with
      | zero => omega
      | succ f' =>
        rw [printExpr_parens] at hr
        have hr' : skipWs r = '(' :: (printExpr e ++ ')' :: T) := by rw [hr]; simp
        obtain ⟨e', h2, h1⟩ := hpe f' (printExpr e ++ ')' :: T) (')' :: T) st (skipWs_printExpr e _) (noAndOp_close T) (by omega)
        have hstop : orLoop cx (f' - 1 - nor e) (some e') (st.withRest (')' :: T)) = (some e', st.withRest (')' :: T)) := by
          have : f' - 1 - nor e = (f' - 2 - nor e) + 1 := by omega
          rw [this]; exact orLoop_stop cx _ _ _ (noOrOp_close T cx st)
        have hclose : expectChar cx ')' .expectedCloseParen (st.withRest (')' :: T)) = st.withRest T :=
          expectChar_hit cx ')' _ _ _ ⟨by decide, by decide, by decide⟩ rfl
        refine ⟨.parens e', ?_, by simp only [dropSpans, h2]⟩
        have hnone := parseSetDef_none_of_head cx st '(' (printExpr e ++ ')' :: T) ⟨by decide, by decide, by decide⟩
          ⟨by decide, by decide, by decide, by decide, by decide, by decide, by decide, by decide⟩
        simp only [parseBasic, withRest_rest, withRest_withRest, hr', hnone]
        simp [lit, List.isPrefixOf, l12, St.withRest]
        have h1' := h1
        simp only [St.withRest] at h1' hstop hclose
        simp [h1', hstop, hclose]
    exact ⟨hb, fun hw => pa_of_pb cx _ rfl (hb hw), fun hw => pe_of_pa cx _ rfl (pa_of_pb cx _ rfl (hb hw))⟩
  | inter op a b iha ihb =>
    have ha' : wf MOk 1 (.inter op a b) → PA cx (.inter op a b) := by
      intro hw F r T st hr hf
      obtain ⟨_, hwa, hwb⟩ := hw
      have hpa : PA cx a := iha.2.1 hwa
      have hpb : PB cx b := ihb.1 hwb
      simp only [sz] at hf
      have hnl := nand_lt a
      have hposb := sz_pos b
      rw [printExpr_inter, List.append_assoc] at hr
      obtain ⟨a', ha2, ha1⟩ := hpa F r (' ' :: (andText (.and op) ++ ' ' :: printExpr b) ++ T) st hr (by omega)
      obtain ⟨R', hop, hR'⟩ := parseAndOp_printed cx (.and op) (printExpr b ++ T) st
      obtain ⟨b', hb1, hb2⟩ := bm_of_pb cx b hpb (F - 2 - nand a) R' T st (by rw [hR']; exact skipWs_printExpr b T) (by omega)
      refine ⟨.inter op a' b', by simp only [dropSpans, ha2, hb2], ?_⟩
      rw [ha1]
      have hF : F - 1 - nand a = (F - 2 - nand a) + 1 := by omega
      have hT : (' ' :: (andText (.and op) ++ ' ' :: printExpr b) ++ T) = ' ' :: (andText (.and op) ++ ' ' :: (printExpr b ++ T)) := by simp
      rw [hF, hT]
      simp only [andLoop, hop, hb1, combineAnd, nand]
      congr 1
      omega
    exact ⟨fun hw => absurd hw.1 (by omega), ha', fun hw => pe_of_pa cx _ rfl (ha' ⟨by omega, hw.2.1, hw.2.2⟩)⟩
  | diff a b iha ihb =>
    have ha' : wf MOk 1 (.diff a b) → PA cx (.diff a b) := by
      intro hw F r T st hr hf
      obtain ⟨_, hwa, hwb⟩ := hw
      have hpa : PA cx a := iha.2.1 hwa
      have hpb : PB cx b := ihb.1 hwb
      simp only [sz] at hf
      have hnl := nand_lt a
      have hposb := sz_pos b
      rw [printExpr_diff, List.append_assoc] at hr
      obtain ⟨a', ha2, ha1⟩ := hpa F r (' ' :: (andText .diff ++ ' ' :: printExpr b) ++ T) st hr (by omega)
      obtain ⟨R', hop, hR'⟩ := parseAndOp_printed cx .diff (printExpr b ++ T) st
      obtain ⟨b', hb1, hb2⟩ := bm_of_pb cx b hpb (F - 2 - nand a) R' T st (by rw [hR']; exact skipWs_printExpr b T) (by omega)
      refine ⟨.diff a' b', by simp only [dropSpans, ha2, hb2], ?_⟩
      rw [ha1]
      have hF : F - 1 - nand a = (F - 2 - nand a) + 1 := by omega
      have hT : (' ' :: (andText .diff ++ ' ' :: printExpr b) ++ T) = ' ' :: (andText .diff ++ ' ' :: (printExpr b ++ T)) := by simp
      rw [hF, hT]
      simp only [andLoop, hop, hb1, combineAnd, nand]
      congr 1
      omega
    exact ⟨fun hw => absurd hw.1 (by omega), ha', fun hw => pe_of_pa cx _ rfl (ha' ⟨by omega, hw.2.1, hw.2.2⟩)⟩
  | union op a b iha ihb =>
    have he' : wf MOk 2 (.union op a b) → PE cx (.union op a b) := by
      intro hw F r T st hr hT hf
      obtain ⟨_, hwa, hwb⟩ := hw
      have hpe : PE cx a := iha.2.2 hwa
      have hpa : PA cx b := ihb.2.1 hwb
      simp only [sz] at hf
      have hnl := nor_lt a
      have hnb := nand_lt b
      have hposb := sz_pos b
      rw [printExpr_union, List.append_assoc] at hr
      have hT' : (' ' :: (orText op ++ ' ' :: printExpr b) ++ T) = ' ' :: (orText op ++ ' ' :: (printExpr b ++ T)) := by simp
      obtain ⟨a', ha2, ha1⟩ := hpe F r (' ' :: (orText op ++ ' ' :: printExpr b) ++ T) st hr
        (by rw [hT']; exact noAndOp_or op _) (by omega)
      obtain ⟨R', hop, hR'⟩ := parseOrOp_printed cx op (printExpr b ++ T) st
      obtain ⟨b', hb2, hb1⟩ := hpa (F - 2 - nor a) R' T st (by rw [hR']; exact skipWs_printExpr b T) (by omega)
      have hstop : andLoop cx (F - 2 - nor a - 1 - nand b) (some b') (st.withRest T) = (some b', st.withRest T) := by
        have : F - 2 - nor a - 1 - nand b = (F - 2 - nor a - 2 - nand b) + 1 := by omega
        rw [this]; exact andLoop_stop cx _ _ _ (hT cx st)
      refine ⟨.union op a' b', by simp only [dropSpans, ha2, hb2], ?_⟩
      rw [ha1]
      have hF : F - 1 - nor a = (F - 2 - nor a) + 1 := by omega
      rw [hF, hT']
      simp only [orLoop, hop, hb1, hstop, combineOr, nor]
      congr 1
      omega
    exact ⟨fun hw => absurd hw.1 (by omega), fun hw => absurd hw.1 (by omega), he'⟩

end levels

/-! ### top level -/

theorem sz_le_length : ∀ e : PExpr, sz e ≤ (printExpr e).length := by
  intro e
  induction e with
  | set s =>
    obtain ⟨c, r, h, _⟩ := printSet_head s
    simp [sz, printExpr_set, h]
  | not op e ih => rw [printExpr_not]; simp only [sz, List.length_append, List.length_cons, List.length_nil]; omega
  | parens e ih => rw [printExpr_parens]; simp only [sz, List.length_append, List.length_cons, List.length_nil]; omega
  | union op a b iha ihb => rw [printExpr_union]; simp only [sz, List.length_append, List.length_cons]; omega
  | inter op a b iha ihb => rw [printExpr_inter]; simp only [sz, List.length_append, List.length_cons]; omega
  | diff a b iha ihb => rw [printExpr_diff]; simp only [sz, List.length_append, List.length_cons]; omega

theorem wf_mono (MOk : DefaultMatcher → Matcher → Prop) (l l' : Nat) (hl : l ≤ l') : ∀ e, wf MOk l e → wf MOk l' e := by
  intro e h
  cases e with
  | set s => exact h
  | not op e => exact h
  | parens e => exact h
  | inter op a b => exact ⟨by have := h.1; omega, h.2.1, h.2.2⟩
  | diff a b => exact ⟨by have := h.1; omega, h.2.1, h.2.2⟩
  | union op a b => exact ⟨by have := h.1; omega, h.2.1, h.2.2⟩

/-- **the whole-expression round trip, at the level of `parseTop`** -/
theorem parseTop_printed (MOk : DefaultMatcher → Matcher → Prop) (e : PExpr) (rv gv : List (List Char × Bool)) (re : List (List Char × Nat × Nat))
    (hm : MatcherRT (mkCtx (printExpr e) rv gv re) MOk) (hw : wf MOk 2 e) :
    ∃ e', parseTop (mkCtx (printExpr e) rv gv re) (printExpr e) = (some e', { rest := [], errs := [], needs := [] }) ∧
      dropSpans e' = dropSpans e := by
  have hlen := sz_le_length e
  have hnl := nor_lt e
  have hpe := (levels (mkCtx (printExpr e) rv gv re) MOk hm e).2.2 hw
  obtain ⟨e', h2, h1⟩ := hpe (fuelFor (printExpr e)) (printExpr e) [] { rest := printExpr e, errs := [], needs := [] }
    (by simpa using skipWs_printExpr e []) noAndOp_nil (by simp only [fuelFor]; omega)
  refine ⟨e', ?_, h2⟩
  have hstop : orLoop (mkCtx (printExpr e) rv gv re) (fuelFor (printExpr e) - 1 - nor e) (some e')
      (St.withRest { rest := printExpr e, errs := [], needs := [] } []) = (some e', { rest := [], errs := [], needs := [] }) := by
    have : fuelFor (printExpr e) - 1 - nor e = (fuelFor (printExpr e) - 2 - nor e) + 1 := by simp only [fuelFor]; omega
    rw [this]; exact orLoop_stop _ _ _ _ (noOrOp_nil _ _)
  have h1' : parseExpr (mkCtx (printExpr e) rv gv re) (fuelFor (printExpr e)) { rest := printExpr e, errs := [], needs := [] } =
      (some e', { rest := [], errs := [], needs := [] }) := by
    have := h1; simp only [St.withRest] at this hstop; rw [this, hstop]
  simp only [parseTop, h1']
  simp [skipWs, St.withRest]

end NextestModel.ExprRT
