/-
  Helper lemmas for C20: the string printer (`DisplayParsedString`) followed by the string parser
  (`parse_string`) is the identity, for every string of Unicode scalar values.
-/
import NextestModel.Model.Syntax
namespace NextestModel.Syntax

/-! ## hexadecimal -/

theorem hexVal_digit : ∀ d : Fin 16, hexVal (hexDigitLower d.val) = some d.val := by decide

theorem hexVal_close : hexVal '}' = none := by decide

/-- reading digits: most significant first -/
def hexFold (acc : Nat) (ds : List Nat) : Nat := ds.foldl (fun a d => a * 16 + d) acc

theorem takeHex_digits (ds : List Nat) (hds : ∀ d ∈ ds, d < 16) (rest : List Char) (m acc cnt : Nat) (hm : ds.length ≤ m) :
    takeHex m (ds.map hexDigitLower ++ '}' :: rest) acc cnt =
      (if ds.length = m then (hexFold acc ds, cnt + ds.length, '}' :: rest) else (hexFold acc ds, cnt + ds.length, '}' :: rest)) := by
  simp only [ite_self]
  induction ds generalizing m acc cnt with
  | nil =>
    cases m with
    | zero => simp [takeHex, hexFold]
    | succ m => simp [takeHex, hexVal_close, hexFold]
  | cons d ds ih =>
    cases m with
    | zero => simp at hm
    | succ m =>
      have hd : d < 16 := hds d (List.mem_cons_self ..)
      have := hexVal_digit ⟨d, hd⟩
      simp only at this
      simp only [List.map_cons, List.cons_append, takeHex, this]
      rw [ih (fun x hx => hds x (List.mem_cons_of_mem _ hx)) m (acc * 16 + d) (cnt + 1) (by simpa using hm)]
      simp [hexFold]; omega

/-- the digits `toHexDigits` writes -/
def hexDigitsOf : Nat → Nat → List Nat
  | 0, _ => []
  | f + 1, n => if n < 16 then [n] else hexDigitsOf f (n / 16) ++ [n % 16]

theorem toHexDigits_eq (f n : Nat) : toHexDigits f n = (hexDigitsOf f n).map hexDigitLower := by
  induction f generalizing n with
  | zero => rfl
  | succ f ih =>
    simp only [toHexDigits, hexDigitsOf]
    split
    · rfl
    · simp [ih]

theorem hexDigitsOf_lt (f n : Nat) : ∀ d ∈ hexDigitsOf f n, d < 16 := by
  induction f generalizing n with
  | zero => simp [hexDigitsOf]
  | succ f ih =>
    simp only [hexDigitsOf]
    split
    · intro d hd; simp at hd; omega
    · intro d hd
      rcases List.mem_append.mp hd with h | h
      · exact ih _ d h
      · simp at h; omega

theorem hexFold_append (acc : Nat) (a b : List Nat) : hexFold acc (a ++ b) = hexFold (hexFold acc a) b := by
  simp [hexFold, List.foldl_append]

/-- with enough fuel the digits denote the number, and there are at most `f` of them and at least one -/
theorem hexDigitsOf_spec (f n : Nat) (hn : n < 16 ^ f) (hf : 0 < f) :
    hexFold 0 (hexDigitsOf f n) = n ∧ (hexDigitsOf f n).length ≤ f ∧ 0 < (hexDigitsOf f n).length := by
  induction f generalizing n with
  | zero => omega
  | succ f ih =>
    simp only [hexDigitsOf]
    split
    · simp [hexFold]
    · rename_i h16
      have hf' : 0 < f := by
        rcases Nat.eq_zero_or_pos f with h0 | hp
        · subst h0; simp at hn; omega
        · exact hp
      have hq : n / 16 < 16 ^ f := by
        rw [Nat.pow_succ] at hn
        exact Nat.div_lt_of_lt_mul (by rw [Nat.mul_comm]; exact hn)
      obtain ⟨h1, h2, h3⟩ := ih (n / 16) hq hf'
      refine ⟨?_, by simp; omega, by simp⟩
      rw [hexFold_append, h1]
      simp [hexFold]
      omega

theorem charOfNat_toNat (c : Char) : charOfNat? c.toNat = some c := by
  unfold charOfNat?
  have hv : c.toNat.isValidChar := c.valid
  rw [dif_pos hv]
  congr 1
  apply Char.ext
  show UInt32.ofNat c.val.toNat = c.val
  exact UInt32.ofNat_toNat

theorem char_lt (c : Char) : c.toNat < 16 ^ 6 := by
  have h := c.valid
  unfold UInt32.isValidChar Nat.isValidChar at h
  show c.val.toNat < 16 ^ 6
  omega

/-- **`\u{…}` written by the printer is read back as the character** -/
theorem parseUnicode_escape (c : Char) (rest : List Char) :
    parseUnicode ('u' :: '{' :: (toHexDigits 8 c.toNat ++ '}' :: rest)) = some (c, rest) := by
  have hlt := char_lt c
  have h8 : c.toNat < 16 ^ 8 := Nat.lt_of_lt_of_le hlt (by decide)
  have h6 := hexDigitsOf_spec 6 c.toNat hlt (by decide)
  -- the digits written with fuel 8 are those written with fuel 6 (fuel beyond the length is unused)
  have hsame : hexDigitsOf 8 c.toNat = hexDigitsOf 6 c.toNat := by
    have key : ∀ (f : Nat) (n : Nat), n < 16 ^ f → 0 < f → hexDigitsOf (f + 1) n = hexDigitsOf f n := by
      intro f
      induction f with
      | zero => intro n _ h; omega
      | succ f ih =>
        intro n hn _
        rw [hexDigitsOf]
        conv => rhs; rw [hexDigitsOf]
        split
        · rfl
        · rename_i h16
          have hf' : 0 < f := by
            rcases Nat.eq_zero_or_pos f with h0 | hp
            · subst h0; simp at hn; omega
            · exact hp
          have hq : n / 16 < 16 ^ f := by
            rw [Nat.pow_succ] at hn
            exact Nat.div_lt_of_lt_mul (by rw [Nat.mul_comm]; exact hn)
          rw [ih (n / 16) hq hf']
    rw [key 7 _ (Nat.lt_of_lt_of_le hlt (by decide)) (by decide), key 6 _ hlt (by decide)]
  simp only [parseUnicode]
  rw [toHexDigits_eq, hsame, takeHex_digits _ (hexDigitsOf_lt 6 _) rest 6 0 0 h6.2.1]
  simp only [ite_self, Nat.zero_add]
  have hne : ((hexDigitsOf 6 c.toNat).length == 0) = false := by
    have := h6.2.2
    generalize (hexDigitsOf 6 c.toNat).length = l at *
    cases l <;> simp_all
  simp only [hne, Bool.false_eq_true, if_false, h6.1, charOfNat_toNat, Option.map_some]

/-! ## one printed character -/

/-- printed raw -/
def isRaw (i : Nat) (c : Char) : Bool := printStringChar i c == [c]

theorem printStringChar_cases (i : Nat) (c : Char) :
    (printStringChar i c = [c] ∧ isStringStop c = false) ∨
    (∃ body, printStringChar i c = '\\' :: body ∧ ∀ rest, parseEscapeBody (body ++ rest) = some (c, rest)) := by
  unfold printStringChar
  by_cases h1 : c = '/'
  · right; subst h1; exact ⟨['/'], by simp, fun rest => by simp [parseEscapeBody, parseUnicode]⟩
  by_cases h2 : c = ')'
  · right; subst h2; exact ⟨[')'], by simp, fun rest => by simp [parseEscapeBody, parseUnicode]⟩
  by_cases h3 : c = ','
  · right; subst h3; exact ⟨[','], by simp, fun rest => by simp [parseEscapeBody, parseUnicode]⟩
  by_cases h4 : c = '\''
  · left; subst h4; exact ⟨by simp, by decide⟩
  by_cases h5 : c = '"'
  · left; subst h5; exact ⟨by simp, by decide⟩
  have hq : (c == '\'' || c == '"') = false := by simp [h4, h5]
  simp only [beq_iff_eq, h1, h2, h3, hq, if_false, Bool.false_eq_true]
  have huni : ∃ body, unicodeEscape c = '\\' :: body ∧ ∀ rest, parseEscapeBody (body ++ rest) = some (c, rest) := by
    refine ⟨'u' :: '{' :: (toHexDigits 8 c.toNat ++ ['}']), by simp [unicodeEscape], ?_⟩
    intro rest
    have := parseUnicode_escape c rest
    simp only [parseEscapeBody, List.cons_append, List.append_assoc, List.singleton_append, List.nil_append]
    rw [this]
  by_cases h6 : (i == 0 && (c == ' ' || c == '=' || c == '~' || c == '#')) = true
  · right; simp only [h6, if_true]; exact huni
  · simp only [h6, Bool.false_eq_true, if_false]
    unfold escapeDefault
    by_cases e1 : c = '\t'
    · right; subst e1; exact ⟨['t'], by simp, fun rest => by simp [parseEscapeBody, parseUnicode]⟩
    by_cases e2 : c = '\r'
    · right; subst e2; exact ⟨['r'], by simp, fun rest => by simp [parseEscapeBody, parseUnicode]⟩
    by_cases e3 : c = '\n'
    · right; subst e3; exact ⟨['n'], by simp, fun rest => by simp [parseEscapeBody, parseUnicode]⟩
    by_cases e6 : c = '\\'
    · right; subst e6; exact ⟨['\\'], by simp, fun rest => by simp [parseEscapeBody, parseUnicode]⟩
    simp only [beq_iff_eq, e1, e2, e3, h4, h5, e6, if_false]
    by_cases e7 : 0x20 ≤ c.toNat ∧ c.toNat ≤ 0x7e
    · left; simp only [e7, and_self, if_true]; exact ⟨trivial, by simp [isStringStop, h3, h2, e6]⟩
    · right; simp only [e7, if_false]; exact huni

theorem printStringChar_succ (i : Nat) (c : Char) : printStringChar (i + 1) c = printStringChar 1 c := by
  simp [printStringChar]

theorem printStringFrom_succ (i : Nat) (s : List Char) : printStringFrom (i + 1) s = printStringFrom 1 s := by
  induction s generalizing i with
  | nil => rfl
  | cons c cs ih => simp only [printStringFrom, printStringChar_succ, ih (i + 1), ih 1]

theorem printStringFrom_length (i : Nat) (s : List Char) : s.length ≤ (printStringFrom i s).length := by
  induction s generalizing i with
  | nil => simp [printStringFrom]
  | cons c cs ih =>
    simp only [printStringFrom, List.length_append, List.length_cons]
    have := ih (i + 1)
    rcases printStringChar_cases i c with ⟨h, _⟩ | ⟨b, h, _⟩ <;> rw [h] <;> simp <;> omega

/-! ## the fragment loop -/

/-- a terminator: what `parse_string` stops at, or the end of the input -/
def Terminated (tail : List Char) : Prop := tail = [] ∨ ∃ t, tail = ',' :: t ∨ tail = ')' :: t

/-- `take_till` over printed text stops exactly where the raw characters end -/
theorem takeTill_printed (s tail : List Char) (ht : Terminated tail) :
    ∃ raw rem, s = raw ++ rem ∧ (∀ c ∈ raw, printStringChar 1 c = [c] ∧ isStringStop c = false) ∧
      (rem = [] ∨ ∃ c rem', rem = c :: rem' ∧ ∃ body, printStringChar 1 c = '\\' :: body) ∧
      takeTill isStringStop (printStringFrom 1 s ++ tail) = (raw, printStringFrom 1 rem ++ tail) := by
  induction s with
  | nil =>
    refine ⟨[], [], rfl, by simp, Or.inl rfl, ?_⟩
    simp only [printStringFrom, List.nil_append]
    rcases ht with rfl | ⟨t, rfl | rfl⟩
    · rfl
    · simp [takeTill, isStringStop]
    · simp [takeTill, isStringStop]
  | cons c cs ih =>
    rcases printStringChar_cases 1 c with ⟨hraw, hns⟩ | ⟨body, hesc, _⟩
    · obtain ⟨raw, rem, hs, hr, hrem, htt⟩ := ih
      refine ⟨c :: raw, rem, by simp [hs], ?_, hrem, ?_⟩
      · intro x hx; rcases List.mem_cons.mp hx with rfl | hx
        · exact ⟨hraw, hns⟩
        · exact hr x hx
      · simp only [printStringFrom, hraw, List.singleton_append, List.cons_append, List.nil_append, takeTill, hns, Bool.false_eq_true, if_false]
        rw [printStringFrom_succ, htt]
    · refine ⟨[], c :: cs, rfl, by simp, Or.inr ⟨c, cs, rfl, body, hesc⟩, ?_⟩
      simp only [printStringFrom, hesc, List.cons_append, takeTill]
      simp [isStringStop]

theorem loop_done (cx : Ctx) (f : Nat) (acc : Option (List Char)) (st : St) (ht : Terminated st.rest) :
    parseStringLoop cx (f + 1) acc st = (acc, st) := by
  rcases ht with h | ⟨t, h | h⟩ <;> simp [parseStringLoop, h]

theorem loop_raw_step (cx : Ctx) (f : Nat) (acc : Option (List Char)) (c : Char) (R : List Char) (errs needs)
    (h1 : c ≠ '\\') (h2 : c ≠ ',') (h3 : c ≠ ')') :
    parseStringLoop cx (f + 1) acc { rest := c :: R, errs := errs, needs := needs } =
      parseStringLoop cx f (acc.map (· ++ (takeTill isStringStop (c :: R)).1))
        { rest := (takeTill isStringStop (c :: R)).2, errs := errs, needs := needs } := by
  rw [parseStringLoop]
  split
  · rename_i heq; simp at heq
  · rename_i cs heq; simp at heq; exact absurd heq.1 h1
  · rename_i c' cs hne heq
    simp at heq; obtain ⟨rfl, rfl⟩ := heq
    simp [h2, h3, St.withRest]

theorem loop_esc_step (cx : Ctx) (f : Nat) (acc : Option (List Char)) (c : Char) (B R : List Char) (errs needs)
    (h : parseEscapeBody B = some (c, R)) :
    parseStringLoop cx (f + 1) acc { rest := '\\' :: B, errs := errs, needs := needs } =
      parseStringLoop cx f (acc.map (· ++ [c])) { rest := R, errs := errs, needs := needs } := by
  rw [parseStringLoop]
  simp [h, St.withRest]

/-- the loop over a printed string appends exactly the string -/
theorem loop_printed (cx : Ctx) (tail : List Char) (ht : Terminated tail) (errs : List PErr) (needs : List (Bool × List Char)) :
    ∀ (n : Nat) (s : List Char), s.length ≤ n → ∀ (i : Nat) (acc : List Char) (f : Nat),
      (printStringFrom i s ++ tail).length < f →
      parseStringLoop cx f (some acc) { rest := printStringFrom i s ++ tail, errs := errs, needs := needs } =
        (some (acc ++ s), { rest := tail, errs := errs, needs := needs }) := by
  intro n
  induction n with
  | zero =>
    intro s hs i acc f hf
    have : s = [] := by cases s <;> simp_all
    subst this
    cases f with
    | zero => omega
    | succ f => simpa [printStringFrom] using loop_done cx f (some acc) { rest := tail, errs := errs, needs := needs } ht
  | succ n ih =>
    intro s hs i acc f hf
    cases s with
    | nil =>
      cases f with
      | zero => omega
      | succ f => simpa [printStringFrom] using loop_done cx f (some acc) { rest := tail, errs := errs, needs := needs } ht
    | cons c cs =>
      cases f with
      | zero => omega
      | succ f =>
        rcases printStringChar_cases i c with ⟨hraw, hns⟩ | ⟨body, hesc, hbody⟩
        · -- a raw character: `take_till` swallows it and the raw characters that follow
          obtain ⟨raw, rem, hsplit, hrawall, _, htt⟩ := takeTill_printed cs tail ht
          have hcs : c ≠ ',' ∧ c ≠ ')' ∧ c ≠ '\\' := by
            simp only [isStringStop, Bool.or_eq_false_iff, beq_eq_false_iff_ne] at hns
            exact ⟨hns.1.1, hns.1.2, hns.2⟩
          have htt' : takeTill isStringStop (c :: (printStringFrom 1 cs ++ tail)) = (c :: raw, printStringFrom 1 rem ++ tail) := by
            simp only [takeTill, hns, Bool.false_eq_true, if_false]; rw [htt]
          have hlen : ∀ (l : List Char), (takeTill isStringStop l).1.length + (takeTill isStringStop l).2.length = l.length := by
            intro l; induction l with
            | nil => simp [takeTill]
            | cons x xs ihx => simp only [takeTill]; split <;> simp <;> omega
          have hl := hlen (c :: (printStringFrom 1 cs ++ tail))
          rw [htt'] at hl
          have hpf : printStringFrom i (c :: cs) ++ tail = c :: (printStringFrom 1 cs ++ tail) := by
            simp only [printStringFrom, hraw, List.cons_append, List.nil_append, printStringFrom_succ]
          rw [hpf] at hf ⊢
          rw [loop_raw_step cx f (some acc) c _ errs needs hcs.2.2 hcs.1 hcs.2.1, htt']
          simp only [Option.map_some]
          rw [ih rem (by rw [hsplit] at hs; simp at hs; omega) 1 (acc ++ c :: raw) f (by simp only [List.length_cons] at hf hl; omega)]
          simp [hsplit]
        · -- an escape: one fragment
          have hpf : printStringFrom i (c :: cs) ++ tail = '\\' :: (body ++ (printStringFrom 1 cs ++ tail)) := by
            simp only [printStringFrom, hesc, List.cons_append, List.append_assoc, printStringFrom_succ]
          rw [hpf] at hf ⊢
          rw [loop_esc_step cx f (some acc) c _ _ errs needs (hbody _)]
          simp only [Option.map_some]
          rw [ih cs (by simp at hs; omega) 1 (acc ++ [c]) f (by simp only [List.length_cons, List.length_append] at hf ⊢; omega)]
          simp

end NextestModel.Syntax

namespace NextestModel.Syntax

/-! ## regular expressions -/

def isRegexStop (c : Char) : Bool := c == '\\' || c == '/'

theorem takeTill_len (p : Char → Bool) (l : List Char) : (takeTill p l).1.length + (takeTill p l).2.length = l.length := by
  induction l with
  | nil => simp [takeTill]
  | cons x xs ih => simp only [takeTill]; split <;> simp <;> omega

/-- the text ends in a backslash (such a text is never produced by the parser: before the closing
    delimiter a backslash would have been read as `\/`) -/
def endsWithBackslash : List Char → Bool
  | [] => false
  | [c] => c == '\\'
  | _ :: cs => endsWithBackslash cs

theorem printRegex_cons_ne (c : Char) (cs : List Char) (h : c ≠ '/') : printRegex (c :: cs) = c :: printRegex cs := by
  rw [printRegex.eq_def]
  split
  · rename_i heq; cases heq
  · rename_i heq; injection heq with h1 _; exact absurd h1 h
  · rename_i heq; injection heq with h1 h2; subst h1 h2; rfl

theorem printRegex_head_ne_slash (cs : List Char) (tail : List Char) :
    ∀ c r, printRegex cs ++ '/' :: tail = c :: r → cs ≠ [] → c ≠ '/' := by
  intro c r h hne
  cases cs with
  | nil => exact absurd rfl hne
  | cons x xs =>
    by_cases hx : x = '/'
    · subst hx; simp [printRegex] at h; rw [← h.1]; decide
    · rw [printRegex_cons_ne x xs hx] at h; simp at h; rw [← h.1]; exact hx

theorem takeTill_regex (s tail : List Char) :
    ∃ raw rem, s = raw ++ rem ∧ (∀ c ∈ raw, isRegexStop c = false) ∧
      (rem = [] ∨ ∃ c rem', rem = c :: rem' ∧ isRegexStop c = true) ∧
      takeTill isRegexStop (printRegex s ++ '/' :: tail) = (raw, printRegex rem ++ '/' :: tail) := by
  induction s with
  | nil => exact ⟨[], [], rfl, by simp, Or.inl rfl, by simp [printRegex, takeTill, isRegexStop]⟩
  | cons c cs ih =>
    by_cases hs : isRegexStop c = true
    · refine ⟨[], c :: cs, rfl, by simp, Or.inr ⟨c, cs, rfl, hs⟩, ?_⟩
      by_cases hc : c = '/'
      · subst hc; simp [printRegex, takeTill, isRegexStop]
      · rw [printRegex_cons_ne c cs hc]; simp [takeTill, hs]
    · have hs' : isRegexStop c = false := by simpa using hs
      have hc : c ≠ '/' := by intro h; subst h; simp [isRegexStop] at hs'
      obtain ⟨raw, rem, hsplit, hr, hrem, htt⟩ := ih
      refine ⟨c :: raw, rem, by simp [hsplit], ?_, hrem, ?_⟩
      · intro x hx; rcases List.mem_cons.mp hx with rfl | hx
        · exact hs'
        · exact hr x hx
      · rw [printRegex_cons_ne c cs hc]; simp only [List.cons_append, takeTill, hs', Bool.false_eq_true, if_false]; rw [htt]

theorem regex_step_slash (f : Nat) (acc R : List Char) :
    regexLoop (f + 1) acc ('\\' :: '/' :: R) = regexLoop f (acc ++ ['/']) R := by
  rw [regexLoop]

theorem regex_step_backslash (f : Nat) (acc : List Char) (c : Char) (R : List Char) (h : c ≠ '/') :
    regexLoop (f + 1) acc ('\\' :: c :: R) = regexLoop f (acc ++ ['\\']) (c :: R) := by
  rw [regexLoop]
  · intro r heq; simp at heq; exact h heq.1

theorem regex_step_raw (f : Nat) (acc : List Char) (c : Char) (R : List Char) (h : isRegexStop c = false) :
    regexLoop (f + 1) acc (c :: R) =
      regexLoop f (acc ++ (takeTill isRegexStop (c :: R)).1) (takeTill isRegexStop (c :: R)).2 := by
  have h1 : c ≠ '\\' := by intro e; subst e; simp [isRegexStop] at h
  have h2 : c ≠ '/' := by intro e; subst e; simp [isRegexStop] at h
  show _ = regexLoop f (acc ++ (takeTill (fun c => c == '\\' || c == '/') (c :: R)).1) (takeTill (fun c => c == '\\' || c == '/') (c :: R)).2
  rw [regexLoop]
  all_goals (first | (intro e; exact absurd e h1) | (intro e; exact absurd e h2) | (intro _ e; exact absurd e h1) | skip)

theorem regex_done (f : Nat) (acc tail : List Char) : regexLoop (f + 1) acc ('/' :: tail) = (acc, '/' :: tail) := by
  rw [regexLoop]

/-- the loop over a printed regex, up to the closing delimiter, yields the regex -/
theorem regexLoop_printed (tail : List Char) :
    ∀ (n : Nat) (s : List Char), s.length ≤ n → endsWithBackslash s = false → ∀ (acc : List Char) (f : Nat),
      (printRegex s ++ '/' :: tail).length < f →
      regexLoop f acc (printRegex s ++ '/' :: tail) = (acc ++ s, '/' :: tail) := by
  intro n
  induction n with
  | zero =>
    intro s hs _ acc f hf
    have : s = [] := by cases s <;> simp_all
    subst this
    cases f with
    | zero => simp at hf
    | succ f => simpa [printRegex] using regex_done f acc tail
  | succ n ih =>
    intro s hs he acc f hf
    cases s with
    | nil =>
      cases f with
      | zero => simp at hf
      | succ f => simpa [printRegex] using regex_done f acc tail
    | cons c cs =>
      cases f with
      | zero => simp at hf
      | succ f =>
        have hecs : cs ≠ [] → endsWithBackslash cs = false := by
          intro hne; cases cs with
          | nil => exact absurd rfl hne
          | cons x xs => simpa [endsWithBackslash] using he
        by_cases hslash : c = '/'
        · subst hslash
          have hp : printRegex ('/' :: cs) ++ '/' :: tail = '\\' :: '/' :: (printRegex cs ++ '/' :: tail) := by simp [printRegex]
          rw [hp] at hf ⊢
          rw [regex_step_slash]
          have hecs' : endsWithBackslash cs = false := by
            cases cs with
            | nil => rfl
            | cons x xs => exact hecs (by simp)
          rw [ih cs (by simp at hs; omega) hecs' _ f (by simp only [List.length_cons] at hf; omega)]
          simp
        · rw [printRegex_cons_ne c cs hslash] at hf ⊢
          by_cases hb : c = '\\'
          · subst hb
            -- a backslash is never last, and what follows it in the printed text is not a raw `/`
            cases hcs : cs with
            | nil => subst hcs; simp [endsWithBackslash] at he
            | cons x xs =>
              have hne : cs ≠ [] := by rw [hcs]; simp
              obtain ⟨y, ys, hy⟩ : ∃ y ys, printRegex cs ++ '/' :: tail = y :: ys := by
                cases hpr : printRegex cs ++ '/' :: tail with
                | nil => simp at hpr
                | cons y ys => exact ⟨y, ys, rfl⟩
              have hyne := printRegex_head_ne_slash cs tail y ys hy hne
              rw [← hcs]
              simp only [List.cons_append] at hf ⊢
              rw [hy] at hf ⊢
              rw [regex_step_backslash f acc y ys hyne, ← hy]
              rw [ih cs (by simp at hs; omega) (hecs hne) _ f (by rw [hy]; simp only [List.length_cons] at hf ⊢; omega)]
              simp
          · have hs' : isRegexStop c = false := by simp [isRegexStop, hb, hslash]
            obtain ⟨raw, rem, hsplit, _, _, htt⟩ := takeTill_regex cs tail
            have htt' : takeTill isRegexStop (c :: (printRegex cs ++ '/' :: tail)) = (c :: raw, printRegex rem ++ '/' :: tail) := by
              simp only [takeTill, hs', Bool.false_eq_true, if_false]; rw [htt]
            have hl := takeTill_len isRegexStop (c :: (printRegex cs ++ '/' :: tail))
            rw [htt'] at hl
            simp only [List.cons_append] at hf ⊢
            rw [regex_step_raw f acc c _ hs', htt']
            have herem : endsWithBackslash rem = false := by
              -- `rem` is a suffix of `cs`
              have : ∀ (a b : List Char), endsWithBackslash (a ++ b) = false → b ≠ [] → endsWithBackslash b = false := by
                intro a
                induction a with
                | nil => intro b h _; simpa using h
                | cons x xs iha =>
                  intro b h hb
                  apply iha b _ hb
                  cases hxb : xs ++ b with
                  | nil => simp at hxb; exact absurd hxb.2 hb
                  | cons y ys => rw [List.cons_append, hxb] at h; simpa [endsWithBackslash] using h
              cases hrem : rem with
              | nil => rfl
              | cons y ys =>
                rw [← hrem]
                apply this (c :: raw) rem _ (by rw [hrem]; simp)
                rw [List.cons_append, ← hsplit]; exact he
            rw [ih rem (by rw [hsplit] at hs; simp at hs; omega) herem _ f (by simp only [List.length_cons] at hf hl; omega)]
            simp [hsplit]

end NextestModel.Syntax
