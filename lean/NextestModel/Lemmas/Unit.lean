/-
  Helper lemmas on the unit model (Model/Unit): how a run over a concatenation splits, and what the leak timer does while a unit
  drains the handles of an exited process.
-/
import NextestModel.Model.Unit
namespace NextestModel.Unit

theorem run_append_state (c : Cfg) : ∀ (es fs : List Ev) (u : U), (run c u (es ++ fs)).1 = (run c (run c u es).1 fs).1 := by
  intro es
  induction es with
  | nil => intro fs u; rfl
  | cons e es ih => intro fs u; simp only [List.cons_append, run]; exact ih fs _


theorem done_time (c : Cfg) (u : U) (h : u.phase = .done) (dts : List Nat) : (run c u (dts.map .time)).1 = u := by
  induction dts with
  | nil => rfl
  | cons d ds ih =>
    simp only [List.map_cons, run, step, advance, nextDue, h, elapse]
    exact ih

/-- while a unit drains the handles of an exited process and is not stopped, the leak timer alone decides -/
theorem draining_times (c : Cfg) : ∀ (dts : List Nat) (u : U), u.phase = .draining → u.lsPaused = false →
    (dts.sum < u.ls → (run c u (dts.map .time)).1.phase = .draining ∧ (run c u (dts.map .time)).1.ls = u.ls - dts.sum ∧
        (run c u (dts.map .time)).1.leaked = u.leaked ∧ (run c u (dts.map .time)).1.lsPaused = false ∧
        (run c u (dts.map .time)).1.timedOut = u.timedOut) ∧
    (dts ≠ [] → u.ls ≤ dts.sum → (run c u (dts.map .time)).1.phase = .done ∧ (run c u (dts.map .time)).1.leaked = true ∧
        (run c u (dts.map .time)).1.timedOut = u.timedOut) := by
  intro dts
  induction dts with
  | nil =>
    intro u hp hl
    exact ⟨fun _ => by simp [run, hp, hl], fun h => absurd rfl h⟩
  | cons d ds ih =>
    intro u hp hl
    simp only [List.map_cons, run, step, List.sum_cons]
    by_cases hd : d < u.ls
    · have hadv : advance c u d = (elapse u d, []) := by simp [advance, nextDue, hp, hl, hd]
      rw [hadv]
      have e1 : (elapse u d).phase = .draining := by simp [elapse, hp]
      have e2 : (elapse u d).lsPaused = false := by simp [elapse, hp, hl]
      have e3 : (elapse u d).ls = u.ls - d := by simp [elapse, hp, hl]
      have e4 : (elapse u d).leaked = u.leaked := by simp [elapse, hp]
      have e5 : (elapse u d).timedOut = u.timedOut := by simp [elapse, hp]
      obtain ⟨i1, i2⟩ := ih (elapse u d) e1 e2
      refine ⟨fun h => ?_, fun _ h => ?_⟩
      · obtain ⟨a, b, c', d', e'⟩ := i1 (by rw [e3]; omega)
        exact ⟨a, by rw [b, e3]; omega, by rw [c', e4], d', by rw [e', e5]⟩
      · have hne : ds ≠ [] := by
          intro hn; subst hn; simp at h; omega
        obtain ⟨a, b, c'⟩ := i2 hne (by rw [e3]; omega)
        exact ⟨a, b, by rw [c', e5]⟩
    · have hadv : advance c u d = fire c (elapse u u.ls) := by simp [advance, nextDue, hp, hl, hd]
      rw [hadv]
      have hf : (fire c (elapse u u.ls)).1.phase = .done ∧ (fire c (elapse u u.ls)).1.leaked = true ∧
          (fire c (elapse u u.ls)).1.timedOut = u.timedOut := by simp [fire, elapse, hp]
      refine ⟨fun h => by omega, fun _ _ => ?_⟩
      rw [done_time c _ hf.1 ds]
      exact hf


theorem done_time_full (c : Cfg) (u : U) (h : u.phase = .done) (dts : List Nat) : run c u (dts.map .time) = (u, []) := by
  induction dts with
  | nil => rfl
  | cons d ds ih =>
    simp only [List.map_cons, run, step, advance, nextDue, h, elapse, ih, List.append_nil]

/-- the retry delay: with nothing but time passing, the delay timer alone decides -/
theorem delay_times (c : Cfg) : ∀ (dts : List Nat) (u : U), u.phase = .delay → u.ds.paused = false →
    (dts.sum < u.ds.remaining → (run c u (dts.map .time)).1.phase = .delay ∧
        (run c u (dts.map .time)).1.ds.remaining = u.ds.remaining - dts.sum ∧ (run c u (dts.map .time)).1.ds.paused = false ∧
        (run c u (dts.map .time)).2 = []) ∧
    (dts ≠ [] → u.ds.remaining ≤ dts.sum → (run c u (dts.map .time)).1.phase = .done ∧ (run c u (dts.map .time)).2 = []) := by
  intro dts
  induction dts with
  | nil =>
    intro u hp hl
    exact ⟨fun _ => by simp [run, hp, hl], fun h => absurd rfl h⟩
  | cons d ds ih =>
    intro u hp hl
    simp only [List.map_cons, run, step, List.sum_cons]
    by_cases hd : d < u.ds.remaining
    · have hadv : advance c u d = (elapse u d, []) := by simp [advance, nextDue, hp, Timer.due, hl, hd]
      rw [hadv]
      have e1 : (elapse u d).phase = .delay := by simp [elapse, hp]
      have e2 : (elapse u d).ds.paused = false := by simp [elapse, hp, Timer.tick, hl]
      have e3 : (elapse u d).ds.remaining = u.ds.remaining - d := by simp [elapse, hp, Timer.tick, hl]
      obtain ⟨i1, i2⟩ := ih (elapse u d) e1 e2
      refine ⟨fun h => ?_, fun _ h => ?_⟩
      · obtain ⟨a, b, c', d'⟩ := i1 (by rw [e3]; omega)
        exact ⟨a, by rw [b, e3]; omega, c', by simp [d']⟩
      · have hne : ds ≠ [] := by
          intro hn; subst hn; simp at h; omega
        obtain ⟨a, b⟩ := i2 hne (by rw [e3]; omega)
        exact ⟨a, by simp [b]⟩
    · have hadv : advance c u d = fire c (elapse u u.ds.remaining) := by simp [advance, nextDue, hp, Timer.due, hl, hd]
      rw [hadv]
      have hf : (fire c (elapse u u.ds.remaining)).1.phase = .done ∧ (fire c (elapse u u.ds.remaining)).2 = [] := by
        simp [fire, elapse, hp]
      refine ⟨fun h => by omega, fun _ _ => ?_⟩
      rw [done_time_full c _ hf.1 ds]
      exact ⟨hf.1, by simp [hf.2]⟩

end NextestModel.Unit
