/-
  C15 — each attempt is a fresh process with the exact argv, directory and environment.
  Property theorems only (argv shape and environment precedence; process-group leadership, the null
  stdin and the working directory are OS effects observed end-to-end).
-/
import NextestModel.Gen.Tables
import NextestModel.Model.Command
import NextestModel.Lemmas.Shell
namespace NextestModel.C15
open NextestModel.Command

/-- the arguments are exactly `--exact <name> --nocapture`, then `--ignored` iff the test is
    ignored, then the configured extra arguments — for any test name whatsoever -/
theorem argv_exact (name : String) (ignored : Bool) (extra : List String) :
    argv name ignored extra = "--exact" :: name :: "--nocapture" :: ((if ignored then ["--ignored"] else []) ++ extra) := by
  cases ignored <;> simp [argv]

private theorem lookup_append_right (a b : Writes) (k v : String) (h : lookup b k = some v) :
    lookup (a ++ b) k = some v := by
  unfold lookup at *
  rw [List.reverse_append, List.find?_append]
  cases hb : b.reverse.find? (·.1 == k) with
  | none => simp [hb] at h
  | some e => simp [hb] at h ⊢; exact h

private theorem lookup_append_left_of_none (a b : Writes) (k : String) (h : lookup b k = none) :
    lookup (a ++ b) k = lookup a k := by
  unfold lookup at *
  rw [List.reverse_append, List.find?_append]
  cases hb : b.reverse.find? (·.1 == k) with
  | none => simp
  | some e => simp [hb] at h

/-- what nextest writes for each of the listed variables -/
def nextestValue (profile manifestDir runId : String) (k : String) : String :=
  if k = "NEXTEST" then "1" else if k = "NEXTEST_EXECUTION_MODE" then "process-per-test"
  else if k = "NEXTEST_PROFILE" then profile else if k = "CARGO_MANIFEST_DIR" then manifestDir else runId

/-- **Variables that nextest sets are not overridden by the inherited environment or by Cargo's
    `[env]` configuration** — whatever those contain (including the same keys): for each of the
    listed variables the process sees nextest's value, provided no later per-test / setup-script
    write names that key. -/
theorem nextest_vars_win (inherited cargoEnv buildScriptEnv : Writes) (profile manifestDir : String)
    (pkgVars : Writes) (runId attempt : String) (perTest scriptEnv : Writes)
    (k : String) (hk : k ∈ ["NEXTEST", "NEXTEST_EXECUTION_MODE", "NEXTEST_PROFILE", "CARGO_MANIFEST_DIR", "NEXTEST_RUN_ID"])
    (hpkg : lookup pkgVars k = none) (hpt : lookup perTest k = none) (hse : lookup scriptEnv k = none) :
    lookup (testEnv inherited cargoEnv buildScriptEnv profile manifestDir pkgVars runId attempt perTest scriptEnv) k =
      some (nextestValue profile manifestDir runId k) := by
  unfold testEnv commandEnv
  rw [lookup_append_left_of_none _ _ _ hse, lookup_append_left_of_none _ _ _ hpt]
  simp only [List.mem_cons, List.mem_nil_iff, or_false] at hk
  rcases hk with rfl | rfl | rfl | rfl | rfl
  · rw [lookup_append_left_of_none _ _ _ (by simp [lookup]), lookup_append_left_of_none _ _ _ hpkg]
    exact lookup_append_right _ _ _ _ (by simp [lookup, nextestValue])
  · rw [lookup_append_left_of_none _ _ _ (by simp [lookup]), lookup_append_left_of_none _ _ _ hpkg]
    exact lookup_append_right _ _ _ _ (by simp [lookup, nextestValue])
  · rw [lookup_append_left_of_none _ _ _ (by simp [lookup]), lookup_append_left_of_none _ _ _ hpkg]
    exact lookup_append_right _ _ _ _ (by simp [lookup, nextestValue])
  · rw [lookup_append_left_of_none _ _ _ (by simp [lookup]), lookup_append_left_of_none _ _ _ hpkg]
    exact lookup_append_right _ _ _ _ (by simp [lookup, nextestValue])
  · exact lookup_append_right _ _ _ _ (by simp [lookup, nextestValue])

/-- the run id is one value for the whole run: it is a parameter of the run, not of the test -/
theorem run_id_constant (i1 c1 b1 i2 c2 b2 : Writes) (p1 m1 p2 m2 : String) (pk1 pk2 : Writes) (runId a1 a2 : String)
    (h1 : lookup pk1 "NEXTEST_RUN_ID" = none) (h2 : lookup pk2 "NEXTEST_RUN_ID" = none) :
    lookup (testEnv i1 c1 b1 p1 m1 pk1 runId a1 [] []) "NEXTEST_RUN_ID" =
    lookup (testEnv i2 c2 b2 p2 m2 pk2 runId a2 [] []) "NEXTEST_RUN_ID" := by
  rw [nextest_vars_win i1 c1 b1 p1 m1 pk1 runId a1 [] [] "NEXTEST_RUN_ID" (by simp) h1 rfl rfl,
      nextest_vars_win i2 c2 b2 p2 m2 pk2 runId a2 [] [] "NEXTEST_RUN_ID" (by simp) h2 rfl rfl]
  simp [nextestValue]

/-- **`shell_words::split ∘ shell_words::join = id`** for every list of words over every Unicode scalar value
    (empty words, blanks, both quotes, backslashes, `$`, `#`, newlines, …): by induction over the word list, with
    one lemma per quoting style of `quote` against `split`'s eight-state machine. -/
theorem shell_roundtrip (ws : List (List Char)) : Shell.split (Shell.join ws) = some ws := by
  rw [Shell.join_eq_spec]
  cases ws with
  | nil => simp [Shell.joinSpec, Shell.split, Shell.splitGo]
  | cons w ws => simpa [Shell.split] using Shell.go_joinSpec w ws []

/-- **the double-spawn launcher is transparent**: whatever the program path and the arguments (hence for any
    test name whatsoever), the process that finally runs has argv `program :: args` — the same as without
    the launcher -/
theorem double_spawn_transparent (exe : Option (List Char)) (program : List Char) (args : List (List Char)) :
    finalArgv exe program args = some (program :: args) := by
  cases exe with
  | none => simp [finalArgv, createCommand]
  | some e => simp [finalArgv, createCommand, doubleSpawnExec, shell_roundtrip]

/-- `quote` never produces an unterminated quote: `split` of any `join` is not a parse error, so
    `DoubleSpawnParseArgsError` is unreachable from `create_command` -/
theorem double_spawn_never_parse_error (ws : List (List Char)) : Shell.split (Shell.join ws) ≠ none := by
  rw [shell_roundtrip]; simp

-- non-vacuity: a hostile test name goes through the launcher unchanged
example : finalArgv (some "cargo-nextest".toList) "/t/bin".toList
    ["--exact".toList, "it's a \"test\" $x\n#y".toList, "--nocapture".toList, [], "'".toList] =
    some ["/t/bin".toList, "--exact".toList, "it's a \"test\" $x\n#y".toList, "--nocapture".toList, [], "'".toList] := by
  decide

/-- **how an attempt's command is prepared** (executor.rs `run_test_inner` and unix.rs, as read on this run): `make_command` with the
    test's extra arguments, then the attempt number and `NEXTEST_RUN_ID` (the run's one id), the slot variables, standard input
    from the null device, the setup scripts' variables, and `process_group(0)` — the child is the leader of its own group; a fresh
    command per attempt -/
theorem spawn_setup_is_as_stated : ∀ r ∈ Gen.spawnSetup, r.2 = true := by decide

end NextestModel.C15
