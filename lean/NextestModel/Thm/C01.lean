/-
  C01 — exit status is zero exactly when every selected test ultimately passed.
  Property theorems only.
-/
import NextestModel.Lemmas.Dispatcher
import NextestModel.Gen.Tables
namespace NextestModel.C01
open NextestModel.Dispatcher

/-! ## From the final statistics to the exit status -/

/-- `exec_run`'s exit status is 0 **iff** no setup script failed or was left unfinished, no test
    failed / timed out / could not be started, every test expected to run finished, and — when
    nothing ran at all — the `--no-tests` policy is `pass` or `warn`. -/
theorem exit_zero_iff (s : Stats) (nt : Option NoTests) :
    exitCode s.summarize nt = 0 ↔
      (s.failedSetupScriptCount = 0 ∧ s.setupScriptsInitialCount ≤ s.setupScriptsFinishedCount ∧
       s.failedCount = 0 ∧ s.initialRunCount ≤ s.finishedCount ∧
       (s.finishedCount ≠ 0 ∨ nt = some .pass ∨ nt = some .warn)) := by
  unfold Stats.summarize
  by_cases h1 : s.failedSetupScriptCount > 0
  · simp [h1, exitCode]; omega
  · simp only [h1, if_false]
    by_cases h2 : s.setupScriptsInitialCount > s.setupScriptsFinishedCount
    · simp [h2, exitCode]; omega
    · simp only [h2, if_false]
      by_cases h3 : s.failedCount > 0
      · simp [h3, exitCode]; omega
      · simp only [h3, if_false]
        by_cases h4 : s.initialRunCount > s.finishedCount
        · simp [h4, exitCode]; omega
        · simp only [h4, if_false]
          by_cases h5 : s.finishedCount = 0
          · simp only [h5, beq_self_eq_true, if_true]
            cases nt with
            | none => simp [exitCode]
            | some p => cases p <;> simp [exitCode] <;> omega
          · have : (s.finishedCount == 0) = false := by simpa using h5
            simp [this, exitCode]; omega

/-- The non-zero statuses, in priority order: 105 for a setup-script failure (or a run cancelled
    while scripts were outstanding), else 100 for test failure or cancellation, else 4 when no test
    ran under the default / `fail` policy. -/
theorem exit_codes (s : Stats) (nt : Option NoTests) :
    (s.failedSetupScriptCount > 0 ∨ s.setupScriptsInitialCount > s.setupScriptsFinishedCount →
        exitCode s.summarize nt = 105) ∧
    (¬(s.failedSetupScriptCount > 0 ∨ s.setupScriptsInitialCount > s.setupScriptsFinishedCount) →
      (s.failedCount > 0 ∨ s.initialRunCount > s.finishedCount) → exitCode s.summarize nt = 100) ∧
    (¬(s.failedSetupScriptCount > 0 ∨ s.setupScriptsInitialCount > s.setupScriptsFinishedCount) →
      ¬(s.failedCount > 0 ∨ s.initialRunCount > s.finishedCount) → s.finishedCount = 0 →
      (nt = none ∨ nt = some .fail) → exitCode s.summarize nt = 4) := by
  unfold Stats.summarize
  refine ⟨?_, ?_, ?_⟩
  · intro h
    by_cases h1 : s.failedSetupScriptCount > 0
    · simp [h1, exitCode]
    · have h2 : s.setupScriptsInitialCount > s.setupScriptsFinishedCount := by omega
      simp [h1, h2, exitCode]
  · intro hn h
    have h1 : ¬ s.failedSetupScriptCount > 0 := fun x => hn (Or.inl x)
    have h2 : ¬ s.setupScriptsInitialCount > s.setupScriptsFinishedCount := fun x => hn (Or.inr x)
    simp only [h1, h2, if_false]
    by_cases h3 : s.failedCount > 0
    · simp [h3, exitCode]
    · have h4 : s.initialRunCount > s.finishedCount := by omega
      simp [h3, h4, exitCode]
  · intro hn hm h0 hnt
    have h1 : ¬ s.failedSetupScriptCount > 0 := fun x => hn (Or.inl x)
    have h2 : ¬ s.setupScriptsInitialCount > s.setupScriptsFinishedCount := fun x => hn (Or.inr x)
    have h3 : ¬ s.failedCount > 0 := fun x => hm (Or.inl x)
    have h4 : ¬ s.initialRunCount > s.finishedCount := fun x => hm (Or.inr x)
    have h4' : ¬ s.initialRunCount > 0 := by omega
    simp only [h1, h2, h3, h0, h4', if_false, beq_self_eq_true, if_true]
    rcases hnt with rfl | rfl <;> rfl

/-! ## From the event history to the final statistics -/

def isFinish : DEvent → Bool
  | .finished .. => true
  | _ => false

def isFailedFinish : DEvent → Bool
  | .finished _ r _ => !r.isSuccess
  | _ => false

def isFailedScript : DEvent → Bool
  | .scriptFinished _ r => !r.isSuccess
  | _ => false

private theorem failedCount_onTest (s : Stats) (r : Res) (slow : Bool) (n : Nat) :
    (s.onTestFinished r slow n).failedCount = s.failedCount + (if r.isSuccess then 0 else 1) ∧
    (s.onTestFinished r slow n).finishedCount = s.finishedCount + 1 ∧
    (s.onTestFinished r slow n).failedSetupScriptCount = s.failedSetupScriptCount ∧
    (s.onTestFinished r slow n).initialRunCount = s.initialRunCount ∧
    (s.onTestFinished r slow n).setupScriptsInitialCount = s.setupScriptsInitialCount ∧
    (s.onTestFinished r slow n).setupScriptsFinishedCount = s.setupScriptsFinishedCount := by
  cases r <;> simp [Stats.onTestFinished, Stats.failedCount, Stats.failedSetupScriptCount, Res.isSuccess] <;> omega

private theorem counts_onScript (s : Stats) (r : Res) :
    (s.onScriptFinished r).failedCount = s.failedCount ∧
    (s.onScriptFinished r).finishedCount = s.finishedCount ∧
    (s.onScriptFinished r).failedSetupScriptCount = s.failedSetupScriptCount + (if r.isSuccess then 0 else 1) ∧
    (s.onScriptFinished r).initialRunCount = s.initialRunCount ∧
    (s.onScriptFinished r).setupScriptsInitialCount = s.setupScriptsInitialCount := by
  cases r <;> simp [Stats.onScriptFinished, Stats.failedCount, Stats.failedSetupScriptCount, Res.isSuccess] <;> omega

/-- **The counters that decide the exit status are exactly the history**: after any run of the
    dispatcher (any order of events, any interleaving of cancellations), the number of finished
    tests is the number of `Finished` events processed, the failure count is the number of those
    whose final attempt was not a pass/leak, the script-failure count is the number of failing
    `SetupScriptFinished`, and the expected-to-run count is untouched. -/
theorem run_counts (s : DState) (es : List DEvent) (s' : DState) (outs : List Out)
    (h : run s es = .ok (s', outs)) :
    s'.stats.finishedCount = s.stats.finishedCount + (es.filter isFinish).length ∧
    s'.stats.failedCount = s.stats.failedCount + (es.filter isFailedFinish).length ∧
    s'.stats.failedSetupScriptCount = s.stats.failedSetupScriptCount + (es.filter isFailedScript).length ∧
    s'.stats.initialRunCount = s.stats.initialRunCount ∧
    s'.stats.setupScriptsInitialCount = s.stats.setupScriptsInitialCount := by
  induction es generalizing s outs with
  | nil => simp [run] at h; obtain ⟨rfl, _⟩ := h; simp
  | cons e es ih =>
    simp only [run] at h
    split at h
    · cases h
    · rename_i s1 o1 hstep
      split at h
      · cases h
      · rename_i s2 os hrun
        simp only [Except.ok.injEq, Prod.mk.injEq] at h
        obtain ⟨rfl, _⟩ := h
        have hst := step_stats s e s1 o1 hstep
        obtain ⟨i1, i2, i3, i4, i5⟩ := ih s1 os hrun
        rw [i1, i2, i3, i4, i5, hst]
        cases e <;> simp only [statsEffect, List.filter_cons, isFinish, isFailedFinish, isFailedScript] <;>
          try (simp; done)
        case finished i r sl =>
          have f := failedCount_onTest s.stats r sl ((s.past i).length + 1)
          rw [f.1, f.2.1, f.2.2.1, f.2.2.2.1, f.2.2.2.2.1]
          by_cases hr : r.isSuccess = true <;> simp [hr] <;> omega
        case scriptFinished a r =>
          have f := counts_onScript s.stats r
          rw [f.1, f.2.1, f.2.2.1, f.2.2.2.1, f.2.2.2.2]
          by_cases hr : r.isSuccess = true <;> simp [hr] <;> omega
        case skipped i => simp [Stats.failedCount, Stats.failedSetupScriptCount]

/-- **Exit status 0 ⇔ every selected test ultimately passed**, in terms of the history alone: for a
    run started with `n` selected tests (no setup scripts counted as outstanding — the production
    value), under every event order: the status is 0 iff no setup script failed, no `Finished`
    event carried a failing final attempt, at least `n` `Finished` events arrived (with C02: each
    selected test finishes at most once, so all of them did), and the selection was non-empty or the
    policy tolerates an empty one. -/
theorem exit_zero_iff_history (n : Nat) (mf : MaxFail) (es : List DEvent) (s' : DState) (outs : List Out)
    (nt : Option NoTests) (h : run (DState.init n mf) es = .ok (s', outs)) :
    exitCode s'.stats.summarize nt = 0 ↔
      ((es.filter isFailedScript).length = 0 ∧ (es.filter isFailedFinish).length = 0 ∧
       n ≤ (es.filter isFinish).length ∧
       ((es.filter isFinish).length ≠ 0 ∨ nt = some .pass ∨ nt = some .warn)) := by
  obtain ⟨h1, h2, h3, h4, h5⟩ := run_counts _ es s' outs h
  rw [exit_zero_iff, h1, h2, h3, h4]
  have hs : s'.stats.setupScriptsFinishedCount ≥ 0 := Nat.zero_le _
  simp only [DState.init, Stats.failedCount, Stats.failedSetupScriptCount] at *
  constructor
  · rintro ⟨a, b, c, d, e⟩; exact ⟨by omega, by omega, by omega, by simpa using e⟩
  · rintro ⟨a, b, c, d⟩; exact ⟨by omega, by omega, by omega, by omega, by simpa using d⟩

/-- flaky and leaky passes count as passes: a final `Pass` or `Leak` never adds to the failure count,
    however many failed attempts preceded it -/
theorem flaky_leaky_are_passes (s : Stats) (slow : Bool) (attempts : Nat) :
    (s.onTestFinished .pass slow attempts).failedCount = s.failedCount ∧
    (s.onTestFinished .leak slow attempts).failedCount = s.failedCount := by
  simp [Stats.onTestFinished, Stats.failedCount]

/-! ## Non-vacuity -/
example : exitCode ({ initialRunCount := 2, finishedCount := 2, passed := 2 } : Stats).summarize none = 0 := by decide
example : exitCode ({ initialRunCount := 2, finishedCount := 1, passed := 1 } : Stats).summarize none = 100 := by decide
example : exitCode ({ initialRunCount := 0 } : Stats).summarize none = 4 := by decide

/-! ## Tie to the source: the exit-status table is the one in `exec_run` / `process_exit_code` / `NextestExitCode` -/

/-- The model's `exitCode` agrees, on every `FinalRunStats` shape and every `--no-tests` policy, with
    the table regenerated from cargo-nextest/src/dispatch.rs, errors.rs and nextest-metadata's
    exit_codes.rs on this run; and the three constants are 4 / 100 / 105. -/
theorem exit_table_matches_source :
    Gen.execRunExit =
      [("Success", exitCode .success none),
       ("NoTestsRun/pass", exitCode .noTestsRun (some .pass)),
       ("NoTestsRun/warn", exitCode .noTestsRun (some .warn)),
       ("NoTestsRun/fail", exitCode .noTestsRun (some .fail)),
       ("NoTestsRun/default", exitCode .noTestsRun none),
       ("Cancelled|Failed/SetupScript", exitCode (.failed .setupScript) none),
       ("Cancelled|Failed/Test", exitCode (.failed (.test 1 0)) none)] ∧
    exitCode (.cancelled .setupScript) none = exitCode (.failed .setupScript) none ∧
    (∀ a b, exitCode (.cancelled (.test a b)) none = exitCode (.failed (.test 1 0)) none) ∧
    Gen.exitNoTestsRun = 4 ∧ Gen.exitTestRunFailed = 100 ∧ Gen.exitSetupScriptFailed = 105 := by
  refine ⟨by decide, by decide, fun _ _ => rfl, by decide, by decide, by decide⟩

end NextestModel.C01
