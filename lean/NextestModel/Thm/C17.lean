/-
  C17 — summary counts, run statistics and the JUnit report all tell the same story.
  Property theorems only (counter part; the JUnit aggregation model is in Model/Junit).
-/
import NextestModel.Lemmas.Dispatcher
namespace NextestModel.C17
open NextestModel.Dispatcher

/-- the documented relations between the counters -/
def Partitioned (s : Stats) : Prop :=
  s.passed + s.failed + s.execFailed + s.timedOut = s.finishedCount ∧
  s.flaky ≤ s.passed ∧ s.leaky ≤ s.passed ∧ s.passedSlow ≤ s.passed ∧ s.failedSlow ≤ s.failed ∧
  s.setupScriptsPassed + s.setupScriptsFailed + s.setupScriptsExecFailed + s.setupScriptsTimedOut =
    s.setupScriptsFinishedCount

theorem partitioned_init (n : Nat) (mf : MaxFail) : Partitioned (DState.init n mf).stats := by
  simp [Partitioned, DState.init]

private theorem onTest_partitioned (s : Stats) (h : Partitioned s) (r : Res) (slow : Bool) (n : Nat) :
    Partitioned (s.onTestFinished r slow n) := by
  obtain ⟨h1, h2, h3, h4, h5, h6⟩ := h
  cases r <;> simp only [Stats.onTestFinished, Partitioned] <;> (refine ⟨?_, ?_, ?_, ?_, ?_, ?_⟩) <;>
    (try split) <;> (try split) <;> omega

private theorem onScript_partitioned (s : Stats) (h : Partitioned s) (r : Res) :
    Partitioned (s.onScriptFinished r) := by
  obtain ⟨h1, h2, h3, h4, h5, h6⟩ := h
  cases r <;> simp only [Stats.onScriptFinished, Partitioned] <;> (refine ⟨?_, ?_, ?_, ?_, ?_, ?_⟩) <;> omega

/-- **passed + failed + exec-failed + timed-out = finished, with flaky, leaky and slow as sub-counts**
    — preserved by every event the dispatcher can process, in every state. -/
theorem counter_partition_step (s : DState) (e : DEvent) (s' : DState) (o : Out)
    (hp : Partitioned s.stats) (h : step s e = .ok (s', o)) : Partitioned s'.stats := by
  rw [step_stats s e s' o h]
  cases e <;> simp only [statsEffect] <;> try exact hp
  case finished i r sl => exact onTest_partitioned _ hp _ _ _
  case scriptFinished a r => exact onScript_partitioned _ hp _

/-- …hence on every state reachable in any run, under every event order. -/
theorem counter_partition (n : Nat) (mf : MaxFail) (es : List DEvent) (s' : DState) (outs : List Out)
    (h : run (DState.init n mf) es = .ok (s', outs)) : Partitioned s'.stats := by
  suffices hgen : ∀ (s : DState), Partitioned s.stats → ∀ es s' outs, run s es = .ok (s', outs) → Partitioned s'.stats from
    hgen _ (partitioned_init n mf) es s' outs h
  intro s hp es
  induction es generalizing s with
  | nil => intro s' outs h; simp [run] at h; obtain ⟨rfl, _⟩ := h; exact hp
  | cons e es ih =>
    intro s' outs h
    simp only [run] at h
    split at h
    · cases h
    · rename_i s1 o1 hstep
      split at h
      · cases h
      · rename_i s2 os hrun
        simp only [Except.ok.injEq, Prod.mk.injEq] at h
        obtain ⟨rfl, _⟩ := h
        exact ih s1 (counter_partition_step s e s1 o1 hp hstep) s2 os hrun

/-- the `TestFinished` event carries exactly the statistics the run has at that point, and the
    full list of this test's attempts: the summary line, the statistics and the per-event
    `current_stats` are one and the same record -/
theorem finished_event_carries_stats (s : DState) (i : Nat) (r : Res) (slow : Bool) (st : DState)
    (resp : Response) (reply : Reply) (em : List Emitted)
    (h : stepCore s (.finished i r slow) = .ok (st, resp, reply, em)) :
    Emitted.testFinished i (s.past i ++ [r]) (s.running.filter (·.1 != i)).length s.cancel st.stats ∈ em := by
  have hst := stepCore_stats s _ _ h
  simp only [stepCore] at h
  split at h
  · cases h
  · rename_i e he
    have hp : s.past i = e.2 := by simp [DState.past, he]
    simp only at hst
    split at h
    · simp only [Except.ok.injEq, withCancel, Prod.mk.injEq] at h
      obtain ⟨_, _, _, rfl⟩ := h
      rw [hst]
      simp [statsEffect, hp, DState.afterFinish]
    · simp only [Except.ok.injEq, Prod.mk.injEq] at h
      obtain ⟨rfl, rfl, rfl, rfl⟩ := h
      simp [hp, DState.afterFinish]

end NextestModel.C17
