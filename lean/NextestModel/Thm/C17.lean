/-
  C17 — summary counts, run statistics and the JUnit report all tell the same story.
  Property theorems only: the counters (Model/Dispatcher) and the JUnit aggregation (Model/Junit).
-/
import NextestModel.Lemmas.Dispatcher
import NextestModel.Lemmas.Junit
import NextestModel.Lemmas.Attempts
import NextestModel.Model.XmlText
namespace NextestModel.C17
open NextestModel.Dispatcher

/-- the documented relations between the counters -/
def Partitioned (s : Stats) : Prop :=
  s.passed + s.failed + s.execFailed + s.timedOut = s.finishedCount ∧
  s.flaky ≤ s.passed ∧ s.leaky ≤ s.passed ∧ s.passedSlow ≤ s.passed ∧ s.failedSlow ≤ s.failed ∧
  s.setupScriptsPassed + s.setupScriptsFailed + s.setupScriptsExecFailed + s.setupScriptsTimedOut =
    s.setupScriptsFinishedCount

theorem partitioned_init (n : Nat) (mf : MaxFail) : Partitioned (DState.init n mf).stats := by
  simp [Partitioned, DState.init]

private theorem onTest_partitioned (s : Stats) (h : Partitioned s) (r : Res) (slow : Bool) (n : Nat) :
    Partitioned (s.onTestFinished r slow n) := by
  obtain ⟨h1, h2, h3, h4, h5, h6⟩ := h
  cases r <;> simp only [Stats.onTestFinished, Partitioned] <;> (refine ⟨?_, ?_, ?_, ?_, ?_, ?_⟩) <;>
    (try split) <;> (try split) <;> omega

private theorem onScript_partitioned (s : Stats) (h : Partitioned s) (r : Res) :
    Partitioned (s.onScriptFinished r) := by
  obtain ⟨h1, h2, h3, h4, h5, h6⟩ := h
  cases r <;> simp only [Stats.onScriptFinished, Partitioned] <;> (refine ⟨?_, ?_, ?_, ?_, ?_, ?_⟩) <;> omega

/-- **passed + failed + exec-failed + timed-out = finished, with flaky, leaky and slow as sub-counts**
    — preserved by every event the dispatcher can process, in every state. -/
theorem counter_partition_step (s : DState) (e : DEvent) (s' : DState) (o : Out)
    (hp : Partitioned s.stats) (h : step s e = .ok (s', o)) : Partitioned s'.stats := by
  rw [step_stats s e s' o h]
  cases e <;> simp only [statsEffect] <;> try exact hp
  case finished i r sl => exact onTest_partitioned _ hp _ _ _
  case scriptFinished a r => exact onScript_partitioned _ hp _

/-- …hence on every state reachable in any run, under every event order. -/
theorem counter_partition (n : Nat) (mf : MaxFail) (es : List DEvent) (s' : DState) (outs : List Out)
    (h : run (DState.init n mf) es = .ok (s', outs)) : Partitioned s'.stats := by
  suffices hgen : ∀ (s : DState), Partitioned s.stats → ∀ es s' outs, run s es = .ok (s', outs) → Partitioned s'.stats from
    hgen _ (partitioned_init n mf) es s' outs h
  intro s hp es
  induction es generalizing s with
  | nil => intro s' outs h; simp [run] at h; obtain ⟨rfl, _⟩ := h; exact hp
  | cons e es ih =>
    intro s' outs h
    simp only [run] at h
    split at h
    · cases h
    · rename_i s1 o1 hstep
      split at h
      · cases h
      · rename_i s2 os hrun
        simp only [Except.ok.injEq, Prod.mk.injEq] at h
        obtain ⟨rfl, _⟩ := h
        exact ih s1 (counter_partition_step s e s1 o1 hp hstep) s2 os hrun

/-- the `TestFinished` event carries exactly the statistics the run has at that point, and the
    full list of this test's attempts: the summary line, the statistics and the per-event
    `current_stats` are one and the same record -/
theorem finished_event_carries_stats (s : DState) (i : Nat) (r : Res) (slow : Bool) (st : DState)
    (resp : Response) (reply : Reply) (em : List Emitted)
    (h : stepCore s (.finished i r slow) = .ok (st, resp, reply, em)) :
    Emitted.testFinished i (s.past i ++ [r]) (s.running.filter (·.1 != i)).length s.cancel st.stats ∈ em := by
  have hst := stepCore_stats s _ _ h
  simp only [stepCore] at h
  split at h
  · cases h
  · rename_i e he
    have hp : s.past i = e.2 := by simp [DState.past, he]
    simp only at hst
    split at h
    · simp only [Except.ok.injEq, withCancel, Prod.mk.injEq] at h
      obtain ⟨_, _, _, rfl⟩ := h
      rw [hst]
      simp [statsEffect, hp, DState.afterFinish]
    · simp only [Except.ok.injEq, Prod.mk.injEq] at h
      obtain ⟨rfl, rfl, rfl, rfl⟩ := h
      simp [hp, DState.afterFinish]

/-! ## The JUnit report -/

section junit
open NextestModel.Junit

/-- the name under which a `TestFinished` event of binary `b` appears -/
def finishedName (b : String) : Ev → Option String
  | .testFinished b' n _ _ _ => if b' = b then some n else none
  | _ => none

private theorem filterMap_congr' {α β} (l : List α) (f g : α → Option β) (h : ∀ x ∈ l, f x = g x) :
    l.filterMap f = l.filterMap g := by
  induction l with
  | nil => rfl
  | cons a l ih => simp [List.filterMap_cons, h a (by simp), ih (fun x hx => h x (by simp [hx]))]

private theorem dropLast_append_last {α} (l : List α) (a : α) (h : l.getLast? = some a) : l.dropLast ++ [a] = l := by
  obtain ⟨ys, rfl⟩ := List.getLast?_eq_some_iff.mp h
  simp

private theorem caseOfTest_name {n as s f c} (h : caseOfTest n as s f = some c) : c.name = n := by
  unfold caseOfTest at h
  split at h
  · cases h
  · split at h
    · split at h
      · split at h
        · simp only [Option.some.injEq] at h; subst h; rfl
        · cases h
      · simp only [Option.some.injEq] at h; subst h; rfl
    · split at h
      · cases h
      · split at h
        · simp only [Option.some.injEq] at h; subst h; rfl
        · cases h

private theorem no_panic_of_some (evs : List Ev) (S R : List Suite) (h : writeEvents S evs = some R) :
    ∀ e ∈ evs, contribution e ≠ none := by
  induction evs generalizing S with
  | nil => intro e he; cases he
  | cons e es ih =>
    intro x hx
    simp only [writeEvents] at h
    cases hc : contribution e with
    | none => simp [hc] at h
    | some o =>
      rcases List.mem_cons.mp hx with rfl | hx
      · simp [hc]
      · cases o with
        | none => simp only [hc] at h; exact ih S h x hx
        | some kc => simp only [hc] at h; exact ih _ h x hx

/-- **exactly one test case per finished test, in the suite named after its binary, in the order the tests finished**
    — for every event list (any mix of binaries, scripts, results, retries, other events); together with
    `writeEvents_nodup` (one suite per binary id / script id) -/
theorem junit_one_case_per_finished (evs : List Ev) (R : List Suite) (h : writeEvents [] evs = some R) (b : String) :
    (casesFor (.binary b) R).map (·.name) = evs.filterMap (finishedName b) := by
  rw [writeEvents_casesFor (.binary b) evs [] R h]
  simp only [casesFor, List.nil_append, List.map_filterMap]
  apply filterMap_congr'
  intro e he
  have hne := no_panic_of_some evs [] R h e he
  cases e with
  | testFinished b' n as s f =>
    simp only [contribTo, contribution, finishedName]
    cases hc : caseOfTest n as s f with
    | none => simp [contribution, hc] at hne
    | some c =>
      simp only [Option.map_some, Key.binary.injEq]
      by_cases hb : b' = b
      · simp [hb, caseOfTest_name hc]
      · simp [hb]
  | scriptFinished id r s f =>
    simp only [contribTo, contribution, finishedName]
    cases hc : caseOfScript id r s f <;> simp
  | other => simp [contribTo, contribution, finishedName]

/-- one suite per key: a second event for the same binary (or script) never opens a second suite -/
theorem junit_suites_distinct (evs : List Ev) (R : List Suite) (h : writeEvents [] evs = some R) :
    (R.map (·.key)).Nodup :=
  writeEvents_nodup evs [] R (by simp) h

/-- the number of test cases in the whole report = the number of finished tests and finished setup scripts -/
theorem junit_total_cases (evs : List Ev) (R : List Suite) (h : writeEvents [] evs = some R) :
    (allCases R).length = (evs.filter fun e => match e with | .other => false | _ => true).length := by
  have := writeEvents_countP (fun _ => true) evs [] R h
  simp only [List.countP_true, allCases, List.flatMap_nil, List.length_nil, Nat.zero_add] at this
  rw [show (allCases R).length = (List.flatMap (fun x => x.cases) R).length from rfl, this]
  have hne := no_panic_of_some evs [] R h
  clear h this
  induction evs with
  | nil => rfl
  | cons e es ih =>
    have hrest := ih (fun x hx => hne x (by simp [hx]))
    have he := hne e (by simp)
    cases e with
    | testFinished b' n as s f =>
      cases hc : caseOfTest n as s f with
      | none => simp [contribution, hc] at he
      | some c => simp [List.filterMap_cons, contrib, contribution, hc, hrest]
    | scriptFinished id r s f =>
      cases hc : caseOfScript id r s f with
      | none => simp [contribution, hc] at he
      | some c => simp [List.filterMap_cons, contrib, contribution, hc, hrest]
    | other => simp [List.filterMap_cons, contrib, contribution, hrest]

/-- **a test case carries a `failure`/`error` element iff the test's final attempt did not succeed**
    (given what the attempt loop guarantees: every attempt before the last one failed) -/
theorem junit_status_iff (n : String) (as : List Res) (s f : Bool) (c : Case) (hwf : WFAttempts as)
    (h : caseOfTest n as s f = some c) (last : Res) (hl : as.getLast? = some last) :
    c.status.isSome = !last.isSuccess := by
  unfold caseOfTest at h
  rw [hl] at h
  simp only at h
  split at h
  · rename_i hs
    split at h
    · split at h
      · simp only [Option.some.injEq] at h; subst h; simp [hs]
      · cases h
    · simp only [Option.some.injEq] at h; subst h; simp [hs]
  · rename_i hs
    split at h
    · cases h
    · split at h
      · simp only [Option.some.injEq] at h; subst h; simp at hs; simp [hs]
      · cases h

/-- **reruns**: a test that finally passed after `k` failed attempts has `k` rerun elements (serialised `flakyFailure` /
    `flakyError`, because the case is a success) carrying attempts `0 … k-1`, and the case itself carries the last attempt;
    a test that failed `k+1` times has `k` rerun elements (`rerunFailure` / `rerunError`) carrying attempts `1 … k`, and the
    case itself carries the first attempt.  Every attempt's output therefore has exactly one place in the report. -/
theorem junit_reruns (n : String) (as : List Res) (s f : Bool) (c : Case) (h : caseOfTest n as s f = some c) :
    c.reruns.length = as.length - 1 ∧
    (c.status = none → c.main = as.length - 1 ∧ c.reruns.map (·.attempt) = List.range' 0 (as.length - 1)) ∧
    (c.status ≠ none → c.main = 0 ∧ c.reruns.map (·.attempt) = List.range' 1 (as.length - 1)) := by
  cases hl : as.getLast? with
  | none => simp [caseOfTest, hl] at h
  | some last =>
    unfold caseOfTest at h
    rw [hl] at h
    simp only at h
    split at h
    · split at h
      · split at h
        · rename_i rr hrr
          simp only [Option.some.injEq] at h; subst h
          obtain ⟨h1, h2, _, _⟩ := rerunsFrom_spec f 0 as.dropLast rr hrr
          simp only [List.length_dropLast] at h1 h2
          exact ⟨h1, fun _ => ⟨rfl, h2⟩, fun hn => absurd rfl hn⟩
        · cases h
      · rename_i hlen
        simp only [Option.some.injEq] at h; subst h
        have : as.length - 1 = 0 := by omega
        simp [this]
    · split at h
      · cases h
      · rename_i first rest
        split at h
        · rename_i st rr hst hrr
          simp only [Option.some.injEq] at h; subst h
          obtain ⟨h1, h2, _, _⟩ := rerunsFrom_spec f 1 rest rr hrr
          simp only [List.length_cons, Nat.add_sub_cancel]
          refine ⟨h1, ?_, fun _ => ⟨trivial, h2⟩⟩
          intro hn; cases hn
        · cases h

/-- **stored output exactly when the settings say so**: a failed attempt recorded as a rerun has its output stored iff
    store-failure-output; the test case itself iff store-success-output when the test passed (first time or finally), iff
    store-failure-output when it failed -/
theorem junit_store_rule (n : String) (as : List Res) (s f : Bool) (c : Case) (hwf : WFAttempts as)
    (h : caseOfTest n as s f = some c) (last : Res) (hl : as.getLast? = some last) :
    (∀ x ∈ c.reruns, x.stored = f) ∧ c.stored = (if last.isSuccess then s else f) := by
  unfold caseOfTest at h
  rw [hl] at h
  simp only at h
  split at h
  · rename_i hs
    split at h
    · split at h
      · rename_i rr hrr
        simp only [Option.some.injEq] at h; subst h
        obtain ⟨_, _, h3, _⟩ := rerunsFrom_spec f 0 as.dropLast rr hrr
        exact ⟨h3, by simp [storeRule, hs]⟩
      · cases h
    · simp only [Option.some.injEq] at h; subst h
      exact ⟨by simp, by simp [storeRule, hs]⟩
  · rename_i hs
    split at h
    · cases h
    · rename_i first rest
      split at h
      · rename_i st rr hst hrr
        simp only [Option.some.injEq] at h; subst h
        obtain ⟨_, _, h3, _⟩ := rerunsFrom_spec f 1 rest rr hrr
        refine ⟨h3, ?_⟩
        -- the first attempt of a failed test did not succeed: it is the last one, or an earlier (failed) one
        have hfirst : first.isSuccess = false := by
          cases rest with
          | nil => simp at hl; subst hl; simpa using hs
          | cons r rs => exact hwf.2 first (by simp [List.dropLast])
        simp at hs
        simp [storeRule, hfirst, hs]
      · cases h

/-- the aggregator never hits its `unreachable!` on the histories the executor produces -/
theorem junit_no_panic (evs : List Ev) (hwf : ∀ e ∈ evs, WFEv e) (S : List Suite) : ∃ R, writeEvents S evs = some R := by
  induction evs generalizing S with
  | nil => exact ⟨S, rfl⟩
  | cons e es ih =>
    have hrest : ∀ x ∈ es, WFEv x := fun x hx => hwf x (by simp [hx])
    have he := hwf e (by simp)
    cases e with
    | other => simpa [writeEvents, contribution] using ih hrest S
    | scriptFinished id r s f =>
      have : ∃ c, caseOfScript id r s f = some c := by
        unfold caseOfScript
        cases r <;> simp [Res.isSuccess, kindAndType]
        rename_i sg lk; cases sg <;> cases lk <;> simp [kindAndType]
      obtain ⟨c, hc⟩ := this
      simpa [writeEvents, contribution, hc] using ih hrest _
    | testFinished b n as s f =>
      have : ∃ c, caseOfTest n as s f = some c := by
        obtain ⟨hne, hprior⟩ := he
        unfold caseOfTest
        cases hl : as.getLast? with
        | none => simp [List.getLast?_eq_none_iff] at hl; exact absurd hl hne
        | some last =>
          simp only
          split
          · split
            · obtain ⟨rr, hrr⟩ := rerunsFrom_some f 0 as.dropLast hprior
              simp [hrr]
            · simp
          · rename_i hs
            cases as with
            | nil => exact absurd rfl hne
            | cons first rest =>
              simp only
              have hfirst : first.isSuccess = false := by
                cases rest with
                | nil => simp at hl; subst hl; simpa using hs
                | cons r rs => exact hprior first (by simp [List.dropLast])
              have hrestf : ∀ r ∈ rest, r.isSuccess = false := by
                intro r hr
                by_cases hlast : r = last ∧ True
                · rw [hlast.1]; simpa using hs
                · -- r is in dropLast or is the last
                  have hmem : r ∈ (first :: rest).dropLast ∨ r = last := by
                    have hsplit := dropLast_append_last (first :: rest) last hl
                    have : r ∈ (first :: rest).dropLast ++ [last] := by rw [hsplit]; simp [hr]
                    rcases List.mem_append.mp this with h | h
                    · exact Or.inl h
                    · exact Or.inr (by simpa using h)
                  rcases hmem with h | h
                  · exact hprior r h
                  · rw [h]; simpa using hs
              obtain ⟨rr, hrr⟩ := rerunsFrom_some f 1 rest hrestf
              have hk : ∃ st, kindAndType "test" first = some st := by
                cases first <;> simp [Res.isSuccess] at hfirst <;> simp [kindAndType]
                rename_i sg lk; cases sg <;> cases lk <;> simp [kindAndType]
              obtain ⟨st, hst⟩ := hk
              simp [hst, hrr]
      obtain ⟨c, hc⟩ := this
      simpa [writeEvents, contribution, hc] using ih hrest _

def isNonSuccess (c : Case) : Bool := c.status.isSome
def isFlaky (c : Case) : Bool := c.status.isNone && !c.reruns.isEmpty

private theorem onTest_effect (s : Stats) (last : Res) (n : Nat) :
    (s.onTestFinished last false n).finishedCount = s.finishedCount + 1 ∧
    (s.onTestFinished last false n).failedCount = s.failedCount + (if last.isSuccess then 0 else 1) ∧
    (s.onTestFinished last false n).flaky = s.flaky + (if last.isSuccess && decide (n > 1) then 1 else 0) ∧
    (s.onTestFinished last false n).setupScriptsFinishedCount = s.setupScriptsFinishedCount ∧
    (s.onTestFinished last false n).failedSetupScriptCount = s.failedSetupScriptCount := by
  cases last <;> simp [Stats.onTestFinished, Stats.failedCount, Stats.failedSetupScriptCount, Res.isSuccess] <;>
    (try split) <;> (try simp_all) <;> (try omega)

private theorem onScript_effect (s : Stats) (r : Res) :
    (s.onScriptFinished r).finishedCount = s.finishedCount ∧
    (s.onScriptFinished r).failedCount = s.failedCount ∧
    (s.onScriptFinished r).flaky = s.flaky ∧
    (s.onScriptFinished r).setupScriptsFinishedCount = s.setupScriptsFinishedCount + 1 ∧
    (s.onScriptFinished r).failedSetupScriptCount = s.failedSetupScriptCount + (if r.isSuccess then 0 else 1) := by
  cases r <;> simp [Stats.onScriptFinished, Stats.failedCount, Stats.failedSetupScriptCount, Res.isSuccess] <;> omega

private theorem views_gen (evs : List Ev) (hwf : ∀ e ∈ evs, WFEv e) (hne : ∀ e ∈ evs, contribution e ≠ none) (s : Stats) :
    (evs.filterMap contrib).length + s.finishedCount + s.setupScriptsFinishedCount =
      (statsOf s evs).finishedCount + (statsOf s evs).setupScriptsFinishedCount ∧
    (evs.filterMap contrib).countP isNonSuccess + s.failedCount + s.failedSetupScriptCount =
      (statsOf s evs).failedCount + (statsOf s evs).failedSetupScriptCount ∧
    (evs.filterMap contrib).countP isFlaky + s.flaky = (statsOf s evs).flaky := by
  induction evs generalizing s with
  | nil => simp [statsOf]
  | cons e es ih =>
    have hwf' : ∀ x ∈ es, WFEv x := fun x hx => hwf x (by simp [hx])
    have hne' : ∀ x ∈ es, contribution x ≠ none := fun x hx => hne x (by simp [hx])
    have he := hne e (by simp)
    have hw := hwf e (by simp)
    cases e with
    | other =>
      simpa [List.filterMap_cons, contrib, contribution, statsOf] using ih hwf' hne' s
    | scriptFinished id r sS sF =>
      cases hc : caseOfScript id r sS sF with
      | none => simp [contribution, hc] at he
      | some c =>
        obtain ⟨e1, e2, e3, e4, e5⟩ := onScript_effect s r
        obtain ⟨i1, i2, i3⟩ := ih hwf' hne' (s.onScriptFinished r)
        have hst : isNonSuccess c = !r.isSuccess ∧ isFlaky c = false := by
          unfold caseOfScript at hc
          split at hc
          · rename_i hs; simp only [Option.some.injEq] at hc; subst hc; simp [isNonSuccess, isFlaky, hs]
          · rename_i hs
            split at hc
            · simp only [Option.some.injEq] at hc; subst hc; simp at hs; simp [isNonSuccess, isFlaky, hs]
            · cases hc
        simp only [List.filterMap_cons, contrib, contribution, hc, Option.map_some, statsOf, List.length_cons, List.countP_cons, hst]
        rw [e1, e2, e3, e4, e5] at *
        refine ⟨by omega, ?_, by simpa using i3⟩
        cases hr : r.isSuccess <;> simp [hr] at i2 ⊢ <;> omega
    | testFinished b n as sS sF =>
      cases hc : caseOfTest n as sS sF with
      | none => simp [contribution, hc] at he
      | some c =>
        have hnonempty := hw.1
        cases hl : as.getLast? with
        | none => simp [List.getLast?_eq_none_iff] at hl; exact absurd hl hnonempty
        | some last =>
          obtain ⟨e1, e2, e3, e4, e5⟩ := onTest_effect s last as.length
          obtain ⟨i1, i2, i3⟩ := ih hwf' hne' (s.onTestFinished last false as.length)
          have hs1 := junit_status_iff n as sS sF c hw hc last hl
          obtain ⟨hr1, _, _⟩ := junit_reruns n as sS sF c hc
          have hfl : isFlaky c = (last.isSuccess && decide (as.length > 1)) := by
            unfold isFlaky
            have hnone : c.status.isNone = last.isSuccess := by
              cases hst : c.status <;> simp [hst] at hs1 ⊢ <;> simp [hs1]
            rw [hnone]
            cases hsucc : last.isSuccess <;> simp
            cases hrr : c.reruns with
            | nil => simp [hrr] at hr1; simp; omega
            | cons x xs => simp [hrr] at hr1; simp; omega
          simp only [List.filterMap_cons, contrib, contribution, hc, Option.map_some, statsOf, hl, List.length_cons, List.countP_cons,
            show isNonSuccess c = !last.isSuccess from hs1, hfl]
          rw [e1, e2, e3, e4, e5] at *
          refine ⟨by omega, ?_, ?_⟩
          · cases hr : last.isSuccess <;> simp [hr] at i2 ⊢ <;> omega
          · cases hr : (last.isSuccess && decide (as.length > 1)) <;> simp [hr] at i3 ⊢ <;> omega

/-- **the three views agree**: on every history the executor can produce, the JUnit report, folded from the same events as the
    run statistics (which the summary line prints), contains as many test cases as tests and setup scripts finished, as many
    `failure`/`error` cases as the statistics count failed (failed + exec-failed + timed-out, tests and scripts), and as many
    successful cases with `flakyFailure`/`flakyError` children as the statistics count flaky -/
theorem three_views_agree (evs : List Ev) (hwf : ∀ e ∈ evs, WFEv e) (R : List Suite) (h : writeEvents [] evs = some R) :
    let st := statsOf {} evs
    (allCases R).length = st.finishedCount + st.setupScriptsFinishedCount ∧
    (allCases R).countP isNonSuccess = st.failedCount + st.failedSetupScriptCount ∧
    (allCases R).countP isFlaky = st.flaky := by
  have hne := no_panic_of_some evs [] R h
  obtain ⟨v1, v2, v3⟩ := views_gen evs hwf hne {}
  have c1 := writeEvents_countP (fun _ => true) evs [] R h
  have c2 := writeEvents_countP isNonSuccess evs [] R h
  have c3 := writeEvents_countP isFlaky evs [] R h
  simp only [List.countP_true, allCases, List.flatMap_nil, List.length_nil, List.countP_nil, Nat.zero_add] at c1 c2 c3
  simp only [Stats.failedCount, Stats.failedSetupScriptCount] at v1 v2 v3 ⊢
  refine ⟨?_, ?_, ?_⟩
  · show (List.flatMap (fun x => x.cases) R).length = _; rw [c1]; simpa using v1
  · show (List.flatMap (fun x => x.cases) R).countP isNonSuccess = _; rw [c2]; simpa using v2
  · show (List.flatMap (fun x => x.cases) R).countP isFlaky = _; rw [c3]; simpa using v3

-- non-vacuity: two binaries, a flaky test, a failing test with a retry, a script; the report, its counters and the statistics
example : writeEvents [] [.scriptFinished "db" .pass true true, .testFinished "a::t" "flaky" [.fail none false, .pass] false true,
      .other, .testFinished "b::u" "bad" [.timeout, .fail (some 9) false] false true, .testFinished "a::t" "ok" [.leak] false true] =
    some [{ key := .script "db", cases := [{ name := "db", status := none, main := 0, stored := true, reruns := [] }] },
          { key := .binary "a::t", cases := [
              { name := "flaky", status := none, main := 1, stored := false, reruns := [{ kind := .failure, ty := "test failure", attempt := 0, stored := true }] },
              { name := "ok", status := none, main := 0, stored := false, reruns := [] }] },
          { key := .binary "b::u", cases := [
              { name := "bad", status := some (.failure, "test timeout"), main := 0, stored := true,
                reruns := [{ kind := .failure, ty := "test abort", attempt := 1, stored := true }] }] }] := by decide

/-- **the hypothesis of the JUnit theorems is what the executor produces**: the statuses a unit reports with `Finished` are
    non-empty and every one but the last is a failure — for every retry policy, every behaviour of the processes and every
    pattern of acknowledgements (`Model/Attempts` = the attempt loop of `run_test_instance`) -/
theorem finished_statuses_wellformed (p : Classify.Policy) (env : Attempts.Env) (evs : List Attempts.XEv)
    (h : Attempts.runTestInstance p env = some evs) (rs : List Res) (hrs : rs ∈ Attempts.finisheds evs) : WFAttempts rs := by
  unfold Attempts.runTestInstance at h
  split at h
  · simp at h; subst h; simp [Attempts.finisheds] at hrs
  · cases hl : Attempts.loop (p.count + 1) env (p.count + 1) 0 [] (Classify.delays p) with
    | none => simp [hl] at h
    | some rest =>
      simp [hl] at h; subst h
      simp only [Attempts.finisheds] at hrs
      rcases Attempts.loop_finished _ env _ 0 [] _ rest (by omega) hl with h0 | ⟨h1, _, h3, _⟩
      · rw [h0] at hrs; cases hrs
      · rw [h1] at hrs; simp at hrs; subst hrs
        refine ⟨by simpa using h3, ?_⟩
        intro r hr
        rw [← List.map_dropLast] at hr
        obtain ⟨k, hk, rfl⟩ := List.mem_map.mp hr
        exact (Attempts.loop_discipline _ env _ 0 [] _ rest hl).1 k hk

end junit

section xmltext
open NextestModel.XmlText

/-- a character that neither filter removes is an XML 1.0 `Char` (both filters are the regenerated tables) -/
private theorem valid_of (c : Char) (h1 : inRanges Gen.xmlStringStripped c.toNat = false)
    (h2 : Gen.junitNoncharsTested.contains c.toNat = false) : XmlChar c := by
  have hv := c.valid
  simp only [UInt32.isValidChar, Nat.isValidChar] at hv
  have hv' : c.toNat < 0xD800 ∨ (0xDFFF < c.toNat ∧ c.toNat < 0x110000) := hv
  simp [inRanges, Gen.xmlStringStripped] at h1
  simp [Gen.junitNoncharsTested] at h2
  unfold XmlChar
  omega

/-- **"arbitrary test output keeps the XML well-formed"**: every character of every text nextest hands to the JUnit serializer
    (`xml_string`: message, description, system-out, system-err of a testcase or a rerun) is a `Char` of XML 1.0 §2.2 — whatever
    the output was, and whatever the ANSI stripper does as long as it only removes characters.  (What is left for the
    serializer is escaping `<`, `&`, `]]>`; that part is third-party and exercised, not modelled.) -/
theorem xml_text_valid (ansi : List Char → List Char) (hsub : ∀ l c, c ∈ ansi l → c ∈ l) (s : List Char) :
    ∀ c ∈ xmlString ansi s, XmlChar c := by
  intro c hc
  unfold xmlString at hc
  simp only at hc
  split at hc
  · unfold xmlStringNew at hc
    have ⟨h1, h2⟩ := List.mem_filter.mp hc
    have h3 := hsub _ _ h1
    have ⟨_, h4⟩ := List.mem_filter.mp h3
    refine valid_of c (by simpa using h2) ?_
    have : Gen.junitNoncharsTested = Gen.junitNoncharsRemoved := by decide
    rw [this]; simpa using h4
  · rename_i hn
    have hn' := hn
    simp only [List.any_eq_true, not_exists, not_and, Bool.not_eq_true] at hn'
    have := hn' c hc
    unfold xmlStringNew at hc
    have ⟨_, h2⟩ := List.mem_filter.mp hc
    exact valid_of c (by simpa using h2) this

/-- nothing is added, and nothing that XML allows is lost when the output holds no escape sequence (the stripper is the
    identity): the stored text is the output without exactly the characters XML 1.0 forbids -/
theorem xml_text_keeps_valid (s : List Char) : xmlString id s = s.filter (fun c => decide (XmlChar c)) := by
  have key : ∀ c : Char, decide (XmlChar c) = (!inRanges Gen.xmlStringStripped c.toNat && !Gen.junitNoncharsRemoved.contains c.toNat) := by
    intro c
    have hv := c.valid
    simp only [UInt32.isValidChar, Nat.isValidChar] at hv
    have hv' : c.toNat < 0xD800 ∨ (0xDFFF < c.toNat ∧ c.toNat < 0x110000) := hv
    clear hv
    rw [Bool.eq_iff_iff]
    rw [decide_eq_true_eq]
    unfold XmlChar
    generalize c.toNat = n at hv' ⊢
    simp [inRanges, Gen.xmlStringStripped, Gen.junitNoncharsRemoved]
    omega
  unfold xmlString xmlStringNew
  simp only [id]
  split
  · rw [List.filter_filter, List.filter_filter]
    apply List.filter_congr
    intro c _
    rw [key c]
    cases inRanges Gen.xmlStringStripped c.toNat <;> cases Gen.junitNoncharsRemoved.contains c.toNat <;> rfl
  · rename_i hn
    simp only [List.any_eq_true, not_exists, not_and, Bool.not_eq_true] at hn
    apply List.filter_congr
    intro c hc
    rw [key c]
    by_cases h1 : inRanges Gen.xmlStringStripped c.toNat = true
    · simp [h1]
    · have hm : c ∈ List.filter (fun c => !inRanges Gen.xmlStringStripped c.toNat) s := List.mem_filter.mpr ⟨hc, by simpa using h1⟩
      have h2 := hn c hm
      have : Gen.junitNoncharsTested = Gen.junitNoncharsRemoved := by decide
      rw [this] at h2
      have h1' : inRanges Gen.xmlStringStripped c.toNat = false := by simpa using h1
      rw [h1', h2]; rfl

/-- every text setter of a testcase or a rerun passes its argument through `xml_string`, and no quick-junit text setter is
    called anywhere else in junit.rs (counted in the source on every run) -/
theorem every_text_goes_through_xml_string :
    Gen.junitSetterArms.1 = Gen.junitSetterArms.2 ∧ 0 < Gen.junitSetterArms.2 ∧ Gen.junitDirectSetters = [] := by decide

/-- **which captured text is stored where** (`set_execute_status_props`): system-out holds the captured standard output (or the
    combined capture) and never standard error, system-err holds the captured standard error and never standard output; a
    stream that does not exist is replaced by a fixed text (regenerated from junit.rs) — and whatever is stored is XML-valid -/
theorem stored_streams_attribution (k : OutKind) (o e : List Char) :
    ((storedStreams k o e).1 = o ∨ (storedStreams k o e).1 = Gen.junitStdoutNotCaptured.toList ∨
      (storedStreams k o e).1 = Gen.junitProcessFailedToStart.toList) ∧
    ((storedStreams k o e).2 = e ∨ (storedStreams k o e).2 = Gen.junitStderrNotCaptured.toList ∨
      (storedStreams k o e).2 = Gen.junitStdoutStderrCombined.toList ∨ (storedStreams k o e).2 = Gen.junitProcessFailedToStart.toList) ∧
    (k = .split → storedStreams k o e = (o, e)) ∧ (k = .combined → (storedStreams k o e).1 = o) := by
  cases k <;> simp [storedStreams]

theorem stored_streams_valid (ansi : List Char → List Char) (hsub : ∀ l c, c ∈ ansi l → c ∈ l) (k : OutKind) (o e : List Char) :
    (∀ c ∈ xmlString ansi (storedStreams k o e).1, XmlChar c) ∧ (∀ c ∈ xmlString ansi (storedStreams k o e).2, XmlChar c) :=
  ⟨xml_text_valid ansi hsub _, xml_text_valid ansi hsub _⟩

-- not vacuous: output with a C0 control, U+FFFE and U+FFFF, and legal characters around them
example : xmlString id ['a', '\x01', '\t', '\uFFFE', '<', '\uFFFF', '\uFFFD', '\n'] = ['a', '\t', '<', '\uFFFD', '\n'] := by decide

end xmltext

end NextestModel.C17
