/-
  C03 — "leak iff, in addition, its standard output or error was still held open by a descendant past the leak timeout", on the
  unit model (Model/Unit = `run_test_inner` + `detect_fd_leaks`).  Property theorems only.
-/
import NextestModel.Lemmas.Unit
import NextestModel.Gen.Tables
namespace NextestModel.C03Unit
open NextestModel.Unit

/-- **leaky iff the handles were still open when the leak timeout ran out**: a running attempt whose process exits, after which
    time passes in any number of steps `dts` until both pipes reach end of file — the unit ends, and it is marked leaky exactly
    when those steps add up to at least the leak timeout (measured from the exit; a stop / continue in between is C12's
    `stopped_time_excluded`); whether nextest had terminated the process for a timeout is not touched, and that verdict wins -/
theorem leak_iff_held_past_leak_timeout (c : Cfg) (u : U) (hp : u.phase = .running) (hl : u.leaked = false) (dts : List Nat) :
    let u' := (run c u (.childExit :: (dts.map .time ++ [.fdsDone]))).1
    u'.phase = .done ∧ (u'.leaked = true ↔ (dts ≠ [] ∧ c.leak ≤ dts.sum)) ∧ u'.timedOut = u.timedOut ∧
      u'.outcome = (if u.timedOut then .timeout else .fromExit (decide (dts ≠ [] ∧ c.leak ≤ dts.sum))) := by
  intro u'
  have hu' : u' = (run c (run c { u with phase := .draining, ls := c.leak, lsPaused := false } (dts.map .time)).1 [.fdsDone]).1 := by
    show (run c u (.childExit :: (dts.map .time ++ [.fdsDone]))).1 = _
    simp only [run, step, hp]
    exact run_append_state c _ _ _
  have key := draining_times c dts { u with phase := .draining, ls := c.leak, lsPaused := false } rfl rfl
  dsimp only at key
  obtain ⟨d1, d2⟩ := key
  by_cases hcase : dts ≠ [] ∧ c.leak ≤ dts.sum
  · obtain ⟨a, b, t⟩ := d2 hcase.1 hcase.2
    have hfin : u' = (run c { u with phase := .draining, ls := c.leak, lsPaused := false } (dts.map .time)).1 := by
      rw [hu']; simp [run, step, a]
    have h3 : u'.timedOut = u.timedOut := by rw [hfin, t]
    refine ⟨by rw [hfin]; exact a, ⟨fun _ => hcase, fun _ => by rw [hfin]; exact b⟩, h3, ?_⟩
    have hb : u'.leaked = true := by rw [hfin]; exact b
    simp only [U.outcome, h3, hb, hcase, ne_eq, not_false_eq_true, and_self, decide_true]
  · have hlt : dts.sum < c.leak ∨ dts = [] := by
      by_cases hn : dts = []
      · exact Or.inr hn
      · exact Or.inl (by have : ¬ c.leak ≤ dts.sum := fun h => hcase ⟨hn, h⟩; omega)
    have hsum : dts.sum < c.leak ∨ (dts = [] ∧ c.leak = 0) := by
      rcases hlt with h | h
      · exact Or.inl h
      · by_cases hz : c.leak = 0
        · exact Or.inr ⟨h, hz⟩
        · exact Or.inl (by subst h; simp; omega)
    have hdr : (run c { u with phase := .draining, ls := c.leak, lsPaused := false } (dts.map .time)).1.phase = .draining ∧
        (run c { u with phase := .draining, ls := c.leak, lsPaused := false } (dts.map .time)).1.leaked = false ∧
        (run c { u with phase := .draining, ls := c.leak, lsPaused := false } (dts.map .time)).1.timedOut = u.timedOut := by
      rcases hsum with h | ⟨h, _⟩
      · obtain ⟨a, _, l, _, t⟩ := d1 h
        exact ⟨a, by rw [l]; exact hl, t⟩
      · subst h; simp [run, hl]
    have hph : u'.phase = .done := by rw [hu']; simp [run, step, hdr.1]
    have hlk : u'.leaked = false := by rw [hu']; simp [run, step, hdr.1, hdr.2.1]
    have hto : u'.timedOut = u.timedOut := by rw [hu']; simp [run, step, hdr.1, hdr.2.2]
    refine ⟨hph, ⟨fun h => (by rw [hlk] at h; cases h), fun h => absurd h hcase⟩, hto, ?_⟩
    simp only [U.outcome, hto, hlk, hcase, decide_false]

/-- **the two ways `detect_fd_leaks` ends, as read from executor.rs on this run, are the model's**: when the leak timer fires the
    unit ends *leaky*; when both pipes reach end of file first it ends not leaky — `leaked` is exactly the loop's `break` value -/
theorem leak_verdict_arms_are_the_models (c : Cfg) (u : U) (hp : u.phase = .draining) (hl : u.leaked = false) :
    interpArm applyDrain guardDrain Gen.drainLeakTimerFiredArm u = fire c u ∧
    interpArm applyDrain guardDrain Gen.drainFdsDoneArm u = step c u .fdsDone := by
  obtain ⟨ph, sw, is_, gs, ws, ds, ls, lsp, hits, slow, to, lk⟩ := u
  simp only at hp hl
  subst hp hl
  refine ⟨?_, ?_⟩
  · unfold Gen.drainLeakTimerFiredArm
    simp only [fire, interpArm, List.foldl]
    simp only [guardDrain, applyDrain]
    simp (config := { decide := true })
  · unfold Gen.drainFdsDoneArm
    simp only [step, interpArm, List.foldl]
    simp only [guardDrain, applyDrain]
    simp (config := { decide := true })

/-- **a timeout verdict wins over the exit status, and nothing else is ever recorded during the loop**: in executor.rs, as read on
    this run, the attempt's result is `status.unwrap_or_else(|| create_execution_result(exit status, errors, leaked))` in the test
    loop and in the setup-script loop, and `status` is only ever set to `Timeout` (on Windows also to a job-object kill) — which is
    `U.outcome`: `if timedOut then timeout else fromExit leaked` (a process that exits 0 after nextest's SIGTERM has still timed out) -/
theorem timeout_verdict_wins : (∀ r ∈ Gen.verdictShape, r.2 = true) ∧
    (∀ u : U, u.outcome = if u.timedOut then Outcome.timeout else Outcome.fromExit u.leaked) :=
  ⟨by decide, fun _ => rfl⟩

-- not vacuous: leak timeout 200 ms; the pipes close 150 ms after the exit (not leaky), or 120 + 90 ms after it (leaky)
example : let c : Cfg := { period := 1000, terminateAfter := none, grace := 100, leak := 200 }
    ((run c (U.spawn c) [.childExit, .time 150, .fdsDone]).1.leaked, (run c (U.spawn c) [.childExit, .time 120, .time 90, .fdsDone]).1.leaked) = (false, true) := by
  decide

end NextestModel.C03Unit
