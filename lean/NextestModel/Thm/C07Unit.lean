/-
  C07 — "the delay before a retry is actually waited", on the unit model (Model/Unit = `handle_delay_between_attempts`).
  Property theorems only.
-/
import NextestModel.Lemmas.Unit
namespace NextestModel.C07Unit
open NextestModel.Unit

/-- **the delay between attempts is waited in full, and no longer**: entering a delay of `d` ms, with time passing in any steps
    and no request arriving, the next attempt is due exactly once the steps add up to `d`; nothing is signalled meanwhile.
    (Time spent stopped does not count: C12 `stopped_time_excluded`; a cancellation ends the delay at once: below.) -/
theorem retry_delay_is_waited (c : Cfg) (d : Nat) (dts : List Nat) :
    ((run c (U.enterDelay d) (dts.map .time)).1.phase = .done ↔ (dts ≠ [] ∧ d ≤ dts.sum)) ∧
    (run c (U.enterDelay d) (dts.map .time)).2 = [] := by
  obtain ⟨h1, h2⟩ := delay_times c dts (U.enterDelay d) rfl rfl
  have hrem : (U.enterDelay d).ds.remaining = d := rfl
  rw [hrem] at h1 h2
  by_cases hcase : dts ≠ [] ∧ d ≤ dts.sum
  · obtain ⟨a, b⟩ := h2 hcase.1 hcase.2
    exact ⟨⟨fun _ => hcase, fun _ => a⟩, b⟩
  · by_cases hn : dts = []
    · subst hn
      exact ⟨⟨fun h => (by simp [run, U.enterDelay] at h), fun h => absurd h hcase⟩, rfl⟩
    · have hlt : dts.sum < d := by
        have : ¬ d ≤ dts.sum := fun h => hcase ⟨hn, h⟩
        omega
      obtain ⟨a, _, _, b⟩ := h1 hlt
      exact ⟨⟨fun h => (by rw [a] at h; cases h), fun h => absurd h hcase⟩, b⟩

/-- a cancellation or a shutdown signal ends the delay at once, whatever is left of it -/
theorem cancellation_ends_the_delay (c : Cfg) (u : U) (hp : u.phase = .delay) (sr : ShutReq) :
    (step c u (.req .otherCancel)).1.phase = .done ∧ (step c u (.req (.shutdown sr))).1.phase = .done := by
  simp [step, onReq, hp]

-- not vacuous: a 500 ms delay; 300 + 100 ms is not enough, 300 + 250 ms is
example : let c : Cfg := { period := 1000, terminateAfter := none, grace := 100, leak := 200 }
    ((run c (U.enterDelay 500) [.time 300, .time 100]).1.phase, (run c (U.enterDelay 500) [.time 300, .time 250]).1.phase) = (.delay, .done) := by
  decide

end NextestModel.C07Unit
