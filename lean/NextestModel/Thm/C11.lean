/-
  C11 — shutdown signals reach every running unit, escalate to SIGKILL; nextest exits.
  Property theorems only: the unit's reaction to a shutdown request in each phase of its life
  (Model/Unit), which units a broadcast reaches (Model/Dispatcher), and the signal tables extracted from
  unix.rs on this run.  Delivery of `kill(-pgid, …)` to every member of the group, and that nothing
  survives SIGKILL, are the kernel's: observed end-to-end.
-/
import NextestModel.Lemmas.System
import NextestModel.Model.Unit
import NextestModel.Model.Dispatcher
import NextestModel.Gen.Tables
namespace NextestModel.C11
open NextestModel.Unit

/-! ## The same signal, to the process group -/

def sigName : Sig → String
  | .int => "SIGINT" | .term => "SIGTERM" | .hup => "SIGHUP" | .quit => "SIGQUIT" | .kill => "SIGKILL"
  | .tstp => "SIGTSTP" | .cont => "SIGCONT"

def shutName : Shut → String
  | .interrupt => "Interrupt" | .term => "Term" | .hangup => "Hangup" | .quit => "Quit"

/-- **The model's signal tables are the source's**: `shutdown_terminate_method`, `timeout_terminate_method`
    and `job_control_child` as extracted from unix.rs on this run, and every `libc::kill` there
    addresses the process group (`-pid`). -/
theorem signal_tables_match_source :
    Gen.shutdownSignalTable =
      ("ZeroGrace", sigName (shutdownSignal (.once .term) 0)) ::
        ([Shut.hangup, .term, .quit, .interrupt].map (fun e => (shutName e, sigName (shutdownSignal (.once e) 1)))) ++
        [("Twice", sigName (shutdownSignal .twice 1))]
    ∧ Gen.timeoutSignalTable = [("ZeroGrace", sigName (timeoutSignal 0)), ("Otherwise", sigName (timeoutSignal 1))]
    ∧ Gen.jobControlTable = [("Stop", "SIGTSTP"), ("Continue", "SIGCONT")]
    ∧ Gen.killSites.1 = Gen.killSites.2 := by
  decide

/-- **the signal handler listens for every signal the property names, and turns each into the event whose name it bears**
    (signal.rs, unix, as registered and mapped on this run): SIGINT, SIGHUP, SIGTERM and SIGQUIT each become their own
    shutdown event, SIGTSTP and SIGCONT the job-control events — so with `shutdown_forwarded_same_signal` a test process
    receives the very signal nextest received -/
theorem shutdown_signals_are_handled :
    (∀ e : Shut, (sigName (shutSig e), "Shutdown/" ++ shutName e) ∈ Gen.signalHandlerTable) ∧
    ("SIGTSTP", "JobControl/Stop") ∈ Gen.signalHandlerTable ∧ ("SIGCONT", "JobControl/Continue") ∈ Gen.signalHandlerTable ∧
    -- no signal is registered twice
    (Gen.signalHandlerTable.map (·.1)).Nodup := by
  refine ⟨?_, by decide, by decide, by decide⟩
  intro e; cases e <;> decide

/-- **Every shutdown signal is forwarded as that same signal**: the four events map to four distinct
    signals, none of them SIGKILL, when the grace period is not zero -/
theorem shutdown_forwarded_same_signal (e : Shut) (g : Nat) (hg : g ≠ 0) :
    shutdownSignal (.once e) g = shutSig e ∧ shutSig e ≠ .kill ∧
      (∀ e', shutSig e' = shutSig e → e' = e) := by
  refine ⟨by simp [shutdownSignal, hg], by cases e <;> simp [shutSig], ?_⟩
  intro e' h; cases e <;> cases e' <;> simp_all [shutSig]

/-- **A running unit has the signal delivered to its process group and enters its grace period** -/
theorem running_unit_is_signalled (c : Cfg) (u : U) (e : Shut) (hph : u.phase = .running) (hg : c.grace ≠ 0) :
    onReq c u (.shutdown (.once e)) =
      ({ u with phase := .terminating .signal, gs := { remaining := c.grace }, ws := {} }, [.kill (shutSig e)]) := by
  have hne : shutSig e ≠ .kill := by cases e <;> simp [shutSig]
  simp [onReq, hph, beginTerminate, shutdownSignal, hg, hne]

/-- **… killed at once if the grace period is zero, or on the second signal** -/
theorem zero_grace_or_second_signal_kills (c : Cfg) (u : U) (sr : ShutReq) (hph : u.phase = .running)
    (h : c.grace = 0 ∨ sr = .twice) : (onReq c u (.shutdown sr)).2 = [.kill .kill] := by
  rcases h with h | h
  · simp [onReq, hph, beginTerminate, shutdownSignal, h]
  · subst h; by_cases hg : c.grace = 0 <;> simp [onReq, hph, beginTerminate, shutdownSignal, hg]

/-- **A unit already being terminated (for a timeout or an earlier signal) is killed immediately** by
    any further shutdown request -/
theorem terminating_unit_is_killed (c : Cfg) (u : U) (w : Why) (sr : ShutReq) (hph : u.phase = .terminating w) :
    (onReq c u (.shutdown sr)).2 = [.kill .kill] := by
  simp [onReq, hph]

/-- **A unit waiting out a retry delay leaves the delay at once** (its `RetryStarted` is then refused:
    C10.no_start_after_cancel) and starts nothing -/
theorem delayed_unit_leaves (c : Cfg) (u : U) (sr : ShutReq) (hph : u.phase = .delay) :
    (onReq c u (.shutdown sr)).1.phase = .done ∧ (onReq c u (.shutdown sr)).2 = [] := by
  simp [onReq, hph]

/-- **A unit draining leaked handles ignores the signal** (its process has exited) and ends within
    the leak timeout: shutdown and cancellation requests change nothing, and — unless nextest is stopped, which pauses the
    leak timer — `leak` ms later it is done -/
theorem draining_unit_ends (c : Cfg) (u : U) (sr : ShutReq) (hph : u.phase = .draining) :
    (onReq c u (.shutdown sr)).1 = u ∧ (onReq c u .otherCancel).1 = u ∧
    (u.lsPaused = false → (advance c u u.ls).1.phase = .done) := by
  refine ⟨by simp [onReq, hph], by simp [onReq, hph], ?_⟩
  intro hp
  simp [advance, nextDue, hph, hp, fire, elapse]

/-- **A unit that has not exited when its grace period ends is killed**: in the grace period with its
    timer running, once the remaining grace has passed the next action is SIGKILL to the group, and
    the unit is back in the main loop waiting only for the process to be reaped -/
theorem kill_after_grace (c : Cfg) (u : U) (w : Why) (hph : u.phase = .terminating w) (hnp : u.gs.paused = false)
    (dt : Nat) (hdt : u.gs.remaining ≤ dt) :
    (advance c u dt).2 = [.kill .kill] ∧ (advance c u dt).1.phase = .running := by
  have : ¬ dt < u.gs.remaining := by omega
  simp [advance, nextDue, hph, Timer.due, hnp, this, fire, elapse]

/-- the grace period is the configured one, counted from the signal -/
theorem grace_is_configured (c : Cfg) (u : U) (e : Shut) (hph : u.phase = .running) (hg : c.grace ≠ 0) :
    (onReq c u (.shutdown (.once e))).1.gs = { remaining := c.grace, paused := false } := by
  rw [running_unit_is_signalled c u e hph hg]

/-! ## Which units the broadcast reaches -/
open NextestModel.Dispatcher in
/-- **Every registered unit whose request channel is open receives the request, and no other**: the
    broadcast of a step's response goes to the running setup script and to exactly the registered
    tests -/
theorem broadcast_reaches_all_registered (s : DState) (r : Dispatcher.Req) (i : Nat) :
    (some i, r) ∈ (s.broadcast r).1 ↔ (s.running.any (·.1 == i) = true ∧ s.rxOpen.contains i = true) := by
  simp only [DState.broadcast, List.mem_append, List.mem_map, List.mem_filter]
  constructor
  · rintro (h | ⟨e, ⟨he, ho⟩, heq⟩)
    · split at h <;> simp at h
    · simp at heq; subst heq
      exact ⟨List.any_eq_true.mpr ⟨e, he, by simp⟩, ho⟩
  · rintro ⟨hr, ho⟩
    obtain ⟨e, he, heq⟩ := List.any_eq_true.mp hr
    have : e.1 = i := by simpa using heq
    exact Or.inr ⟨e, ⟨he, by rw [this]; exact ho⟩, by simp [this]⟩

open NextestModel.Dispatcher in
/-- the first shutdown signal is broadcast as itself, the second as the kill request -/
theorem shutdown_requests (s : DState) (sg : Dispatcher.Sig) (s' : DState) (resp : Response) (rep : Reply) (em : List Emitted)
    (h : stepCore s (.shutdown sg) = .ok (s', resp, rep, em)) :
    (s.signalCount = 0 → resp = .cancelSignal (.once sg) ∨ resp = .none) ∧
    (s.signalCount = 1 → resp = .cancelSignal .twice) := by
  constructor
  · intro h0
    simp only [stepCore, h0, withCancel, beginCancel] at h
    by_cases hc : cancelLt s.cancel (sigReason sg) = true
    · simp [hc] at h; exact Or.inl h.2.1.symm
    · simp [hc] at h; exact Or.inr h.2.1.symm
  · intro h1
    simp only [stepCore, h1, withCancel, beginCancel] at h
    simp at h; exact h.2.1.symm

/-! ## No phase can wait forever -/

/-- the environment events that are bound to happen once a unit's process group has been killed (or the process exits by
    itself): the child is reaped, then its pipes reach end of file — or, if a descendant that left the group still holds them,
    the leak timer fires; a unit waiting out a retry delay is continued (if it was stopped) and its timer runs out -/
def escape (c : Cfg) (u : U) : List Ev :=
  match u.phase with
  | .running => [.childExit, .time c.leak]
  | .terminating _ => [.childExit, .childExit, .time c.leak]
  | .draining => [.req .cont, .time u.ls]
  | .delay => [.req .otherCancel]
  | .done => []

/-- **nextest exits once its units' processes have exited**: from every state of a unit, in every phase (running, being
    terminated, draining, waiting out a retry delay; stopped or not), the events that a killed process group is bound to produce
    lead the unit to `done` — no wait loop depends on anything but a process exit, an end of file, a bounded leak timer (resumed
    with the run), or a request the dispatcher has already sent.  (A unit in its retry delay leaves it on the cancellation request
    itself: `delayed_unit_leaves`.) -/
theorem unit_can_always_finish (c : Cfg) (u : U) : (run c u (escape c u)).1.phase = .done := by
  unfold escape
  cases hp : u.phase with
  | done => simp [run, hp]
  | delay => simp [run, step, onReq, hp]
  | draining =>
    simp only [run, step, onReq, hp]
    simp [advance, nextDue, elapse, hp, fire]
  | running =>
    simp only [run, step, hp]
    simp [advance, nextDue, elapse, fire]
  | terminating w =>
    simp only [run, step, hp]
    simp [advance, nextDue, elapse, fire]

/-! ## The whole system: the signal reaches every unit that is running -/

section system
open NextestModel.System NextestModel.Dispatcher

/-- **A shutdown signal reaches every running test** — in every state the dispatcher × units system can reach (any number of
    tests, any max-fail, EVERY interleaving of scheduling, attempt ends, retries, cancellations for other reasons, earlier
    signals …), when a shutdown signal arrives every unit whose attempt is in progress, or that is between attempts, gets the
    corresponding request in its mailbox: the signal itself the first time (`once sg`, forwarded as that signal:
    `shutdown_forwarded_same_signal`), "kill" the second time.  Two facts carry it: such a unit is registered with an open
    receiver (`Inv.reg`), and before the first signal the cancel state is below the signal level, so `begin_cancel` never
    swallows the request (`SigInv`). -/
theorem shutdown_reaches_every_running_unit (n : Nat) (mf : MaxFail) (acts : List System.Act) (s : Sys)
    (h : runActs (Sys.init n mf) acts = some s) (sg : Dispatcher.Sig) (s' : Sys)
    (hs : System.step s (.external (.shutdown sg)) = some s') (i : Nat)
    (hact : s.phase i = .running ∨ s.phase i = .delay ∨ s.phase i = .waitRetry) :
    Req.shutdown (shutdownReqFor s.d sg) ∈ s'.mail i ∧ s'.phase i = s.phase i := by
  have hinv := inv_run acts _ s (inv_init n mf) h
  have hsig := sig_run acts _ s (sigInv_init n mf) h
  simp only [System.step, isExternal, if_true] at hs
  split at hs
  · cases hs
  · rename_i d' o hd
    simp only [Option.some.injEq] at hs
    subst hs
    have := shutdown_broadcast s.d sg d' o hsig hd i (hinv.reg i hact)
    exact ⟨List.mem_append_right _ (mem_deliveredTo _ _ _ this), rfl⟩

/-- a third shutdown signal is the one event the dispatcher refuses by design ("Signaled 3 times"): the model has it, the
    property (pairs of signals) does not reach it -/
example : (runActs (Sys.init 1 .all) [.external (.shutdown .interrupt), .external (.shutdown .term), .external (.shutdown .term)]).isNone = true := by
  decide

end system

/-! ## The end of the grace period, as the source has it -/

/-- **when the grace period runs out the whole process group is killed** — `terminate_child`'s timer arm, as read from unix.rs on
    this run (`kill-group` is `libc::kill(-pid, SIGKILL)`; a kill of the leader alone is not a statement the translator knows), is
    the model's clause for the grace timer firing; and when the process exits first nothing is signalled -/
theorem grace_expiry_arm_is_the_models (c : Cfg) (u : U) (w : Why) (hp : u.phase = .terminating w) :
    interpArm applyTerm guardTerm Gen.terminateChildGraceExpiredArm u = fire c u ∧
    interpArm applyTerm guardTerm Gen.terminateChildChildExitedArm u = step c u .childExit := by
  obtain ⟨ph, sw, is_, gs, ws, ds, ls, lsp, hits, slow, to, lk⟩ := u
  simp only at hp
  subst hp
  refine ⟨?_, ?_⟩
  · unfold Gen.terminateChildGraceExpiredArm
    simp only [fire, interpArm, List.foldl]
    simp only [guardTerm, applyTerm]
    simp (config := { decide := true })
  · unfold Gen.terminateChildChildExitedArm
    simp only [step, interpArm, List.foldl]
    simp only [guardTerm, applyTerm]
    simp (config := { decide := true })

/-! ## Non-vacuity -/
example : (run { period := 1000, terminateAfter := none, grace := 300, leak := 100 } (U.spawn { period := 1000, terminateAfter := none, grace := 300, leak := 100 })
    [.time 50, .req (.shutdown (.once .hangup)), .time 100, .req (.shutdown .twice)]).2 = [.kill .hup, .kill .kill] := by decide

/-- **a shutdown signal's cancellation is broadcast to every running unit as that shutdown request** (dispatcher.rs `run`, as
    translated on this run), unconditionally -/
theorem shutdown_is_always_broadcast (q : Dispatcher.ShutdownReq) :
    Dispatcher.responseRow (.cancelSignal q) = ("Cancel/Signal", [("shutdown", true)]) ∧
    ("Cancel/Signal", [("shutdown", true)]) ∈ Gen.responseBroadcasts := by
  refine ⟨rfl, by decide⟩

end NextestModel.C11
