/-
  C16 — captured output is complete, ordered and attributed to the right attempt.
  Property theorems only (the accumulator logic; see Model/Capture for what is assumed of pipes).
-/
import NextestModel.Model.Capture
import NextestModel.Gen.Tables
namespace NextestModel.C16
open NextestModel.Capture

/-- what was written = what was captured so far ++ what is still in the pipe -/
def Inv (s : Pipe × Reader × List UInt8) : Prop :=
  s.2.2 = s.2.1.acc ++ s.1.buffered ∧ (s.2.1.done = true → s.1.closed = true ∧ s.1.buffered = [])

theorem inv_init : Inv init := by simp [Inv, init]

/-- **Whatever the chunking and the interleaving of writes, closes and reads: the captured bytes
    are always a prefix of the bytes written, in order, with nothing lost or duplicated** -/
theorem prefix_invariant (s : Pipe × Reader × List UInt8) (st : Step) (h : Inv s) : Inv (step s st) := by
  obtain ⟨p, r, w⟩ := s
  obtain ⟨h1, h2⟩ := h
  simp only at h1 h2
  cases st with
  | write chunk =>
    by_cases hc : p.closed = true
    · have : step (p, r, w) (.write chunk) = (p, r, w) := by simp [step, hc]
      rw [this]; exact ⟨h1, h2⟩
    · have : step (p, r, w) (.write chunk) = ({ p with buffered := p.buffered ++ chunk }, r, w ++ chunk) := by simp [step, hc]
      rw [this]
      refine ⟨by simp [h1], ?_⟩
      intro hd; exact absurd (h2 hd).1 hc
  | close =>
    have : step (p, r, w) .close = ({ p with closed := true }, r, w) := rfl
    rw [this]
    exact ⟨h1, fun hd => ⟨rfl, (h2 hd).2⟩⟩
  | read n =>
    by_cases hd : r.done = true
    · have : step (p, r, w) (.read n) = (p, r, w) := by simp [step, hd]
      rw [this]; exact ⟨h1, h2⟩
    · by_cases he : p.buffered.isEmpty = true
      · have : step (p, r, w) (.read n) = (p, { r with done := p.closed }, w) := by simp [step, hd, he]
        rw [this]
        refine ⟨h1, ?_⟩
        intro hcl; exact ⟨hcl, by simpa using he⟩
      · have : step (p, r, w) (.read n) =
            ({ p with buffered := p.buffered.drop (max n 1) }, { r with acc := r.acc ++ p.buffered.take (max n 1) }, w) := by
          simp [step, hd, he]
        rw [this]
        refine ⟨by simp [h1, List.append_assoc, List.take_append_drop], ?_⟩
        intro hd'; exact absurd hd' hd
  | snapshot => exact ⟨h1, h2⟩

/-- run a whole schedule -/
def run (s : Pipe × Reader × List UInt8) (sts : List Step) : Pipe × Reader × List UInt8 := sts.foldl step s

theorem prefix_invariant_run (sts : List Step) : Inv (run init sts) := by
  suffices h : ∀ s, Inv s → Inv (run s sts) from h _ inv_init
  induction sts with
  | nil => intro s h; exact h
  | cons st sts ih => intro s h; exact ih _ (prefix_invariant s st h)

/-- **If the reader reaches EOF, the captured bytes are exactly all the bytes written** — including
    a write immediately before exit -/
theorem complete_at_eof (sts : List Step) (h : (run init sts).2.1.done = true) :
    (run init sts).2.1.acc = (run init sts).2.2 := by
  have := prefix_invariant_run sts
  obtain ⟨h1, h2⟩ := this
  rw [h1, (h2 h).2]; simp

/-- and if the wait for EOF is abandoned (leak timeout), what was captured is still a prefix -/
theorem leak_exit_keeps_prefix (sts : List Step) : (run init sts).2.1.acc <+: (run init sts).2.2 := by
  have := (prefix_invariant_run sts).1
  rw [this]; exact List.prefix_append _ _

/-- **the reader is always run to the end**: `complete_at_eof` speaks of a reader that keeps reading until end of file (or the
    leak timeout); in executor.rs, as read on this run, that is `detect_fd_leaks` — called unconditionally after the main loop of a
    test and of a setup script (also after a timeout termination), with nothing before its loop but the timer and no way out of
    it but its `break`s -/
theorem pipes_are_always_drained : ∀ r ∈ Gen.drainAlways, r.2 = true := by decide

/-- drop the information requests from a schedule -/
def withoutSnapshots (sts : List Step) : List Step := sts.filter fun st => match st with | .snapshot => false | _ => true

/-- **answering an information request takes nothing away from what is captured**: a schedule with snapshots taken at any
    moments ends in exactly the state of the same schedule without them — so `complete_at_eof` and the prefix invariant hold
    with information requests interleaved anywhere — and what a snapshot shows is a prefix of what was written -/
theorem snapshots_change_nothing (sts : List Step) (s : Pipe × Reader × List UInt8) :
    run s sts = run s (withoutSnapshots sts) := by
  induction sts generalizing s with
  | nil => rfl
  | cons st sts ih =>
    cases st with
    | snapshot => simpa [run, withoutSnapshots, step] using ih s
    | write c => simpa [run, withoutSnapshots] using ih (step s (.write c))
    | close => simpa [run, withoutSnapshots] using ih (step s .close)
    | read n => simpa [run, withoutSnapshots] using ih (step s (.read n))

theorem snapshot_is_a_prefix (sts : List Step) : snapshotOf (run init sts) <+: (run init sts).2.2 := by
  have := (prefix_invariant_run sts).1
  unfold snapshotOf; rw [this]; exact List.prefix_append _ _

/-- **… and in imp.rs, as read on this run, a snapshot is a copy**: `ChildOutputMut::snapshot` and
    `ChildAccumulator::snapshot_in_progress` borrow the accumulators immutably, and every stream's snapshot is
    `clone().freeze()` — nothing is split off, taken or cleared (the model's `.snapshot` step leaves the state as it is) -/
theorem snapshot_is_a_copy : Gen.snapshotShape.length = 4 ∧ ∀ r ∈ Gen.snapshotShape, r.2 = true := by decide

/-- non-vacuity: two writes, snapshots in between and after, reads to the end of file — everything written is captured, and the
    snapshot taken after the first read showed its two bytes -/
example : (run init [.write [1, 2], .read 2, .snapshot, .write [3], .close, .snapshot, .read 5, .read 1]).2.1.acc = [1, 2, 3] ∧
    (run init [.write [1, 2], .read 2, .snapshot, .write [3], .close, .snapshot, .read 5, .read 1]).2.1.done = true ∧
    snapshotOf (run init [.write [1, 2], .read 2, .snapshot]) = [1, 2] := by decide

end NextestModel.C16
