/-
  C14 — group slots.  Property theorems only (second theorem module of C14: it builds on the allocator theorems of Thm/C14).
-/
import NextestModel.Lemmas.GroupSlots
namespace NextestModel.C14
open NextestModel.Sched NextestModel.GroupSlots

/-- **A started member of a test group gets the smallest group slot no alive member of that group holds** — one scheduler
    start, in any state satisfying the invariant (which every reachable state does: `group_slots_distinct_and_below`) -/
theorem group_slot_is_least_free (s : SState) (it : Item) (g : Nat) (h : GInv s) (hw : 1 ≤ it.weight) (hg : it.group = some g)
    (hr : g < s.groupMax.length) (hsp : hasSpace (s.gcur.getD g 0) (s.groupMax.getD g 0) it.weight = true) :
    ∃ sl, (s.start it).2.groupSlot = some sl ∧ sl ∉ gheld s g ∧ (∀ y, y < sl → y ∈ gheld s g) ∧ sl < s.groupMax.getD g 0 := by
  obtain ⟨hinv, hsl⟩ := start_ginv s it h hw (by intro g' hg'; rw [hg] at hg'; cases hg'; exact hr)
    (by intro g' hg'; rw [hg] at hg'; cases hg'; exact hsp)
  obtain ⟨sl, h1, h2, h3⟩ := hsl g hg
  refine ⟨sl, h1, h2, h3, ?_⟩
  have hmem : (s.start it).2 ∈ (s.start it).1.running := by rw [(start_parts s it).2.1]; simp
  obtain ⟨_, sl', h4, h5⟩ := hinv.hasSlot _ hmem g (by rw [(start_parts s it).2.2.1]; exact hg)
  rw [h1] at h4; cases h4
  rw [(start_parts s it).1] at h5; exact h5

/-- **In every reachable state, for every test group: no two alive members share a group slot, every member has one, and it is
    below the group's max-threads** — for every test list with positive threads-required whose groups are configured groups
    with max-threads ≥ 1, every thread count and every order of completions -/
theorem group_slots_distinct_and_below (maxW : Nat) (gm : List Nat) (items : List Item) (ops : List Op) (s' : SState)
    (hw : ∀ it ∈ items, 1 ≤ it.weight) (hr : ∀ it ∈ items, ∀ g, it.group = some g → g < gm.length)
    (hgm : ∀ g, g < gm.length → 1 ≤ gm.getD g 0)
    (h : NextestModel.C08.runOps (SState.init maxW gm items) ops = some s') :
    (∀ g, g < gm.length → (gheld s' g).Nodup) ∧
    (∀ r ∈ s'.running, ∀ g, r.item.group = some g → ∃ sl, r.groupSlot = some sl ∧ sl < gm.getD g 0) := by
  have hinv := ginv_run ops _ s' (ginv_init maxW gm items hw hr hgm) h
  have hgm' : s'.groupMax = gm := (NextestModel.C08.group_weight_inv maxW gm items ops s' h 0).2
  refine ⟨fun g hg => (hinv.slots g (by rw [hgm']; exact hg)).1, ?_⟩
  intro r hr' g hg
  obtain ⟨_, sl, h1, h2⟩ := hinv.hasSlot r hr' g hg
  exact ⟨sl, h1, by rw [hgm'] at h2; exact h2⟩

-- non-vacuity: group 0 (max-threads 2) with three members on 4 threads: slots 0 and 1 are handed out, the third member waits,
-- and gets the slot of whichever member finishes
example : (C08.runOps (SState.init 4 [2] [⟨0, 1, some 0⟩, ⟨1, 1, some 0⟩, ⟨2, 1, some 0⟩]) [.poll, .complete 0]).map
    (fun s => s.running.map (fun r => (r.item.id, r.groupSlot))) = some [(1, some 1), (2, some 0)] := by decide

end NextestModel.C14
