/-
  C10 — after cancellation begins nothing new starts; cancellation only escalates.
  Property theorems only: statements about `Dispatcher.step` / `Dispatcher.run` for EVERY state and
  EVERY event (hence every order in which start requests, results, retry requests, script results,
  signals and reporter errors can reach the dispatcher).
-/
import NextestModel.Lemmas.System
import NextestModel.Thm.C07
import NextestModel.Thm.C02
import NextestModel.Model.Dispatcher
import NextestModel.Model.Unit
import NextestModel.Gen.Tables
namespace NextestModel.C10
open NextestModel.Dispatcher

/-- severity of the current cancel state: 0 = not cancelled -/
def sev : Option CancelReason → Nat
  | none => 0
  | some r => r.rank + 1

/-- The documented order: setup-script failure < test failure < report error < termination signal
    < interrupt < second signal. -/
theorem order_documented :
    [CancelReason.setupScriptFailure, .testFailure, .reportError, .signal, .interrupt, .secondSignal].map
      CancelReason.rank = [0, 1, 2, 3, 4, 5] := by decide

def isStart : Emitted → Bool
  | .testStarted .. => true
  | .testRetryStarted .. => true
  | .scriptStarted .. => true
  | _ => false

/-- severities announced by a list of emitted events -/
def annOf (em : List Emitted) : List Nat :=
  em.filterMap fun
    | .runBeginCancel q _ _ => some (q.rank + 1)
    | _ => none

private theorem beginCancel_facts (s : DState) (reason : CancelReason) (resp : Response) :
    sev s.cancel ≤ sev (beginCancel s reason resp).1.cancel ∧
    (∀ q sc rn, Emitted.runBeginCancel q sc rn ∈ (beginCancel s reason resp).2.2 →
        q = reason ∧ sev s.cancel < sev (some q) ∧ (beginCancel s reason resp).1.cancel = some q) ∧
    (beginCancel s reason resp).1.stats = s.stats ∧ (beginCancel s reason resp).1.maxFail = s.maxFail ∧
    (∀ em ∈ (beginCancel s reason resp).2.2, isStart em = false) ∧
    (annOf (beginCancel s reason resp).2.2).length ≤ 1 := by
  unfold beginCancel
  by_cases h1 : (resp == Response.cancelSignal ShutdownReq.twice) = true
  · simp [h1, isStart, annOf]
  · simp only [h1, Bool.false_eq_true, if_false]
    by_cases h2 : cancelLt s.cancel reason = true
    · simp only [h2, if_true]
      have hlt : sev s.cancel < sev (some reason) := by
        unfold cancelLt at h2; cases hc : s.cancel <;> simp_all [sev]
      refine ⟨by simp only [sev] at hlt ⊢; omega, ?_, trivial, trivial, ?_, by simp [annOf]⟩
      · intro q sc rn hm
        simp at hm
        obtain ⟨rfl, _, _⟩ := hm
        exact ⟨rfl, hlt, rfl⟩
      · intro em hem; simp at hem; subst hem; rfl
    · simp [h2, annOf]

/-- facts about one `handle_event` call, for every state and event -/
private theorem core_facts (s : DState) (e : DEvent) (st : DState) (resp : Response) (reply : Reply)
    (em : List Emitted) (h : stepCore s e = .ok (st, resp, reply, em)) :
    sev s.cancel ≤ sev st.cancel ∧
    (s.cancel.isSome → reply ≠ .ack ∧ ∀ x ∈ em, isStart x = false) ∧
    (∀ q sc rn, Emitted.runBeginCancel q sc rn ∈ em → sev s.cancel < sev (some q) ∧ st.cancel = some q) ∧
    st.maxFail = s.maxFail ∧ (annOf em).length ≤ 1 := by
  have wc : ∀ (s1 : DState) (em0 : List Emitted) (reason : CancelReason) (rsp : Response),
      s1.cancel = s.cancel → s1.maxFail = s.maxFail → (∀ x ∈ em0, isStart x = false) →
      (∀ q sc rn, Emitted.runBeginCancel q sc rn ∉ em0) →
      withCancel s1 em0 reason rsp = (st, resp, reply, em) →
      sev s.cancel ≤ sev st.cancel ∧
      (s.cancel.isSome → reply ≠ .ack ∧ ∀ x ∈ em, isStart x = false) ∧
      (∀ q sc rn, Emitted.runBeginCancel q sc rn ∈ em → sev s.cancel < sev (some q) ∧ st.cancel = some q) ∧
      st.maxFail = s.maxFail ∧ (annOf em).length ≤ 1 := by
    intro s1 em0 reason rsp hc hm h0 hnb hw
    unfold withCancel at hw
    simp only [Prod.mk.injEq] at hw
    obtain ⟨rfl, rfl, rfl, rfl⟩ := hw
    have f := beginCancel_facts s1 reason rsp
    have hann0 : annOf em0 = [] := by
      unfold annOf
      rw [List.filterMap_eq_nil_iff]
      intro x hx
      cases x <;> simp
      rename_i q sc rn
      exact absurd hx (hnb q sc rn)
    refine ⟨by rw [← hc]; exact f.1, ?_, ?_, by rw [f.2.2.2.1, hm], by
      have : annOf (em0 ++ (beginCancel s1 reason rsp).2.2) = annOf em0 ++ annOf (beginCancel s1 reason rsp).2.2 := by
        simp [annOf, List.filterMap_append]
      rw [this, hann0]; simpa using f.2.2.2.2.2⟩
    · intro _
      refine ⟨by simp, ?_⟩
      intro x hx
      simp at hx
      rcases hx with hx | hx
      · exact h0 x hx
      · exact f.2.2.2.2.1 x hx
    · intro q sc rn hq
      simp at hq
      rcases hq with hq | hq
      · exact absurd hq (hnb q sc rn)
      · have := f.2.1 q sc rn hq
        exact ⟨by rw [← hc]; exact this.2.1, this.2.2⟩
  cases e <;> simp only [stepCore] at h
  case closeRx i => simp only [Except.ok.injEq, Prod.mk.injEq] at h; obtain ⟨rfl, rfl, rfl, rfl⟩ := h; simp [annOf]
  case scriptCloseRx => simp only [Except.ok.injEq, Prod.mk.injEq] at h; obtain ⟨rfl, rfl, rfl, rfl⟩ := h; simp [annOf]
  case started i =>
    split at h
    · rename_i hc; simp only [Except.ok.injEq, Prod.mk.injEq] at h; obtain ⟨rfl, rfl, rfl, rfl⟩ := h; simp [annOf]
    · rename_i hc
      split at h
      · cases h
      · simp only [Except.ok.injEq, Prod.mk.injEq] at h; obtain ⟨rfl, rfl, rfl, rfl⟩ := h
        simp [hc, annOf]
  case retryStarted i a t =>
    split at h
    · simp only [Except.ok.injEq, Prod.mk.injEq] at h; obtain ⟨rfl, rfl, rfl, rfl⟩ := h; simp [annOf]
    · rename_i hc; simp only [Except.ok.injEq, Prod.mk.injEq] at h; obtain ⟨rfl, rfl, rfl, rfl⟩ := h; simp [hc, annOf]
  case attemptFailedWillRetry i r sl =>
    split at h
    · cases h
    · simp only [Except.ok.injEq, Prod.mk.injEq] at h; obtain ⟨rfl, rfl, rfl, rfl⟩ := h; simp [isStart, annOf]
  case finished i r sl =>
    split at h
    · cases h
    · split at h
      · simp only [Except.ok.injEq] at h
        refine wc _ _ _ _ ?_ ?_ ?_ ?_ h <;> simp [isStart, DState.afterFinish]
      · simp only [Except.ok.injEq, Prod.mk.injEq] at h; obtain ⟨rfl, rfl, rfl, rfl⟩ := h; simp [isStart, annOf, DState.afterFinish]
  case skipped i => simp only [Except.ok.injEq, Prod.mk.injEq] at h; obtain ⟨rfl, rfl, rfl, rfl⟩ := h; simp [isStart, annOf]
  case scriptStarted a b =>
    split at h
    · simp only [Except.ok.injEq, Prod.mk.injEq] at h; obtain ⟨rfl, rfl, rfl, rfl⟩ := h; simp [annOf]
    · rename_i hc
      split at h
      · cases h
      · simp only [Except.ok.injEq, Prod.mk.injEq] at h; obtain ⟨rfl, rfl, rfl, rfl⟩ := h; simp [hc, annOf]
  case scriptFinished a r =>
    split at h
    · cases h
    · split at h
      · simp only [Except.ok.injEq] at h
        refine wc _ _ _ _ ?_ ?_ ?_ ?_ h <;> simp [isStart, DState.afterFinish]
      · simp only [Except.ok.injEq, Prod.mk.injEq] at h; obtain ⟨rfl, rfl, rfl, rfl⟩ := h; simp [isStart, annOf]
  case shutdown sg =>
    split at h
    · cases h
    · simp only [Except.ok.injEq] at h
      refine wc _ _ _ _ ?_ ?_ ?_ ?_ h <;> simp [isStart, DState.afterFinish]
  case stop =>
    split at h <;> (simp only [Except.ok.injEq, Prod.mk.injEq] at h; obtain ⟨rfl, rfl, rfl, rfl⟩ := h; simp [isStart, annOf])
  case «continue» =>
    split at h <;> (simp only [Except.ok.injEq, Prod.mk.injEq] at h; obtain ⟨rfl, rfl, rfl, rfl⟩ := h; simp [isStart, annOf])
  case info => simp only [Except.ok.injEq, Prod.mk.injEq] at h; obtain ⟨rfl, rfl, rfl, rfl⟩ := h; simp [annOf]
  case reportCancel =>
    simp only [Except.ok.injEq] at h
    refine wc _ _ _ _ ?_ ?_ ?_ ?_ h <;> simp [isStart, DState.afterFinish]
  case inputEnter => simp only [Except.ok.injEq, Prod.mk.injEq] at h; obtain ⟨rfl, rfl, rfl, rfl⟩ := h; simp [isStart, annOf]

private theorem finishStep_state (s : DState) (resp : Response) (reply : Reply) (em : List Emitted) :
    (finishStep s resp reply em).1 = s ∧ (finishStep s resp reply em).2.reply = reply ∧
    (∀ x ∈ (finishStep s resp reply em).2.emitted, x ∈ em ∨ ∃ n, x = .infoStarted n) ∧
    annOf (finishStep s resp reply em).2.emitted = annOf em := by
  unfold finishStep
  split
  · exact ⟨rfl, rfl, fun x hx => Or.inl hx, rfl⟩
  · refine ⟨rfl, rfl, ?_, ?_⟩
    rotate_left
    · simp only
      split
      · simp [annOf, List.filterMap_append]
      · rfl
    intro x hx
    simp only at hx
    split at hx
    · simp at hx; rcases hx with hx | hx
      · exact Or.inl hx
      · exact Or.inr ⟨_, hx⟩
    · exact Or.inl hx

private theorem step_core (s : DState) (e : DEvent) (s' : DState) (o : Out) (h : step s e = .ok (s', o)) :
    ∃ resp reply em, stepCore s e = .ok (s', resp, reply, em) ∧ o.reply = reply ∧
      (∀ x ∈ o.emitted, x ∈ em ∨ ∃ n, x = .infoStarted n) ∧ annOf o.emitted = annOf em := by
  unfold step at h
  split at h
  · cases h
  · rename_i r hr
    obtain ⟨st, resp, reply, em⟩ := r
    simp only [Except.ok.injEq, Prod.mk.injEq] at h
    obtain ⟨h1, h2⟩ := h
    have f := finishStep_state st resp reply em
    subst h2
    refine ⟨resp, reply, em, ?_, f.2.1, f.2.2.1, f.2.2.2⟩
    rw [hr, ← h1, f.1]

/-- **Cancellation only escalates**: no event ever lowers the cancel state's severity, and a
    cancelled run stays cancelled. -/
theorem cancel_monotone (s : DState) (e : DEvent) (s' : DState) (o : Out)
    (h : step s e = .ok (s', o)) : sev s.cancel ≤ sev s'.cancel := by
  obtain ⟨resp, reply, em, hc, _, _, _⟩ := step_core s e s' o h
  exact (core_facts s e s' resp reply em hc).1

/-- **Once a run is being cancelled nothing new starts**: in a cancelled state, every start
    request — test, retry or setup script — is refused (its oneshot is dropped, never answered) and
    no `TestStarted` / `TestRetryStarted` / `SetupScriptStarted` event is emitted, whatever the event. -/
theorem no_start_after_cancel (s : DState) (e : DEvent) (s' : DState) (o : Out)
    (hc : s.cancel.isSome) (h : step s e = .ok (s', o)) :
    o.reply ≠ .ack ∧ ∀ em ∈ o.emitted, isStart em = false := by
  obtain ⟨resp, reply, em, hcore, hr, hem, _⟩ := step_core s e s' o h
  have f := (core_facts s e s' resp reply em hcore).2.1 hc
  refine ⟨by rw [hr]; exact f.1, ?_⟩
  intro x hx
  rcases hem x hx with hx | ⟨n, rfl⟩
  · exact f.2 x hx
  · rfl

/-- **Each cancellation notice is announced at most once, and only when it escalates**: a
    `RunBeginCancel{reason}` is emitted only by a step that strictly raises the severity to exactly
    that reason — so (by `cancel_monotone`) no reason can be announced twice in one run. -/
theorem announce_only_on_escalation (s : DState) (e : DEvent) (s' : DState) (o : Out)
    (h : step s e = .ok (s', o)) (q : CancelReason) (sc rn : Nat)
    (hq : Emitted.runBeginCancel q sc rn ∈ o.emitted) :
    sev s.cancel < sev (some q) ∧ s'.cancel = some q := by
  obtain ⟨resp, reply, em, hcore, _, hem, _⟩ := step_core s e s' o h
  rcases hem _ hq with hx | ⟨n, hn⟩
  · exact (core_facts s e s' resp reply em hcore).2.2.1 q sc rn hx
  · cases hn

/-- lifted to whole runs: after the dispatcher is cancelled, no later step of the run emits a start
    event or answers a start request -/
theorem run_no_start_after_cancel (s : DState) (es : List DEvent) (s' : DState) (outs : List Out)
    (hc : s.cancel.isSome) (h : run s es = .ok (s', outs)) :
    ∀ o ∈ outs, o.reply ≠ .ack ∧ ∀ em ∈ o.emitted, isStart em = false := by
  induction es generalizing s outs with
  | nil => simp [run] at h; obtain ⟨_, rfl⟩ := h; simp
  | cons e es ih =>
    simp only [run] at h
    split at h
    · cases h
    · rename_i s1 o1 hstep
      split at h
      · cases h
      · rename_i s2 os hrun
        simp only [Except.ok.injEq, Prod.mk.injEq] at h
        obtain ⟨rfl, rfl⟩ := h
        have hm := cancel_monotone s e s1 o1 hstep
        have hc1 : s1.cancel.isSome := by
          cases hs : s.cancel with
          | none => simp [hs] at hc
          | some c => cases hs1 : s1.cancel with
            | none => simp [hs, hs1, sev] at hm
            | some c1 => rfl
        intro o ho
        simp at ho
        rcases ho with rfl | ho
        · exact no_start_after_cancel s e s1 _ hc hstep
        · exact ih s1 os hc1 hrun o ho

/-- the severities announced along a run, in order -/
def announced : List Out → List Nat
  | [] => []
  | o :: os => annOf o.emitted ++ announced os

/-- Along any run the announced severities are strictly increasing and above the starting severity:
    cancellation notices only escalate and each is announced at most once. -/
theorem run_announcements_escalate (s : DState) (es : List DEvent) (s' : DState) (outs : List Out)
    (h : run s es = .ok (s', outs)) :
    (announced outs).Pairwise (· < ·) ∧ (∀ r ∈ announced outs, sev s.cancel < r) ∧ sev s.cancel ≤ sev s'.cancel := by
  induction es generalizing s outs with
  | nil => simp [run] at h; obtain ⟨rfl, rfl⟩ := h; simp [announced]
  | cons e es ih =>
    simp only [run] at h
    split at h
    · cases h
    · rename_i s1 o1 hstep
      split at h
      · cases h
      · rename_i s2 os hrun
        simp only [Except.ok.injEq, Prod.mk.injEq] at h
        obtain ⟨rfl, rfl⟩ := h
        have hm := cancel_monotone s e s1 o1 hstep
        obtain ⟨ih1, ih2, ih3⟩ := ih s1 os hrun
        -- announcements of the first step: at most one distinct severity, equal to sev s1.cancel, above sev s.cancel
        have hfirst : ∀ r ∈ annOf o1.emitted, sev s.cancel < r ∧ r = sev s1.cancel := by
          intro r hr
          simp only [annOf, List.mem_filterMap] at hr
          obtain ⟨x, hx, hxr⟩ := hr
          cases x <;> simp at hxr
          rename_i q sc rn
          have := announce_only_on_escalation s e s1 o1 hstep q sc rn hx
          subst hxr
          exact ⟨this.1, by rw [this.2]; rfl⟩
        refine ⟨?_, ?_, by omega⟩
        · simp only [announced]
          rw [List.pairwise_append]
          refine ⟨?_, ih1, ?_⟩
          · -- within one step every announcement carries the same severity `sev s1.cancel`,
            -- and one step announces at most once
            obtain ⟨resp, reply, em, hcore, _, _, hann⟩ := step_core s e s1 o1 hstep
            have hlen := (core_facts s e s1 resp reply em hcore).2.2.2.2
            rw [← hann] at hlen
            match hl : annOf o1.emitted with
            | [] => simp
            | [_] => simp
            | _ :: _ :: _ => rw [hl] at hlen; simp at hlen
          · intro a ha b hb
            have := (hfirst a ha).2
            have := ih2 b hb
            omega
        · intro r hr
          simp only [announced, List.mem_append] at hr
          rcases hr with hr | hr
          · exact (hfirst r hr).1
          · have := ih2 r hr; omega

/-! ## The failure limit -/

private theorem beginCancel_reason (s : DState) (reason : CancelReason) (resp : Response) (q : CancelReason) (sc rn : Nat) :
    Emitted.runBeginCancel q sc rn ∈ (beginCancel s reason resp).2.2 ↔
      (q = reason ∧ sc = s.scriptsRunning ∧ rn = s.running.length ∧ (resp == Response.cancelSignal .twice) = false ∧ cancelLt s.cancel reason = true) := by
  unfold beginCancel
  by_cases h1 : (resp == Response.cancelSignal ShutdownReq.twice) = true
  · simp [h1]
  · simp only [h1, Bool.false_eq_true, if_false]
    by_cases h2 : cancelLt s.cancel reason = true
    · simp [h2]
    · simp [h2]

private theorem failedCount_step (s : Stats) (r : Res) (slow : Bool) (n : Nat) :
    (s.onTestFinished r slow n).failedCount = s.failedCount + (if r.isSuccess then 0 else 1) := by
  cases r <;> simp [Stats.onTestFinished, Stats.failedCount, Res.isSuccess] <;> omega

private theorem beginCancel_none (s1 : DState) (reason : CancelReason) (resp : Response)
    (hc : s1.cancel = none) (hr : (resp == Response.cancelSignal .twice) = false) :
    (beginCancel s1 reason resp).1.cancel = some reason ∧
    Emitted.runBeginCancel reason s1.scriptsRunning s1.running.length ∈ (beginCancel s1 reason resp).2.2 := by
  unfold beginCancel
  simp [hc, hr, cancelLt]

/-- **Test-failure cancellation begins exactly when the failure limit is reached.**  When a test
    finishes in a run that is not yet cancelled, `RunBeginCancel{TestFailure}` is emitted in that
    very step iff the number of failed tests (failed + exec-failed + timed-out) has reached `N`. -/
theorem maxfail_exact (s : DState) (i : Nat) (r : Res) (slow : Bool) (st : DState) (resp : Response)
    (reply : Reply) (em : List Emitted) (n : Nat) (hmf : s.maxFail = .count n) (hc : s.cancel = none)
    (h : stepCore s (.finished i r slow) = .ok (st, resp, reply, em)) :
    (∃ sc rn, Emitted.runBeginCancel .testFailure sc rn ∈ em) ↔ n ≤ st.stats.failedCount := by
  simp only [stepCore] at h
  split at h
  · cases h
  · rename_i e he
    have hmf' : (s.afterFinish i (s.stats.onTestFinished r slow (e.2 ++ [r]).length)).maxFail = s.maxFail := rfl
    rw [hmf'] at h
    by_cases hex : (s.maxFail.isExceeded (s.stats.onTestFinished r slow (e.2 ++ [r]).length).failedCount) = true
    · simp only [hex, if_true, Except.ok.injEq, withCancel, Prod.mk.injEq] at h
      obtain ⟨rfl, rfl, rfl, rfl⟩ := h
      rw [(beginCancel_facts _ _ _).2.2.1]
      rw [hmf] at hex
      simp only [MaxFail.isExceeded, decide_eq_true_eq] at hex
      constructor
      · intro _; exact hex
      · intro _
        have hb := (beginCancel_none (s.afterFinish i (s.stats.onTestFinished r slow (e.2 ++ [r]).length))
          CancelReason.testFailure Response.cancelTestFailure hc rfl).2
        exact ⟨_, _, List.mem_append_right _ hb⟩
    · simp only [hex, Bool.false_eq_true, if_false, Except.ok.injEq, Prod.mk.injEq] at h
      obtain ⟨rfl, rfl, rfl, rfl⟩ := h
      rw [hmf] at hex
      simp only [MaxFail.isExceeded, decide_eq_true_eq] at hex
      simp only [DState.afterFinish]
      constructor
      · rintro ⟨sc, rn, hm⟩; simp at hm
      · intro hn; exact absurd hn hex

/-- With no-fail-fast (`MaxFail::All`) a finishing test never cancels the run. -/
theorem no_fail_fast_never_cancels (s : DState) (i : Nat) (r : Res) (slow : Bool) (st : DState)
    (resp : Response) (reply : Reply) (em : List Emitted) (hmf : s.maxFail = .all)
    (h : stepCore s (.finished i r slow) = .ok (st, resp, reply, em)) :
    resp = .none ∧ st.cancel = s.cancel ∧ ∀ q sc rn, Emitted.runBeginCancel q sc rn ∉ em := by
  simp only [stepCore] at h
  split at h
  · cases h
  · rename_i e he
    have hmf' : (s.afterFinish i (s.stats.onTestFinished r slow (e.2 ++ [r]).length)).maxFail = .all := hmf
    simp only [hmf', MaxFail.isExceeded, Bool.false_eq_true, if_false, Except.ok.injEq, Prod.mk.injEq] at h
    obtain ⟨rfl, rfl, rfl, rfl⟩ := h
    simp [DState.afterFinish]

/-- `Inv n`: an un-cancelled run has fewer than `n` failed tests. -/
def BelowLimit (n : Nat) (s : DState) : Prop := s.cancel = none → s.stats.failedCount < n

/-- …so, from the start of a run with `max-fail = N ≥ 1`, "reached `N`" in `maxfail_exact` means
    "this is the `N`-th failure": the invariant holds initially and is preserved by every event. -/
theorem below_limit_init (n k : Nat) (hn : 0 < n) : BelowLimit n (DState.init k (.count n)) := by
  intro _; simp [DState.init, Stats.failedCount]; exact hn

theorem below_limit_step (n : Nat) (s : DState) (e : DEvent) (st : DState) (resp : Response) (reply : Reply)
    (em : List Emitted) (hmf : s.maxFail = .count n) (hinv : BelowLimit n s)
    (h : stepCore s e = .ok (st, resp, reply, em)) : BelowLimit n st := by
  intro hcn
  have hmono := (core_facts s e st resp reply em h).1
  have hsc : s.cancel = none := by
    cases hs : s.cancel with
    | none => rfl
    | some c => rw [hs, hcn] at hmono; simp [sev] at hmono
  have hlt := hinv hsc
  have wcs : ∀ (s1 : DState) (em0 : List Emitted) (reason : CancelReason) (rsp : Response),
      withCancel s1 em0 reason rsp = (st, resp, reply, em) → st.stats = s1.stats := by
    intro s1 em0 reason rsp hw
    unfold withCancel at hw
    simp only [Prod.mk.injEq] at hw
    obtain ⟨rfl, _, _, _⟩ := hw
    exact (beginCancel_facts s1 reason rsp).2.2.1
  cases e <;> simp only [stepCore] at h
  case finished i r sl =>
    split at h
    · cases h
    · rename_i e he
      have hmf' : (s.afterFinish i (s.stats.onTestFinished r sl (e.2 ++ [r]).length)).maxFail = s.maxFail := rfl
      rw [hmf'] at h
      by_cases hex : (s.maxFail.isExceeded (s.stats.onTestFinished r sl (e.2 ++ [r]).length).failedCount) = true
      · -- the limit is reached: the run becomes cancelled, contradiction with `st.cancel = none`
        simp only [hex, if_true, Except.ok.injEq, withCancel, Prod.mk.injEq] at h
        obtain ⟨rfl, _, _, _⟩ := h
        exfalso
        have hb := (beginCancel_none (s.afterFinish i (s.stats.onTestFinished r sl (e.2 ++ [r]).length))
          CancelReason.testFailure Response.cancelTestFailure hsc rfl).1
        rw [hb] at hcn; cases hcn
      · simp only [hex, Bool.false_eq_true, if_false, Except.ok.injEq, Prod.mk.injEq] at h
        obtain ⟨rfl, _, _, _⟩ := h
        rw [hmf] at hex
        simp only [MaxFail.isExceeded, decide_eq_true_eq] at hex
        simp only [DState.afterFinish]; omega
  case closeRx i => simp only [Except.ok.injEq, Prod.mk.injEq] at h; obtain ⟨rfl, _, _, _⟩ := h; exact hlt
  case scriptCloseRx => simp only [Except.ok.injEq, Prod.mk.injEq] at h; obtain ⟨rfl, _, _, _⟩ := h; exact hlt
  case started i =>
    split at h
    · simp only [Except.ok.injEq, Prod.mk.injEq] at h; obtain ⟨rfl, _, _, _⟩ := h; exact hlt
    · split at h
      · cases h
      · simp only [Except.ok.injEq, Prod.mk.injEq] at h; obtain ⟨rfl, _, _, _⟩ := h; exact hlt
  case retryStarted i a t =>
    split at h <;> (simp only [Except.ok.injEq, Prod.mk.injEq] at h; obtain ⟨rfl, _, _, _⟩ := h; exact hlt)
  case attemptFailedWillRetry i r sl =>
    split at h
    · cases h
    · simp only [Except.ok.injEq, Prod.mk.injEq] at h; obtain ⟨rfl, _, _, _⟩ := h; exact hlt
  case skipped i =>
    simp only [Except.ok.injEq, Prod.mk.injEq] at h; obtain ⟨rfl, _, _, _⟩ := h
    simpa [Stats.failedCount] using hlt
  case scriptStarted a b =>
    split at h
    · simp only [Except.ok.injEq, Prod.mk.injEq] at h; obtain ⟨rfl, _, _, _⟩ := h; exact hlt
    · split at h
      · cases h
      · simp only [Except.ok.injEq, Prod.mk.injEq] at h; obtain ⟨rfl, _, _, _⟩ := h; exact hlt
  case scriptFinished a r =>
    have hsf : (s.stats.onScriptFinished r).failedCount = s.stats.failedCount := by
      cases r <;> simp [Stats.onScriptFinished, Stats.failedCount]
    split at h
    · cases h
    · split at h
      · simp only [Except.ok.injEq] at h
        rw [wcs _ _ _ _ h]; simp only; rw [hsf]; exact hlt
      · simp only [Except.ok.injEq, Prod.mk.injEq] at h; obtain ⟨rfl, _, _, _⟩ := h
        simp only; rw [hsf]; exact hlt
  case shutdown sg =>
    split at h
    · cases h
    · simp only [Except.ok.injEq] at h; rw [wcs _ _ _ _ h]; exact hlt
  case stop =>
    split at h <;> (simp only [Except.ok.injEq, Prod.mk.injEq] at h; obtain ⟨rfl, _, _, _⟩ := h; exact hlt)
  case «continue» =>
    split at h <;> (simp only [Except.ok.injEq, Prod.mk.injEq] at h; obtain ⟨rfl, _, _, _⟩ := h; exact hlt)
  case info => simp only [Except.ok.injEq, Prod.mk.injEq] at h; obtain ⟨rfl, _, _, _⟩ := h; exact hlt
  case reportCancel => simp only [Except.ok.injEq] at h; rw [wcs _ _ _ _ h]; exact hlt
  case inputEnter => simp only [Except.ok.injEq, Prod.mk.injEq] at h; obtain ⟨rfl, _, _, _⟩ := h; exact hlt

/-- A failing setup script always cancels an un-cancelled run, whatever the fail-fast setting. -/
theorem script_failure_always_cancels (s : DState) (idx : Nat) (r : Res) (st : DState) (resp : Response)
    (reply : Reply) (em : List Emitted) (hr : r.isSuccess = false) (hc : s.cancel = none)
    (h : stepCore s (.scriptFinished idx r) = .ok (st, resp, reply, em)) :
    st.cancel = some .setupScriptFailure ∧ resp = .cancelTestFailure := by
  simp only [stepCore] at h
  split at h
  · cases h
  · simp only [hr, Bool.not_false, if_true, Except.ok.injEq, withCancel, Prod.mk.injEq] at h
    obtain ⟨rfl, rfl, _, _⟩ := h
    unfold beginCancel
    simp [hc, cancelLt]

/-- Tests already running are left to finish unless the cause is a signal: a cancellation for test
    failure, setup-script failure or reporter error only ever broadcasts `OtherCancel`; a shutdown
    signal broadcasts that same signal; a second one broadcasts the kill request. -/
theorem cancel_requests (resp : Response) :
    responseRequest resp = (match resp with
      | .cancelReport => some .otherCancel
      | .cancelTestFailure => some .otherCancel
      | .cancelSignal r => some (.shutdown r)
      | .jobStop => some .stop
      | .jobContinue => some .continue
      | .info => some .getInfo
      | .none => none) := by
  cases resp <;> rfl

/-- **A cancelled run does not sit out retry delays** (dispatcher half): a unit that reports a failed
    attempt with a retry to come, while the run is being cancelled — possibly having consumed the
    broadcast cancellation earlier, while its attempt was still running, where it is ignored — is sent the
    cancellation again by that very step; the unit's retry-delay loop leaves on it (C07/C10, unit model)
    and its `RetryStarted` is then refused (`no_start_after_cancel`). -/
theorem cancelled_retry_delay_is_notified (s : DState) (i : Nat) (r : Res) (slow : Bool) (s' : DState) (o : Out)
    (hc : s.cancel.isSome) (hreg : s.running.any (·.1 == i) = true) (hopen : s.rxOpen.contains i = true)
    (h : step s (.attemptFailedWillRetry i r slow) = .ok (s', o)) :
    (some i, Req.otherCancel) ∈ o.delivered := by
  unfold step at h
  split at h
  · cases h
  · simp only [Except.ok.injEq, Prod.mk.injEq] at h
    obtain ⟨_, h2⟩ := h
    subst h2
    simp [Out.withDirect, directDelivery, hc, hreg]
    exact Or.inl (by simpa using hopen)

/-- … and an un-cancelled run sends nothing extra: outside cancellation the only requests a step
    delivers are the broadcast of its response -/
theorem no_direct_delivery_unless_cancelled (s : DState) (e : DEvent) (hc : s.cancel = none) :
    directDelivery s e = [] := by
  cases e <;> simp [directDelivery, hc]

/-! ## Non-vacuity -/
example : ∃ s o, run (DState.init 2 (.count 1)) [.started 0, .started 1, .finished 0 (.fail none false) false, .started 1] = .ok (s, o)
    ∧ s.cancel = some .testFailure := by
  refine ⟨_, _, rfl, rfl⟩

/-! ## The dispatcher together with its units (`Model/System`): every interleaving -/

section system
open NextestModel.System

/-- **A cancelled run never has a unit that would sit out its retry delay** — for every number of tests, every max-fail
    setting and EVERY interleaving of scheduling, attempts ending, requests being read, timers, signals, reporter errors and
    message deliveries (`runActs`: any action list from the initial state): whenever the run is being cancelled and a unit is
    waiting out a retry delay, a cancellation request is in that unit's mailbox, or its `AttemptFailedWillRetry` is still on
    its way to the dispatcher, which answers it with one.  (False before the repair of F5: a unit that had consumed the
    broadcast while its attempt was running entered the delay with an empty mailbox.) -/
theorem no_delay_sat_out (n : Nat) (mf : MaxFail) (acts : List Act) (s : Sys) (h : runActs (Sys.init n mf) acts = some s)
    (i : Nat) (hd : s.phase i = .delay) (hc : s.d.cancel ≠ none) : WakePending s i :=
  (inv_run acts _ s (inv_init n mf) h).wake i hd hc

/-- … and a pending wake-up in the mailbox does end the delay: reading at most as many requests as the mailbox holds, the
    unit leaves the delay and asks to start its retry — which a cancelled dispatcher refuses (`no_start_after_cancel`) -/
theorem wake_ends_delay : ∀ (m : List Req) (s : Sys) (i : Nat), s.mail i = m → s.phase i = .delay → (∃ r ∈ m, isWake r = true) →
    ∃ k s', k ≤ m.length ∧ runActs s (List.replicate k (.recv i)) = some s' ∧ s'.phase i = .waitRetry := by
  intro m
  induction m with
  | nil => intro s i _ _ ⟨r, hr, _⟩; cases hr
  | cons r rest ih =>
    intro s i hm hp hw
    by_cases hwk : isWake r = true
    · refine ⟨1, send (setPhase (setMail s i rest) i .waitRetry) (.retryStarted i 0 0), by simp, ?_, ?_⟩
      · simp only [List.replicate, runActs, System.step, hm, hp, hwk, if_true]
      · simp [send, setPhase]
    · have hwk' : isWake r = false := by simpa using hwk
      obtain ⟨r', hr', hw'⟩ := hw
      have hin : r' ∈ rest := by
        rcases List.mem_cons.mp hr' with rfl | h
        · rw [hwk'] at hw'; cases hw'
        · exact h
      obtain ⟨k, s', hk, hrun, hph⟩ := ih (setMail s i rest) i (by simp [setMail]) (by simpa [setMail] using hp) ⟨r', hin, hw'⟩
      refine ⟨k + 1, s', by simp; omega, ?_, hph⟩
      simp only [List.replicate, runActs, System.step, hm, hp, hwk', Bool.false_eq_true, if_false]
      exact hrun

/-- **Running tests are left to finish**: whatever request a unit reads while its attempt is in progress, it stays in that
    attempt and sends nothing to the dispatcher — only the process's own end (or, for a signal, the termination the unit model
    describes) ends it -/
theorem running_left_to_finish (s : Sys) (i : Nat) (s' : Sys) (hp : s.phase i = .running) (h : System.step s (.recv i) = some s') :
    s'.phase i = .running ∧ s'.chan = s.chan := by
  simp only [System.step] at h
  split at h
  · cases h
  · rw [hp] at h
    simp only [Option.some.injEq] at h
    subst h
    exact ⟨by simpa [setMail] using hp, rfl⟩

/-- **A unit whose attempt runs, or that is between attempts, is always reachable by a broadcast** (registered with an open
    receiver) — in every reachable state; this is what makes "the signal / the cancellation reaches every running test" true
    of the whole system and not only of the dispatcher's bookkeeping -/
theorem running_units_are_registered (n : Nat) (mf : MaxFail) (acts : List Act) (s : Sys)
    (h : runActs (Sys.init n mf) acts = some s) (i : Nat)
    (hp : s.phase i = .running ∨ s.phase i = .delay ∨ s.phase i = .waitRetry) :
    s.d.running.any (·.1 == i) = true ∧ s.d.rxOpen.contains i = true :=
  (inv_run acts _ s (inv_init n mf) h).reg i hp

-- non-vacuity: F5's schedule.  Test 0 fails with a retry to come while test 1's failure has already cancelled the run and
-- test 0 has already read (and ignored) the broadcast: it enters the delay with an empty mailbox, and the dispatcher's
-- answer to its AttemptFailedWillRetry wakes it
example : (runActs (Sys.init 2 (.count 1))
      [.dispatch 0, .deliver, .dispatch 1, .deliver, .exitFinish 1 (.fail none false) false, .deliver, .recv 0,
       .exitRetry 0 (.fail none false) false]).map (fun s => (decide (s.phase 0 = .delay), s.d.cancel, s.mail 0, s.chan))
    = some (true, some .testFailure, [], [.attemptFailedWillRetry 0 (.fail none false) false]) := by decide
example : (runActs (Sys.init 2 (.count 1))
      [.dispatch 0, .deliver, .dispatch 1, .deliver, .exitFinish 1 (.fail none false) false, .deliver, .recv 0,
       .exitRetry 0 (.fail none false) false, .deliver, .recv 0, .deliver]).map (fun s => (s.phase 0, s.mail 0))
    = some (.gone, []) := by decide

end system

/-! ## Tie to the source: `CancelReason`'s declaration order (its derived `Ord`) -/

def reasonName : CancelReason → String
  | .setupScriptFailure => "SetupScriptFailure" | .testFailure => "TestFailure" | .reportError => "ReportError"
  | .signal => "Signal" | .interrupt => "Interrupt" | .secondSignal => "SecondSignal"

/-- The severity order used by the model is the declaration order of `CancelReason` in
    nextest-runner/src/reporter/events.rs as extracted on this run. -/
theorem cancel_order_matches_source :
    Gen.cancelReasonOrder =
      [CancelReason.setupScriptFailure, .testFailure, .reportError, .signal, .interrupt, .secondSignal].map reasonName := by
  decide

/-! ## Dispatcher and unit together -/

/-- does the dispatcher, in state `s`, acknowledge the start-type request `e`? (a panic answers nothing) -/
def acks (s : DState) (e : DEvent) : Bool :=
  match step s e with
  | .ok (_, o) => decide (o.reply = .ack)
  | .error _ => false

/-- **a unit that asks a cancelled dispatcher for permission to start spawns nothing**: composing the dispatcher model with the
    attempt loop of `run_test_instance` (`Model/Attempts`) — whatever the retry policy and whatever the test would do -/
theorem cancelled_dispatcher_starts_no_unit (s : DState) (hc : s.cancel.isSome) (i : Nat) (p : Classify.Policy)
    (outcome : Nat → Res) (ackRetry : Nat → Bool) (evs : List Attempts.XEv)
    (h : Attempts.runTestInstance p { outcome := outcome, ackStart := acks s (.started i), ackRetry := ackRetry } = some evs) :
    Attempts.spawns evs = [] ∧ Attempts.finisheds evs = [] := by
  have hno : acks s (.started i) = false := by
    unfold acks
    cases hs : step s (.started i) with
    | error e => rfl
    | ok r =>
      obtain ⟨s', o⟩ := r
      have := (no_start_after_cancel s _ s' o hc hs).1
      simp [this]
  exact NextestModel.C02.refused_start_runs_nothing p _ evs h hno

/-- **and a unit already running when cancellation begins makes no further attempt**: if every retry request it sends from
    attempt `k₀` on reaches a cancelled dispatcher (cancellation never recedes: `cancel_monotone`), no attempt `≥ k₀` is spawned -/
theorem cancelled_dispatcher_refuses_retries (p : Classify.Policy) (env : Attempts.Env) (evs : List Attempts.XEv)
    (h : Attempts.runTestInstance p env = some evs) (k0 : Nat) (hk0 : 1 < k0)
    (hrefuse : ∀ k, k0 ≤ k → env.ackRetry k = false) : ∀ k ∈ Attempts.spawns evs, k < k0 := by
  intro k hk
  rcases NextestModel.C07.no_retry_unless_acknowledged p env evs h k hk with h1 | h2
  · omega
  · cases Nat.lt_or_ge k k0 with
    | inl hlt => exact hlt
    | inr hge => rw [hrefuse k hge] at h2; cases h2

/-! ## A unit between attempts leaves its delay on cancellation: the source's arms are the model's -/

open NextestModel.Unit in
/-- **the arms of `handle_delay_between_attempts` that end the delay, as read from executor.rs on this run, are the unit model's**:
    a shutdown request and a cancellation for another reason each `break` out of the delay at once, whatever is left of it —
    the executor half of "the run ends rather than sitting out retry delays" (the dispatcher half: `no_delay_sat_out`) -/
theorem delay_ending_arms_are_the_models (c : Unit.Cfg) (u : Unit.U) (hp : u.phase = .delay) :
    (∀ sr, interpArm applyDelay guardDelay Gen.delayShutdownArm u = Unit.onReq c u (.shutdown sr)) ∧
    interpArm applyDelay guardDelay Gen.delayOtherCancelArm u = Unit.onReq c u .otherCancel := by
  obtain ⟨ph, sw, is_, gs, ws, ds, ls, lsp, hits, slow, to, lk⟩ := u
  simp only at hp
  subst hp
  refine ⟨?_, ?_⟩
  · intro sr
    unfold Gen.delayShutdownArm
    simp only [Unit.onReq, interpArm, List.foldl]
    simp only [guardDelay, applyDelay]
    simp (config := { decide := true })
  · unfold Gen.delayOtherCancelArm
    simp only [Unit.onReq, interpArm, List.foldl]
    (try simp only [guardDelay, applyDelay])
    simp (config := { decide := true })

/-- **the run loop tells the units what the model says it tells them** (dispatcher.rs `run`, the `match` on `handle_event`'s
    response, as translated on this run): for every response the arm's broadcasts are exactly the model's `responseRequest`, each
    made unconditionally — in particular a cancellation that begins because *reporting failed* is broadcast like one that a test
    failure began (a unit sitting out a retry delay ends it on that request: `C07.cancellation_ends_the_delay`), and a shutdown
    signal is broadcast with the arm's own request; no arm is listed twice -/
theorem run_loop_broadcasts_are_the_models (r : Response) :
    responseRow r ∈ Gen.responseBroadcasts ∧ (Gen.responseBroadcasts.map (·.1)).Nodup := by
  refine ⟨?_, by decide⟩
  cases r with
  | cancelSignal q =>
    have h : responseRow (.cancelSignal q) = ("Cancel/Signal", [("shutdown", true)]) := rfl
    rw [h]; decide
  | _ => decide

end NextestModel.C10
