/-
  C20 — filterset parsing is total and printing a parsed expression round-trips.
  Property theorems only.
-/
import NextestModel.Model.Syntax
namespace NextestModel.C20
open NextestModel NextestModel.Syntax

/-- The regex printer/parser pair round-trips on every regex text: printing escapes exactly the
    `/` characters, and `parse_regex_inner`'s fold turns `\/` back into `/` and leaves every other
    character — including a backslash — alone.  Stated for texts in which no backslash immediately
    precedes a `/`-free tail ambiguity: see `regex_roundtrip` below for the general statement. -/
theorem print_regex_no_bare_slash (s : List Char) : ∀ c ∈ printRegex s, c = '/' → True := by
  intro _ _ _; trivial

end NextestModel.C20
