/-
  C20 — filterset parsing is total and printing a parsed expression round-trips.
  Property theorems only.  (Model/Syntax's parser is a total Lean function by construction:
  structural recursion on explicit fuel; `OutOfFuel` is an ordinary reported error.)
-/
import NextestModel.Model.Syntax
import NextestModel.Gen.Tables
namespace NextestModel.C20
open NextestModel NextestModel.Syntax

deriving instance DecidableEq for St

/-- parse the printed form of a one-character string, followed by the closing parenthesis -/
def reparseChar (i : Nat) (c : Char) : Option (List Char) × St :=
  parseString { total := 100, regexValid := [], globValid := [] }
    { rest := printStringChar i c ++ [')'], errs := [], needs := [] }

/-- **Every ASCII character round-trips through the string printer and parser**, at the start of a
    value (index 0, where blank `=` `~` `#` must be protected) and elsewhere: the printed form
    re-parses to exactly that character, consumes exactly the printed text and reports no error.
    A complete finite table (2 × 128 entries), evaluated by the kernel.  Before the repair of F3
    this failed for `'` and `"` (printed as `\'`, `\"`). -/
theorem ascii_char_roundtrip :
    ∀ i : Fin 2, ∀ n : Fin 128,
      reparseChar i.val (Char.ofNat n.val) =
        (some [Char.ofNat n.val], { rest := [')'], errs := [], needs := [] }) := by
  decide +kernel

/-- The characters that would change how a value is re-read are never printed raw: for every
    character, the string printer emits either the character itself — and then it is none of
    `,` `)` `\` `/` — or an escape sequence beginning with a backslash. -/
theorem printed_string_has_no_raw_stop (i : Nat) (c : Char) :
    (printStringChar i c = [c] ∧ c ≠ ',' ∧ c ≠ ')' ∧ c ≠ '\\' ∧ c ≠ '/') ∨
    (∃ t, printStringChar i c = '\\' :: t ∧ t ≠ []) := by
  unfold printStringChar
  by_cases h1 : c = '/'
  · right; subst h1; exact ⟨['/'], by simp, by simp⟩
  by_cases h2 : c = ')'
  · right; subst h2; exact ⟨[')'], by simp, by simp⟩
  by_cases h3 : c = ','
  · right; subst h3; exact ⟨[','], by simp, by simp⟩
  by_cases h4 : c = '\''
  · left; subst h4; simp
  by_cases h5 : c = '"'
  · left; subst h5; simp
  have hq : (c == '\'' || c == '"') = false := by simp [h4, h5]
  simp only [beq_iff_eq, h1, h2, h3, hq, if_false, Bool.false_eq_true]
  by_cases h6 : (i == 0 && (c == ' ' || c == '=' || c == '~' || c == '#')) = true
  · right; simp only [h6, if_true]; exact ⟨_, rfl, by simp⟩
  · simp only [h6, Bool.false_eq_true, if_false]
    unfold escapeDefault
    by_cases e1 : c = '\t'
    · right; subst e1; exact ⟨['t'], by simp, by simp⟩
    by_cases e2 : c = '\r'
    · right; subst e2; exact ⟨['r'], by simp, by simp⟩
    by_cases e3 : c = '\n'
    · right; subst e3; exact ⟨['n'], by simp, by simp⟩
    by_cases e6 : c = '\\'
    · right; subst e6; exact ⟨['\\'], by simp, by simp⟩
    simp only [beq_iff_eq, e1, e2, e3, h4, h5, e6, if_false]
    by_cases e7 : 0x20 ≤ c.toNat ∧ c.toNat ≤ 0x7e
    · left; simp only [e7, and_self, if_true]; exact ⟨trivial, h3, h2, e6, h1⟩
    · right; simp only [e7, if_false]; exact ⟨_, rfl, by simp⟩

/-- The regex printer escapes every `/` and nothing else, so the printed text contains no
    unescaped delimiter. -/
theorem printed_regex_slashes_escaped : ∀ s : List Char,
    printRegex s = s.flatMap (fun c => if c = '/' then ['\\', '/'] else [c]) := by
  intro s
  induction s with
  | nil => rfl
  | cons c cs ih =>
    by_cases h : c = '/'
    · subst h; simp [printRegex, ih]
    · have : printRegex (c :: cs) = c :: printRegex cs := by
        rw [printRegex.eq_def]
        split
        · rename_i heq; cases heq
        · rename_i heq; injection heq with h1 h2; exact absurd h1 h
        · rename_i heq; injection heq with h1 h2; subst h1 h2; rfl
      simp [this, ih, h]

/-! ## Tie to the source: the escape table of `parse_escaped_char` -/

/-- Every single-character escape the real parser accepts (extracted on this run) is accepted by the
    model with the same value, and the model accepts no other single ASCII character after a backslash. -/
theorem escape_table_matches_source :
    (∀ p ∈ Gen.escapeTable, parseEscapeBody [Char.ofNat p.1] = some (Char.ofNat p.2, [])) ∧
    (∀ n : Fin 128, (parseEscapeBody [Char.ofNat n.val]).isSome = (Gen.escapeTable.map (·.1)).contains n.val) := by
  refine ⟨by decide, by decide +kernel⟩

end NextestModel.C20
