/-
  C20 — filterset parsing is total and printing a parsed expression round-trips.
  Property theorems only.  (Model/Syntax's parser is a total Lean function by construction:
  structural recursion on explicit fuel; `OutOfFuel` is an ordinary reported error.)
-/
import NextestModel.Lemmas.Spans
import NextestModel.Lemmas.ResultOrError
import NextestModel.Model.Syntax
import NextestModel.Lemmas.StringRoundTrip
import NextestModel.Gen.Tables
import NextestModel.Lemmas.ExprRoundTrip
import NextestModel.Lemmas.SetsOut
import NextestModel.Thm.C05
namespace NextestModel.C20
open NextestModel NextestModel.Syntax

deriving instance DecidableEq for St

/-- parse the printed form of a one-character string, followed by the closing parenthesis -/
def reparseChar (i : Nat) (c : Char) : Option (List Char) × St :=
  parseString { total := 100, regexValid := [], globValid := [] }
    { rest := printStringChar i c ++ [')'], errs := [], needs := [] }

/-- **Every ASCII character round-trips through the string printer and parser**, at the start of a
    value (index 0, where blank `=` `~` `#` must be protected) and elsewhere: the printed form
    re-parses to exactly that character, consumes exactly the printed text and reports no error.
    A complete finite table (2 × 128 entries), evaluated by the kernel.  Before the repair of F3
    this failed for `'` and `"` (printed as `\'`, `\"`). -/
theorem ascii_char_roundtrip :
    ∀ i : Fin 2, ∀ n : Fin 128,
      reparseChar i.val (Char.ofNat n.val) =
        (some [Char.ofNat n.val], { rest := [')'], errs := [], needs := [] }) := by
  decide +kernel

/-- The characters that would change how a value is re-read are never printed raw: for every
    character, the string printer emits either the character itself — and then it is none of
    `,` `)` `\` `/` — or an escape sequence beginning with a backslash. -/
theorem printed_string_has_no_raw_stop (i : Nat) (c : Char) :
    (printStringChar i c = [c] ∧ c ≠ ',' ∧ c ≠ ')' ∧ c ≠ '\\' ∧ c ≠ '/') ∨
    (∃ t, printStringChar i c = '\\' :: t ∧ t ≠ []) := by
  unfold printStringChar
  by_cases h1 : c = '/'
  · right; subst h1; exact ⟨['/'], by simp, by simp⟩
  by_cases h2 : c = ')'
  · right; subst h2; exact ⟨[')'], by simp, by simp⟩
  by_cases h3 : c = ','
  · right; subst h3; exact ⟨[','], by simp, by simp⟩
  by_cases h4 : c = '\''
  · left; subst h4; simp
  by_cases h5 : c = '"'
  · left; subst h5; simp
  have hq : (c == '\'' || c == '"') = false := by simp [h4, h5]
  simp only [beq_iff_eq, h1, h2, h3, hq, if_false, Bool.false_eq_true]
  by_cases h6 : (i == 0 && (c == ' ' || c == '=' || c == '~' || c == '#')) = true
  · right; simp only [h6, if_true]; exact ⟨_, rfl, by simp⟩
  · simp only [h6, Bool.false_eq_true, if_false]
    unfold escapeDefault
    by_cases e1 : c = '\t'
    · right; subst e1; exact ⟨['t'], by simp, by simp⟩
    by_cases e2 : c = '\r'
    · right; subst e2; exact ⟨['r'], by simp, by simp⟩
    by_cases e3 : c = '\n'
    · right; subst e3; exact ⟨['n'], by simp, by simp⟩
    by_cases e6 : c = '\\'
    · right; subst e6; exact ⟨['\\'], by simp, by simp⟩
    simp only [beq_iff_eq, e1, e2, e3, h4, h5, e6, if_false]
    by_cases e7 : 0x20 ≤ c.toNat ∧ c.toNat ≤ 0x7e
    · left; simp only [e7, and_self, if_true]; exact ⟨trivial, h3, h2, e6, h1⟩
    · right; simp only [e7, if_false]; exact ⟨_, rfl, by simp⟩

/-- The regex printer escapes every `/` and nothing else, so the printed text contains no
    unescaped delimiter. -/
theorem printed_regex_slashes_escaped : ∀ s : List Char,
    printRegex s = s.flatMap (fun c => if c = '/' then ['\\', '/'] else [c]) := by
  intro s
  induction s with
  | nil => rfl
  | cons c cs ih =>
    by_cases h : c = '/'
    · subst h; simp [printRegex, ih]
    · have : printRegex (c :: cs) = c :: printRegex cs := by
        rw [printRegex.eq_def]
        split
        · rename_i heq; cases heq
        · rename_i heq; injection heq with h1 h2; exact absurd h1 h
        · rename_i heq; injection heq with h1 h2; subst h1 h2; rfl
      simp [this, ih, h]

/-! ## Printing then parsing is the identity -/

/-- **Every string round-trips through the printer and the parser**: for every list of Unicode scalar
    values `s` (of any length, any characters — controls, quotes, delimiters, non-ASCII, leading blanks
    or matcher prefixes), parsing the printed form of `s` followed by a terminator (`)`, `,` or the end
    of the input) yields exactly `s`, consumes exactly the printed text and reports nothing.
    (False before the repair of F3: `'` and `"`.) -/
theorem string_roundtrip (cx : Ctx) (s tail : List Char) (ht : Terminated tail) (errs : List PErr) (needs : List (Bool × List Char)) :
    parseString cx { rest := printString s ++ tail, errs := errs, needs := needs } =
      (some s, { rest := tail, errs := errs, needs := needs }) := by
  unfold parseString printString
  simpa using loop_printed cx tail ht errs needs s.length s (Nat.le_refl _) 0 [] _ (Nat.lt_succ_self _)

/-- **Every regular expression the parser can produce round-trips**: the printed form (only `/`
    escaped) up to the closing delimiter is read back as the same text.  A text ending in a backslash
    is excluded: the parser never produces one (before the closing `/` it reads `\/` as an escaped
    slash), and no valid regex ends in a lone backslash. -/
theorem regex_roundtrip (s tail : List Char) (h : endsWithBackslash s = false) :
    regexLoop ((printRegex s ++ '/' :: tail).length + 1) [] (printRegex s ++ '/' :: tail) = (s, '/' :: tail) := by
  simpa using regexLoop_printed tail s.length s (Nat.le_refl _) h [] _ (Nat.lt_succ_self _)

/-- and the excluded shape really does not round-trip (so the hypothesis is needed, and such a text
    must not be in the parser's image — it is not: see above) -/
theorem regex_trailing_backslash_counterexample :
    regexLoop 10 [] (printRegex ['a', '\\'] ++ ['/']) ≠ (['a', '\\'], ['/']) := by decide

/-- the first printed character of a non-empty value is neither blank nor a matcher prefix -/
private theorem printString_head (c : Char) (cs : List Char) :
    ∃ h t, printString (c :: cs) = h :: t ∧ h ≠ ' ' ∧ h ≠ '\n' ∧ h ≠ '\r' ∧ h ≠ '/' ∧ h ≠ '#' ∧ h ≠ '=' ∧ h ≠ '~' := by
  simp only [printString, printStringFrom]
  rcases printed_string_has_no_raw_stop 0 c with ⟨hraw, _, _, _, hsl⟩ | ⟨t, ht, _⟩
  · -- printed raw: then it is not one of the protected leading characters
    refine ⟨c, printStringFrom 1 cs, by rw [hraw]; rfl, ?_⟩
    have key : ∀ x : Char, (x = ' ' ∨ x = '\n' ∨ x = '\r' ∨ x = '#' ∨ x = '=' ∨ x = '~') → printStringChar 0 x ≠ [x] := by
      intro x hx; rcases hx with rfl | rfl | rfl | rfl | rfl | rfl <;> decide
    refine ⟨?_, ?_, ?_, hsl, ?_, ?_, ?_⟩ <;> intro e <;> exact key c (by simp [e]) hraw
  · exact ⟨'\\', t ++ printStringFrom 1 cs, by rw [ht]; rfl, by decide, by decide, by decide, by decide, by decide, by decide, by decide⟩

private theorem skipWs_nonws (c : Char) (cs : List Char) (h1 : c ≠ ' ') (h2 : c ≠ '\n') (h3 : c ≠ '\r') :
    skipWs (c :: cs) = c :: cs := by
  rw [skipWs]
  · intro cs' e; simp at e; exact h1 e.1
  · intro cs' e; simp at e; exact h2 e.1
  · intro cs' e; simp at e; exact h3 e.1

/-- what a successful parse produces, for a predicate whose default matcher is `dm` -/
def MatcherOk (cx : Ctx) (dm : DefaultMatcher) : Matcher → Prop
  | .equal v imp => v ≠ [] ∧ (imp = true → dm = .equal)
  | .contains v imp => v ≠ [] ∧ (imp = true → dm = .contains)
  | .glob v imp => v ≠ [] ∧ (imp = true → dm = .glob) ∧ lookup cx.globValid v = some true
  | .regex v => endsWithBackslash v = false ∧ lookup cx.regexValid v = some true

/-- **Every matcher round-trips, and printing never changes which alternative of `set_matcher` reads
    it back**: explicit `=`, `~`, `#`, `/…/` and the implicit form of the predicate's default matcher,
    with any value. -/
theorem matcher_roundtrip (cx : Ctx) (dm : DefaultMatcher) (m : Matcher) (tail : List Char) (errs : List PErr)
    (needs : List (Bool × List Char)) (h : MatcherOk cx dm m) :
    setMatcher cx dm { rest := printMatcher m ++ ')' :: tail, errs := errs, needs := needs } =
      (some m, { rest := ')' :: tail, errs := errs, needs := needs }) := by
  have hterm : Terminated (')' :: tail) := Or.inr ⟨tail, Or.inr rfl⟩
  have text : ∀ (v : List Char), v ≠ [] →
      parseMatcherText cx { rest := printString v ++ ')' :: tail, errs := errs, needs := needs } =
        (some v, { rest := ')' :: tail, errs := errs, needs := needs }) := by
    intro v hv
    simp only [parseMatcherText, string_roundtrip cx v _ hterm]
    cases v with
    | nil => exact absurd rfl hv
    | cons _ _ => rfl
  -- an implicit value starts with a character that selects the default alternative
  have implicit : ∀ (v : List Char), v ≠ [] → ∃ hd tl, printString v ++ ')' :: tail = hd :: tl ∧
      skipWs (hd :: tl) = hd :: tl ∧ hd ≠ '/' ∧ hd ≠ '#' ∧ hd ≠ '=' ∧ hd ≠ '~' := by
    intro v hv
    cases v with
    | nil => exact absurd rfl hv
    | cons c cs =>
      obtain ⟨hd, t, hp, h1, h2, h3, h4, h5, h6, h7⟩ := printString_head c cs
      refine ⟨hd, t ++ ')' :: tail, by rw [hp]; rfl, ?_, h4, h5, h6, h7⟩
      exact skipWs_nonws hd _ h1 h2 h3
  cases m with
  | regex v =>
    obtain ⟨hb, hv⟩ := h
    have hr := regex_roundtrip v (')' :: tail) hb
    have hws : skipWs ('/' :: (printRegex v ++ '/' :: ')' :: tail)) = '/' :: (printRegex v ++ '/' :: ')' :: tail) :=
      skipWs_nonws _ _ (by decide) (by decide) (by decide)
    have hws2 : skipWs ('/' :: ')' :: tail) = '/' :: ')' :: tail := skipWs_nonws _ _ (by decide) (by decide) (by decide)
    simp only [setMatcher, printMatcher, List.cons_append, List.nil_append, List.append_assoc, St.withRest, hws, parseRegex, hr]
    simp [St.valid, hv, St.withRest, hws2]
  | equal v imp =>
    obtain ⟨hne, hdm⟩ := h
    cases imp with
    | false =>
      have hws : ∀ (x : Char) (r : List Char), (x = '=' ∨ x = '~' ∨ x = '#') → skipWs (x :: r) = x :: r := by
        intro x r hx; rcases hx with rfl | rfl | rfl <;> exact skipWs_nonws _ _ (by decide) (by decide) (by decide)
      simp only [setMatcher, printMatcher, Bool.false_eq_true, if_false, List.cons_append, List.nil_append, St.withRest]
      rw [hws _ _ (by simp)]
      simp only [text v hne]
      rfl
    | true =>
      obtain ⟨hd, tl, hp, hws, h4, h5, h6, h7⟩ := implicit v hne
      have hdm' := hdm rfl; subst hdm'
      have ht := text v hne
      simp only [setMatcher, printMatcher, if_true, List.nil_append, St.withRest]
      rw [hp] at ht ⊢
      rw [hws]
      split
      · rename_i heq; simp at heq; exact absurd heq.1 h4
      · rename_i heq; simp at heq; exact absurd heq.1 h5
      · rename_i heq; simp at heq; exact absurd heq.1 h6
      · rename_i heq; simp at heq; exact absurd heq.1 h7
      · simp only [ht]; rfl
  | contains v imp =>
    obtain ⟨hne, hdm⟩ := h
    cases imp with
    | false =>
      have hws : ∀ (x : Char) (r : List Char), (x = '=' ∨ x = '~' ∨ x = '#') → skipWs (x :: r) = x :: r := by
        intro x r hx; rcases hx with rfl | rfl | rfl <;> exact skipWs_nonws _ _ (by decide) (by decide) (by decide)
      simp only [setMatcher, printMatcher, Bool.false_eq_true, if_false, List.cons_append, List.nil_append, St.withRest]
      rw [hws _ _ (by simp)]
      simp only [text v hne]
      rfl
    | true =>
      obtain ⟨hd, tl, hp, hws, h4, h5, h6, h7⟩ := implicit v hne
      have hdm' := hdm rfl; subst hdm'
      have ht := text v hne
      simp only [setMatcher, printMatcher, if_true, List.nil_append, St.withRest]
      rw [hp] at ht ⊢
      rw [hws]
      split
      · rename_i heq; simp at heq; exact absurd heq.1 h4
      · rename_i heq; simp at heq; exact absurd heq.1 h5
      · rename_i heq; simp at heq; exact absurd heq.1 h6
      · rename_i heq; simp at heq; exact absurd heq.1 h7
      · simp only [ht]; rfl
  | glob v imp =>
    obtain ⟨hne, hdm, hv⟩ := h
    cases imp with
    | false =>
      have hws : skipWs ('#' :: (printString v ++ ')' :: tail)) = '#' :: (printString v ++ ')' :: tail) :=
        skipWs_nonws _ _ (by decide) (by decide) (by decide)
      simp only [setMatcher, printMatcher, Bool.false_eq_true, if_false, List.cons_append, List.nil_append, St.withRest, hws, parseGlobM, text v hne]
      simp [St.valid, hv]
    | true =>
      obtain ⟨hd, tl, hp, hws, h4, h5, h6, h7⟩ := implicit v hne
      have hdm' := hdm rfl; subst hdm'
      have ht := text v hne
      simp only [setMatcher, printMatcher, if_true, List.nil_append, St.withRest]
      rw [hp] at ht ⊢
      rw [hws]
      split
      · rename_i heq; simp at heq; exact absurd heq.1 h4
      · rename_i heq; simp at heq; exact absurd heq.1 h5
      · rename_i heq; simp at heq; exact absurd heq.1 h6
      · rename_i heq; simp at heq; exact absurd heq.1 h7
      · simp only [parseGlobM, ht]; simp [St.valid, hv]

/-! ## The whole expression -/

/-- every set definition in `e` carries a matcher the parser can have produced under `cx`: a non-empty value, the implicit
    form only for the predicate's own default matcher, a regex not ending in a lone backslash, regex / glob texts the
    `regex` / `globset` crates accept (validity is an input of the model) -/
def SetsOk (cx : Ctx) : PExpr → Prop
  | .set s => ExprRT.SetOk (MatcherOk cx) s
  | .not _ e => SetsOk cx e
  | .parens e => SetsOk cx e
  | .union _ a b => SetsOk cx a ∧ SetsOk cx b
  | .inter _ a b => SetsOk cx a ∧ SetsOk cx b
  | .diff a b => SetsOk cx a ∧ SetsOk cx b

mutual
private theorem wf_basic (cx : Ctx) : ∀ (e : PExpr), C05.IsBasic e → SetsOk cx e → ExprRT.wf (MatcherOk cx) 0 e
  | .set _, .set _, hs => hs
  | .not _ e, .not _ h, hs => wf_basic cx e h hs
  | .parens e, .parens h, hs => wf_or cx e h hs
private theorem wf_and (cx : Ctx) : ∀ (e : PExpr), C05.IsAnd e → SetsOk cx e → ExprRT.wf (MatcherOk cx) 1 e
  | e, .basic h, hs => ExprRT.wf_mono _ 0 1 (by omega) _ (wf_basic cx e h hs)
  | .inter _ a b, .inter _ ha hb, hs => ⟨Nat.le_refl 1, wf_and cx a ha hs.1, wf_basic cx b hb hs.2⟩
  | .diff a b, .diff ha hb, hs => ⟨Nat.le_refl 1, wf_and cx a ha hs.1, wf_basic cx b hb hs.2⟩
private theorem wf_or (cx : Ctx) : ∀ (e : PExpr), C05.IsOr e → SetsOk cx e → ExprRT.wf (MatcherOk cx) 2 e
  | e, .and h, hs => ExprRT.wf_mono _ 1 2 (by omega) _ (wf_and cx e h hs)
  | .union _ a b, .union _ ha hb, hs => ⟨Nat.le_refl 2, wf_or cx a ha hs.1, wf_and cx b hb hs.2⟩
end

/-- **Printing a parsed expression and parsing the text again yields the same expression** (modulo source spans), with no
    error and nothing left over — for EVERY expression of the shape the parser produces (`C05.IsOr`: proved of every parser
    output by `C05.parse_shape`), of any size and nesting depth, with any operator spellings, any predicates and any matcher
    values (all scalar values, `string_roundtrip`).  The printer inserts no parentheses of its own, so the shape hypothesis is
    exactly what makes the statement true: `a or (b or c)` without its parentheses node would print as `a or b or c`.
    The fuel the model parser gives itself (`fuelFor`) is shown to suffice for every printed expression. -/
theorem print_parse_roundtrip (e : PExpr) (rv gv : List (List Char × Bool)) (re : List (List Char × Nat × Nat))
    (hshape : C05.IsOr e) (hsets : SetsOk (mkCtx (printExpr e) rv gv re) e) :
    ∃ e', parseFilterset (printExpr e) rv gv re = .ok e' ∧ dropSpans e' = dropSpans e := by
  have hm : ExprRT.MatcherRT (mkCtx (printExpr e) rv gv re) (MatcherOk (mkCtx (printExpr e) rv gv re)) :=
    fun dm m tail errs needs h => matcher_roundtrip _ dm m tail errs needs h
  obtain ⟨e', h1, h2⟩ := ExprRT.parseTop_printed (MatcherOk (mkCtx (printExpr e) rv gv re)) e rv gv re hm (wf_or _ e hshape hsets)
  exact ⟨e', by simp only [parseFilterset, h1], h2⟩

/-- the validity tables (the answers of the `regex` / `globset` crates, which the model takes as input) cover every regex
    and glob text of `e`: the parse of `e`'s source consulted the tables and did not fall back to "assume valid" -/
def TablesCover (rv gv : List (List Char × Bool)) : PExpr → Prop
  | .set (.unary _ (.glob v _) _) => (lookup gv v).isSome = true
  | .set (.unary _ (.regex v) _) => (lookup rv v).isSome = true
  | .set _ => True
  | .not _ e => TablesCover rv gv e
  | .parens e => TablesCover rv gv e
  | .union _ a b => TablesCover rv gv a ∧ TablesCover rv gv b
  | .inter _ a b => TablesCover rv gv a ∧ TablesCover rv gv b
  | .diff a b => TablesCover rv gv a ∧ TablesCover rv gv b

private theorem sets_ok_of_out (rv gv : List (List Char × Bool)) (re : List (List Char × Nat × Nat)) (i1 i2 : List Char) :
    ∀ e : PExpr, SetsOut.SetsOut (mkCtx i1 rv gv re) e → TablesCover rv gv e → SetsOk (mkCtx i2 rv gv re) e := by
  intro e
  induction e with
  | set s =>
    intro ho hc
    cases s with
    | unary p m sp =>
      cases m with
      | equal v imp => exact ho
      | contains v imp => exact ho
      | glob v imp =>
        obtain ⟨h1, h2, h3⟩ := ho
        refine ⟨h1, h2, ?_⟩
        have hc' : (lookup gv v).isSome = true := hc
        have h3' : lookup gv v ≠ some false := h3
        show lookup gv v = some true
        cases hl : lookup gv v with
        | none => rw [hl] at hc'; cases hc'
        | some b => cases b with
          | true => rfl
          | false => exact absurd hl h3'
      | regex v =>
        obtain ⟨h1, h3⟩ := ho
        refine ⟨h1, ?_⟩
        have hc' : (lookup rv v).isSome = true := hc
        have h3' : lookup rv v ≠ some false := h3
        show lookup rv v = some true
        cases hl : lookup rv v with
        | none => rw [hl] at hc'; cases hc'
        | some b => cases b with
          | true => rfl
          | false => exact absurd hl h3'
    | platform pl sp => trivial
    | default sp => trivial
    | all => trivial
    | none => trivial
  | not op e ih => intro ho hc; exact ih ho hc
  | parens e ih => intro ho hc; exact ih ho hc
  | union op a b iha ihb => intro ho hc; exact ⟨iha ho.1 hc.1, ihb ho.2 hc.2⟩
  | inter op a b iha ihb => intro ho hc; exact ⟨iha ho.1 hc.1, ihb ho.2 hc.2⟩
  | diff a b iha ihb => intro ho hc; exact ⟨iha ho.1 hc.1, ihb ho.2 hc.2⟩

/-- **Printing a PARSED expression round-trips** — the property as stated, with no side condition on the expression: for every
    input string that `Filterset::parse` accepts, printing the resulting expression and parsing the printed text yields the
    same expression again (modulo source spans), with no error.  The shape and the well-formedness of the matchers that the
    round trip needs are not assumed but derived from the first parse (`C05.parse_shape`, `SetsOut.parseFilterset_out`: an
    error-free parse yields non-empty values, implicit matchers only in their predicate's default form, regexes not ending in a
    backslash, and texts the validity oracle accepted).  `TablesCover` only says that the oracle's answers used for the second
    parse include the texts of the first. -/
theorem parsed_expression_roundtrips (input : List Char) (rv gv : List (List Char × Bool)) (re : List (List Char × Nat × Nat)) (e : PExpr)
    (h : parseFilterset input rv gv re = .ok e) (hc : TablesCover rv gv e) :
    ∃ e', parseFilterset (printExpr e) rv gv re = .ok e' ∧ dropSpans e' = dropSpans e := by
  have hout := SetsOut.parseFilterset_out input rv gv re e h
  have hshape : C05.IsOr e := by
    unfold parseFilterset at h
    generalize hpt : parseTop (mkCtx input rv gv re) input = pt at h
    obtain ⟨eo, stf⟩ := pt
    cases eo with
    | none => simp at h
    | some e0 =>
      cases hs : stf.errs with
      | cons x xs => simp [hs] at h
      | nil =>
        simp only [hs, Except.ok.injEq] at h
        subst h
        exact C05.parse_shape input rv gv re _ stf hpt
  exact print_parse_roundtrip e rv gv re hshape (sets_ok_of_out rv gv re input (printExpr e) e hout hc)

/-- what `Filterset::parse` returns for the printed form of `e`, spans forgotten -/
def reparse (e : PExpr) : Option PExpr :=
  match parseFilterset (printExpr e) [] [] [] with
  | .ok x => some (dropSpans x)
  | .error _ => none

-- non-vacuity: `not test(a b) and (kind(=lib) | all())` printed and re-read (an implicit `contains` value with a blank, an
-- explicit `equal`, a nullary set, both spellings of or/and, parentheses)
example : reparse (.inter .literalAnd (.not .literalNot (.set (.unary .test (.contains "a b".toList true) ⟨0, 0⟩)))
      (.parens (.union .pipe (.set (.unary .kind (.equal "lib".toList false) ⟨0, 0⟩)) (.set .all)))) =
    some (.inter .literalAnd (.not .literalNot (.set (.unary .test (.contains "a b".toList true) ⟨0, 0⟩)))
      (.parens (.union .pipe (.set (.unary .kind (.equal "lib".toList false) ⟨0, 0⟩)) (.set .all)))) := by decide +kernel

-- non-vacuity of `parsed_expression_roundtrips`: a source text with redundant blanks, several operator spellings and an escaped
-- value is accepted, and its expression re-reads as itself
example : (match parseFilterset "  not  test( a\\,b ) & ( kind(=lib)|all() )  -  package(foo)".toList [] [] [] with
    | .ok x => decide (reparse x = some (dropSpans x)) | .error _ => false) = true := by decide +kernel

/-- without the shape hypothesis the statement is false: a right-nested `or` prints without parentheses and is read back
    left-nested -/
theorem roundtrip_needs_shape :
    reparse (.union .pipe (.set .all) (.union .pipe (.set .none) (.set .all))) =
      some (.union .pipe (.union .pipe (.set .all) (.set .none)) (.set .all)) := by decide +kernel

/-! ## Tie to the source: the escape table of `parse_escaped_char` -/

/-- Every single-character escape the real parser accepts (extracted on this run) is accepted by the
    model with the same value, and the model accepts no other single ASCII character after a backslash. -/
theorem escape_table_matches_source :
    (∀ p ∈ Gen.escapeTable, parseEscapeBody [Char.ofNat p.1] = some (Char.ofNat p.2, [])) ∧
    (∀ n : Fin 128, (parseEscapeBody [Char.ofNat n.val]).isSome = (Gen.escapeTable.map (·.1)).contains n.val) := by
  refine ⟨by decide, by decide +kernel⟩

/-! ## Totality and error spans -/

/-- **parsing terminates on every string with either an expression or a list of errors**: `parseFilterset` is a total function
    (Lean's termination checker accepted the fuelled definition; `fuelFor` suffices for every input, which the correspondence
    checks by never observing the `outOfFuel` error kind) — and **every reported error span lies within the input**:
    `offset + length ≤` the input's length in bytes, for every input string, every regex/glob validity oracle and every table of
    spans blamed by `regex-syntax` (an `InvalidRegex` span is `start + ` that span, or the whole regex text). -/
theorem spans_in_input (input : List Char) (rv gv : List (List Char × Bool)) (re : List (List Char × Nat × Nat)) (errs : List PErr)
    (h : parseFilterset input rv gv re = .error errs) : ∀ e ∈ errs, e.off + e.len ≤ utf8Len input := by
  unfold parseFilterset at h
  simp only at h
  split at h
  · cases h
  · simp only [Except.error.injEq] at h; subst h
    exact parseTop_spans input rv gv re

/-- **an expression or at least one error**: on every string, `Filterset::parse` (model: `parseFilterset`) either returns an
    expression, or returns a NON-EMPTY list of errors — it can never come back empty-handed -/
theorem result_or_error (input : List Char) (rv gv : List (List Char × Bool)) (re : List (List Char × Nat × Nat)) (errs : List PErr)
    (h : parseFilterset input rv gv re = .error errs) : errs ≠ [] := by
  unfold parseFilterset at h
  simp only at h
  split at h
  · cases h
  · rename_i e es hne
    simp only [Except.error.injEq] at h; subst h
    cases he : (parseTop (mkCtx input rv gv re) input).1 with
    | none => exact parseTop_none_errs _ input he
    | some x =>
      intro hes
      exact hne x he hes

-- non-vacuity: an input that ends right after a backslash (the escape error's span is clamped to what remains: nothing)
example : (match parseFilterset "test(foo\\".toList [] [] [] with | .error es => es | .ok _ => []) =
    [⟨.invalidEscape, 8, 0⟩, ⟨.expectedCloseParen, 9, 0⟩] := by decide

end NextestModel.C20
