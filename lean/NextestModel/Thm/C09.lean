/-
  C09 — slow tests are flagged, terminated only at the configured deadline, then killed.
  Property theorems only, over Model/Unit: every sequence of events (time passing in any pieces,
  SIGTSTP/SIGCONT requests, information requests, non-signal cancellations, the process exiting at any
  moment) that contains no shutdown request.  Time is running time: `sw.active` is what the attempt's
  stopwatch has counted while not paused.
-/
import NextestModel.Model.Unit
import NextestModel.Gen.Tables
namespace NextestModel.C09
open NextestModel.Unit

/-- no shutdown request among the events (C11 covers those) -/
def Quiet : List Ev → Prop
  | [] => True
  | .req (.shutdown _) :: _ => False
  | _ :: es => Quiet es

/-- a signal that ends the test: everything but job control -/
def hard : Act → Bool
  | .kill .tstp => false
  | .kill .cont => false
  | .kill _ => true
  | _ => false

/-- the deadline has been reached in running time -/
def Reached (c : Cfg) (u : U) : Prop := ∃ k, c.terminateAfter = some k ∧ k * c.period ≤ u.sw.active

/-- what holds of every state reachable from a spawn without shutdown requests -/
structure Inv (c : Cfg) (u : U) : Prop where
  /-- while the attempt is running and has not timed out: the stopwatch and the interval sleep have
      counted the same time, are paused together, and the deadline has not been reached -/
  run : u.phase = .running → u.timedOut = false →
    u.sw.active + u.is.remaining = (u.hits + 1) * c.period ∧ u.sw.paused = u.is.paused ∧
    0 < u.is.remaining ∧ (u.slow = true ↔ 0 < u.hits) ∧ (∀ k, c.terminateAfter = some k → u.hits < k) ∧
    u.is.remaining ≤ c.period
  /-- once timed out, the deadline was reached -/
  hot : u.timedOut = true → Reached c u
  /-- termination in progress is the timeout's -/
  term : ∀ w, u.phase = .terminating w → w = .timeout ∧ u.timedOut = true ∧
    u.ws.active + u.gs.remaining = c.grace ∧ u.gs.paused = u.ws.paused

private theorem tick_w (w : Watch) (d : Nat) : w.active ≤ (w.tick d).active ∧ (w.tick d).paused = w.paused := by
  unfold Watch.tick; split <;> simp

private theorem inv_spawn (c : Cfg) (hp : 0 < c.period) (hk : ∀ k, c.terminateAfter = some k → 0 < k) : Inv c (U.spawn c) := by
  refine ⟨?_, ?_, ?_⟩
  · intro _ _; simp [U.spawn]; exact ⟨hp, hk⟩
  · intro h; simp [U.spawn] at h
  · intro w h; simp [U.spawn] at h

/-- one quiet step: the invariant is kept, running time never decreases, and a terminating signal is
    sent only once the deadline has been reached -/
private theorem step_inv (c : Cfg) (hp : 0 < c.period) (u : U) (e : Ev) (hq : Quiet [e]) (hi : Inv c u) :
    Inv c (step c u e).1 ∧ u.sw.active ≤ (step c u e).1.sw.active ∧
      (∀ a ∈ (step c u e).2, hard a = true → Reached c (step c u e).1) := by
  obtain ⟨hrun, hhot, hterm⟩ := hi
  cases e with
  | req r =>
    cases r with
    | shutdown sr => exact absurd hq (by simp [Quiet])
    | stop =>
      cases hph : u.phase with
      | running =>
        simp only [step, onReq, hph]
        refine ⟨⟨?_, ?_, ?_⟩, Nat.le_refl _, ?_⟩
        · intro _ hto; obtain ⟨h1, _, h3, h4, h5, h6⟩ := hrun hph hto; exact ⟨h1, rfl, h3, h4, h5, h6⟩
        · intro hto; obtain ⟨k, hk, hle⟩ := hhot hto; exact ⟨k, hk, hle⟩
        · intro w hw; simp [hph] at hw
        · intro a ha; simp at ha; rcases ha with rfl | rfl <;> simp [hard]
      | terminating w =>
        simp only [step, onReq, hph]
        obtain ⟨hw, hto, hsum, hpa⟩ := hterm w hph
        split
        · refine ⟨⟨?_, hhot, hterm⟩, Nat.le_refl _, ?_⟩
          · intro h; simp [hph] at h
          · intro a ha; simp at ha; subst ha; simp [hard]
        · refine ⟨⟨?_, ?_, ?_⟩, Nat.le_refl _, ?_⟩
          · intro h; simp [hph] at h
          · intro h; obtain ⟨k, hk, hle⟩ := hhot h; exact ⟨k, hk, hle⟩
          · intro w' hw'; simp [hph] at hw'; subst hw'; exact ⟨hw, hto, hsum, rfl⟩
          · intro a ha; simp at ha; rcases ha with rfl | rfl <;> simp [hard]
      | draining =>
        simp only [step, onReq, hph]
        refine ⟨⟨?_, ?_, ?_⟩, Nat.le_refl _, by simp [hard]⟩
        · intro h; simp [hph] at h
        · intro h; obtain ⟨k, hk, hle⟩ := hhot h; exact ⟨k, hk, hle⟩
        · intro w hw; simp [hph] at hw
      | delay =>
        simp only [step, onReq, hph]
        split
        · exact ⟨⟨hrun, hhot, hterm⟩, Nat.le_refl _, by simp [hard]⟩
        · refine ⟨⟨?_, ?_, ?_⟩, Nat.le_refl _, by simp [hard]⟩
          · intro h; simp [hph] at h
          · intro h; obtain ⟨k, hk, hle⟩ := hhot h; exact ⟨k, hk, hle⟩
          · intro w hw; simp [hph] at hw
      | done =>
        simp only [step, onReq, hph]
        exact ⟨⟨hrun, hhot, hterm⟩, Nat.le_refl _, by simp⟩
    | cont =>
      cases hph : u.phase with
      | running =>
        simp only [step, onReq, hph]
        split
        · refine ⟨⟨?_, ?_, ?_⟩, Nat.le_refl _, ?_⟩
          · intro _ hto; obtain ⟨h1, _, h3, h4, h5, h6⟩ := hrun hph hto; exact ⟨h1, rfl, h3, h4, h5, h6⟩
          · intro hto; obtain ⟨k, hk, hle⟩ := hhot hto; exact ⟨k, hk, hle⟩
          · intro w hw; simp [hph] at hw
          · intro a ha; simp at ha; subst ha; simp [hard]
        · exact ⟨⟨hrun, hhot, hterm⟩, Nat.le_refl _, by simp⟩
      | terminating w =>
        simp only [step, onReq, hph]
        obtain ⟨hw, hto, hsum, hpa⟩ := hterm w hph
        refine ⟨⟨?_, ?_, ?_⟩, Nat.le_refl _, ?_⟩
        · intro h; simp [hph] at h
        · intro h; obtain ⟨k, hk, hle⟩ := hhot h; exact ⟨k, hk, hle⟩
        · intro w' hw'; simp [hph] at hw'; subst hw'; exact ⟨hw, hto, hsum, rfl⟩
        · intro a ha; simp at ha; subst ha; simp [hard]
      | draining =>
        simp only [step, onReq, hph]
        refine ⟨⟨?_, ?_, ?_⟩, Nat.le_refl _, by simp [hard]⟩
        · intro h; simp [hph] at h
        · intro h; obtain ⟨k, hk, hle⟩ := hhot h; exact ⟨k, hk, hle⟩
        · intro w hw; simp [hph] at hw
      | delay =>
        simp only [step, onReq, hph]
        split
        · split
          · exact ⟨⟨hrun, hhot, hterm⟩, Nat.le_refl _, by simp [hard]⟩
          · refine ⟨⟨?_, ?_, ?_⟩, Nat.le_refl _, by simp⟩
            · intro h; simp [hph] at h
            · intro h; obtain ⟨k, hk, hle⟩ := hhot h; exact ⟨k, hk, hle⟩
            · intro w hw; simp [hph] at hw
        · exact ⟨⟨hrun, hhot, hterm⟩, Nat.le_refl _, by simp⟩
      | done =>
        simp only [step, onReq, hph]
        exact ⟨⟨hrun, hhot, hterm⟩, Nat.le_refl _, by simp⟩
    | otherCancel =>
      cases hph : u.phase with
      | delay =>
        simp only [step, onReq, hph]
        refine ⟨⟨?_, ?_, ?_⟩, Nat.le_refl _, by simp⟩
        · intro h; simp at h
        · intro h; obtain ⟨k, hk, hle⟩ := hhot h; exact ⟨k, hk, hle⟩
        · intro w hw; simp at hw
      | running => simp only [step, onReq, hph]; exact ⟨⟨hrun, hhot, hterm⟩, Nat.le_refl _, by simp⟩
      | terminating w => simp only [step, onReq, hph]; exact ⟨⟨hrun, hhot, hterm⟩, Nat.le_refl _, by simp⟩
      | draining => simp only [step, onReq, hph]; exact ⟨⟨hrun, hhot, hterm⟩, Nat.le_refl _, by simp⟩
      | done => simp only [step, onReq, hph]; exact ⟨⟨hrun, hhot, hterm⟩, Nat.le_refl _, by simp⟩
    | getInfo =>
      cases hph : u.phase <;> simp only [step, onReq, hph] <;>
        exact ⟨⟨hrun, hhot, hterm⟩, Nat.le_refl _, by simp [hard]⟩
  | childExit =>
    cases hph : u.phase with
    | running =>
      simp only [step, hph]
      refine ⟨⟨?_, ?_, ?_⟩, Nat.le_refl _, by simp⟩
      · intro h; simp at h
      · intro h; obtain ⟨k, hk, hle⟩ := hhot h; exact ⟨k, hk, hle⟩
      · intro w hw; simp at hw
    | terminating w =>
      simp only [step, hph]
      obtain ⟨_, hto, _, _⟩ := hterm w hph
      refine ⟨⟨?_, ?_, ?_⟩, Nat.le_refl _, by simp⟩
      · intro _ h; simp [hto] at h
      · intro h; obtain ⟨k, hk, hle⟩ := hhot hto; exact ⟨k, hk, hle⟩
      · intro w hw; simp at hw
    | draining => simp only [step, hph]; exact ⟨⟨hrun, hhot, hterm⟩, Nat.le_refl _, by simp⟩
    | delay => simp only [step, hph]; exact ⟨⟨hrun, hhot, hterm⟩, Nat.le_refl _, by simp⟩
    | done => simp only [step, hph]; exact ⟨⟨hrun, hhot, hterm⟩, Nat.le_refl _, by simp⟩
  | fdsDone =>
    cases hph : u.phase with
    | draining =>
      simp only [step, hph]
      refine ⟨⟨?_, ?_, ?_⟩, Nat.le_refl _, by simp⟩
      · intro h; simp at h
      · intro h; obtain ⟨k, hk, hle⟩ := hhot h; exact ⟨k, hk, hle⟩
      · intro w hw; simp at hw
    | running => simp only [step, hph]; exact ⟨⟨hrun, hhot, hterm⟩, Nat.le_refl _, by simp⟩
    | terminating w => simp only [step, hph]; exact ⟨⟨hrun, hhot, hterm⟩, Nat.le_refl _, by simp⟩
    | delay => simp only [step, hph]; exact ⟨⟨hrun, hhot, hterm⟩, Nat.le_refl _, by simp⟩
    | done => simp only [step, hph]; exact ⟨⟨hrun, hhot, hterm⟩, Nat.le_refl _, by simp⟩
  | time dt =>
    simp only [step]
    cases hph : u.phase with
    | done =>
      simp only [advance, nextDue, hph, elapse]
      exact ⟨⟨hrun, hhot, hterm⟩, Nat.le_refl _, by simp⟩
    | delay =>
      simp only [advance, nextDue, hph, Timer.due]
      split
      · rename_i hd
        split at hd
        · simp only [elapse, hph]
          refine ⟨⟨?_, ?_, ?_⟩, Nat.le_refl _, by simp⟩
          · intro h; simp [hph] at h
          · intro h; obtain ⟨k, hk, hle⟩ := hhot h; exact ⟨k, hk, hle⟩
          · intro w hw; simp [hph] at hw
        · cases hd
      · rename_i n hd
        split
        · simp only [elapse, hph]
          refine ⟨⟨?_, ?_, ?_⟩, Nat.le_refl _, by simp⟩
          · intro h; simp [hph] at h
          · intro h; obtain ⟨k, hk, hle⟩ := hhot h; exact ⟨k, hk, hle⟩
          · intro w hw; simp [hph] at hw
        · simp only [elapse, hph, fire]
          refine ⟨⟨?_, ?_, ?_⟩, Nat.le_refl _, by simp⟩
          · intro h; simp at h
          · intro h; obtain ⟨k, hk, hle⟩ := hhot h; exact ⟨k, hk, hle⟩
          · intro w hw; simp at hw
    | draining =>
      simp only [advance, nextDue, hph]
      have hm := (tick_w u.sw dt).1
      have hm2 := (tick_w u.sw u.ls).1
      by_cases hlp : u.lsPaused = true
      · -- the leak timer is paused (nextest is stopped): nothing fires
        simp only [hlp, if_true, elapse, hph]
        refine ⟨⟨?_, ?_, ?_⟩, hm, by simp⟩
        · intro h; simp [hph] at h
        · intro h; obtain ⟨k, hk, hle⟩ := hhot h; exact ⟨k, hk, Nat.le_trans hle hm⟩
        · intro w hw; simp [hph] at hw
      · have hlp' : u.lsPaused = false := by simpa using hlp
        simp only [hlp', Bool.false_eq_true, if_false]
        split
        · simp only [elapse, hph]
          refine ⟨⟨?_, ?_, ?_⟩, hm, by simp⟩
          · intro h; simp [hph] at h
          · intro h; obtain ⟨k, hk, hle⟩ := hhot h; exact ⟨k, hk, Nat.le_trans hle hm⟩
          · intro w hw; simp [hph] at hw
        · simp only [elapse, hph, fire]
          refine ⟨⟨?_, ?_, ?_⟩, hm2, by simp⟩
          · intro h; simp at h
          · intro h; obtain ⟨k, hk, hle⟩ := hhot h; exact ⟨k, hk, Nat.le_trans hle hm2⟩
          · intro w hw; simp at hw
    | terminating w =>
      obtain ⟨hw, hto, hsum, hpa⟩ := hterm w hph
      simp only [advance, nextDue, hph, Timer.due]
      by_cases hgp : u.gs.paused = true
      · -- grace timer paused: nothing fires
        simp only [hgp, if_true]
        simp only [elapse, hph, Timer.tick, Watch.tick, hgp, ← hpa, if_true]
        have hm := (tick_w u.sw dt).1
        unfold Watch.tick at hm
        refine ⟨⟨?_, ?_, ?_⟩, hm, by simp⟩
        · intro h; simp [hph] at h
        · intro h; obtain ⟨k, hk, hle⟩ := hhot h; exact ⟨k, hk, Nat.le_trans hle hm⟩
        · intro w' hw'; simp [hph] at hw'; subst hw'; exact ⟨hw, hto, hsum, hpa⟩
      · have hgp' : u.gs.paused = false := by simpa using hgp
        have hwp : u.ws.paused = false := by rw [← hpa]; exact hgp'
        simp only [hgp', Bool.false_eq_true, if_false]
        split
        · rename_i hlt
          simp only [elapse, hph, Timer.tick, Watch.tick, hgp', hwp, Bool.false_eq_true, if_false]
          have hm := (tick_w u.sw dt).1
          unfold Watch.tick at hm
          refine ⟨⟨?_, ?_, ?_⟩, hm, by simp⟩
          · intro h; simp [hph] at h
          · intro h; obtain ⟨k, hk, hle⟩ := hhot h; exact ⟨k, hk, Nat.le_trans hle hm⟩
          · intro w' hw'; simp [hph] at hw'; subst hw'
            refine ⟨hw, hto, ?_, by simp [hgp', hwp]⟩
            simp only; omega
        · simp only [elapse, hph, fire]
          have hm := (tick_w u.sw u.gs.remaining).1
          refine ⟨⟨?_, ?_, ?_⟩, hm, ?_⟩
          · intro _ h; simp [hto] at h
          · intro _; obtain ⟨k, hk, hle⟩ := hhot hto; exact ⟨k, hk, Nat.le_trans hle hm⟩
          · intro w' hw'; simp at hw'
          · intro a _ _; obtain ⟨k, hk, hle⟩ := hhot hto; exact ⟨k, hk, Nat.le_trans hle hm⟩
    | running =>
      simp only [advance, nextDue, hph]
      by_cases hto : u.timedOut = true
      · -- already timed out (grace 0, or terminate_child has returned): no timer, time just passes
        simp only [hto, if_true, elapse, hph]
        have hm := (tick_w u.sw dt).1
        refine ⟨⟨?_, ?_, ?_⟩, hm, by simp⟩
        · intro _ h; simp [hto] at h
        · intro _; obtain ⟨k, hk, hle⟩ := hhot hto; exact ⟨k, hk, Nat.le_trans hle hm⟩
        · intro w hw; simp [hph] at hw
      · have hto' : u.timedOut = false := by simpa using hto
        obtain ⟨hsum, hpa, hpos, hslow, hhits, hle⟩ := hrun hph hto'
        simp only [hto', Bool.false_eq_true, if_false, Timer.due]
        by_cases hip : u.is.paused = true
        · simp only [hip, if_true, elapse, hph, hto', Bool.false_eq_true, if_false, Timer.tick, Watch.tick, hpa]
          refine ⟨⟨?_, ?_, ?_⟩, Nat.le_refl _, by simp⟩
          · intro _ _; exact ⟨hsum, hpa, hpos, hslow, hhits, hle⟩
          · intro h; simp [hto'] at h
          · intro w hw; simp [hph] at hw
        · have hip' : u.is.paused = false := by simpa using hip
          have hsp : u.sw.paused = false := by rw [hpa]; exact hip'
          simp only [hip', Bool.false_eq_true, if_false]
          split
          · rename_i hlt
            simp only [elapse, hph, hto', Bool.false_eq_true, if_false, Timer.tick, Watch.tick, hip', hsp]
            refine ⟨⟨?_, ?_, ?_⟩, Nat.le_add_right _ _, by simp⟩
            · intro _ _
              refine ⟨by simp only; omega, by simp [hip', hsp], by simp only; omega, hslow, hhits, by simp only; omega⟩
            · intro h; simp [hto'] at h
            · intro w hw; simp [hph] at hw
          · -- the interval sleep fires
            simp only [elapse, hph, hto', Bool.false_eq_true, if_false, Timer.tick, Watch.tick, hip', hsp, fire]
            have hact : u.sw.active + u.is.remaining = (u.hits + 1) * c.period := hsum
            have hnext : u.sw.active + u.is.remaining + c.period = (u.hits + 1 + 1) * c.period := by
              rw [hact, Nat.add_mul (u.hits + 1) 1, Nat.one_mul]
            cases hta : c.terminateAfter with
            | none =>
              simp only [Bool.false_eq_true, if_false]
              refine ⟨⟨?_, ?_, ?_⟩, Nat.le_add_right _ _, ?_⟩
              · intro _ _
                refine ⟨hnext, by simp [hip', hsp], by simpa using hp, by simp, ?_, Nat.le_refl _⟩
                intro k hk; simp [hta] at hk
              · intro h; simp [hto'] at h
              · intro w hw; simp [hph] at hw
              · intro a ha; split at ha <;> simp at ha; subst ha; simp [hard]
            | some k =>
              have hk := hhits k hta
              by_cases hterm' : k ≤ u.hits + 1
              · -- the K-th tick: terminate
                have hkeq : k = u.hits + 1 := by omega
                simp only [hterm', decide_true, if_true]
                unfold beginTerminate timeoutSignal
                have hreach : ∀ (v : U), v.sw.active = u.sw.active + u.is.remaining → Reached c v := by
                  intro v hv; exact ⟨k, hta, by rw [hv, hact, hkeq]; exact Nat.le_refl _⟩
                by_cases hg : c.grace = 0
                · simp only [hg, if_true]
                  refine ⟨⟨?_, ?_, ?_⟩, Nat.le_add_right _ _, ?_⟩
                  · intro _ h; simp at h
                  · intro _; exact hreach _ rfl
                  · intro w hw; simp [hph] at hw
                  · intro a _ _; exact hreach _ rfl
                · simp only [hg, if_false]
                  have : (Sig.term = Sig.kill) = False := by simp
                  simp only [this, if_false]
                  refine ⟨⟨?_, ?_, ?_⟩, Nat.le_add_right _ _, ?_⟩
                  · intro h; simp at h
                  · intro _; exact hreach _ rfl
                  · intro w hw; simp at hw; subst hw; exact ⟨rfl, rfl, by simp, rfl⟩
                  · intro a _ _; exact hreach _ rfl
              · simp only [hterm', decide_false, Bool.false_eq_true, if_false]
                refine ⟨⟨?_, ?_, ?_⟩, Nat.le_add_right _ _, ?_⟩
                · intro _ _
                  refine ⟨hnext, by simp [hip', hsp], by simpa using hp, by simp, ?_, Nat.le_refl _⟩
                  intro k' hk'; rw [hta] at hk'; cases hk'; show u.hits + 1 < k; omega
                · intro h; simp [hto'] at h
                · intro w hw; simp [hph] at hw
                · intro a ha; split at ha <;> simp at ha; subst ha; simp [hard]

private theorem quiet_cons {e : Ev} {es : List Ev} (h : Quiet (e :: es)) : Quiet [e] ∧ Quiet es := by
  cases e with
  | req r => cases r <;> simp_all [Quiet]
  | _ => simp_all [Quiet]

private theorem run_inv (c : Cfg) (hp : 0 < c.period) : ∀ (es : List Ev) (u : U), Quiet es → Inv c u →
    Inv c (run c u es).1 ∧ u.sw.active ≤ (run c u es).1.sw.active ∧
      (∀ a ∈ (run c u es).2, hard a = true → Reached c (run c u es).1) := by
  intro es
  induction es with
  | nil => intro u _ hi; exact ⟨hi, Nat.le_refl _, by simp [run]⟩
  | cons e es ih =>
    intro u hq hi
    obtain ⟨hq1, hq2⟩ := quiet_cons hq
    obtain ⟨hi1, hm1, hk1⟩ := step_inv c hp u e hq1 hi
    obtain ⟨hi2, hm2, hk2⟩ := ih (step c u e).1 hq2 hi1
    simp only [run]
    refine ⟨hi2, Nat.le_trans hm1 hm2, ?_⟩
    intro a ha hh
    rcases List.mem_append.mp ha with ha | ha
    · obtain ⟨k, hk, hle⟩ := hk1 a ha hh
      exact ⟨k, hk, Nat.le_trans hle hm2⟩
    · exact hk2 a ha hh

/-- **A test is never signalled before its deadline**: whatever happens (time passing in any pieces,
    stop/continue, information requests, non-signal cancellation, the process exiting) short of a
    shutdown signal, if SIGTERM or SIGKILL is ever sent to the test's process group then
    terminate-after is configured and the test has by then run — not counting time spent stopped —
    for at least terminate-after × period. -/
theorem no_terminate_before_deadline (c : Cfg) (hp : 0 < c.period) (hk : ∀ k, c.terminateAfter = some k → 0 < k)
    (es : List Ev) (hq : Quiet es) (a : Act) (ha : a ∈ (run c (U.spawn c) es).2) (hh : hard a = true) :
    ∃ k, c.terminateAfter = some k ∧ k * c.period ≤ (run c (U.spawn c) es).1.sw.active :=
  (run_inv c hp es (U.spawn c) hq (inv_spawn c hp hk)).2.2 a ha hh

/-- **A test that finishes before its deadline is never signalled** (the contrapositive, as the
    property states it) -/
theorem fast_tests_unsignalled (c : Cfg) (hp : 0 < c.period) (k : Nat) (hta : c.terminateAfter = some k) (hk : 0 < k)
    (es : List Ev) (hq : Quiet es) (hfast : (run c (U.spawn c) es).1.sw.active < k * c.period) :
    ∀ a ∈ (run c (U.spawn c) es).2, hard a = false := by
  intro a ha
  cases hh : hard a with
  | false => rfl
  | true =>
    obtain ⟨k', hk', hle⟩ := no_terminate_before_deadline c hp (by intro k' h'; rw [hta] at h'; cases h'; exact hk) es hq a ha hh
    rw [hta] at hk'; cases hk'; omega

/-- **A test with no terminate-after is never terminated for slowness** -/
theorem no_terminate_without_terminate_after (c : Cfg) (hp : 0 < c.period) (hta : c.terminateAfter = none)
    (es : List Ev) (hq : Quiet es) : ∀ a ∈ (run c (U.spawn c) es).2, hard a = false := by
  intro a ha
  cases hh : hard a with
  | false => rfl
  | true =>
    obtain ⟨k, hk, _⟩ := no_terminate_before_deadline c hp (by intro k h; rw [hta] at h; cases h) es hq a ha hh
    rw [hta] at hk; cases hk

/-- **A test is marked slow iff it ran for longer than its slow-timeout period** (running time; stated
    while the attempt is running and has not been timed out) -/
theorem slow_iff_period_elapsed (c : Cfg) (hp : 0 < c.period) (hk : ∀ k, c.terminateAfter = some k → 0 < k)
    (es : List Ev) (hq : Quiet es) (hph : (run c (U.spawn c) es).1.phase = .running)
    (hto : (run c (U.spawn c) es).1.timedOut = false) :
    (run c (U.spawn c) es).1.slow = true ↔ c.period ≤ (run c (U.spawn c) es).1.sw.active := by
  obtain ⟨hsum, _, hpos, hslow, _, hle⟩ := (run_inv c hp es (U.spawn c) hq (inv_spawn c hp hk)).1.run hph hto
  rw [hslow]
  generalize (run c (U.spawn c) es).1 = u at *
  rw [Nat.add_mul, Nat.one_mul] at hsum
  constructor
  · intro h
    have h1 : 1 * c.period ≤ u.hits * c.period := Nat.mul_le_mul_right _ h
    omega
  · intro h
    rcases Nat.eq_zero_or_pos u.hits with h0 | hpos'
    · rw [h0] at hsum; simp at hsum; omega
    · exact hpos'

/-- **At the deadline the whole group gets SIGTERM — SIGKILL at once if the grace period is zero** -/
theorem terminate_signal (c : Cfg) (u : U) (k : Nat) (hph : u.phase = .running) (hto : u.timedOut = false)
    (hta : c.terminateAfter = some k) (hk : k ≤ u.hits + 1) :
    (fire c u).2 = (if c.grace = 0 then [.kill .kill] else [.slow ((u.hits + 1) * c.period) true, .kill .term]) ∧
    (fire c u).1.timedOut = true ∧
    (fire c u).1.phase = (if c.grace = 0 then .running else .terminating .timeout) := by
  simp only [fire, hph, hta, hk, decide_true, if_true, beginTerminate, timeoutSignal]
  by_cases hg : c.grace = 0 <;> simp [hg]

/-- **If the test has still not exited when the grace period ends, the group is killed**: in a
    termination for timeout, the grace timer has counted exactly the grace period of un-paused time
    when SIGKILL is sent -/
theorem kill_after_grace (c : Cfg) (hp : 0 < c.period) (hk : ∀ k, c.terminateAfter = some k → 0 < k)
    (es : List Ev) (hq : Quiet es) (u : U) (hu : u = (run c (U.spawn c) es).1) (w : Why) (hph : u.phase = .terminating w)
    (hnp : u.gs.paused = false) :
    (advance c u u.gs.remaining).2 = [.kill .kill] ∧ (elapse u u.gs.remaining).ws.active = c.grace := by
  subst hu
  obtain ⟨_, _, hsum, hpa⟩ := (run_inv c hp es (U.spawn c) hq (inv_spawn c hp hk)).1.term w hph
  generalize (run c (U.spawn c) es).1 = u at *
  have hwp : u.ws.paused = false := by rw [← hpa]; exact hnp
  refine ⟨?_, ?_⟩
  · simp [advance, nextDue, hph, Timer.due, hnp, fire, elapse]
  · simp [elapse, hph, Watch.tick, hwp]; exact hsum

/-- **A timed-out attempt is reported as timed out**, whatever its exit status -/
theorem timeout_reported (u : U) (h : u.timedOut = true) : u.outcome = .timeout := by
  simp [U.outcome, h]

/-! ## Non-vacuity: a test that ignores SIGTERM under period 100, terminate-after 2, grace 50 -/
example :
    (run { period := 100, terminateAfter := some 2, grace := 50, leak := 10 } (U.spawn { period := 100, terminateAfter := some 2, grace := 50, leak := 10 })
      [.time 60, .req .stop, .time 500, .req .cont, .time 40, .time 100, .time 50]).2
    = [.kill .tstp, .ack, .kill .cont, .slow 100 false, .slow 200 true, .kill .term, .kill .kill] := by decide

/-! ## What happens when a slow-timeout period runs out: the source's branch is the model's -/

private theorem interval_branch_eq (c : Cfg) (u : U) (hp : u.phase = .running) (tbl : List (String × List String))
    (ht : tbl = [("", ["mark_slow"]), ("", ["hit"]), ("grace_nonzero", ["emit_slow"]), ("will_terminate", ["terminate:Timeout", "status:Timeout"]),
      ("will_terminate&grace_zero", ["break_wait"]), ("not_will_terminate", ["rearm"])]) :
    interpArm (applyInterval c) (guardInterval c) tbl u = fire c u := by
  subst ht
  obtain ⟨ph, sw, is_, gs, ws, ds, ls, lsp, hits, slow, to, lk⟩ := u
  obtain ⟨per, ta, gr, lkt⟩ := c
  simp only at hp
  subst hp
  simp only [interpArm, List.foldl_cons, List.foldl_nil]
  simp only [guardInterval, applyInterval]
  simp (config := { decide := true }) only [if_true, if_false]
  simp only [fire, willTerminate, beginTerminate, timeoutSignal]
  cases ta with
  | none => by_cases hg : gr = 0 <;> simp (config := { decide := true }) [hg]
  | some k =>
    by_cases hk : k ≤ hits + 1 <;> by_cases hg : gr = 0 <;> simp (config := { decide := true }) [hk, hg]

/-- **the branch `run_test_inner` takes when a slow-timeout period runs out, statement by statement as read from executor.rs on
    this run, is the model's clause** — mark slow, count the hit, `will_terminate` = (hits ≥ terminate-after), the slow event
    (hits × period) unless the grace period is zero, then either `terminate_child(Timeout)` *followed by* the timeout verdict
    (and, with a zero grace period, straight to waiting for the exit) or the interval re-armed — **and the setup-script loop
    has the same branch**, so every C09 theorem about the model speaks about setup scripts too -/
theorem interval_branch_is_the_models (c : Cfg) (u : U) (hp : u.phase = .running) :
    interpArm (applyInterval c) (guardInterval c) Gen.testIntervalBranch u = fire c u ∧
    interpArm (applyInterval c) (guardInterval c) Gen.scriptIntervalBranch u = fire c u :=
  ⟨interval_branch_eq c u hp _ (by decide), interval_branch_eq c u hp _ (by decide)⟩

end NextestModel.C09
