/-
  C13 — partition shards are disjoint, cover the selection, and are stable as documented.
  Property theorems only.  Every `theorem` in this file is counted as a proof obligation by the
  check and audited with `#print axioms`.

  The partitioner theorems are proved for an arbitrary name hash `h`; the model instantiates
  `h := nameHash` = xxHash64 with seed 0 (`hash_is_xxh64`), whose implementation is pinned to the
  published reference vectors (`xxh64_reference`) and to the `xxhash-rust` crate by the
  correspondence stream `xxh`.
-/
import NextestModel.Model.Filter
namespace NextestModel.C13
open NextestModel

def countP (m n : Nat) : Partition := { kind := .count, shard := m, total := n }
def hashP (m n : Nat) : Partition := { kind := .hash, shard := m, total := n }

/-! ## Count sharding: shard m selects exactly the candidates at indices ≡ m-1 (mod n) -/

theorem count_run_from (h : Name → Nat) (m n : Nat) (hn : 0 < n) (L : List Name) :
    ∀ c, c < n → Partition.runWith h (countP m n) c L =
      (List.range L.length).map (fun i => (c + i) % n == m - 1) := by
  induction L with
  | nil => intro c _; simp [Partition.runWith]
  | cons x xs ih =>
    intro c hc
    have h1 : (c + 1) % n < n := Nat.mod_lt _ hn
    simp only [Partition.runWith, Partition.stepWith, countP, countStep, List.length_cons,
      List.range_succ_eq_map, List.map_cons, List.map_map]
    have := ih ((c + 1) % n) h1
    simp only [countP] at this
    rw [this]
    congr 1
    · simp [Nat.mod_eq_of_lt hc]
    · apply List.map_congr_left
      intro i _
      simp only [Function.comp]
      have : ((c + 1) % n + i) % n = (c + (i + 1)) % n := by
        rw [Nat.mod_add_mod]; congr 1; omega
      rw [this]

/-- Count sharding gives shard `m` every `n`-th candidate in list order beginning with the `m`-th:
    the candidate at index `i` is selected iff `i % n = m - 1`. -/
theorem count_every_nth (m n : Nat) (hn : 0 < n) (L : List Name) :
    Partition.run (countP m n) 0 L = (List.range L.length).map (fun i => i % n == m - 1) := by
  have := count_run_from nameHash m n hn L 0 hn
  simpa [Partition.run] using this

/-! ## Hash sharding depends on the name alone -/

theorem hash_run_map (h : Name → Nat) (m n : Nat) (L : List Name) (c : Nat) :
    Partition.runWith h (hashP m n) c L = L.map (hashMatchesWith h m n) := by
  induction L generalizing c with
  | nil => simp [Partition.runWith]
  | cons x xs ih => simp [Partition.runWith, Partition.stepWith, hashP]; exact ih c

/-- Whether a name is in hash shard `m/n` is a function of its bytes and `n` only: partitioner
    state, position and the other candidates are irrelevant (adding, removing or filtering other
    tests never moves it). -/
theorem hash_depends_on_name_only (m n : Nat) (L : List Name) (c : Nat) :
    Partition.run (hashP m n) c L = L.map (hashMatchesWith nameHash m n) :=
  hash_run_map nameHash m n L c

/-- and the hash is xxHash64 with seed 0, reduced modulo `n` and compared with `m - 1`. -/
theorem hash_is_xxh64 :
    nameHash = (fun name => (XXH64.xxh64 name 0).toNat) ∧
    ∀ (h : Name → Nat) m n name, (hashMatchesWith h m n name = true ↔ h name % n = m - 1) := by
  refine ⟨rfl, ?_⟩
  intro h m n name
  unfold hashMatchesWith
  exact beq_iff_eq

/-! ## Shards 1..n are pairwise disjoint and cover every candidate -/

theorem shards_partition_gen (h : Name → Nat) (k : PartKind) (n : Nat) (hn : 0 < n) (L : List Name)
    (i : Nat) (hi : i < L.length) :
    ∃ m, 1 ≤ m ∧ m ≤ n ∧ (Partition.runWith h { kind := k, shard := m, total := n } 0 L)[i]? = some true ∧
      ∀ m', 1 ≤ m' → m' ≤ n →
        (Partition.runWith h { kind := k, shard := m', total := n } 0 L)[i]? = some true → m' = m := by
  cases k with
  | count =>
    refine ⟨i % n + 1, by omega, ?_, ?_, ?_⟩
    · have := Nat.mod_lt i hn; omega
    · have := count_run_from h (i % n + 1) n hn L 0 hn
      simp only [countP] at this
      rw [this]; simp [hi]
    · intro m' h1 h2 hm
      have := count_run_from h m' n hn L 0 hn
      simp only [countP] at this
      rw [this] at hm
      simp [hi] at hm
      omega
  | hash =>
    have hrun : ∀ m, Partition.runWith h { kind := .hash, shard := m, total := n } 0 L = L.map (hashMatchesWith h m n) :=
      fun m => hash_run_map h m n L 0
    refine ⟨h L[i] % n + 1, by omega, ?_, ?_, ?_⟩
    · have := Nat.mod_lt (h L[i]) hn; omega
    · rw [hrun]; simp [hi, hashMatchesWith]
    · intro m' h1 h2 hm
      rw [hrun] at hm
      simp [hi, hashMatchesWith] at hm
      omega

/-- For every candidate list and both kinds of sharding, every candidate (position `i`) is
    selected by exactly one shard `m ∈ 1..n`: the shards are pairwise disjoint and cover. -/
theorem shards_partition (k : PartKind) (n : Nat) (hn : 0 < n) (L : List Name) (i : Nat) (hi : i < L.length) :
    ∃ m, 1 ≤ m ∧ m ≤ n ∧ (Partition.run { kind := k, shard := m, total := n } 0 L)[i]? = some true ∧
      ∀ m', 1 ≤ m' → m' ≤ n →
        (Partition.run { kind := k, shard := m', total := n } 0 L)[i]? = some true → m' = m :=
  shards_partition_gen nameHash k n hn L i hi

/-! ## Shard sizes differ by at most one (count) -/

/-- number of selected candidates -/
def trues (l : List Bool) : Nat := (l.filter id).length

private theorem hits_shape (n : Nat) (hn : 0 < n) (len : Nat) :
    ∃ q, ∀ k, k < n →
      trues ((List.range len).map (fun i => i % n == k)) = q + (if k < len % n then 1 else 0) := by
  induction len with
  | zero => exact ⟨0, by intro k _; simp [trues, Nat.zero_mod]⟩
  | succ len ih =>
    obtain ⟨q, hq⟩ := ih
    have hc : len % n < n := Nat.mod_lt _ hn
    have step : ∀ k, trues ((List.range (len + 1)).map (fun i => i % n == k)) =
        trues ((List.range len).map (fun i => i % n == k)) + (if len % n = k then 1 else 0) := by
      intro k
      simp only [trues, List.range_succ, List.map_append, List.filter_append, List.length_append,
        List.map_cons, List.map_nil]
      congr 1
      by_cases hk : len % n = k <;> simp [hk]
    by_cases hlt : len % n + 1 < n
    · have hm : (len + 1) % n = len % n + 1 := by
        rw [Nat.add_mod, Nat.mod_eq_of_lt (show 1 < n by omega), Nat.mod_eq_of_lt hlt]
      refine ⟨q, ?_⟩
      intro k hk
      rw [step k, hq k hk, hm]
      by_cases h1 : len % n = k
      · simp [h1]
      · by_cases h2 : k < len % n
        · simp [h1, h2]; omega
        · simp [h1, h2]; omega
    · have hm : (len + 1) % n = 0 := by
        have : len % n + 1 = n := by omega
        rw [Nat.add_mod]
        by_cases h1 : n = 1
        · subst h1; omega
        · rw [Nat.mod_eq_of_lt (show 1 < n by omega), this, Nat.mod_self]
      refine ⟨q + 1, ?_⟩
      intro k hk
      rw [step k, hq k hk, hm]
      by_cases h1 : len % n = k
      · have : ¬ k < len % n := by omega
        simp [h1]
      · have : k < len % n := by omega
        simp [h1, this]

/-- Count sharding: for every candidate list, the sizes of any two shards `m, m' ∈ 1..n` differ by
    at most one. -/
theorem count_sizes_differ_by_at_most_one (n : Nat) (hn : 0 < n) (L : List Name) (m m' : Nat)
    (h1 : 1 ≤ m) (h2 : m ≤ n) (h1' : 1 ≤ m') (h2' : m' ≤ n) :
    trues (Partition.run (countP m n) 0 L) ≤ trues (Partition.run (countP m' n) 0 L) + 1 := by
  rw [count_every_nth m n hn L, count_every_nth m' n hn L]
  obtain ⟨q, hq⟩ := hits_shape n hn L.length
  rw [hq (m - 1) (by omega), hq (m' - 1) (by omega)]
  split <;> split <;> omega

/-! ## The partitioner is consulted last, and only for tests that passed every other stage -/

/-- `filterMatch` changes the partitioner state only when the ignored, name, expression and
    default-filter stages have all accepted the test. -/
theorem partition_last (cfg : FilterCfg) (c : Nat) (t : TestIn) (ig : Bool) :
    (filterMatch cfg c t ig).2 ≠ c →
      ignoredMismatch cfg.runIgnored ig = false ∧ nameStage cfg t = none ∧ exprStage cfg t = none := by
  unfold filterMatch
  intro h
  split at h
  · exact absurd rfl h
  · rename_i hi
    split at h
    · exact absurd rfl h
    · exact absurd rfl h
    · rename_i hn he
      exact ⟨by simpa using hi, hn, he⟩

/-- a test passes every stage other than the partition -/
def passesOther (cfg : FilterCfg) (ig : Bool) (t : TestIn) : Bool :=
  !ignoredMismatch cfg.runIgnored ig && (nameStage cfg t).isNone && (exprStage cfg t).isNone

private def verdictOf (b : Bool) : FilterMatch := if b then .matches else .mismatch .partition

/-- In one pass of `process_output` the partitioner sees exactly the tests that pass all other
    filters, in listing (name) order: aligning the pass's output with its input and keeping the
    tests that pass the other stages, their verdicts are the partitioner's run over that
    sub-list — so with `count:m/n` they are every `n`-th such test beginning with the `m`-th
    (`count_every_nth`), however many other tests are interleaved. -/
theorem count_candidates_are_the_passing_tests (cfg : FilterCfg) (p : Partition)
    (hp : cfg.partition = some p) (ig : Bool) (L : List TestIn) (c : Nat) :
    ((L.zip (runPass cfg ig c L)).filter (fun x => passesOther cfg ig x.1)).map (fun x => x.2.2.2) =
      (p.run c ((L.filter (passesOther cfg ig)).map (·.name))).map verdictOf := by
  induction L generalizing c with
  | nil => simp [runPass, Partition.run, Partition.runWith]
  | cons t ts ih =>
    by_cases hpo : passesOther cfg ig t
    · have hpo' := hpo
      simp only [passesOther, Bool.and_eq_true, Bool.not_eq_true', Option.isNone_iff_eq_none] at hpo'
      obtain ⟨⟨h1, h2⟩, h3⟩ := hpo'
      have hfm : filterMatch cfg c t ig =
          (verdictOf (p.step c t.name).1, (p.step c t.name).2) := by
        unfold filterMatch partitionStage
        simp only [h1, h2, h3, hp]
        simp only [Bool.false_eq_true, if_false]
        cases hs : (p.step c t.name).1 <;> simp [verdictOf]
      simp only [runPass, List.zip_cons_cons, List.filter_cons, hpo, if_true, List.map_cons,
        Partition.run, Partition.runWith, hfm]
      simp only [Partition.step, Partition.run] at *
      congr 1
      exact ih _
    · have hst : (filterMatch cfg c t ig).2 = c := by
        by_cases hh : (filterMatch cfg c t ig).2 = c
        · exact hh
        · have := partition_last cfg c t ig hh
          simp [passesOther, this.1, this.2.1, this.2.2] at hpo
      simp only [runPass, List.zip_cons_cons, List.filter_cons, hpo, hst]
      simp only [Bool.false_eq_true, if_false]
      exact ih c

/-- …and a test that fails another stage is never charged to the partition. -/
theorem non_candidates_not_partition (cfg : FilterCfg) (c : Nat) (t : TestIn) (ig : Bool)
    (h : passesOther cfg ig t = false) :
    (filterMatch cfg c t ig).1 ≠ .mismatch .partition ∧ (filterMatch cfg c t ig).1 ≠ .matches := by
  unfold filterMatch
  unfold passesOther at h
  by_cases h1 : ignoredMismatch cfg.runIgnored ig = true
  · simp [h1]
  · simp only [h1, Bool.false_eq_true, if_false]
    cases hn : nameStage cfg t with
    | some r => simp [nameStage] at hn ⊢; split at hn <;> simp_all <;> (subst hn; simp)
    | none =>
      cases he : exprStage cfg t with
      | some r =>
        simp only [exprStage] at he
        split at he
        · simp_all; subst he; simp
        · split at he <;> simp_all; subst he; simp
      | none => simp_all

/-! ## The Lean xxHash64 is the published algorithm: reference vectors (finite table, kernel-evaluated) -/

theorem xxh64_reference :
    XXH64.xxh64 [] 0 = 0xEF46DB3751D8E999 ∧
    XXH64.xxh64 [97] 0 = 0xD24EC4F1A98C6E5B ∧
    XXH64.xxh64 [97, 98, 99] 0 = 0x44BC2CF5AD770999 ∧
    -- "Nobody inspects the spammish repetition" (39 bytes: exercises the 32-byte stripe loop,
    -- the 4-byte and the 1-byte tails)
    XXH64.xxh64 [78, 111, 98, 111, 100, 121, 32, 105, 110, 115, 112, 101, 99, 116, 115, 32, 116, 104, 101,
      32, 115, 112, 97, 109, 109, 105, 115, 104, 32, 114, 101, 112, 101, 116, 105, 116, 105, 111, 110] 0
      = 0xFBCEA83C8A378BF1 := by
  decide +kernel

/-- `parse_shards` accepts exactly `1 ≤ m ≤ n`. -/
theorem parse_shards_valid (k : PartKind) (m n : Nat) :
    (Partition.valid { kind := k, shard := m, total := n } = true) ↔ (1 ≤ m ∧ m ≤ n) := by
  simp [Partition.valid]

/-! ## Non-vacuity: the hypotheses are met by concrete non-trivial instances -/

example : Partition.run (countP 2 3) 0 [[1], [2], [3], [4], [5]] = [false, true, false, false, true] := by decide
example : trues (Partition.run (countP 1 2) 0 [[1], [2], [3]]) = 2 ∧ trues (Partition.run (countP 2 2) 0 [[1], [2], [3]]) = 1 := by decide

end NextestModel.C13
