/-
  C04 — the set of tests run is exactly the documented composition of all filters.
  Property theorems only; every `theorem` here is a proof obligation of the check.
-/
import NextestModel.Model.Filter
import NextestModel.Gen.Tables
namespace NextestModel.C04
open NextestModel

/-! ## The specification, read off the property statement -/

/-- the four pattern lists of a `TestFilterPatterns`: (substring, exact, skip, skip-exact) -/
def Patterns.parts : Patterns → List Name × List Name × List Name × List Name
  | .skipOnly s se => ([], [], s, se)
  | .patterns ps e s se => (ps, e, s, se)

/-- "matches the name patterns (some substring or exact pattern when any is given, and no `--skip`
    pattern, substring or exact)" -/
def Spec.nameOk (p : Patterns) (n : Name) : Bool :=
  let (ps, e, s, se) := Patterns.parts p
  ((ps.isEmpty && e.isEmpty) || anyInfix ps n || e.contains n) && !(anyInfix s n || se.contains n)

/-- "satisfies the ignored-test policy" -/
def Spec.ignoredOk : RunIgnored → Bool → Bool
  | .default, ig => !ig
  | .only, ig => ig
  | .all, _ => true

/-- "matches at least one -E filterset when any is given" -/
def Spec.exprOk (nExprs : Nat) (bits : List Bool) : Bool := nExprs == 0 || bits.contains true

/-- "is in the default filter unless that is disabled" -/
def Spec.defaultOk (boundDefault inDefault : Bool) : Bool := !boundDefault || inDefault

/-- The stages in the documented order, each with the reason reported when it rejects.
    `partOk` = "falls in the requested partition". -/
def Spec.stages (ri : RunIgnored) (p : Patterns) (nExprs : Nat) (boundDefault : Bool)
    (t : TestIn) (ig : Bool) (partOk : Bool) : List (Reason × Bool) :=
  [ (.ignored, Spec.ignoredOk ri ig),
    (.string, Spec.nameOk p t.name),
    (.expression, Spec.exprOk nExprs t.exprBits),
    (.defaultFilter, Spec.defaultOk boundDefault t.inDefault),
    (.partition, partOk) ]

/-- selected iff every stage accepts; otherwise the reason is the first stage that rejects -/
def Spec.decision (stages : List (Reason × Bool)) : FilterMatch :=
  match stages.find? (fun s => !s.2) with
  | none => .matches
  | some (r, _) => .mismatch r

/-- Patterns that `TestFilterPatterns::{new, add_*}` can produce: the `Patterns` variant always
    carries at least one substring or exact pattern. -/
def Patterns.WF : Patterns → Prop
  | .skipOnly _ _ => True
  | .patterns ps e _ _ => ps ≠ [] ∨ e ≠ []

theorem wf_new (subs : List Name) : Patterns.WF (Patterns.new subs) := by
  unfold Patterns.new Patterns.default
  split
  · trivial
  · rename_i h; simp [Patterns.WF]; intro h'; simp [h'] at h

theorem wf_ops (p : Patterns) (x : Name) (h : Patterns.WF p) :
    Patterns.WF (p.addSubstring x) ∧ Patterns.WF (p.addExact x) ∧
    Patterns.WF (p.addSkip x) ∧ Patterns.WF (p.addSkipExact x) := by
  cases p <;> simp_all [Patterns.WF, Patterns.addSubstring, Patterns.addExact, Patterns.addSkip,
    Patterns.addSkipExact]

/-! ## Name patterns -/

/-- `name_match` after `resolve` accepts exactly the names the documented rule accepts. -/
theorem name_match_spec (p : Patterns) (h : Patterns.WF p) (n : Name) :
    (p.resolve.nameMatch n != .mismatch) = Spec.nameOk p n := by
  cases p with
  | skipOnly s se =>
    simp only [Patterns.resolve, Spec.nameOk, Patterns.parts]
    by_cases hs : (s.isEmpty && se.isEmpty) = true
    · simp only [hs, if_true, Resolved.nameMatch]
      simp only [Bool.and_eq_true, List.isEmpty_iff] at hs
      simp [hs.1, hs.2, anyInfix]
    · simp only [hs, Resolved.nameMatch]
      by_cases ha : n ∈ se <;> by_cases hb : anyInfix s n = true <;> simp [ha, hb]
  | patterns ps e s se =>
    simp only [Patterns.resolve, Spec.nameOk, Patterns.parts, Resolved.nameMatch]
    have hne : (ps.isEmpty && e.isEmpty) = false := by
      cases h with
      | inl h => cases ps <;> simp_all
      | inr h => cases e <;> simp_all
    rw [hne]
    by_cases ha : n ∈ se <;> by_cases hb : anyInfix s n = true <;> by_cases hc : n ∈ e <;>
      by_cases hd : anyInfix ps n = true <;> simp [ha, hb, hc, hd]

/-! ## Composition of all stages -/

private theorem any_id_eq_contains (l : List Bool) : l.any id = l.contains true := by
  induction l with
  | nil => rfl
  | cons b bs ih => cases b <;> simp [List.any_cons, ih]

private theorem ignored_iff (ri : RunIgnored) (ig : Bool) :
    ignoredMismatch ri ig = !Spec.ignoredOk ri ig := by
  cases ri <;> cases ig <;> rfl

/-- `filter_match` is the documented composition: a test is selected iff it satisfies the ignored
    policy, the name patterns, some `-E` set (when any), the default filter (unless disabled) and
    the partition; a skipped test's reason is the first stage that rejects it.  Holds for every
    configuration, every name, every truth assignment of the filtersets, every partitioner state. -/
theorem filter_match_spec (ri : RunIgnored) (p : Patterns) (hp : Patterns.WF p) (nExprs : Nat)
    (boundDefault : Bool) (part : Option Partition) (c : Nat) (t : TestIn) (ig : Bool) :
    let cfg : FilterCfg := { runIgnored := ri, patterns := p.resolve, nExprs := nExprs,
                             boundDefault := boundDefault, partition := part }
    let partOk := match part with | none => true | some q => (q.step c t.name).1
    (filterMatch cfg c t ig).1 = Spec.decision (Spec.stages ri p nExprs boundDefault t ig partOk) := by
  intro cfg partOk
  have hn := name_match_spec p hp t.name
  unfold filterMatch
  simp only [cfg, ignored_iff]
  cases hi : Spec.ignoredOk ri ig
  · simp [Spec.decision, Spec.stages, hi]
  · simp only [Bool.not_true, Bool.false_eq_true, if_false]
    have hns : nameStage cfg t = if Spec.nameOk p t.name then none else some .string := by
      simp only [nameStage, cfg]
      rw [← hn]
      cases p.resolve.nameMatch t.name <;> rfl
    have hes : exprStage cfg t =
        if !Spec.exprOk nExprs t.exprBits then some .expression
        else if !Spec.defaultOk boundDefault t.inDefault then some .defaultFilter else none := by
      simp only [exprStage, cfg, Spec.exprOk, Spec.defaultOk]
      by_cases h0 : nExprs = 0
      · subst h0; simp
      · have : (nExprs != 0) = true := by simp [h0]
        have h0' : (nExprs == 0) = false := by simp [h0]
        simp only [this, h0', Bool.true_and, Bool.false_or]
        rw [any_id_eq_contains]
        cases t.exprBits.contains true <;> cases boundDefault <;> cases t.inDefault <;> rfl
    simp only [cfg] at hns hes
    rw [hns, hes]
    cases h1 : Spec.nameOk p t.name
    · simp [Spec.decision, Spec.stages, hi, h1]
    · cases h2 : Spec.exprOk nExprs t.exprBits
      · simp [Spec.decision, Spec.stages, hi, h1, h2]
      · cases h3 : Spec.defaultOk boundDefault t.inDefault
        · simp [Spec.decision, Spec.stages, hi, h1, h2, h3]
        · simp only [Bool.not_true, Bool.false_eq_true, if_false, partitionStage]
          cases part with
          | none => simp [Spec.decision, Spec.stages, hi, h1, h2, h3, partOk]
          | some q =>
            simp only [partOk]
            cases h4 : (q.step c t.name).1 <;>
              simp [Spec.decision, Spec.stages, hi, h1, h2, h3]

/-- Outright: selected iff all five documented conditions hold. -/
theorem selected_iff (ri : RunIgnored) (p : Patterns) (hp : Patterns.WF p) (nExprs : Nat)
    (boundDefault : Bool) (part : Option Partition) (c : Nat) (t : TestIn) (ig : Bool) :
    let cfg : FilterCfg := { runIgnored := ri, patterns := p.resolve, nExprs := nExprs,
                             boundDefault := boundDefault, partition := part }
    let partOk := match part with | none => true | some q => (q.step c t.name).1
    (filterMatch cfg c t ig).1 = .matches ↔
      (Spec.ignoredOk ri ig = true ∧ Spec.nameOk p t.name = true ∧ Spec.exprOk nExprs t.exprBits = true ∧
       Spec.defaultOk boundDefault t.inDefault = true ∧ partOk = true) := by
  intro cfg partOk
  have := filter_match_spec ri p hp nExprs boundDefault part c t ig
  simp only at this
  rw [this]
  simp only [Spec.decision, Spec.stages, partOk]
  generalize (match part with | none => true | some q => (q.step c t.name).1) = po
  cases Spec.ignoredOk ri ig <;> cases Spec.nameOk p t.name <;> cases Spec.exprOk nExprs t.exprBits <;>
    cases Spec.defaultOk boundDefault t.inDefault <;> cases po <;> simp [List.find?]

/-! ## The binary-level shortcut never changes the selected set -/

private theorem foldl_or_mismatch (trits : List (Option Bool)) :
    ∀ acc : BinMatch,
      (trits.foldl (fun acc t => acc.logicOr (BinMatch.fromResult t .expression)) acc).isMatch = false →
      acc.isMatch = false ∧ ∀ t ∈ trits, t = some false := by
  induction trits with
  | nil => intro acc h; exact ⟨h, by simp⟩
  | cons t ts ih =>
    intro acc h
    simp only [List.foldl_cons] at h
    have := ih _ h
    obtain ⟨h1, h2⟩ := this
    have : acc.isMatch = false ∧ t = some false := by
      cases acc <;> cases t with
        | none => simp_all [BinMatch.logicOr, BinMatch.fromResult, BinMatch.isMatch]
        | some b => cases b <;> simp_all [BinMatch.logicOr, BinMatch.fromResult, BinMatch.isMatch]
    exact ⟨this.1, by intro t' ht'; simp at ht'; rcases ht' with rfl | ht'; exact this.2; exact h2 _ ht'⟩

/-- a three-valued binary-level answer is consistent with a test-level truth value -/
def Consistent (trit : Option Bool) (bit : Bool) : Prop := trit = none ∨ trit = some bit

/-- Deciding for a whole binary that it need not be listed never changes the selected set: if
    `filter_binary_match` says `Mismatch`, then — for every test of that binary whose test-level
    truth values are consistent with the binary-level (Kleene) answers, every name, ignored flag,
    pattern set, partition and partitioner state — `filter_match` does not select the test.
    (`Thm/C05.kleene_sound` proves the consistency hypothesis for every filterset.) -/
theorem binary_shortcut_sound (trits : List (Option Bool)) (defaultTrit : Option Bool) (boundDefault : Bool)
    (cfg : FilterCfg) (hb : cfg.boundDefault = boundDefault) (hn : cfg.nExprs = trits.length)
    (t : TestIn) (hlen : t.exprBits.length = trits.length)
    (hcons : ∀ j (h1 : j < trits.length) (h2 : j < t.exprBits.length), Consistent trits[j] t.exprBits[j])
    (hd : Consistent defaultTrit t.inDefault) (c : Nat) (ig : Bool) (r : BinReason) :
    filterBinaryMatch trits boundDefault defaultTrit = .mismatch r →
      (filterMatch cfg c t ig).1 ≠ .matches := by
  intro hm
  -- it suffices that the expression stage rejects
  suffices hs : (exprStage cfg t).isSome by
    unfold filterMatch
    split
    · simp
    · cases nameStage cfg t <;> cases he : exprStage cfg t <;> simp_all
  unfold filterBinaryMatch at hm
  simp only at hm
  by_cases hempty : trits.isEmpty = true
  · -- no filtersets: the binary-level result is the default filter's
    simp only [hempty, if_true, BinMatch.isMatch, Bool.not_true, Bool.false_eq_true, if_false] at hm
    have hnil : trits = [] := by simpa using hempty
    cases boundDefault with
    | false => simp at hm
    | true =>
      simp only [if_true] at hm
      have hdt : defaultTrit = some false := by
        cases defaultTrit with
        | none => simp [BinMatch.fromResult, BinMatch.logicAnd] at hm
        | some b => cases b <;> simp_all [BinMatch.fromResult, BinMatch.logicAnd]
      have : t.inDefault = false := by
        rcases hd with hd | hd <;> simp_all
      simp [exprStage, hb, this, hn, hnil]
  · simp only [hempty, Bool.false_eq_true, if_false] at hm
    split at hm
    · -- every filterset is a definite mismatch for the binary
      rename_i hnm
      have hnm' : (trits.foldl (fun (acc : BinMatch) t => acc.logicOr (BinMatch.fromResult t .expression))
          (BinMatch.mismatch .expression)).isMatch = false := by simpa using hnm
      have hall := (foldl_or_mismatch trits _ hnm').2
      have hbits : ∀ b ∈ t.exprBits, b = false := by
        intro b hbm
        obtain ⟨j, hj, rfl⟩ := List.getElem_of_mem hbm
        have hj' : j < trits.length := by omega
        have := hcons j hj' hj
        have h2 := hall trits[j] (List.getElem_mem hj')
        rcases this with h | h
        · rw [h] at h2; cases h2
        · rw [h] at h2; cases hh : t.exprBits[j] <;> simp_all
      have hany : t.exprBits.any id = false := by
        simp only [List.any_eq_false]; intro b hbm; simp [hbits b hbm]
      have hne : trits.length ≠ 0 := by
        intro h0; have : trits = [] := List.length_eq_zero_iff.mp h0; simp [this] at hempty
      simp [exprStage, hn, hne, hany]
    · -- some filterset may match, but the default filter is a definite mismatch
      rename_i hnm
      cases boundDefault with
      | false =>
        simp only [Bool.false_eq_true, if_false] at hm
        rw [hm] at hnm; simp [BinMatch.isMatch] at hnm
      | true =>
        simp only [if_true] at hm
        have hdt : defaultTrit = some false := by
          generalize (trits.foldl (fun (acc : BinMatch) t => acc.logicOr (BinMatch.fromResult t .expression))
            (BinMatch.mismatch .expression)) = e at hm hnm
          cases e <;> cases defaultTrit with
          | none => simp_all [BinMatch.fromResult, BinMatch.logicAnd, BinMatch.isMatch]
          | some b => cases b <;> simp_all [BinMatch.fromResult, BinMatch.logicAnd, BinMatch.isMatch]
        have : t.inDefault = false := by
          rcases hd with hd | hd <;> simp_all
        unfold exprStage
        split
        · rfl
        · simp [hb, this]

/-! ## Non-vacuity -/

example : Patterns.WF ((Patterns.new []).addSkipExact [102, 111, 111]) := trivial
/-- the documented `-- --exact --skip foo` form: `foo` itself is rejected, `foobar` is not -/
example : ((Patterns.new []).addSkipExact [102, 111, 111]).resolve.nameMatch [102, 111, 111] = .mismatch ∧
          ((Patterns.new []).addSkipExact [102, 111, 111]).resolve.nameMatch [102, 111, 111, 98] = .matchWith := by
  decide

/-! ## Tie to the source: `MismatchReason` -/

def reasonName : Reason → String
  | .ignored => "Ignored" | .string => "String" | .expression => "Expression"
  | .partition => "Partition" | .defaultFilter => "DefaultFilter"

theorem mismatch_reasons_match_source :
    Gen.mismatchReasonOrder = [Reason.ignored, .string, .expression, .partition, .defaultFilter].map reasonName := by
  decide

end NextestModel.C04
