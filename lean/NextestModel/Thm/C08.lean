/-
  C08 — concurrency never exceeds thread or group limits; dispatch follows priority.
  Property theorems only: invariants of the scheduler model for EVERY item list, weight / group
  assignment and EVERY order of completions.  The invariants' definitions (`GlobalOk`: accounted weight = Σ over alive
  futures ≤ test-threads; `GroupOk`: the same per group; `QueuesOk`; `RunningOk`) and the helper lemmas are in
  Lemmas/Sched.lean.
-/
import NextestModel.Lemmas.Sched
import NextestModel.Model.Priority
import NextestModel.Gen.Tables
namespace NextestModel.C08
open NextestModel.Sched
theorem init_ok (maxW : Nat) (gm : List Nat) (items : List Item) : GlobalOk (SState.init maxW gm items) := by
  simp [GlobalOk, SState.init, wsum]

/-- **At every instant the sum of threads-required of the alive tests (each capped at the
    test-thread count) is at most the test-thread count** — preserved by every operation: the
    first poll, and any completion of any running future followed by the refill. -/
theorem global_weight_step (s : SState) (op : Op) (s' : SState) (started : List Running)
    (h : GlobalOk s) (hstep : s.step op = some (s', started)) : GlobalOk s' ∧ s'.maxW = s.maxW := by
  cases op with
  | poll =>
    simp only [SState.step, SState.first, Option.some.injEq] at hstep
    have := pull_ok (s.pending.length + 1) s s.maxW h rfl
    rw [hstep] at this; exact this
  | complete id =>
    simp only [SState.step, SState.complete] at hstep
    split at hstep
    · cases hstep
    · rename_i r hr
      -- after removing the completed future
      have hrem : GlobalOk { s with running := s.running.eraseP (fun x => x.item.id == id),
                                    cur := s.cur - min r.item.weight s.maxW,
                                    slots := s.slots.release r.globalSlot } := by
        obtain ⟨h1, h2⟩ := h
        have hsum := sum_eraseP s.running (fun x => x.item.id == id) (gw s.maxW) r hr
        refine ⟨?_, ?_⟩
        · simp only [wsum] at h1 ⊢
          simp only [gw] at hsum ⊢
          omega
        · simp only; omega
      simp only [Option.some.injEq, Prod.mk.injEq] at hstep
      obtain ⟨hs, _⟩ := hstep
      rw [← hs]
      split
      · refine pull_ok _ _ _ ?_ ?_
        · exact (drain_ok _ _ _ _ (ok_congr _ _ (by rfl) (by rfl) (by rfl) hrem) (by rfl)).1
        · exact (drain_ok _ _ _ _ (ok_congr _ _ (by rfl) (by rfl) (by rfl) hrem) (by rfl)).2
      · exact pull_ok _ _ _ hrem rfl

/-- run a list of operations (stops at the first ill-formed one: completing a future that is not running) -/
def runOps (s : SState) : List Op → Option SState
  | [] => some s
  | o :: os => match s.step o with
    | none => none
    | some (s', _) => runOps s' os

/-- …hence in every reachable state, for every item list, every weight/group assignment and every
    completion order: Σ min(threads-required, T) over alive tests ≤ T. -/
theorem global_weight_inv (maxW : Nat) (gm : List Nat) (items : List Item) (ops : List Op) (s' : SState)
    (h : runOps (SState.init maxW gm items) ops = some s') : wsum s' ≤ maxW := by
  suffices hgen : ∀ (ops : List Op) (s : SState), GlobalOk s → s.maxW = maxW → runOps s ops = some s' → GlobalOk s' ∧ s'.maxW = maxW by
    have := hgen ops _ (init_ok maxW gm items) rfl h
    rw [← this.1.1, ← this.2]; exact this.1.2
  intro ops
  induction ops with
  | nil => intro s hs hm h; simp [runOps] at h; subst h; exact ⟨hs, hm⟩
  | cons o os ih =>
    intro s hs hm h
    simp only [runOps] at h
    split at h
    · cases h
    · rename_i s1 st hstep
      have := global_weight_step s o s1 st hs hstep
      exact ih s1 this.1 (by rw [this.2, hm]) h

/-- with `--no-capture` (test-threads forced to 1) at most one test runs at a time, whatever the weights ≥ 1 -/
theorem no_capture_serial (gm : List Nat) (items : List Item) (ops : List Op) (s' : SState)
    (hw : ∀ it ∈ items, 1 ≤ it.weight)
    (hall : ∀ r ∈ s'.running, 1 ≤ r.item.weight)
    (h : runOps (SState.init 1 gm items) ops = some s') : s'.running.length ≤ 1 := by
  have hsum := global_weight_inv 1 gm items ops s' h
  have hm : s'.maxW = 1 := by
    suffices hgen : ∀ (ops : List Op) (s : SState), GlobalOk s → s.maxW = 1 → runOps s ops = some s' → s'.maxW = 1 from
      hgen ops _ (init_ok 1 gm items) rfl h
    intro ops
    induction ops with
    | nil => intro s _ hm h; simp [runOps] at h; subst h; exact hm
    | cons o os ih =>
      intro s hs hm h
      simp only [runOps] at h
      split at h
      · cases h
      · rename_i s1 st hstep
        have := global_weight_step s o s1 st hs hstep
        exact ih s1 this.1 (by rw [this.2, hm]) h
  have : (s'.running.map (gw s'.maxW)).sum = s'.running.length := by
    apply sum_ones
    intro r hr; have := hall r hr; simp [gw, hm]; omega
  simp only [wsum] at hsum
  omega


theorem group_init_ok (maxW : Nat) (gm : List Nat) (items : List Item) : GroupOk (SState.init maxW gm items) := by
  refine ⟨by simp [SState.init], ?_⟩
  intro g
  simp only [SState.init, gsum, List.map_nil, List.sum_nil]
  have : (gm.map fun _ => 0).getD g 0 = 0 := by
    simp only [List.getD_eq_getElem?_getD, List.getElem?_map]
    cases gm[g]? <;> rfl
  rw [this]; exact ⟨rfl, Nat.zero_le _⟩

theorem queues_init_ok (maxW : Nat) (gm : List Nat) (items : List Item) : QueuesOk (SState.init maxW gm items) := by
  intro g it hit
  have : (gm.map fun _ => ([] : List Item)).getD g [] = [] := by
    simp only [List.getD_eq_getElem?_getD, List.getElem?_map]
    cases gm[g]? <;> rfl
  simp only [SState.init] at hit
  rw [this] at hit; cases hit

/-- **For every test group, the sum of threads-required of its alive members (each capped at the group's max-threads) is at most
    max-threads** — preserved by every operation, together with the two bookkeeping invariants it needs -/
theorem group_weight_step (s : SState) (op : Op) (s' : SState) (started : List Running)
    (h : GroupOk s) (hq : QueuesOk s) (hr : RunningOk s) (hstep : s.step op = some (s', started)) :
    GroupOk s' ∧ QueuesOk s' := by
  cases op with
  | poll =>
    simp only [SState.step, SState.first, Option.some.injEq] at hstep
    have := pull_gok (s.pending.length + 1) s h hq
    rw [hstep] at this; exact this
  | complete id =>
    simp only [SState.step, SState.complete] at hstep
    split at hstep
    · cases hstep
    · rename_i r hfind
      simp only [Option.some.injEq, Prod.mk.injEq] at hstep
      obtain ⟨hs, _⟩ := hstep
      rw [← hs]
      have hmem : r ∈ s.running := List.mem_of_find?_eq_some hfind
      have hrg := hr r hmem
      obtain ⟨hlen, hall⟩ := h
      split
      · rename_i g gsl hg hgs
        -- the completed future belonged to group g: its weight is released there
        have hrem : GroupOk { s with running := s.running.eraseP (fun x => x.item.id == id),
                                     cur := s.cur - min r.item.weight s.maxW, slots := s.slots.release r.globalSlot,
                                     gcur := setAt s.gcur g (s.gcur.getD g 0 - min r.item.weight (s.groupMax.getD g 0)),
                                     gslots := setAt s.gslots g ((s.gslots.getD g {}).release gsl) } := by
          refine ⟨by simp [setAt, hlen], ?_⟩
          intro g'
          obtain ⟨h1, h2⟩ := hall g'
          have hsum := gsum_eraseP s (fun x => x.item.id == id) g' r hfind
          simp only [gsum] at h1 ⊢
          simp only [getD_setAt]
          by_cases hgg : g = g'
          · subst hgg
            have hgr : grw s.groupMax g r = min r.item.weight (s.groupMax.getD g 0) := by simp [grw, hg]
            by_cases hl : g < s.gcur.length
            · simp only [hl, and_self, if_true]
              exact ⟨by omega, by omega⟩
            · have hz : s.groupMax.getD g 0 = 0 := by
                simp only [List.getD_eq_getElem?_getD]
                rw [List.getElem?_eq_none (by omega)]; rfl
              simp only [hl, and_false, if_false]
              rw [hgr, hz] at hsum
              exact ⟨by simp at hsum; omega, h2⟩
          · have hgr : grw s.groupMax g' r = 0 := by
              have : ¬ r.item.group = some g' := by rw [hg]; intro e; exact hgg (Option.some.inj e)
              simp [grw, this]
            simp only [hgg, false_and, if_false]
            exact ⟨by omega, h2⟩
        have hq' : QueuesOk { s with running := s.running.eraseP (fun x => x.item.id == id),
                                     cur := s.cur - min r.item.weight s.maxW, slots := s.slots.release r.globalSlot,
                                     gcur := setAt s.gcur g (s.gcur.getD g 0 - min r.item.weight (s.groupMax.getD g 0)),
                                     gslots := setAt s.gslots g ((s.gslots.getD g {}).release gsl) } := hq
        have hd := drain_gok g ((s.queues.getD g []).length + 1) _ hrem hq'
        exact pull_gok _ _ hd.1 hd.2
      · rename_i hnot
        -- no group (a grouped future always carries a group slot): nothing is accounted in any group
        have hng : r.item.group = none := by
          cases hgo : r.item.group with
          | none => rfl
          | some g =>
            cases hso : r.groupSlot with
            | none => rw [hgo, hso] at hrg; simp at hrg
            | some gs => exact (hnot g gs hgo hso).elim
        have hrem : GroupOk { s with running := s.running.eraseP (fun x => x.item.id == id),
                                     cur := s.cur - min r.item.weight s.maxW, slots := s.slots.release r.globalSlot } := by
          refine ⟨hlen, ?_⟩
          intro g'
          obtain ⟨h1, h2⟩ := hall g'
          have hsum := gsum_eraseP s (fun x => x.item.id == id) g' r hfind
          have hgr : grw s.groupMax g' r = 0 := by simp [grw, hng]
          simp only [gsum] at h1 ⊢
          exact ⟨by omega, h2⟩
        exact pull_gok _ _ hrem hq

theorem running_ok_step (s : SState) (op : Op) (s' : SState) (started : List Running)
    (hr : RunningOk s) (hstep : s.step op = some (s', started)) : RunningOk s' := by
  cases op with
  | poll =>
    simp only [SState.step, SState.first, Option.some.injEq] at hstep
    have := pull_rok (s.pending.length + 1) s hr
    rw [hstep] at this; exact this
  | complete id =>
    simp only [SState.step, SState.complete] at hstep
    split at hstep
    · cases hstep
    · rename_i r hfind
      simp only [Option.some.injEq, Prod.mk.injEq] at hstep
      obtain ⟨hs, _⟩ := hstep
      rw [← hs]
      have herase : ∀ x ∈ s.running.eraseP (fun x => x.item.id == id), x.item.group.isSome = x.groupSlot.isSome :=
        fun x hx => hr x (List.mem_of_mem_eraseP hx)
      split
      · exact pull_rok _ _ (drain_rok _ _ _ herase)
      · exact pull_rok _ _ herase

/-- …hence in every reachable state, for every item list, every weight/group assignment and every completion order, and for
    every test group `g`: Σ min(threads-required, max-threads of g) over the alive members of `g` ≤ max-threads of `g`. -/
theorem group_weight_inv (maxW : Nat) (gm : List Nat) (items : List Item) (ops : List Op) (s' : SState)
    (h : runOps (SState.init maxW gm items) ops = some s') (g : Nat) :
    gsum s' g ≤ gm.getD g 0 ∧ s'.groupMax = gm := by
  suffices hgen : ∀ (ops : List Op) (s : SState), GroupOk s → QueuesOk s → RunningOk s → s.groupMax = gm → runOps s ops = some s' →
      GroupOk s' ∧ s'.groupMax = gm by
    have := hgen ops _ (group_init_ok maxW gm items) (queues_init_ok maxW gm items) (by intro r hr; simp [SState.init] at hr) rfl h
    obtain ⟨⟨_, hall⟩, hgm⟩ := this
    obtain ⟨h1, h2⟩ := hall g
    rw [← hgm]; exact ⟨by omega, rfl⟩
  intro ops
  induction ops with
  | nil => intro s hs _ _ hm h; simp [runOps] at h; subst h; exact ⟨hs, hm⟩
  | cons o os ih =>
    intro s hs hq hr hm h
    simp only [runOps] at h
    split at h
    · cases h
    · rename_i s1 st hstep
      have hg := group_weight_step s o s1 st hs hq hr hstep
      exact ih s1 hg.1 hg.2 (running_ok_step s o s1 st hr hstep) (by rw [groupMax_step s o s1 st hstep, hm]) h

-- non-vacuity: group 0 (max-threads 2) with members of weight 3 (capped to 2) and 1; 4 test threads
example : ∃ s', runOps (SState.init 4 [2] [⟨0, 3, some 0⟩, ⟨1, 1, some 0⟩, ⟨2, 1, none⟩]) [.poll] = some s' ∧
    gsum s' 0 = 2 ∧ s'.running.length = 2 := ⟨_, rfl, by decide, by decide⟩

/-! ## Dispatch order: descending priority, then (binary id, test name) -/

open NextestModel.Priority in
private theorem prioLe_trans (a b c : PTest) : prioLe a b = true → prioLe b c = true → prioLe a c = true := by
  simp [prioLe]; omega

open NextestModel.Priority in
private theorem prioLe_total (a b : PTest) : (prioLe a b || prioLe b a) = true := by
  simp [prioLe]; omega

open NextestModel.Priority in
/-- **Tests are dispatched in descending priority and, within a priority, in the order
    `iter_tests` yields them (binary id, then test name)**: the queue is a permutation of the test
    list (nothing dropped, nothing duplicated), sorted by descending priority, and stable — any two
    tests `a` before `b` in (binary id, name) order with `priority a ≥ priority b` stay in that order. -/
theorem priority_queue_order (l : List PTest) :
    (queue l).Perm l ∧ (queue l).Pairwise (fun a b => b.priority ≤ a.priority) ∧
    (∀ a b, List.Sublist [a, b] l → b.priority ≤ a.priority → List.Sublist [a, b] (queue l)) := by
  refine ⟨List.mergeSort_perm l prioLe, ?_, ?_⟩
  · have := List.pairwise_mergeSort prioLe_trans prioLe_total l
    exact this.imp (by intro a b h; simpa [prioLe] using h)
  · intro a b hsub hp
    exact List.pair_sublist_mergeSort prioLe_trans prioLe_total (by simpa [prioLe] using hp) hsub

open NextestModel.Priority in
/-- bytes of an ASCII literal -/
private def bs (s : String) : List UInt8 := s.toList.map (fun c => c.toNat.toUInt8)

open NextestModel.Priority in
/-- **binary ids are ordered by their components, not as strings**: the package name decides first (`foo::integ` before
    `foo-bar`, although `-` sorts before `:`), then a bare package (its lib tests) before named binaries, a name without a kind
    before any kind/name pair, kinds and names bytewise -/
theorem binary_id_component_order :
    binLe (bs "foo::integ") (bs "foo-bar") = true ∧ binLe (bs "foo-bar") (bs "foo::integ") = false ∧
    binLe (bs "foo") (bs "foo::a") = true ∧ binLe (bs "foo::a") (bs "foo") = false ∧
    binLe (bs "foo::zz") (bs "foo::bench/a") = true ∧ binLe (bs "foo::bench/a") (bs "foo::zz") = false ∧
    binLe (bs "foo::bench/z") (bs "foo::bin/a") = true ∧ binLe (bs "foo::bin/a") (bs "foo::bin/b") = true ∧
    binLe (bs "foo::bin/b") (bs "foo-bar") = true := by decide

open NextestModel.Priority in
/-- **The order in which tests enter the priority sort is (binary id by components, then test name)** — for every set of
    binaries (distinct ids, as keys of the `BTreeMap`) and test names: along `iter_tests`' order binary-id keys never decrease,
    and within one binary names never decrease.  Together with `priority_queue_order` (stable sort by descending priority)
    this is the documented dispatch order. -/
theorem iter_order_sorted (bins : List (List UInt8 × List (List UInt8))) (prioOf : List UInt8 → List UInt8 → Nat)
    (hd : (bins.map (·.1)).Nodup) :
    (iterOrder bins prioOf).Pairwise (fun a b => binKey a.binary ≤ binKey b.binary ∧ (a.binary = b.binary → a.name ≤ b.name)) := by
  have hbt : ∀ (a b c : List UInt8 × List (List UInt8)), binLe a.1 b.1 = true → binLe b.1 c.1 = true → binLe a.1 c.1 = true := by
    intro a b c h1 h2; simp only [binLe, decide_eq_true_eq] at *; exact List.le_trans h1 h2
  have hbtot : ∀ (a b : List UInt8 × List (List UInt8)), (binLe a.1 b.1 || binLe b.1 a.1) = true := by
    intro a b; simp only [binLe, Bool.or_eq_true, decide_eq_true_eq]; exact List.le_total _ _
  have hnt : ∀ (a b c : List UInt8), nameLe a b = true → nameLe b c = true → nameLe a c = true := by
    intro a b c h1 h2; simp only [nameLe, decide_eq_true_eq] at *; exact List.le_trans h1 h2
  have hntot : ∀ (a b : List UInt8), (nameLe a b || nameLe b a) = true := by
    intro a b; simp only [nameLe, Bool.or_eq_true, decide_eq_true_eq]; exact List.le_total _ _
  unfold iterOrder
  rw [List.pairwise_flatMap]
  refine ⟨?_, ?_⟩
  · intro bn _
    rw [List.pairwise_map]
    have := List.pairwise_mergeSort hnt hntot bn.2
    exact this.imp (by intro x y h; exact ⟨List.le_refl _, fun _ => by simpa [nameLe] using h⟩)
  · have hs := List.pairwise_mergeSort hbt hbtot bins
    have hperm := List.mergeSort_perm bins (fun a b => binLe a.1 b.1)
    have hnd : ((bins.mergeSort (fun a b => binLe a.1 b.1)).map (·.1)).Nodup := (hperm.map _).nodup_iff.mpr hd
    have hne : (bins.mergeSort (fun a b => binLe a.1 b.1)).Pairwise (fun a b => a.1 ≠ b.1) := by
      rw [List.Nodup, List.pairwise_map] at hnd; exact hnd
    refine (hs.and hne).imp ?_
    intro a₁ a₂ h x hx y hy
    simp only [List.mem_map] at hx hy
    obtain ⟨n1, _, rfl⟩ := hx
    obtain ⟨n2, _, rfl⟩ := hy
    exact ⟨by simpa [binLe] using h.1, fun e => absurd e h.2⟩

/-! ## threads-required against the width of the run -/

open NextestModel.Priority in
/-- **how wide the run is** (`TestRunnerBuilder::build`): without capture exactly one test at a time whatever is configured;
    otherwise the command line's thread count wins over the profile's -/
theorem run_width (cli : Option Nat) (profile n : Nat) :
    runTestThreads true cli profile = 1 ∧ runTestThreads false (some n) profile = n ∧ runTestThreads false none profile = profile :=
  ⟨rfl, rfl, rfl⟩

open NextestModel.Priority in
/-- **threads-required is resolved against the run as it is actually started**: `num-test-threads` is the run's width — the
    command line's when one is given, not the profile's —, `num-cpus` the CPU count, a number itself -/
theorem threads_required_resolution (ncpu : Nat) (noCapture : Bool) (cli : Option Nat) (profile k : Nat) :
    testWeight .numTestThreads ncpu noCapture cli profile = runTestThreads noCapture cli profile ∧
    testWeight .numCpus ncpu noCapture cli profile = ncpu ∧ testWeight (.count k) ncpu noCapture cli profile = k :=
  ⟨rfl, rfl, rfl⟩

private theorem sum_zero_each (l : List Nat) (h : l.sum = 0) : ∀ x ∈ l, x = 0 := by
  induction l with
  | nil => intro x hx; cases hx
  | cons a as ih =>
    intro x hx
    simp only [List.sum_cons] at h
    rcases List.mem_cons.mp hx with rfl | hx'
    · omega
    · exact ih (by omega) x hx'

/-- **a test that needs the whole run has it to itself**: in every reachable state of the scheduler — every test list, weight
    and group assignment, completion order — while a test whose threads-required is at least the run's width (e.g.
    `num-test-threads`) is alive, every other alive test holds no thread at all (its threads-required is 0) -/
theorem full_width_test_runs_alone (maxW : Nat) (gm : List Nat) (items : List Item) (ops : List Op) (s' : SState)
    (h : runOps (SState.init maxW gm items) ops = some s') (pre post : List Running) (r : Running)
    (hr : s'.running = pre ++ r :: post) (hw : maxW ≤ r.item.weight) :
    ∀ x ∈ pre ++ post, min x.item.weight maxW = 0 := by
  have hle := global_weight_inv maxW gm items ops s' h
  have hm : s'.maxW = maxW := by
    suffices hgen : ∀ (ops : List Op) (s : SState), GlobalOk s → s.maxW = maxW → runOps s ops = some s' → s'.maxW = maxW from
      hgen ops _ (init_ok maxW gm items) rfl h
    intro ops
    induction ops with
    | nil => intro s _ hm h; simp [runOps] at h; subst h; exact hm
    | cons o os ih =>
      intro s hs hm h
      simp only [runOps] at h
      split at h
      · cases h
      · rename_i s1 st hstep
        have := global_weight_step s o s1 st hs hstep
        exact ih s1 this.1 (by rw [this.2, hm]) h
  unfold wsum at hle
  rw [hr, hm] at hle
  simp only [List.map_append, List.map_cons, List.sum_append, List.sum_cons, gw] at hle
  have hmin : min r.item.weight maxW = maxW := Nat.min_eq_right hw
  rw [hmin] at hle
  intro x hx
  have hz : ((pre ++ post).map (gw maxW)).sum = 0 := by
    simp only [List.map_append, List.sum_append]; omega
  exact sum_zero_each _ hz _ (List.mem_map.mpr ⟨x, hx, rfl⟩)

/-- **the wiring in runner/imp.rs, as read on this run, is `runTestThreads` / `testWeight`**: the run is one test wide without
    capture, else as wide as the command line says, else as the profile says; a test is queued with its threads-required computed
    against *that* width (not the profile's, not its group's); the queue is that wide and a group as wide as its max-threads -/
theorem weight_wiring_is_the_models : ∀ r ∈ Gen.weightWiring, r.2 = true := by decide

end NextestModel.C08
