/-
  C08 — concurrency never exceeds thread or group limits; dispatch follows priority.
  Property theorems only: invariants of the scheduler model for EVERY item list, weight / group
  assignment and EVERY order of completions.
-/
import NextestModel.Model.Sched
import NextestModel.Model.Priority
namespace NextestModel.C08
open NextestModel.Sched

/-- the weight a running future holds globally: `min(threads-required, test-threads)` -/
def gw (maxW : Nat) (r : Running) : Nat := min r.item.weight maxW

/-- Σ over the futures alive right now -/
def wsum (s : SState) : Nat := (s.running.map (gw s.maxW)).sum

/-- **The global limit**: the accounted weight is exactly the sum over alive futures, and it never
    exceeds the test-thread count. -/
def GlobalOk (s : SState) : Prop := s.cur = wsum s ∧ s.cur ≤ s.maxW

theorem init_ok (maxW : Nat) (gm : List Nat) (items : List Item) : GlobalOk (SState.init maxW gm items) := by
  simp [GlobalOk, SState.init, wsum]

private theorem ok_congr (s t : SState) (h1 : t.cur = s.cur) (h2 : t.running = s.running) (h3 : t.maxW = s.maxW)
    (h : GlobalOk s) : GlobalOk t := by
  unfold GlobalOk wsum at *
  rw [h1, h2, h3]; exact h

private theorem sum_ones (l : List Running) (f : Running → Nat) (h : ∀ r ∈ l, f r = 1) : (l.map f).sum = l.length := by
  induction l with
  | nil => rfl
  | cons a as ih =>
    simp only [List.map_cons, List.sum_cons, List.length_cons]
    rw [h a (List.mem_cons_self ..), ih (fun r hr => h r (List.mem_cons_of_mem _ hr))]
    omega

private theorem hasSpace_le {cur max w : Nat} (h : hasSpace cur max w = true) : cur + min w max ≤ max := by
  simp [hasSpace] at h; omega

private theorem start_facts (s : SState) (it : Item) :
    (s.start it).1.maxW = s.maxW ∧ (s.start it).1.cur = s.cur + min it.weight s.maxW ∧
    (s.start it).1.running = s.running ++ [(s.start it).2] ∧ (s.start it).2.item = it ∧
    (s.start it).1.pending = s.pending ∧ (s.start it).1.groupMax = s.groupMax ∧ (s.start it).1.queues = s.queues := by
  unfold SState.start
  cases it.group <;> simp

private theorem start_ok (s : SState) (it : Item) (h : GlobalOk s) (hs : hasSpace s.cur s.maxW it.weight = true) :
    GlobalOk (s.start it).1 := by
  obtain ⟨f1, f2, f3, f4, _⟩ := start_facts s it
  obtain ⟨h1, h2⟩ := h
  refine ⟨?_, ?_⟩
  · simp only [wsum, f1, f2, f3, List.map_append, List.sum_append, List.map_cons, List.map_nil, List.sum_cons, List.sum_nil, gw, f4]
    rw [h1]; simp [wsum, gw]
  · rw [f1, f2]; exact hasSpace_le hs

private theorem pull_ok (fuel : Nat) : ∀ (s : SState) (m : Nat), GlobalOk s → s.maxW = m →
    GlobalOk (s.pull fuel).1 ∧ (s.pull fuel).1.maxW = m := by
  induction fuel with
  | zero => intro s m h hm; exact ⟨h, hm⟩
  | succ f ih =>
    intro s m h hm
    simp only [SState.pull]
    split
    · exact ⟨h, hm⟩
    · rename_i it rest hp
      split
      · exact ⟨h, hm⟩
      · rename_i hsp
        simp only [Bool.not_eq_true] at hsp
        have hsp' : hasSpace s.cur s.maxW it.weight = true := by
          cases hh : hasSpace s.cur s.maxW it.weight <;> simp_all
        have hs1 : GlobalOk { s with pending := rest } := ok_congr s _ rfl rfl rfl h
        split
        · refine ih _ m (start_ok { s with pending := rest } it hs1 hsp') ?_
          rw [(start_facts _ _).1]; exact hm
        · split
          · refine ih _ m (start_ok { s with pending := rest } it hs1 hsp') ?_
            rw [(start_facts _ _).1]; exact hm
          · exact ih _ m (ok_congr s _ rfl rfl rfl h) hm

private theorem drain_ok (g : Nat) (fuel : Nat) : ∀ (s : SState) (m : Nat), GlobalOk s → s.maxW = m →
    GlobalOk (s.drainGroup g fuel).1 ∧ (s.drainGroup g fuel).1.maxW = m := by
  induction fuel with
  | zero => intro s m h hm; exact ⟨h, hm⟩
  | succ f ih =>
    intro s m h hm
    simp only [SState.drainGroup]
    split
    · exact ⟨h, hm⟩
    · rename_i it rest hq
      split
      · rename_i hsp
        simp only [Bool.and_eq_true] at hsp
        have hs1 : GlobalOk { s with queues := setAt s.queues g rest } := ok_congr s _ rfl rfl rfl h
        refine ih _ m (start_ok { s with queues := setAt s.queues g rest } it hs1 hsp.1) ?_
        rw [(start_facts _ _).1]; exact hm
      · exact ⟨h, hm⟩

private theorem sum_eraseP (l : List Running) (p : Running → Bool) (f : Running → Nat) (x : Running)
    (h : l.find? p = some x) : (l.map f).sum = ((l.eraseP p).map f).sum + f x := by
  induction l with
  | nil => simp at h
  | cons a as ih =>
    by_cases hp : p a = true
    · simp [List.find?_cons, hp] at h
      subst h
      simp [List.eraseP_cons, hp]; omega
    · simp [List.find?_cons, hp] at h
      simp [List.eraseP_cons, hp, ih h]; omega

/-- **At every instant the sum of threads-required of the alive tests (each capped at the
    test-thread count) is at most the test-thread count** — preserved by every operation: the
    first poll, and any completion of any running future followed by the refill. -/
theorem global_weight_step (s : SState) (op : Op) (s' : SState) (started : List Running)
    (h : GlobalOk s) (hstep : s.step op = some (s', started)) : GlobalOk s' ∧ s'.maxW = s.maxW := by
  cases op with
  | poll =>
    simp only [SState.step, SState.first, Option.some.injEq] at hstep
    have := pull_ok (s.pending.length + 1) s s.maxW h rfl
    rw [hstep] at this; exact this
  | complete id =>
    simp only [SState.step, SState.complete] at hstep
    split at hstep
    · cases hstep
    · rename_i r hr
      -- after removing the completed future
      have hrem : GlobalOk { s with running := s.running.eraseP (fun x => x.item.id == id),
                                    cur := s.cur - min r.item.weight s.maxW,
                                    slots := s.slots.release r.globalSlot } := by
        obtain ⟨h1, h2⟩ := h
        have hsum := sum_eraseP s.running (fun x => x.item.id == id) (gw s.maxW) r hr
        refine ⟨?_, ?_⟩
        · simp only [wsum] at h1 ⊢
          simp only [gw] at hsum ⊢
          omega
        · simp only; omega
      simp only [Option.some.injEq, Prod.mk.injEq] at hstep
      obtain ⟨hs, _⟩ := hstep
      rw [← hs]
      split
      · refine pull_ok _ _ _ ?_ ?_
        · exact (drain_ok _ _ _ _ (ok_congr _ _ (by rfl) (by rfl) (by rfl) hrem) (by rfl)).1
        · exact (drain_ok _ _ _ _ (ok_congr _ _ (by rfl) (by rfl) (by rfl) hrem) (by rfl)).2
      · exact pull_ok _ _ _ hrem rfl

/-- run a list of operations (stops at the first ill-formed one: completing a future that is not running) -/
def runOps (s : SState) : List Op → Option SState
  | [] => some s
  | o :: os => match s.step o with
    | none => none
    | some (s', _) => runOps s' os

/-- …hence in every reachable state, for every item list, every weight/group assignment and every
    completion order: Σ min(threads-required, T) over alive tests ≤ T. -/
theorem global_weight_inv (maxW : Nat) (gm : List Nat) (items : List Item) (ops : List Op) (s' : SState)
    (h : runOps (SState.init maxW gm items) ops = some s') : wsum s' ≤ maxW := by
  suffices hgen : ∀ (ops : List Op) (s : SState), GlobalOk s → s.maxW = maxW → runOps s ops = some s' → GlobalOk s' ∧ s'.maxW = maxW by
    have := hgen ops _ (init_ok maxW gm items) rfl h
    rw [← this.1.1, ← this.2]; exact this.1.2
  intro ops
  induction ops with
  | nil => intro s hs hm h; simp [runOps] at h; subst h; exact ⟨hs, hm⟩
  | cons o os ih =>
    intro s hs hm h
    simp only [runOps] at h
    split at h
    · cases h
    · rename_i s1 st hstep
      have := global_weight_step s o s1 st hs hstep
      exact ih s1 this.1 (by rw [this.2, hm]) h

/-- with `--no-capture` (test-threads forced to 1) at most one test runs at a time, whatever the weights ≥ 1 -/
theorem no_capture_serial (gm : List Nat) (items : List Item) (ops : List Op) (s' : SState)
    (hw : ∀ it ∈ items, 1 ≤ it.weight)
    (hall : ∀ r ∈ s'.running, 1 ≤ r.item.weight)
    (h : runOps (SState.init 1 gm items) ops = some s') : s'.running.length ≤ 1 := by
  have hsum := global_weight_inv 1 gm items ops s' h
  have hm : s'.maxW = 1 := by
    suffices hgen : ∀ (ops : List Op) (s : SState), GlobalOk s → s.maxW = 1 → runOps s ops = some s' → s'.maxW = 1 from
      hgen ops _ (init_ok 1 gm items) rfl h
    intro ops
    induction ops with
    | nil => intro s _ hm h; simp [runOps] at h; subst h; exact hm
    | cons o os ih =>
      intro s hs hm h
      simp only [runOps] at h
      split at h
      · cases h
      · rename_i s1 st hstep
        have := global_weight_step s o s1 st hs hstep
        exact ih s1 this.1 (by rw [this.2, hm]) h
  have : (s'.running.map (gw s'.maxW)).sum = s'.running.length := by
    apply sum_ones
    intro r hr; have := hall r hr; simp [gw, hm]; omega
  simp only [wsum] at hsum
  omega

/-! ## Dispatch order: descending priority, then (binary id, test name) -/

open NextestModel.Priority in
private theorem prioLe_trans (a b c : PTest) : prioLe a b = true → prioLe b c = true → prioLe a c = true := by
  simp [prioLe]; omega

open NextestModel.Priority in
private theorem prioLe_total (a b : PTest) : (prioLe a b || prioLe b a) = true := by
  simp [prioLe]; omega

open NextestModel.Priority in
/-- **Tests are dispatched in descending priority and, within a priority, in the order
    `iter_tests` yields them (binary id, then test name)**: the queue is a permutation of the test
    list (nothing dropped, nothing duplicated), sorted by descending priority, and stable — any two
    tests `a` before `b` in (binary id, name) order with `priority a ≥ priority b` stay in that order. -/
theorem priority_queue_order (l : List PTest) :
    (queue l).Perm l ∧ (queue l).Pairwise (fun a b => b.priority ≤ a.priority) ∧
    (∀ a b, List.Sublist [a, b] l → b.priority ≤ a.priority → List.Sublist [a, b] (queue l)) := by
  refine ⟨List.mergeSort_perm l prioLe, ?_, ?_⟩
  · have := List.pairwise_mergeSort prioLe_trans prioLe_total l
    exact this.imp (by intro a b h; simpa [prioLe] using h)
  · intro a b hsub hp
    exact List.pair_sublist_mergeSort prioLe_trans prioLe_total (by simpa [prioLe] using hp) hsub

end NextestModel.C08
