/-
  C08 — concurrency never exceeds thread or group limits; dispatch follows priority.
  Property theorems only: invariants of the scheduler model for EVERY item list, weight / group
  assignment and EVERY order of completions.
-/
import NextestModel.Model.Sched
import NextestModel.Model.Priority
namespace NextestModel.C08
open NextestModel.Sched

/-- the weight a running future holds globally: `min(threads-required, test-threads)` -/
def gw (maxW : Nat) (r : Running) : Nat := min r.item.weight maxW

/-- Σ over the futures alive right now -/
def wsum (s : SState) : Nat := (s.running.map (gw s.maxW)).sum

/-- **The global limit**: the accounted weight is exactly the sum over alive futures, and it never
    exceeds the test-thread count. -/
def GlobalOk (s : SState) : Prop := s.cur = wsum s ∧ s.cur ≤ s.maxW

theorem init_ok (maxW : Nat) (gm : List Nat) (items : List Item) : GlobalOk (SState.init maxW gm items) := by
  simp [GlobalOk, SState.init, wsum]

private theorem ok_congr (s t : SState) (h1 : t.cur = s.cur) (h2 : t.running = s.running) (h3 : t.maxW = s.maxW)
    (h : GlobalOk s) : GlobalOk t := by
  unfold GlobalOk wsum at *
  rw [h1, h2, h3]; exact h

private theorem sum_ones (l : List Running) (f : Running → Nat) (h : ∀ r ∈ l, f r = 1) : (l.map f).sum = l.length := by
  induction l with
  | nil => rfl
  | cons a as ih =>
    simp only [List.map_cons, List.sum_cons, List.length_cons]
    rw [h a (List.mem_cons_self ..), ih (fun r hr => h r (List.mem_cons_of_mem _ hr))]
    omega

private theorem hasSpace_le {cur max w : Nat} (h : hasSpace cur max w = true) : cur + min w max ≤ max := by
  simp [hasSpace] at h; omega

private theorem start_facts (s : SState) (it : Item) :
    (s.start it).1.maxW = s.maxW ∧ (s.start it).1.cur = s.cur + min it.weight s.maxW ∧
    (s.start it).1.running = s.running ++ [(s.start it).2] ∧ (s.start it).2.item = it ∧
    (s.start it).1.pending = s.pending ∧ (s.start it).1.groupMax = s.groupMax ∧ (s.start it).1.queues = s.queues := by
  unfold SState.start
  cases it.group <;> simp

private theorem start_ok (s : SState) (it : Item) (h : GlobalOk s) (hs : hasSpace s.cur s.maxW it.weight = true) :
    GlobalOk (s.start it).1 := by
  obtain ⟨f1, f2, f3, f4, _⟩ := start_facts s it
  obtain ⟨h1, h2⟩ := h
  refine ⟨?_, ?_⟩
  · simp only [wsum, f1, f2, f3, List.map_append, List.sum_append, List.map_cons, List.map_nil, List.sum_cons, List.sum_nil, gw, f4]
    rw [h1]; simp [wsum, gw]
  · rw [f1, f2]; exact hasSpace_le hs

private theorem pull_ok (fuel : Nat) : ∀ (s : SState) (m : Nat), GlobalOk s → s.maxW = m →
    GlobalOk (s.pull fuel).1 ∧ (s.pull fuel).1.maxW = m := by
  induction fuel with
  | zero => intro s m h hm; exact ⟨h, hm⟩
  | succ f ih =>
    intro s m h hm
    simp only [SState.pull]
    split
    · exact ⟨h, hm⟩
    · rename_i it rest hp
      split
      · exact ⟨h, hm⟩
      · rename_i hsp
        simp only [Bool.not_eq_true] at hsp
        have hsp' : hasSpace s.cur s.maxW it.weight = true := by
          cases hh : hasSpace s.cur s.maxW it.weight <;> simp_all
        have hs1 : GlobalOk { s with pending := rest } := ok_congr s _ rfl rfl rfl h
        split
        · refine ih _ m (start_ok { s with pending := rest } it hs1 hsp') ?_
          rw [(start_facts _ _).1]; exact hm
        · split
          · refine ih _ m (start_ok { s with pending := rest } it hs1 hsp') ?_
            rw [(start_facts _ _).1]; exact hm
          · exact ih _ m (ok_congr s _ rfl rfl rfl h) hm

private theorem drain_ok (g : Nat) (fuel : Nat) : ∀ (s : SState) (m : Nat), GlobalOk s → s.maxW = m →
    GlobalOk (s.drainGroup g fuel).1 ∧ (s.drainGroup g fuel).1.maxW = m := by
  induction fuel with
  | zero => intro s m h hm; exact ⟨h, hm⟩
  | succ f ih =>
    intro s m h hm
    simp only [SState.drainGroup]
    split
    · exact ⟨h, hm⟩
    · rename_i it rest hq
      split
      · rename_i hsp
        simp only [Bool.and_eq_true] at hsp
        have hs1 : GlobalOk { s with queues := setAt s.queues g rest } := ok_congr s _ rfl rfl rfl h
        refine ih _ m (start_ok { s with queues := setAt s.queues g rest } it hs1 hsp.1) ?_
        rw [(start_facts _ _).1]; exact hm
      · exact ⟨h, hm⟩

private theorem sum_eraseP (l : List Running) (p : Running → Bool) (f : Running → Nat) (x : Running)
    (h : l.find? p = some x) : (l.map f).sum = ((l.eraseP p).map f).sum + f x := by
  induction l with
  | nil => simp at h
  | cons a as ih =>
    by_cases hp : p a = true
    · simp [List.find?_cons, hp] at h
      subst h
      simp [List.eraseP_cons, hp]; omega
    · simp [List.find?_cons, hp] at h
      simp [List.eraseP_cons, hp, ih h]; omega

/-- **At every instant the sum of threads-required of the alive tests (each capped at the
    test-thread count) is at most the test-thread count** — preserved by every operation: the
    first poll, and any completion of any running future followed by the refill. -/
theorem global_weight_step (s : SState) (op : Op) (s' : SState) (started : List Running)
    (h : GlobalOk s) (hstep : s.step op = some (s', started)) : GlobalOk s' ∧ s'.maxW = s.maxW := by
  cases op with
  | poll =>
    simp only [SState.step, SState.first, Option.some.injEq] at hstep
    have := pull_ok (s.pending.length + 1) s s.maxW h rfl
    rw [hstep] at this; exact this
  | complete id =>
    simp only [SState.step, SState.complete] at hstep
    split at hstep
    · cases hstep
    · rename_i r hr
      -- after removing the completed future
      have hrem : GlobalOk { s with running := s.running.eraseP (fun x => x.item.id == id),
                                    cur := s.cur - min r.item.weight s.maxW,
                                    slots := s.slots.release r.globalSlot } := by
        obtain ⟨h1, h2⟩ := h
        have hsum := sum_eraseP s.running (fun x => x.item.id == id) (gw s.maxW) r hr
        refine ⟨?_, ?_⟩
        · simp only [wsum] at h1 ⊢
          simp only [gw] at hsum ⊢
          omega
        · simp only; omega
      simp only [Option.some.injEq, Prod.mk.injEq] at hstep
      obtain ⟨hs, _⟩ := hstep
      rw [← hs]
      split
      · refine pull_ok _ _ _ ?_ ?_
        · exact (drain_ok _ _ _ _ (ok_congr _ _ (by rfl) (by rfl) (by rfl) hrem) (by rfl)).1
        · exact (drain_ok _ _ _ _ (ok_congr _ _ (by rfl) (by rfl) (by rfl) hrem) (by rfl)).2
      · exact pull_ok _ _ _ hrem rfl

/-- run a list of operations (stops at the first ill-formed one: completing a future that is not running) -/
def runOps (s : SState) : List Op → Option SState
  | [] => some s
  | o :: os => match s.step o with
    | none => none
    | some (s', _) => runOps s' os

/-- …hence in every reachable state, for every item list, every weight/group assignment and every
    completion order: Σ min(threads-required, T) over alive tests ≤ T. -/
theorem global_weight_inv (maxW : Nat) (gm : List Nat) (items : List Item) (ops : List Op) (s' : SState)
    (h : runOps (SState.init maxW gm items) ops = some s') : wsum s' ≤ maxW := by
  suffices hgen : ∀ (ops : List Op) (s : SState), GlobalOk s → s.maxW = maxW → runOps s ops = some s' → GlobalOk s' ∧ s'.maxW = maxW by
    have := hgen ops _ (init_ok maxW gm items) rfl h
    rw [← this.1.1, ← this.2]; exact this.1.2
  intro ops
  induction ops with
  | nil => intro s hs hm h; simp [runOps] at h; subst h; exact ⟨hs, hm⟩
  | cons o os ih =>
    intro s hs hm h
    simp only [runOps] at h
    split at h
    · cases h
    · rename_i s1 st hstep
      have := global_weight_step s o s1 st hs hstep
      exact ih s1 this.1 (by rw [this.2, hm]) h

/-- with `--no-capture` (test-threads forced to 1) at most one test runs at a time, whatever the weights ≥ 1 -/
theorem no_capture_serial (gm : List Nat) (items : List Item) (ops : List Op) (s' : SState)
    (hw : ∀ it ∈ items, 1 ≤ it.weight)
    (hall : ∀ r ∈ s'.running, 1 ≤ r.item.weight)
    (h : runOps (SState.init 1 gm items) ops = some s') : s'.running.length ≤ 1 := by
  have hsum := global_weight_inv 1 gm items ops s' h
  have hm : s'.maxW = 1 := by
    suffices hgen : ∀ (ops : List Op) (s : SState), GlobalOk s → s.maxW = 1 → runOps s ops = some s' → s'.maxW = 1 from
      hgen ops _ (init_ok 1 gm items) rfl h
    intro ops
    induction ops with
    | nil => intro s _ hm h; simp [runOps] at h; subst h; exact hm
    | cons o os ih =>
      intro s hs hm h
      simp only [runOps] at h
      split at h
      · cases h
      · rename_i s1 st hstep
        have := global_weight_step s o s1 st hs hstep
        exact ih s1 this.1 (by rw [this.2, hm]) h
  have : (s'.running.map (gw s'.maxW)).sum = s'.running.length := by
    apply sum_ones
    intro r hr; have := hall r hr; simp [gw, hm]; omega
  simp only [wsum] at hsum
  omega


/-! ## The per-group limit -/

/-- the weight a running future holds in group `g`: `min(threads-required, max-threads of g)` if it belongs to `g` -/
def grw (gm : List Nat) (g : Nat) (r : Running) : Nat := if r.item.group = some g then min r.item.weight (gm.getD g 0) else 0

def gsum (s : SState) (g : Nat) : Nat := (s.running.map (grw s.groupMax g)).sum

/-- **The group limit**: for every test group, the accounted weight is exactly the sum over the alive members, and never
    exceeds the group's max-threads. -/
def GroupOk (s : SState) : Prop :=
  s.gcur.length = s.groupMax.length ∧ ∀ g, s.gcur.getD g 0 = gsum s g ∧ s.gcur.getD g 0 ≤ s.groupMax.getD g 0

theorem group_init_ok (maxW : Nat) (gm : List Nat) (items : List Item) : GroupOk (SState.init maxW gm items) := by
  refine ⟨by simp [SState.init], ?_⟩
  intro g
  simp only [SState.init, gsum, List.map_nil, List.sum_nil]
  have : (gm.map fun _ => 0).getD g 0 = 0 := by
    simp only [List.getD_eq_getElem?_getD, List.getElem?_map]
    cases gm[g]? <;> rfl
  rw [this]; exact ⟨rfl, Nat.zero_le _⟩

private theorem getD_setAt {α} (l : List α) (i j : Nat) (v d : α) :
    (setAt l i v).getD j d = if i = j ∧ i < l.length then v else l.getD j d := by
  simp only [setAt, List.getD_eq_getElem?_getD, List.getElem?_set]
  by_cases h : i = j
  · subst h
    by_cases hl : i < l.length
    · simp [hl]
    · simp [hl]
  · simp [h]

/-- an item parked in group `g`'s queue belongs to group `g` -/
def QueuesOk (s : SState) : Prop := ∀ g, ∀ it ∈ s.queues.getD g [], it.group = some g

theorem queues_init_ok (maxW : Nat) (gm : List Nat) (items : List Item) : QueuesOk (SState.init maxW gm items) := by
  intro g it hit
  have : (gm.map fun _ => ([] : List Item)).getD g [] = [] := by
    simp only [List.getD_eq_getElem?_getD, List.getElem?_map]
    cases gm[g]? <;> rfl
  simp only [SState.init] at hit
  rw [this] at hit; cases hit

private theorem gok_congr (s t : SState) (h1 : t.gcur = s.gcur) (h2 : t.running = s.running) (h3 : t.groupMax = s.groupMax)
    (h : GroupOk s) : GroupOk t := by
  unfold GroupOk gsum at *
  rw [h1, h2, h3]; exact h

private theorem start_gfacts (s : SState) (it : Item) :
    (s.start it).1.groupMax = s.groupMax ∧ (s.start it).1.running = s.running ++ [(s.start it).2] ∧ (s.start it).2.item = it ∧
    (s.start it).1.gcur = (match it.group with
      | none => s.gcur
      | some g => setAt s.gcur g (s.gcur.getD g 0 + min it.weight (s.groupMax.getD g 0))) ∧
    (s.start it).1.queues = s.queues := by
  unfold SState.start
  cases it.group <;> simp

private theorem start_gok (s : SState) (it : Item) (h : GroupOk s)
    (hs : ∀ g, it.group = some g → hasSpace (s.gcur.getD g 0) (s.groupMax.getD g 0) it.weight = true) :
    GroupOk (s.start it).1 := by
  obtain ⟨f1, f2, f3, f4, _⟩ := start_gfacts s it
  obtain ⟨hlen, hall⟩ := h
  refine ⟨?_, ?_⟩
  · rw [f1, f4]; cases it.group <;> simp [setAt, hlen]
  · intro g
    obtain ⟨h1, h2⟩ := hall g
    have hsum : gsum (s.start it).1 g = gsum s g + (if it.group = some g then min it.weight (s.groupMax.getD g 0) else 0) := by
      simp only [gsum, f1, f2, List.map_append, List.sum_append, List.map_cons, List.map_nil, List.sum_cons, List.sum_nil, grw, f3, Nat.add_zero]
    rw [hsum, f1, f4]
    cases hg : it.group with
    | none => simp only [reduceCtorEq, if_false, Nat.add_zero]; exact ⟨h1, h2⟩
    | some g' =>
      simp only [getD_setAt]
      by_cases hgg : g' = g
      · subst hgg
        have hsp := hasSpace_le (hs g' hg)
        simp only [if_true]
        by_cases hl : g' < s.gcur.length
        · simp only [hl, and_self, if_true]
          exact ⟨by rw [h1], by omega⟩
        · -- out of range: the group has max-threads 0 and nothing is ever accounted
          have hz : s.groupMax.getD g' 0 = 0 := by
            simp only [List.getD_eq_getElem?_getD]
            rw [List.getElem?_eq_none (by omega)]; rfl
          simp only [hl, and_false, if_false]
          exact ⟨by rw [h1, hz]; simp, h2⟩
      · have hne : ¬ some g' = some g := by intro e; exact hgg (Option.some.inj e)
        simp only [hgg, false_and, if_false, hne, Nat.add_zero]
        exact ⟨h1, h2⟩

private theorem pull_gok (fuel : Nat) : ∀ (s : SState), GroupOk s → QueuesOk s →
    GroupOk (s.pull fuel).1 ∧ QueuesOk (s.pull fuel).1 := by
  induction fuel with
  | zero => intro s h hq; exact ⟨h, hq⟩
  | succ f ih =>
    intro s h hq
    simp only [SState.pull]
    split
    · exact ⟨h, hq⟩
    · rename_i it rest hp
      split
      · exact ⟨h, hq⟩
      · have hs1 : GroupOk { s with pending := rest } := gok_congr s _ rfl rfl rfl h
        have hq1 : QueuesOk { s with pending := rest } := hq
        have hqstart : ∀ (t : SState) (x : Item), QueuesOk t → QueuesOk (t.start x).1 := by
          intro t x ht; unfold QueuesOk; rw [(start_gfacts t x).2.2.2.2]; exact ht
        split
        · rename_i hg
          exact ih _ (start_gok { s with pending := rest } it hs1 (by intro g hg'; rw [hg] at hg'; cases hg')) (hqstart _ _ hq1)
        · rename_i g hg
          split
          · rename_i hsp
            exact ih _ (start_gok { s with pending := rest } it hs1 (by intro g' hg'; rw [hg] at hg'; cases hg'; exact hsp)) (hqstart _ _ hq1)
          · refine ih _ (gok_congr s _ rfl rfl rfl h) ?_
            intro g' x hx
            simp only [getD_setAt] at hx
            split at hx
            · rename_i hc
              rcases List.mem_append.mp hx with hx | hx
              · rw [← hc.1]; exact hq g x hx
              · simp at hx; subst hx; rw [← hc.1]; exact hg
            · exact hq g' x hx

private theorem drain_gok (g : Nat) (fuel : Nat) : ∀ (s : SState), GroupOk s → QueuesOk s →
    GroupOk (s.drainGroup g fuel).1 ∧ QueuesOk (s.drainGroup g fuel).1 := by
  induction fuel with
  | zero => intro s h hq; exact ⟨h, hq⟩
  | succ f ih =>
    intro s h hq
    simp only [SState.drainGroup]
    split
    · exact ⟨h, hq⟩
    · rename_i it rest hqg
      split
      · rename_i hsp
        simp only [Bool.and_eq_true] at hsp
        have hs1 : GroupOk { s with queues := setAt s.queues g rest } := gok_congr s _ rfl rfl rfl h
        have hitg : it.group = some g := hq g it (by rw [hqg]; simp)
        have hq1 : QueuesOk { s with queues := setAt s.queues g rest } := by
          intro g' x hx
          simp only [getD_setAt] at hx
          split at hx
          · rename_i hc; rw [← hc.1]; exact hq g x (by rw [hqg]; simp [hx])
          · exact hq g' x hx
        have hq2 : QueuesOk ({ s with queues := setAt s.queues g rest }.start it).1 := by
          unfold QueuesOk; rw [(start_gfacts _ it).2.2.2.2]; exact hq1
        refine ih _ (start_gok { s with queues := setAt s.queues g rest } it hs1 ?_) hq2
        intro g' hg'
        rw [hitg] at hg'; cases hg'; exact hsp.2
      · exact ⟨h, hq⟩

private theorem gsum_eraseP (s : SState) (p : Running → Bool) (g : Nat) (x : Running) (h : s.running.find? p = some x) :
    (s.running.map (grw s.groupMax g)).sum = ((s.running.eraseP p).map (grw s.groupMax g)).sum + grw s.groupMax g x :=
  sum_eraseP s.running p (grw s.groupMax g) x h

/-- a running future remembers its group slot iff it has a group (how `start` creates it) -/
def RunningOk (s : SState) : Prop := ∀ r ∈ s.running, (r.item.group.isSome = r.groupSlot.isSome)

/-- **For every test group, the sum of threads-required of its alive members (each capped at the group's max-threads) is at most
    max-threads** — preserved by every operation, together with the two bookkeeping invariants it needs -/
theorem group_weight_step (s : SState) (op : Op) (s' : SState) (started : List Running)
    (h : GroupOk s) (hq : QueuesOk s) (hr : RunningOk s) (hstep : s.step op = some (s', started)) :
    GroupOk s' ∧ QueuesOk s' := by
  cases op with
  | poll =>
    simp only [SState.step, SState.first, Option.some.injEq] at hstep
    have := pull_gok (s.pending.length + 1) s h hq
    rw [hstep] at this; exact this
  | complete id =>
    simp only [SState.step, SState.complete] at hstep
    split at hstep
    · cases hstep
    · rename_i r hfind
      simp only [Option.some.injEq, Prod.mk.injEq] at hstep
      obtain ⟨hs, _⟩ := hstep
      rw [← hs]
      have hmem : r ∈ s.running := List.mem_of_find?_eq_some hfind
      have hrg := hr r hmem
      obtain ⟨hlen, hall⟩ := h
      split
      · rename_i g gsl hg hgs
        -- the completed future belonged to group g: its weight is released there
        have hrem : GroupOk { s with running := s.running.eraseP (fun x => x.item.id == id),
                                     cur := s.cur - min r.item.weight s.maxW, slots := s.slots.release r.globalSlot,
                                     gcur := setAt s.gcur g (s.gcur.getD g 0 - min r.item.weight (s.groupMax.getD g 0)),
                                     gslots := setAt s.gslots g ((s.gslots.getD g {}).release gsl) } := by
          refine ⟨by simp [setAt, hlen], ?_⟩
          intro g'
          obtain ⟨h1, h2⟩ := hall g'
          have hsum := gsum_eraseP s (fun x => x.item.id == id) g' r hfind
          simp only [gsum] at h1 ⊢
          simp only [getD_setAt]
          by_cases hgg : g = g'
          · subst hgg
            have hgr : grw s.groupMax g r = min r.item.weight (s.groupMax.getD g 0) := by simp [grw, hg]
            by_cases hl : g < s.gcur.length
            · simp only [hl, and_self, if_true]
              exact ⟨by omega, by omega⟩
            · have hz : s.groupMax.getD g 0 = 0 := by
                simp only [List.getD_eq_getElem?_getD]
                rw [List.getElem?_eq_none (by omega)]; rfl
              simp only [hl, and_false, if_false]
              rw [hgr, hz] at hsum
              exact ⟨by simp at hsum; omega, h2⟩
          · have hgr : grw s.groupMax g' r = 0 := by
              have : ¬ r.item.group = some g' := by rw [hg]; intro e; exact hgg (Option.some.inj e)
              simp [grw, this]
            simp only [hgg, false_and, if_false]
            exact ⟨by omega, h2⟩
        have hq' : QueuesOk { s with running := s.running.eraseP (fun x => x.item.id == id),
                                     cur := s.cur - min r.item.weight s.maxW, slots := s.slots.release r.globalSlot,
                                     gcur := setAt s.gcur g (s.gcur.getD g 0 - min r.item.weight (s.groupMax.getD g 0)),
                                     gslots := setAt s.gslots g ((s.gslots.getD g {}).release gsl) } := hq
        have hd := drain_gok g ((s.queues.getD g []).length + 1) _ hrem hq'
        exact pull_gok _ _ hd.1 hd.2
      · rename_i hnot
        -- no group (a grouped future always carries a group slot): nothing is accounted in any group
        have hng : r.item.group = none := by
          cases hgo : r.item.group with
          | none => rfl
          | some g =>
            cases hso : r.groupSlot with
            | none => rw [hgo, hso] at hrg; simp at hrg
            | some gs => exact (hnot g gs hgo hso).elim
        have hrem : GroupOk { s with running := s.running.eraseP (fun x => x.item.id == id),
                                     cur := s.cur - min r.item.weight s.maxW, slots := s.slots.release r.globalSlot } := by
          refine ⟨hlen, ?_⟩
          intro g'
          obtain ⟨h1, h2⟩ := hall g'
          have hsum := gsum_eraseP s (fun x => x.item.id == id) g' r hfind
          have hgr : grw s.groupMax g' r = 0 := by simp [grw, hng]
          simp only [gsum] at h1 ⊢
          exact ⟨by omega, h2⟩
        exact pull_gok _ _ hrem hq

private theorem start_rok (s : SState) (it : Item) (h : RunningOk s) : RunningOk (s.start it).1 := by
  intro r hr
  have hrun : (s.start it).1.running = s.running ++ [(s.start it).2] := (start_gfacts s it).2.1
  rw [hrun] at hr
  rcases List.mem_append.mp hr with hr | hr
  · exact h r hr
  · simp only [List.mem_singleton] at hr; subst hr
    unfold SState.start
    cases hg : it.group <;> simp [hg]

private theorem pull_rok (fuel : Nat) : ∀ (s : SState), RunningOk s → RunningOk (s.pull fuel).1 := by
  induction fuel with
  | zero => intro s h; exact h
  | succ f ih =>
    intro s h
    simp only [SState.pull]
    split
    · exact h
    · split
      · exact h
      · split
        · exact ih _ (start_rok _ _ h)
        · split
          · exact ih _ (start_rok _ _ h)
          · exact ih _ h

private theorem drain_rok (g : Nat) (fuel : Nat) : ∀ (s : SState), RunningOk s → RunningOk (s.drainGroup g fuel).1 := by
  induction fuel with
  | zero => intro s h; exact h
  | succ f ih =>
    intro s h
    simp only [SState.drainGroup]
    split
    · exact h
    · split
      · exact ih _ (start_rok _ _ h)
      · exact h

theorem running_ok_step (s : SState) (op : Op) (s' : SState) (started : List Running)
    (hr : RunningOk s) (hstep : s.step op = some (s', started)) : RunningOk s' := by
  cases op with
  | poll =>
    simp only [SState.step, SState.first, Option.some.injEq] at hstep
    have := pull_rok (s.pending.length + 1) s hr
    rw [hstep] at this; exact this
  | complete id =>
    simp only [SState.step, SState.complete] at hstep
    split at hstep
    · cases hstep
    · rename_i r hfind
      simp only [Option.some.injEq, Prod.mk.injEq] at hstep
      obtain ⟨hs, _⟩ := hstep
      rw [← hs]
      have herase : ∀ x ∈ s.running.eraseP (fun x => x.item.id == id), x.item.group.isSome = x.groupSlot.isSome :=
        fun x hx => hr x (List.mem_of_mem_eraseP hx)
      split
      · exact pull_rok _ _ (drain_rok _ _ _ herase)
      · exact pull_rok _ _ herase

private theorem groupMax_step (s : SState) (op : Op) (s' : SState) (started : List Running)
    (hstep : s.step op = some (s', started)) : s'.groupMax = s.groupMax := by
  have hstart : ∀ (t : SState) (x : Item), (t.start x).1.groupMax = t.groupMax := fun t x => (start_gfacts t x).1
  have hpull : ∀ fuel (t : SState), (t.pull fuel).1.groupMax = t.groupMax := by
    intro fuel
    induction fuel with
    | zero => intro t; rfl
    | succ f ih =>
      intro t
      simp only [SState.pull]
      split
      · rfl
      · split
        · rfl
        · split
          · rw [ih, hstart]
          · split
            · rw [ih, hstart]
            · rw [ih]
  have hdrain : ∀ g fuel (t : SState), (t.drainGroup g fuel).1.groupMax = t.groupMax := by
    intro g fuel
    induction fuel with
    | zero => intro t; rfl
    | succ f ih =>
      intro t
      simp only [SState.drainGroup]
      split
      · rfl
      · split
        · rw [ih, hstart]
        · rfl
  cases op with
  | poll =>
    simp only [SState.step, SState.first, Option.some.injEq] at hstep
    have := hpull (s.pending.length + 1) s
    rw [hstep] at this; exact this
  | complete id =>
    simp only [SState.step, SState.complete] at hstep
    split at hstep
    · cases hstep
    · simp only [Option.some.injEq, Prod.mk.injEq] at hstep
      obtain ⟨hs, _⟩ := hstep
      rw [← hs]
      split
      · rw [hpull, hdrain]
      · rw [hpull]

/-- …hence in every reachable state, for every item list, every weight/group assignment and every completion order, and for
    every test group `g`: Σ min(threads-required, max-threads of g) over the alive members of `g` ≤ max-threads of `g`. -/
theorem group_weight_inv (maxW : Nat) (gm : List Nat) (items : List Item) (ops : List Op) (s' : SState)
    (h : runOps (SState.init maxW gm items) ops = some s') (g : Nat) :
    gsum s' g ≤ gm.getD g 0 ∧ s'.groupMax = gm := by
  suffices hgen : ∀ (ops : List Op) (s : SState), GroupOk s → QueuesOk s → RunningOk s → s.groupMax = gm → runOps s ops = some s' →
      GroupOk s' ∧ s'.groupMax = gm by
    have := hgen ops _ (group_init_ok maxW gm items) (queues_init_ok maxW gm items) (by intro r hr; simp [SState.init] at hr) rfl h
    obtain ⟨⟨_, hall⟩, hgm⟩ := this
    obtain ⟨h1, h2⟩ := hall g
    rw [← hgm]; exact ⟨by omega, rfl⟩
  intro ops
  induction ops with
  | nil => intro s hs _ _ hm h; simp [runOps] at h; subst h; exact ⟨hs, hm⟩
  | cons o os ih =>
    intro s hs hq hr hm h
    simp only [runOps] at h
    split at h
    · cases h
    · rename_i s1 st hstep
      have hg := group_weight_step s o s1 st hs hq hr hstep
      exact ih s1 hg.1 hg.2 (running_ok_step s o s1 st hr hstep) (by rw [groupMax_step s o s1 st hstep, hm]) h

-- non-vacuity: group 0 (max-threads 2) with members of weight 3 (capped to 2) and 1; 4 test threads
example : ∃ s', runOps (SState.init 4 [2] [⟨0, 3, some 0⟩, ⟨1, 1, some 0⟩, ⟨2, 1, none⟩]) [.poll] = some s' ∧
    gsum s' 0 = 2 ∧ s'.running.length = 2 := ⟨_, rfl, by decide, by decide⟩

/-! ## Dispatch order: descending priority, then (binary id, test name) -/

open NextestModel.Priority in
private theorem prioLe_trans (a b c : PTest) : prioLe a b = true → prioLe b c = true → prioLe a c = true := by
  simp [prioLe]; omega

open NextestModel.Priority in
private theorem prioLe_total (a b : PTest) : (prioLe a b || prioLe b a) = true := by
  simp [prioLe]; omega

open NextestModel.Priority in
/-- **Tests are dispatched in descending priority and, within a priority, in the order
    `iter_tests` yields them (binary id, then test name)**: the queue is a permutation of the test
    list (nothing dropped, nothing duplicated), sorted by descending priority, and stable — any two
    tests `a` before `b` in (binary id, name) order with `priority a ≥ priority b` stay in that order. -/
theorem priority_queue_order (l : List PTest) :
    (queue l).Perm l ∧ (queue l).Pairwise (fun a b => b.priority ≤ a.priority) ∧
    (∀ a b, List.Sublist [a, b] l → b.priority ≤ a.priority → List.Sublist [a, b] (queue l)) := by
  refine ⟨List.mergeSort_perm l prioLe, ?_, ?_⟩
  · have := List.pairwise_mergeSort prioLe_trans prioLe_total l
    exact this.imp (by intro a b h; simpa [prioLe] using h)
  · intro a b hsub hp
    exact List.pair_sublist_mergeSort prioLe_trans prioLe_total (by simpa [prioLe] using hp) hsub

end NextestModel.C08
