/-
  C18 — setup scripts run iff needed, serially, first; env reaches matching tests only.
  Property theorems only (which scripts, which order, which variables; "serially, before any test"
  is the executor's sequencing, observed end-to-end; a failing script cancelling everything with
  exit status 105 is C10.script_failure_always_cancels + C01.exit_codes).
-/
import NextestModel.Model.Scripts
namespace NextestModel.C18
open NextestModel.Scripts

/-- **A setup script is executed iff some rule of the active profile that lists it matches, by
    platform and filter, at least one selected test** (and it is a defined script) -/
theorem enabled_iff (defs : List String) (rules : List Rule) (selected : List Nat) (s : String) :
    s ∈ enabled defs rules selected ↔
      (s ∈ defs ∧ ∃ r ∈ rules, s ∈ r.setup ∧ ∃ t ∈ selected, r.on t = true) := by
  simp only [enabled, List.mem_filter, List.any_eq_true, enabledFor, Bool.and_eq_true, List.contains_iff_mem]
  constructor
  · rintro ⟨hd, t, ht, r, hr, hs, ho⟩; exact ⟨hd, r, hr, hs, t, ht, ho⟩
  · rintro ⟨hd, r, hr, hs, t, ht, ho⟩; exact ⟨hd, t, ht, r, hr, hs, ho⟩

/-- **The enabled scripts run in the order in which they are defined**, not in the order a rule
    lists them: the run list is a sublist of the definition list -/
theorem order_is_definition_order (defs : List String) (rules : List Rule) (selected : List Nat) :
    (enabled defs rules selected).Sublist defs := List.filter_sublist

/-- no test selected ⇒ no script runs -/
theorem nothing_selected_nothing_runs (defs : List String) (rules : List Rule) :
    enabled defs rules [] = [] := by
  simp [enabled]

/-- **Names beginning with `NEXTEST` are rejected, as are lines without `=`**: such a file yields no
    variable at all -/
theorem nextest_keys_rejected (pre post : List (List Char)) (line : List Char)
    (h : splitEq line = none ∨ ∃ k v, splitEq line = some (k, v) ∧ reserved k = true) :
    parseEnvFile (pre ++ line :: post) = none := by
  induction pre with
  | nil =>
    simp only [List.nil_append, parseEnvFile]
    rcases h with h | ⟨k, v, h, hk⟩
    · simp [h]
    · simp [h, hk]
  | cons l ls ih =>
    simp only [List.cons_append, parseEnvFile]
    cases splitEq l with
    | none => rfl
    | some kv => obtain ⟨k, v⟩ := kv; simp only; split <;> simp [ih]

/-- and when a file is accepted, no variable it yields begins with `NEXTEST` -/
theorem accepted_keys_not_reserved : ∀ (lines : List (List Char)) (m : List (List Char × List Char)),
    parseEnvFile lines = some m → ∀ e ∈ m, reserved e.1 = false := by
  intro lines
  induction lines with
  | nil => intro m h; simp [parseEnvFile] at h; subst h; simp
  | cons l ls ih =>
    intro m h
    simp only [parseEnvFile] at h
    cases hs : splitEq l with
    | none => simp [hs] at h
    | some kv =>
      obtain ⟨k, v⟩ := kv
      simp only [hs] at h
      split at h
      · cases h
      · rename_i hk
        cases hp : parseEnvFile ls with
        | none => simp [hp] at h
        | some m' =>
          simp [hp] at h; subst h
          intro e he
          simp at he
          rcases he with rfl | he
          · simpa using hk
          · exact ih m' hp e he

/-- **Variables a script writes are given to exactly those tests matched by a rule listing that
    script**: a test no rule of which lists any executed script gets nothing; a variable written by
    exactly one executed script reaches test `t` iff that script is enabled for `t`. -/
theorem env_scope (rules : List Rule) (s : String) (m : List (List Char × List Char)) (t : Nat) (k v : List Char)
    (hv : mapGet m k = some v) :
    envFor rules [(s, m)] t k = (if enabledFor rules s t then some v else none) := by
  simp only [envFor, List.filterMap_cons, List.filterMap_nil]
  cases enabledFor rules s t <;> simp [hv]

theorem env_not_for_unmatched (rules : List Rule) (executed : List (String × List (List Char × List Char))) (t : Nat) (k : List Char)
    (h : ∀ e ∈ executed, enabledFor rules e.1 t = false) : envFor rules executed t k = none := by
  simp only [envFor]
  have : executed.filterMap (fun (s, m) => if enabledFor rules s t then mapGet m k else none) = [] := by
    rw [List.filterMap_eq_nil_iff]
    intro e he; obtain ⟨s, m⟩ := e; simp [h (s, m) he]
  rw [this]; rfl

/-! ## Non-vacuity -/
example : enabled ["a", "b", "c"] [⟨["c", "a"], [true, false]⟩, ⟨["b"], [false, false]⟩] [0, 1] = ["a", "c"] := by decide

end NextestModel.C18
