/-
  C18 — setup scripts run iff needed, serially, first; env reaches matching tests only.
  Property theorems only (which scripts, which order, which variables; "serially, before any test"
  is the executor's sequencing, observed end-to-end; a failing script cancelling everything with
  exit status 105 is C10.script_failure_always_cancels + C01.exit_codes).
-/
import NextestModel.Gen.Tables
import NextestModel.Model.Scripts
namespace NextestModel.C18
open NextestModel.Scripts

/-- **A setup script is executed iff some rule of the active profile that lists it matches, by
    platform and filter, at least one selected test** (and it is a defined script) -/
theorem enabled_iff (defs : List String) (rules : List Rule) (selected : List Nat) (s : String) :
    s ∈ enabled defs rules selected ↔
      (s ∈ defs ∧ ∃ r ∈ rules, s ∈ r.setup ∧ ∃ t ∈ selected, r.on t = true) := by
  simp only [enabled, List.mem_filter, List.any_eq_true, enabledFor, Bool.and_eq_true, List.contains_iff_mem]
  constructor
  · rintro ⟨hd, t, ht, r, hr, hs, ho⟩; exact ⟨hd, r, hr, hs, t, ht, ho⟩
  · rintro ⟨hd, r, hr, hs, t, ht, ho⟩; exact ⟨hd, t, ht, r, hr, hs, ho⟩

/-- **The enabled scripts run in the order in which they are defined**, not in the order a rule
    lists them: the run list is a sublist of the definition list -/
theorem order_is_definition_order (defs : List String) (rules : List Rule) (selected : List Nat) :
    (enabled defs rules selected).Sublist defs := List.filter_sublist

/-- no test selected ⇒ no script runs -/
theorem nothing_selected_nothing_runs (defs : List String) (rules : List Rule) :
    enabled defs rules [] = [] := by
  simp [enabled]

/-- **Names beginning with `NEXTEST` are rejected, as are lines without `=`**: such a file yields no
    variable at all -/
theorem nextest_keys_rejected (pre post : List (List Char)) (line : List Char)
    (h : splitEq line = none ∨ ∃ k v, splitEq line = some (k, v) ∧ reserved k = true) :
    parseEnvFile (pre ++ line :: post) = none := by
  induction pre with
  | nil =>
    simp only [List.nil_append, parseEnvFile]
    rcases h with h | ⟨k, v, h, hk⟩
    · simp [h]
    · simp [h, hk]
  | cons l ls ih =>
    simp only [List.cons_append, parseEnvFile]
    cases splitEq l with
    | none => rfl
    | some kv => obtain ⟨k, v⟩ := kv; simp only; split <;> simp [ih]

/-- and when a file is accepted, no variable it yields begins with `NEXTEST` -/
theorem accepted_keys_not_reserved : ∀ (lines : List (List Char)) (m : List (List Char × List Char)),
    parseEnvFile lines = some m → ∀ e ∈ m, reserved e.1 = false := by
  intro lines
  induction lines with
  | nil => intro m h; simp [parseEnvFile] at h; subst h; simp
  | cons l ls ih =>
    intro m h
    simp only [parseEnvFile] at h
    cases hs : splitEq l with
    | none => simp [hs] at h
    | some kv =>
      obtain ⟨k, v⟩ := kv
      simp only [hs] at h
      split at h
      · cases h
      · rename_i hk
        cases hp : parseEnvFile ls with
        | none => simp [hp] at h
        | some m' =>
          simp [hp] at h; subst h
          intro e he
          simp at he
          rcases he with rfl | he
          · simpa using hk
          · exact ih m' hp e he

/-- **Variables a script writes are given to exactly those tests matched by a rule listing that
    script**: a test no rule of which lists any executed script gets nothing; a variable written by
    exactly one executed script reaches test `t` iff that script is enabled for `t`. -/
theorem env_scope (rules : List Rule) (s : String) (m : List (List Char × List Char)) (t : Nat) (k v : List Char)
    (hv : mapGet m k = some v) :
    envFor rules [(s, m)] t k = (if enabledFor rules s t then some v else none) := by
  simp only [envFor, List.filterMap_cons, List.filterMap_nil]
  cases enabledFor rules s t <;> simp [hv]

theorem env_not_for_unmatched (rules : List Rule) (executed : List (String × List (List Char × List Char))) (t : Nat) (k : List Char)
    (h : ∀ e ∈ executed, enabledFor rules e.1 t = false) : envFor rules executed t k = none := by
  simp only [envFor]
  have : executed.filterMap (fun (s, m) => if enabledFor rules s t then mapGet m k else none) = [] := by
    rw [List.filterMap_eq_nil_iff]
    intro e he; obtain ⟨s, m⟩ := e; simp [h (s, m) he]
  rw [this]; rfl

/-! ## Non-vacuity -/
example : enabled ["a", "b", "c"] [⟨["c", "a"], [true, false]⟩, ⟨["b"], [false, false]⟩] [0, 1] = ["a", "c"] := by decide

/-! ## The script loop: serially, in definition order -/

/-- what is running at each point of an event list: a script between its `spawn` and its `finished` -/
def SerialFrom : List SEv → Prop
  | [] => True
  | .started _ :: .spawn i :: .finished j :: rest => i = j ∧ SerialFrom rest
  | .started _ :: rest => (∀ i, rest.head? ≠ some (.spawn i)) ∧ SerialFrom rest
  | _ => False

private theorem runFrom_spec (env : LoopEnv) : ∀ (n i : Nat),
    SerialFrom (runFrom env i n).1 ∧
    scriptSpawns (runFrom env i n).1 = (List.range' i n).filter env.ack ∧
    (runFrom env i n).2 = (List.range' i n).filter (fun k => env.ack k && env.ok k) ∧
    (∀ k, (runFrom env i n).1.head? ≠ some (.spawn k)) := by
  intro n
  induction n with
  | zero => intro i; simp [runFrom, SerialFrom, scriptSpawns]
  | succ n ih =>
    intro i
    obtain ⟨h1, h2, h3, h4⟩ := ih (i + 1)
    simp only [runFrom]
    by_cases ha : env.ack i = true
    · simp only [ha, if_true, List.cons_append, List.nil_append, SerialFrom, scriptSpawns, List.range'_succ, List.filter_cons, Bool.true_and]
      refine ⟨⟨trivial, h1⟩, by rw [h2], ?_, by intro k; simp⟩
      by_cases ho : env.ok i = true
      · simp [ho, h3]
      · simp [ho, h3]
    · have ha' : env.ack i = false := by simpa using ha
      simp only [ha', Bool.false_eq_true, if_false, scriptSpawns, List.range'_succ, List.filter_cons, Bool.false_and]
      refine ⟨?_, h2, h3, by intro k; simp⟩
      cases hrest : (runFrom env (i + 1) n).1 with
      | nil => simp [SerialFrom]
      | cons e es =>
        rw [hrest] at h1 h4
        cases e with
        | spawn k => exact absurd rfl (h4 k)
        | started k => exact ⟨by intro j; simp, h1⟩
        | finished k => exact ⟨by intro j; simp, h1⟩

/-- **setup scripts run one at a time, in the order in which they are defined**: in the event list of `run_setup_scripts`, every
    spawn is directly preceded by that script's acknowledged start and directly followed by its own `finished` — so script `i+1`
    starts only after script `i` has finished — and the scripts spawned are exactly the acknowledged ones, in index order -/
theorem scripts_serial_in_order (env : LoopEnv) (total : Nat) :
    SerialFrom (runScripts env total).1 ∧ scriptSpawns (runScripts env total).1 = (List.range total).filter env.ack := by
  obtain ⟨h1, h2, _, _⟩ := runFrom_spec env total 0
  exact ⟨h1, by simpa [runScripts, List.range_eq_range'] using h2⟩

/-- a script whose start the dispatcher refuses (a previous script failed — `C10.script_failure_always_cancels` — or the run
    was cancelled otherwise) is not run, and **only scripts that ran successfully with a well-formed env file contribute
    variables** (in script order, which `env_scope` then resolves last-wins) -/
theorem scripts_data (env : LoopEnv) (total : Nat) :
    (runScripts env total).2 = (List.range total).filter (fun k => env.ack k && env.ok k) := by
  obtain ⟨_, _, h3, _⟩ := runFrom_spec env total 0
  simpa [runScripts, List.range_eq_range'] using h3

-- non-vacuity: three scripts, the second fails; the dispatcher then refuses the third
example : runScripts { ack := fun i => decide (i < 2), ok := fun i => i == 0 } 3 =
    ([.started 0, .spawn 0, .finished 0, .started 1, .spawn 1, .finished 1, .started 2], [0]) := by decide

/-- **`run_setup_scripts` is the loop the model runs** (executor.rs and imp.rs, as read on this run): the scripts are taken in the
    profile's order, each one's future is awaited inside the loop before the next is built, nothing is spawned or joined
    concurrently, a refused start runs nothing, only a script's own env map is handed on — and the test queue is built only after
    the scripts' data has been received (scripts first); `scripts_serial_in_order` and `scripts_data` are about exactly this loop -/
theorem script_loop_is_the_models : ∀ r ∈ Gen.scriptSequencing, r.2 = true := by decide

end NextestModel.C18
