/-
  C05 — filterset expressions denote the documented sets under the documented precedence.
  Property theorems only.
-/
import NextestModel.Lemmas.Reach
import NextestModel.Model.Syntax
import NextestModel.Gen.Tables
namespace NextestModel.C05
open NextestModel NextestModel.Syntax

/-! ## Denotation: what a filterset *means* (the documented set operations) -/

/-- the set denoted by a single predicate, as a membership test on a query -/
def denoteSet (g : Graph) (ro : RegexOracle) (dflt : Bool) (q : Query) : SetDef → Bool
  | .unary .test m _ => m.isMatch ro q.testName
  | .unary .binary m _ => m.isMatch ro q.binaryName
  | .unary .binaryId m _ => m.isMatch ro q.binaryId
  | .unary .kind m _ => m.isMatch ro q.kind
  | .unary .package m _ => (g.matching ro m).contains q.package
  | .unary .deps m _ => (g.depsOf ro m).contains q.package
  | .unary .rdeps m _ => (g.rdepsOf ro m).contains q.package
  | .platform p _ => q.platform == p
  | .default _ => dflt
  | .all => true
  | .none => false

/-- complement, intersection, difference (`a ∧ ¬b`), union; parentheses only group;
    the operator's spelling plays no role -/
def denote (g : Graph) (ro : RegexOracle) (dflt : Bool) (q : Query) : PExpr → Bool
  | .not _ e => !denote g ro dflt q e
  | .union _ a b => denote g ro dflt q a || denote g ro dflt q b
  | .inter _ a b => denote g ro dflt q a && denote g ro dflt q b
  | .diff a b => denote g ro dflt q a && !denote g ro dflt q b
  | .parens e => denote g ro dflt q e
  | .set s => denoteSet g ro dflt q s

/-- Evaluating the compiled filterset on a test answers exactly membership in the denoted set. -/
theorem eval_is_membership (g : Graph) (ro : RegexOracle) (dflt : Bool) (q : Query) (e : PExpr) :
    (compile g ro e).matchesTest ro dflt q = denote g ro dflt q e := by
  induction e with
  | not op e ih => simp [compile, CExpr.matchesTest, denote, ih]
  | union op a b iha ihb => simp [compile, CExpr.matchesTest, denote, iha, ihb]
  | inter op a b iha ihb => simp [compile, CExpr.matchesTest, denote, iha, ihb]
  | diff a b iha ihb => simp [compile, CExpr.matchesTest, denote, iha, ihb]
  | parens e ih => simp [compile, denote, ih]
  | set s =>
    cases s with
    | unary p m sp => cases p <;> simp [compile, compileSet, CExpr.matchesTest, Leaf.matchesTest, denote, denoteSet]
    | _ => simp [compile, compileSet, CExpr.matchesTest, Leaf.matchesTest, denote, denoteSet]

/-- two expressions that differ only in how operators are spelled -/
inductive SameUpToSpelling : PExpr → PExpr → Prop
  | not (o1 o2) {a b} : SameUpToSpelling a b → SameUpToSpelling (.not o1 a) (.not o2 b)
  | union (o1 o2) {a b c d} : SameUpToSpelling a c → SameUpToSpelling b d → SameUpToSpelling (.union o1 a b) (.union o2 c d)
  | inter (o1 o2) {a b c d} : SameUpToSpelling a c → SameUpToSpelling b d → SameUpToSpelling (.inter o1 a b) (.inter o2 c d)
  | diff {a b c d} : SameUpToSpelling a c → SameUpToSpelling b d → SameUpToSpelling (.diff a b) (.diff c d)
  | parens {a b} : SameUpToSpelling a b → SameUpToSpelling (.parens a) (.parens b)
  | set (s) : SameUpToSpelling (.set s) (.set s)

/-- …identically for every spelling of each operator (`and`/`&`, `or`/`|`/`+`, `not`/`!`). -/
theorem spelling_irrelevant (g : Graph) (ro : RegexOracle) (dflt : Bool) (q : Query) (e1 e2 : PExpr)
    (h : SameUpToSpelling e1 e2) :
    (compile g ro e1).matchesTest ro dflt q = (compile g ro e2).matchesTest ro dflt q := by
  rw [eval_is_membership, eval_is_membership]
  induction h with
  | not o1 o2 _ ih => simp [denote, ih]
  | union o1 o2 _ _ ih1 ih2 => simp [denote, ih1, ih2]
  | inter o1 o2 _ _ ih1 ih2 => simp [denote, ih1, ih2]
  | diff _ _ ih1 ih2 => simp [denote, ih1, ih2]
  | parens _ ih => simp [denote, ih]
  | set s => rfl

/-! ## Binary-level (Kleene) evaluation is sound for every test of the binary -/

/-- same binary, any test name -/
def withTest (q : Query) (t : List Char) : Query := { q with testName := t }

private theorem kOr_some (x y : Option Bool) (b : Bool) (h : kOr x y = some b) :
    (x = some true ∧ b = true) ∨ (y = some true ∧ b = true) ∨ (x = some false ∧ y = some false ∧ b = false) := by
  cases x with
  | none => cases y with
    | none => simp [kOr] at h
    | some w => cases w <;> simp_all [kOr]
  | some v => cases v <;> cases y with
    | none => simp_all [kOr]
    | some w => cases w <;> simp_all [kOr]

private theorem kAnd_some (x y : Option Bool) (b : Bool) (h : kAnd x y = some b) :
    (x = some false ∧ b = false) ∨ (y = some false ∧ b = false) ∨ (x = some true ∧ y = some true ∧ b = true) := by
  cases x with
  | none => cases y with
    | none => simp [kAnd] at h
    | some w => cases w <;> simp_all [kAnd]
  | some v => cases v <;> cases y with
    | none => simp_all [kAnd]
    | some w => cases w <;> simp_all [kAnd]

/-- If the binary-level evaluation of a compiled filterset gives a definite answer `b`, then the
    test-level evaluation gives `b` for *every* test name of that binary (the default filter's
    binary-level answer being, in the same sense, consistent with its test-level value).  This is
    what makes skipping a binary on `Some(false)` safe (C04 `binary_shortcut_sound`). -/
theorem kleene_sound (ro : RegexOracle) (q : Query) (t : List Char) (dt : Option Bool) (d : Bool)
    (hd : dt = none ∨ dt = some d) (e : CExpr) :
    ∀ b, e.matchesBinary ro dt q = some b → e.matchesTest ro d (withTest q t) = b := by
  induction e with
  | not e ih =>
    intro b h
    simp only [CExpr.matchesBinary] at h
    cases hb : e.matchesBinary ro dt q with
    | none => simp [hb, kNot] at h
    | some v => simp [hb, kNot] at h; simp [CExpr.matchesTest, ih v hb, h]
  | union a b' iha ihb =>
    intro b h
    simp only [CExpr.matchesBinary] at h
    rcases kOr_some _ _ _ h with ⟨h1, h2⟩ | ⟨h1, h2⟩ | ⟨h1, h2, h3⟩
    · simp [CExpr.matchesTest, iha _ h1, h2]
    · simp [CExpr.matchesTest, ihb _ h1, h2]
    · simp [CExpr.matchesTest, iha _ h1, ihb _ h2, h3]
  | inter a b' iha ihb =>
    intro b h
    simp only [CExpr.matchesBinary] at h
    rcases kAnd_some _ _ _ h with ⟨h1, h2⟩ | ⟨h1, h2⟩ | ⟨h1, h2, h3⟩
    · simp [CExpr.matchesTest, iha _ h1, h2]
    · simp [CExpr.matchesTest, ihb _ h1, h2]
    · simp [CExpr.matchesTest, iha _ h1, ihb _ h2, h3]
  | set l =>
    intro b h
    cases l <;> first
      | (simp_all [CExpr.matchesBinary, CExpr.matchesTest, Leaf.matchesBinary, Leaf.matchesTest, withTest]; done)
      | (rcases hd with hd | hd <;> simp_all [CExpr.matchesBinary, CExpr.matchesTest, Leaf.matchesBinary, Leaf.matchesTest, withTest])

/-! ## Precedence and associativity: the shape of every expression the parser can produce -/

mutual
/-- a set, a negation of a basic expression, or a parenthesised expression -/
inductive IsBasic : PExpr → Prop
  | set (s) : IsBasic (.set s)
  | not (op) {e} : IsBasic e → IsBasic (.not op e)
  | parens {e} : IsOr e → IsBasic (.parens e)
/-- a left-nested chain of `and`/`&`/`-` over basic expressions -/
inductive IsAnd : PExpr → Prop
  | basic {e} : IsBasic e → IsAnd e
  | inter (op) {a b} : IsAnd a → IsBasic b → IsAnd (.inter op a b)
  | diff {a b} : IsAnd a → IsBasic b → IsAnd (.diff a b)
/-- a left-nested chain of `or`/`|`/`+` over and-level expressions -/
inductive IsOr : PExpr → Prop
  | and {e} : IsAnd e → IsOr e
  | union (op) {a b} : IsOr a → IsAnd b → IsOr (.union op a b)
end

private theorem combineOr_shape {acc : ERes} {op e2 r} (h : combineOr acc op e2 = some r)
    (ha : ∀ a, acc = some a → IsOr a) (hb : ∀ b, e2 = some b → IsAnd b) : IsOr r := by
  unfold combineOr at h
  split at h
  · rename_i o x y
    cases h
    exact IsOr.union o (ha x rfl) (hb y rfl)
  · cases h

private theorem combineAnd_shape {acc : ERes} {op e2 r} (h : combineAnd acc op e2 = some r)
    (ha : ∀ a, acc = some a → IsAnd a) (hb : ∀ b, e2 = some b → IsBasic b) : IsAnd r := by
  unfold combineAnd at h
  split at h
  · rename_i o x y; cases h; exact IsAnd.inter o (ha x rfl) (hb y rfl)
  · rename_i x y; cases h; exact IsAnd.diff (ha x rfl) (hb y rfl)
  · cases h

private theorem shape_all (cx : Ctx) : ∀ f,
    (∀ st e st', parseExpr cx f st = (some e, st') → IsOr e) ∧
    (∀ acc st e st', (∀ a, acc = some a → IsOr a) → orLoop cx f acc st = (some e, st') → IsOr e) ∧
    (∀ st e st', parseAndOr cx f st = (some e, st') → IsAnd e) ∧
    (∀ acc st e st', (∀ a, acc = some a → IsAnd a) → andLoop cx f acc st = (some e, st') → IsAnd e) ∧
    (∀ st e st', basicOrMissing cx f st = (some e, st') → IsBasic e) ∧
    (∀ st e st', parseBasic cx f st = some (some e, st') → IsBasic e) := by
  intro f
  induction f with
  | zero =>
    refine ⟨?_, ?_, ?_, ?_, ?_, ?_⟩ <;> intros <;> simp_all [parseExpr, orLoop, parseAndOr, andLoop, basicOrMissing, parseBasic]
  | succ f ih =>
    obtain ⟨ihE, ihOL, ihA, ihAL, ihBM, ihB⟩ := ih
    refine ⟨?_, ?_, ?_, ?_, ?_, ?_⟩
    · intro st e st' h
      simp only [parseExpr] at h
      exact ihOL _ _ _ _ (fun a ha => IsOr.and (ihA _ _ _ (by rw [← ha]))) h
    · intro acc st e st' hacc h
      simp only [orLoop] at h
      split at h
      · cases h; exact hacc _ rfl
      · rename_i op st1 _
        refine ihOL _ _ _ _ ?_ h
        intro a ha
        exact combineOr_shape ha hacc (fun b hb => ihA _ _ _ (by rw [← hb]))
    · intro st e st' h
      simp only [parseAndOr] at h
      exact ihAL _ _ _ _ (fun a ha => IsAnd.basic (ihBM _ _ _ (by rw [← ha]))) h
    · intro acc st e st' hacc h
      simp only [andLoop] at h
      split at h
      · cases h; exact hacc _ rfl
      · rename_i op st1 _
        refine ihAL _ _ _ _ ?_ h
        intro a ha
        exact combineAnd_shape ha hacc (fun b hb => ihBM _ _ _ (by rw [← hb]))
    · intro st e st' h
      simp only [basicOrMissing] at h
      split at h
      · rename_i r hr
        cases r with
        | mk e1 st1 => simp at h; obtain ⟨rfl, rfl⟩ := h; exact ihB _ _ _ hr
      · simp [missingExpr] at h
    · intro st e st' h
      simp only [parseBasic] at h
      split at h
      · rename_i s st1 _
        simp at h
        obtain ⟨h1, _⟩ := h
        cases s with
        | none => simp at h1
        | some sd => simp at h1; subst h1; exact IsBasic.set sd
      · split at h
        · rename_i op r _
          simp at h
          obtain ⟨h1, _⟩ := h
          cases hb : (basicOrMissing cx f (St.withRest (St.withRest st (skipWs st.rest)) r)).1 with
          | none => simp [hb] at h1
          | some e1 =>
            simp [hb] at h1; subst h1
            exact IsBasic.not op (ihBM _ _ _ (by rw [← hb]))
        · split at h
          · rename_i r _
            simp at h
            obtain ⟨h1, _⟩ := h
            cases hb : (parseExpr cx f (St.withRest (St.withRest st (skipWs st.rest)) r)).1 with
            | none => simp [hb] at h1
            | some e1 =>
              simp [hb] at h1; subst h1
              exact IsBasic.parens (ihE _ _ _ (by rw [← hb]))
          · simp at h

/-- **Precedence and associativity.**  For every input string whatsoever, if the parser produces an
    expression it has the documented shape: the operand of `not`/`!` is a basic expression (so `not`
    binds tighter than every binary operator); the right operand of `and`/`&`/`-` is basic and the
    left one contains no un-parenthesised `or` (so these bind tighter than `or`/`|`/`+` and
    associate to the left among themselves); the right operand of `or`/`|`/`+` contains no
    un-parenthesised `or` (left associativity); anything else needs parentheses. -/
theorem parse_shape (input : List Char) (rv gv : List (List Char × Bool)) (re : List (List Char × Nat × Nat)) (e : PExpr) (st : St)
    (h : parseTop (mkCtx input rv gv re) input = (some e, st)) : IsOr e := by
  unfold parseTop at h
  simp only at h
  have key := (shape_all (mkCtx input rv gv re) (fuelFor input)).1
  generalize hp : parseExpr (mkCtx input rv gv re) (fuelFor input) { rest := input, errs := [], needs := [] } = r at h
  obtain ⟨e1, st1⟩ := r
  split at h
  · simp at h; obtain ⟨rfl, _⟩ := h; exact key _ _ _ hp
  · simp at h; obtain ⟨rfl, _⟩ := h; exact key _ _ _ hp

/-- corollaries stated outright so they cannot be weakened silently -/
theorem not_operand_is_basic {op e} (h : IsOr (.not op e)) : IsBasic e := by
  cases h with
  | and h => cases h with
    | basic h => cases h with
      | not _ h => exact h

theorem and_binds_tighter_than_or {op a b} (h : IsOr (.inter op a b)) :
    (∀ o x y, a ≠ .union o x y) ∧ (∀ o x y, b ≠ .union o x y) ∧ (∀ o x y, b ≠ .inter o x y) ∧ (∀ x y, b ≠ .diff x y) := by
  cases h with
  | and h => cases h with
    | basic h => cases h
    | inter _ ha hb =>
      refine ⟨?_, ?_, ?_, ?_⟩
      · intro o x y hxy; subst hxy; cases ha with
        | basic hh => cases hh
      · intro o x y hxy; subst hxy; cases hb
      · intro o x y hxy; subst hxy; cases hb
      · intro x y hxy; subst hxy; cases hb

theorem or_is_left_associative {op a b} (h : IsOr (.union op a b)) : ∀ o x y, b ≠ .union o x y := by
  intro o x y hxy; subst hxy
  cases h with
  | and h => cases h with
    | basic h => cases h
  | union _ _ hb => cases hb with
    | basic hh => cases hh

/-! ## `deps()` / `rdeps()`: reflexive-transitive reachability -/

section reach
open NextestModel.ReachLemmas

/-- **`depends_on` decides exactly the reflexive-transitive closure of the dependency edges** — soundness and COMPLETENESS of the
    fuelled search (fuel = number of packages), for every graph whose edges point to packages of the graph: cycles, diamonds,
    paths through non-workspace packages, any size.  Completeness is the part testing cannot settle: a walk is shortened to one
    without repeated packages, and such a walk has at most as many vertices as there are packages. -/
theorem depends_on_is_reachability (g : Graph) (hv : Valid g) (a b : Nat) (ha : a < g.names.length) :
    g.dependsOn a b = true ↔ Reach g a b :=
  ⟨reachF_sound g _ a b, reachF_complete g hv a b ha⟩

private theorem wsIds_lt (g : Graph) (i : Nat) (h : i ∈ g.wsIds) : i < g.names.length := by
  simp only [Graph.wsIds, List.mem_filter, List.mem_range] at h; exact h.1

/-- **`deps(m)` is the set of workspace packages reachable from a workspace package matching `m`** (itself included; paths may
    leave the workspace), and **`rdeps(m)`** the set of workspace packages from which one is reachable -/
theorem deps_rdeps_membership (g : Graph) (hv : Valid g) (ro : RegexOracle) (m : Matcher) (j : Nat) :
    (j ∈ g.depsOf ro m ↔ j ∈ g.wsIds ∧ ∃ i ∈ g.matching ro m, Reach g i j) ∧
    (j ∈ g.rdepsOf ro m ↔ j ∈ g.wsIds ∧ ∃ i ∈ g.matching ro m, Reach g j i) := by
  have hm : ∀ i ∈ g.matching ro m, i < g.names.length := by
    intro i hi
    simp only [Graph.matching, List.mem_filter] at hi
    exact wsIds_lt g i hi.1
  constructor
  · simp only [Graph.depsOf, List.mem_filter, List.any_eq_true]
    constructor
    · rintro ⟨hj, i, hi, hd⟩
      exact ⟨hj, i, hi, (depends_on_is_reachability g hv i j (hm i hi)).mp hd⟩
    · rintro ⟨hj, i, hi, hr⟩
      exact ⟨hj, i, hi, (depends_on_is_reachability g hv i j (hm i hi)).mpr hr⟩
  · simp only [Graph.rdepsOf, List.mem_filter, List.any_eq_true]
    constructor
    · rintro ⟨hj, i, hi, hd⟩
      exact ⟨hj, i, hi, (depends_on_is_reachability g hv j i (wsIds_lt g j hj)).mp hd⟩
    · rintro ⟨hj, i, hi, hr⟩
      exact ⟨hj, i, hi, (depends_on_is_reachability g hv j i (wsIds_lt g j hj)).mpr hr⟩

-- non-vacuity: a cycle 0 → 1 → 2 → 0 with a tail 2 → 3 through a non-workspace package 2
example : let g : Graph := { names := [['a'], ['b'], ['c'], ['d']], workspace := [true, true, false, true], edges := [[1], [2], [0, 3], []] }
    Valid g ∧ g.dependsOn 0 3 = true ∧ g.dependsOn 3 0 = false := by
  refine ⟨?_, by decide, by decide⟩
  intro i c hc
  simp only [Graph.succ] at hc
  match i with
  | 0 => simp at hc; subst hc; decide
  | 1 => simp at hc; subst hc; decide
  | 2 => simp at hc; rcases hc with rfl | rfl <;> decide
  | 3 => simp at hc
  | n + 4 => simp at hc

end reach

/-! ## Tie to the source: predicates and their documented default matchers -/

def dmName : DefaultMatcher → String
  | .equal => "equal" | .contains => "contains" | .glob => "glob"

/-- The predicate table of the model parser — names, `alt` order and default matcher of each
    predicate — is the one in `parse_set_def` as extracted on this run: package, deps, rdeps,
    binary_id, binary ↦ glob; kind ↦ equal; test ↦ contains; then platform, default, all, none. -/
theorem default_matchers :
    Gen.setDefTable.map (fun r => (r.1, r.2.1)) =
      unaryTable.map (fun r => (r.1, dmName r.2.1)) ++
        [("platform", "platform"), ("default", "nullary"), ("all", "nullary"), ("none", "nullary")] := by
  decide

end NextestModel.C05
