/-
  C02 — "every selected test runs once to one final result": the liveness half on the dispatcher × units system with the retry
  policy made explicit (Model/System `BSys`: `left i` failed attempts of unit `i` may still be retried).  Property theorems only.
-/
import NextestModel.Lemmas.SystemTerm
namespace NextestModel.C02Term
open NextestModel.System NextestModel.Dispatcher

/-- the budgeted system adds nothing: each of its runs is a run of the plain system, so every invariant and every theorem about
    reachable states of `Model/System` holds of it -/
theorem budgeted_runs_are_runs (n : Nat) (mf : MaxFail) (left : Nat → Nat) (acts : List Act) (b : BSys)
    (h : brunActs ⟨Sys.init n mf, left⟩ acts = some b) : runActs (Sys.init n mf) acts = some b.s :=
  brun_is_run acts _ b h

/-- **every run ends** — cancelled or not: with each unit allowed finitely many retries and no further signal arriving, every
    sequence of steps of the dispatcher and the `N` units (dispatches, deliveries, attempt ends, request reads, expiring delays,
    in any order) is finite: the step relation is well-founded on the states the system can be in.  Measure: twice
    Σ (10·retries left + phase rank) plus the messages under way, then the unread requests. -/
theorem every_run_ends (N : Nat) : WellFounded (BRel N) := all_steps_wf N

/-- **… with every unit at its final result**: a state the system can be in from which no step is possible has each of the `N`
    units done (its `Finished` handled or on its way) or gone (start or retry refused) — no test is left waiting, running or
    between attempts.  (Which tests the scheduler ever dispatches is the scheduler's half: `uncancelled_complete_partial`, F7.) -/
theorem a_finished_run_has_every_unit_ended (n : Nat) (mf : MaxFail) (left : Nat → Nat) (acts : List Act) (b : BSys)
    (h : brunActs ⟨Sys.init n mf, left⟩ acts = some b) (N : Nat) (hstuck : ¬ ∃ b', BRel N b' b) :
    ∀ i, i < N → b.s.phase i = .done ∨ b.s.phase i = .gone := by
  obtain ⟨h1, h2⟩ := inv12_run acts _ b.s (inv_init n mf) (inv2_init n mf) (brun_is_run acts _ b h)
  intro i hi
  by_cases hp : b.s.phase i = .done ∨ b.s.phase i = .gone
  · exact hp
  · have hp' : b.s.phase i ≠ .done ∧ b.s.phase i ≠ .gone := ⟨fun e => hp (Or.inl e), fun e => hp (Or.inr e)⟩
    obtain ⟨a, ha, hen⟩ := progress_possible b.s h2 h1 i hp'
    exfalso
    apply hstuck
    cases hstep : step b.s a with
    | none => rw [hstep] at hen; cases hen
    | some s' =>
      refine ⟨⟨s', b.left⟩, h1, h2, a, ?_, ?_, ?_⟩
      · intro e he
        rcases ha with rfl | rfl | ⟨r, sl, rfl⟩ | ⟨x, y, rfl⟩ <;> cases he
      · intro j hj
        rcases ha with rfl | rfl | ⟨r, sl, rfl⟩ | ⟨x, y, rfl⟩ <;> simp [unitOf] at hj <;> omega
      · rcases ha with rfl | rfl | ⟨r, sl, rfl⟩ | ⟨x, y, rfl⟩ <;> simp [bstep, hstep]

-- not vacuous: one unit with one retry left fails twice; the second failure cannot be retried (`exitRetry` is not enabled)
example : (brunActs ⟨Sys.init 1 .all, fun _ => 1⟩ [.dispatch 0, .deliver, .exitRetry 0 (.fail none false) false, .deliver,
    .delayExpires 0 2 2, .deliver]).map (fun b => (b.s.phase 0, b.left 0)) = some (.running, 0) := by decide
example : (brunActs ⟨Sys.init 1 .all, fun _ => 1⟩ [.dispatch 0, .deliver, .exitRetry 0 (.fail none false) false, .deliver,
    .delayExpires 0 2 2, .deliver, .exitRetry 0 (.fail none false) false]).isNone = true := by decide

end NextestModel.C02Term
