/-
  C02 — every selected test runs once to one final result; unselected tests never run.
  Property theorems only.  Dispatcher side: what the dispatcher accepts (`Model/Dispatcher`);
  scheduler side: whether a selected test's future is ever created (`Model/Sched`).
-/
import NextestModel.Lemmas.Dispatcher
import NextestModel.Thm.C08
import NextestModel.Thm.C07
namespace NextestModel.C02
open NextestModel.Dispatcher

def registered (s : DState) (i : Nat) : Bool := s.running.any (·.1 == i)

/-- **No test is reported finished without having started**: the dispatcher processes a `Finished`
    (or an `AttemptFailedWillRetry`) for test `i` only while `i` is registered — otherwise it
    panics (`finish_test` / `existing_test`), it never emits the event. -/
theorem finished_requires_started (s : DState) (i : Nat) (r : Res) (slow : Bool)
    (x : DState × Response × Reply × List Emitted) :
    (stepCore s (.finished i r slow) = .ok x → registered s i = true) ∧
    (stepCore s (.attemptFailedWillRetry i r slow) = .ok x → registered s i = true) := by
  constructor <;> intro h <;> simp only [stepCore] at h <;> split at h
  · cases h
  · rename_i e he
    simp only [registered, List.any_eq_true]
    exact ⟨e, List.mem_of_find?_eq_some he, by simpa using List.find?_some he⟩
  · cases h
  · rename_i e he
    simp only [registered, List.any_eq_true]
    exact ⟨e, List.mem_of_find?_eq_some he, by simpa using List.find?_some he⟩

/-- **No test is reported started twice while it runs**: a `Started` request for a registered test
    is never acknowledged (`new_test` panics), and an acknowledged one registers the test and emits
    exactly one `TestStarted`. -/
theorem no_double_start (s : DState) (i : Nat) (st : DState) (resp : Response) (reply : Reply) (em : List Emitted)
    (h : stepCore s (.started i) = .ok (st, resp, reply, em)) :
    (reply = .ack → registered s i = false ∧ s.cancel = none ∧
        em = [.testStarted i st.running.length st.cancel st.stats]) ∧
    (reply ≠ .ack → st = s ∧ em = []) := by
  simp only [stepCore] at h
  split at h
  · simp only [Except.ok.injEq, Prod.mk.injEq] at h
    obtain ⟨rfl, rfl, rfl, rfl⟩ := h
    refine ⟨?_, fun _ => ⟨rfl, rfl⟩⟩
    intro hh; cases hh
  · rename_i hc
    split at h
    · cases h
    · rename_i hreg
      simp only [Except.ok.injEq, Prod.mk.injEq] at h
      obtain ⟨rfl, rfl, rfl, rfl⟩ := h
      refine ⟨fun _ => ⟨?_, by cases hs : s.cancel <;> simp_all, rfl⟩, fun hh => absurd rfl hh⟩
      simp only [registered]
      cases hh : s.running.any (·.1 == i) with
      | false => rfl
      | true => exact absurd hh hreg

/-- A finished test is unregistered: a second `Finished` for it (without a new start) panics rather
    than being reported — no test is reported finished twice in a row. -/
theorem finished_unregisters (s : DState) (i : Nat) (r : Res) (slow : Bool) (st : DState) (resp : Response)
    (reply : Reply) (em : List Emitted)
    (h : stepCore s (.finished i r slow) = .ok (st, resp, reply, em)) : registered st i = false := by
  have hrun : st.running = s.running.filter (·.1 != i) := by
    simp only [stepCore] at h
    split at h
    · cases h
    · rename_i e he
      split at h
      · simp only [Except.ok.injEq] at h
        have := (withCancel_stats (s.afterFinish i (s.stats.onTestFinished r slow (e.2 ++ [r]).length))
          [Emitted.testFinished i (e.2 ++ [r]) (s.afterFinish i (s.stats.onTestFinished r slow (e.2 ++ [r]).length)).running.length
            (s.afterFinish i (s.stats.onTestFinished r slow (e.2 ++ [r]).length)).cancel (s.stats.onTestFinished r slow (e.2 ++ [r]).length)]
          CancelReason.testFailure Response.cancelTestFailure).2
        rw [h] at this
        simpa [DState.afterFinish] using this
      · simp only [Except.ok.injEq, Prod.mk.injEq] at h
        obtain ⟨rfl, _, _, _⟩ := h
        rfl
  simp [registered, hrun, List.any_filter]

/-! ## Scheduler: is every selected test's future eventually created? -/

open NextestModel.Sched in
/-- **Counterexample (defect F7, future-queue 0.4.0).**  test-threads = 4, one group with
    max-threads = 2 holding `a1` (threads-required 1) and `a2` (threads-required 2), and three
    ungrouped tests.  After the first poll `a1, b1, b2, b3` run and `a2` is parked in its group's
    queue; when `a1` completes the global limit is still full, and afterwards no member of that
    group ever completes again, so the queue is never drained: the run ends with `a2` never created. -/
theorem uncancelled_complete_counterexample :
    ∃ s', C08.runOps (SState.init 4 [2]
        [⟨0, 1, some 0⟩, ⟨1, 2, some 0⟩, ⟨2, 1, none⟩, ⟨3, 1, none⟩, ⟨4, 1, none⟩])
        [.poll, .complete 0, .complete 2, .complete 3, .complete 4] = some s' ∧
      s'.ended = true ∧ s'.queued = 1 := by
  refine ⟨_, rfl, ?_, ?_⟩ <;> decide

/-! ## One unit: `run_test_instance` reports at most one final result, for exactly the attempts it made -/

section unit
open NextestModel.Attempts NextestModel.Classify

/-- **one final result**: whatever the test's processes do and whatever the dispatcher acknowledges, a unit sends at most one
    `Finished`; it is the last thing the unit does; and its statuses are exactly the outcomes of the attempts that were spawned,
    1, 2, … in order — no attempt is reported that was not run, none that ran is missing -/
theorem one_final_result (p : Policy) (env : Env) (evs : List XEv) (h : runTestInstance p env = some evs) :
    finisheds evs = [] ∨
    (finisheds evs = [(spawns evs).map env.outcome] ∧ evs.getLast? = some (.finished ((spawns evs).map env.outcome)) ∧ spawns evs ≠ []) := by
  unfold runTestInstance at h
  split at h
  · simp at h; subst h; exact Or.inl rfl
  · cases hl : loop (p.count + 1) env (p.count + 1) 0 [] (delays p) with
    | none => simp [hl] at h
    | some rest =>
      simp [hl] at h; subst h
      simp only [finisheds, spawns]
      rcases loop_finished _ env _ 0 [] _ rest (by omega) hl with h0 | ⟨h1, h2, h3, _⟩
      · exact Or.inl h0
      · refine Or.inr ⟨by simpa using h1, ?_, h3⟩
        have hne : rest ≠ [] := by intro e; simp [e] at h2
        cases rest with
        | nil => exact absurd rfl hne
        | cons x xs => rw [List.getLast?_cons_cons]; simpa using h2

/-- a unit whose start is refused (the run is already being cancelled) spawns nothing and reports nothing -/
theorem refused_start_runs_nothing (p : Policy) (env : Env) (evs : List XEv) (h : runTestInstance p env = some evs)
    (hs : env.ackStart = false) : spawns evs = [] ∧ finisheds evs = [] := by
  unfold runTestInstance at h
  simp [hs] at h; subst h; exact ⟨rfl, rfl⟩

end unit

end NextestModel.C02
