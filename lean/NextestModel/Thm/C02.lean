/-
  C02 — every selected test runs once to one final result; unselected tests never run.
  Property theorems only.  Dispatcher side: what the dispatcher accepts (`Model/Dispatcher`);
  scheduler side: whether a selected test's future is ever created (`Model/Sched`).
-/
import NextestModel.Lemmas.Dispatcher
import NextestModel.Thm.C08
import NextestModel.Lemmas.SchedLive
import NextestModel.Lemmas.System
import NextestModel.Thm.C07
namespace NextestModel.C02
open NextestModel.Dispatcher

def registered (s : DState) (i : Nat) : Bool := s.running.any (·.1 == i)

/-- **No test is reported finished without having started**: the dispatcher processes a `Finished`
    (or an `AttemptFailedWillRetry`) for test `i` only while `i` is registered — otherwise it
    panics (`finish_test` / `existing_test`), it never emits the event. -/
theorem finished_requires_started (s : DState) (i : Nat) (r : Res) (slow : Bool)
    (x : DState × Response × Reply × List Emitted) :
    (stepCore s (.finished i r slow) = .ok x → registered s i = true) ∧
    (stepCore s (.attemptFailedWillRetry i r slow) = .ok x → registered s i = true) := by
  constructor <;> intro h <;> simp only [stepCore] at h <;> split at h
  · cases h
  · rename_i e he
    simp only [registered, List.any_eq_true]
    exact ⟨e, List.mem_of_find?_eq_some he, by simpa using List.find?_some he⟩
  · cases h
  · rename_i e he
    simp only [registered, List.any_eq_true]
    exact ⟨e, List.mem_of_find?_eq_some he, by simpa using List.find?_some he⟩

/-- **No test is reported started twice while it runs**: a `Started` request for a registered test
    is never acknowledged (`new_test` panics), and an acknowledged one registers the test and emits
    exactly one `TestStarted`. -/
theorem no_double_start (s : DState) (i : Nat) (st : DState) (resp : Response) (reply : Reply) (em : List Emitted)
    (h : stepCore s (.started i) = .ok (st, resp, reply, em)) :
    (reply = .ack → registered s i = false ∧ s.cancel = none ∧
        em = [.testStarted i st.running.length st.cancel st.stats]) ∧
    (reply ≠ .ack → st = s ∧ em = []) := by
  simp only [stepCore] at h
  split at h
  · simp only [Except.ok.injEq, Prod.mk.injEq] at h
    obtain ⟨rfl, rfl, rfl, rfl⟩ := h
    refine ⟨?_, fun _ => ⟨rfl, rfl⟩⟩
    intro hh; cases hh
  · rename_i hc
    split at h
    · cases h
    · rename_i hreg
      simp only [Except.ok.injEq, Prod.mk.injEq] at h
      obtain ⟨rfl, rfl, rfl, rfl⟩ := h
      refine ⟨fun _ => ⟨?_, by cases hs : s.cancel <;> simp_all, rfl⟩, fun hh => absurd rfl hh⟩
      simp only [registered]
      cases hh : s.running.any (·.1 == i) with
      | false => rfl
      | true => exact absurd hh hreg

/-- A finished test is unregistered: a second `Finished` for it (without a new start) panics rather
    than being reported — no test is reported finished twice in a row. -/
theorem finished_unregisters (s : DState) (i : Nat) (r : Res) (slow : Bool) (st : DState) (resp : Response)
    (reply : Reply) (em : List Emitted)
    (h : stepCore s (.finished i r slow) = .ok (st, resp, reply, em)) : registered st i = false := by
  have hrun : st.running = s.running.filter (·.1 != i) := by
    simp only [stepCore] at h
    split at h
    · cases h
    · rename_i e he
      split at h
      · simp only [Except.ok.injEq] at h
        have := (withCancel_stats (s.afterFinish i (s.stats.onTestFinished r slow (e.2 ++ [r]).length))
          [Emitted.testFinished i (e.2 ++ [r]) (s.afterFinish i (s.stats.onTestFinished r slow (e.2 ++ [r]).length)).running.length
            (s.afterFinish i (s.stats.onTestFinished r slow (e.2 ++ [r]).length)).cancel (s.stats.onTestFinished r slow (e.2 ++ [r]).length)]
          CancelReason.testFailure Response.cancelTestFailure).2
        rw [h] at this
        simpa [DState.afterFinish] using this
      · simp only [Except.ok.injEq, Prod.mk.injEq] at h
        obtain ⟨rfl, _, _, _⟩ := h
        rfl
  simp [registered, hrun, List.any_filter]

/-! ## The dispatcher with its units: the registration panics are unreachable -/

/-- **The dispatcher never panics on what its units send** (`new_test`: "test instance already present", `existing_test` /
    `finish_test`: "test instance not found"): in every state the dispatcher × units system can reach — any number of tests,
    any max-fail, EVERY interleaving of scheduling, attempts ending with or without a retry, requests, timers, signals,
    reporter errors and deliveries — the next executor event can be handled.  Behind it: per unit, the undelivered messages
    are one of a few patterns fixed by the unit's phase (the channel is FIFO, a unit is sequential), a unit that has not been
    acknowledged is not registered, and one whose `Finished` is still on its way is. -/
theorem dispatcher_panic_free (n : Nat) (mf : MaxFail) (acts : List System.Act) (s : System.Sys)
    (h : System.runActs (System.Sys.init n mf) acts = some s) (hne : s.chan ≠ []) :
    ∃ s', System.step s .deliver = some s' := by
  obtain ⟨h1, h2⟩ := System.inv12_run acts _ s (System.inv_init n mf) (System.inv2_init n mf) h
  exact System.deliver_enabled s h1 h2 hne

/-- … and every test is reported started at most once and finished at most once, and finished only after it started: per
    unit, a `Started` is in flight only while the unit waits for the reply to it, and a `Finished` only once the unit is done -/
theorem unit_messages_follow_phase (n : Nat) (mf : MaxFail) (acts : List System.Act) (s : System.Sys)
    (h : System.runActs (System.Sys.init n mf) acts = some s) (i : Nat) :
    System.Pat i (s.phase i) (System.proj i s.chan) :=
  (System.inv12_run acts _ s (System.inv_init n mf) (System.inv2_init n mf) h).2.pat i

/-- **no unit waits for the dispatcher for ever**: in every reachable state of the dispatcher × units system, a unit that has
    announced an attempt (`Started` / `RetryStarted`) and waits for the reply gets it — acknowledged or refused — after at most
    as many deliveries as there are messages in the channel, each of which the dispatcher can make (it never panics, never
    blocks on a unit) -/
theorem waiting_unit_is_answered (n : Nat) (mf : MaxFail) (acts : List System.Act) (s : System.Sys)
    (h : System.runActs (System.Sys.init n mf) acts = some s) (i : Nat)
    (hp : s.phase i = .waitStart ∨ s.phase i = .waitRetry) :
    ∃ k s', k ≤ s.chan.length ∧ System.runActs s (List.replicate k .deliver) = some s' ∧
      (s'.phase i = .running ∨ s'.phase i = .gone) := by
  obtain ⟨h1, h2⟩ := System.inv12_run acts _ s (System.inv_init n mf) (System.inv2_init n mf) h
  exact System.waiting_answered _ s h1 h2 rfl i hp

/-- **no deadlock**: in every reachable state every unit that has not ended can move — be dispatched, have its message
    delivered, end its attempt, or see its retry delay run out — and **a final result in flight is reported**: a unit's
    `Finished` is handled after at most as many deliveries as there are messages in the channel -/
theorem no_unit_is_stuck (n : Nat) (mf : MaxFail) (acts : List System.Act) (s : System.Sys)
    (h : System.runActs (System.Sys.init n mf) acts = some s) (i : Nat) :
    ((s.phase i ≠ .done ∧ s.phase i ≠ .gone) →
      ∃ a, (a = .dispatch i ∨ a = .deliver ∨ (∃ r sl, a = .exitFinish i r sl) ∨ ∃ x y, a = .delayExpires i x y) ∧
        (System.step s a).isSome = true) ∧
    (s.phase i = .done → ∃ k s', k ≤ s.chan.length ∧ System.runActs s (List.replicate k .deliver) = some s' ∧
      s'.phase i = .done ∧ System.proj i s'.chan = []) := by
  obtain ⟨h1, h2⟩ := System.inv12_run acts _ s (System.inv_init n mf) (System.inv2_init n mf) h
  exact ⟨System.progress_possible s h2 h1 i, System.finished_processed _ s h1 h2 rfl i⟩

/-! ## Scheduler: is every selected test's future eventually created? -/

open NextestModel.Sched in
/-- **Counterexample (defect F7, future-queue 0.4.0).**  test-threads = 4, one group with
    max-threads = 2 holding `a1` (threads-required 1) and `a2` (threads-required 2), and three
    ungrouped tests.  After the first poll `a1, b1, b2, b3` run and `a2` is parked in its group's
    queue; when `a1` completes the global limit is still full, and afterwards no member of that
    group ever completes again, so the queue is never drained: the run ends with `a2` never created. -/
theorem uncancelled_complete_counterexample :
    ∃ s', C08.runOps (SState.init 4 [2]
        [⟨0, 1, some 0⟩, ⟨1, 2, some 0⟩, ⟨2, 1, none⟩, ⟨3, 1, none⟩, ⟨4, 1, none⟩])
        [.poll, .complete 0, .complete 2, .complete 3, .complete 4] = some s' ∧
      s'.ended = true ∧ s'.queued = 1 := by
  refine ⟨_, rfl, ?_, ?_⟩ <;> decide

section liveness
open NextestModel.Sched NextestModel.SchedLive

/-- `runTrace` (the run with the created futures collected) and `C08.runOps` are the same runs -/
theorem runTrace_state (s : SState) (ops : List Op) : C08.runOps s ops = (runTrace s ops).map (·.1) := by
  induction ops generalizing s with
  | nil => rfl
  | cons o os ih =>
    simp only [C08.runOps, runTrace]
    cases hstep : s.step o with
    | none => rfl
    | some x =>
      obtain ⟨s1, st⟩ := x
      simp only [ih s1]
      cases runTrace s1 os with
      | none => rfl
      | some y => rfl

private theorem init_inv (maxW : Nat) (gm : List Nat) (items : List Item) (wg : Nat → Nat)
    (hu : ∀ it ∈ items, ∀ g, it.group = some g → it.weight = wg g) : Inv wg (SState.init maxW gm items) := by
  have hq : ∀ g, (SState.init maxW gm items).queues.getD g [] = [] := by
    intro g
    simp only [SState.init, List.getD_eq_getElem?_getD, List.getElem?_map]
    cases gm[g]? <;> rfl
  refine ⟨⟨C08.init_ok maxW gm items, C08.group_init_ok maxW gm items, C08.queues_init_ok maxW gm items, by simp [SState.init],
    hu, ?_, ?_, ?_⟩, ?_⟩
  · intro g it hit; rw [hq g] at hit; cases hit
  · intro r hr; simp [SState.init] at hr
  · intro r hr; simp [SState.init] at hr
  · intro g hne; exact absurd (hq g) hne

private theorem init_waiting (maxW : Nat) (gm : List Nat) (items : List Item) : waiting (SState.init maxW gm items) = items := by
  have : (gm.map fun _ => ([] : List Item)).flatten = [] := by
    rw [List.flatten_eq_nil_iff]; intro l hl; simp at hl; exact hl.2
  simp [waiting, SState.init, this]

/-- **Every selected test's future is created exactly once, and the run cannot end before all of them were** — for every
    test list, thread count, group configuration and EVERY order of completions, *provided all members of a test group have
    the same threads-required* (`hu`; without it the statement is false: `uncancelled_complete_counterexample`, defect F7).
    (1) conservation: at any point the futures created so far plus the tests still waiting (in the stream or parked in a group
    queue) are exactly the selected tests, each once — nothing is created twice, nothing is lost;
    (2) when the stream ends (`ended`: nothing pending, nothing running) every selected test's future has been created and
    no test is left parked;
    (3) the scheduler never idles while a test waits: after any operation, if nothing is running the stream has ended. -/
theorem uncancelled_complete_partial (maxW : Nat) (gm : List Nat) (items : List Item) (wg : Nat → Nat)
    (hu : ∀ it ∈ items, ∀ g, it.group = some g → it.weight = wg g)
    (ops : List Op) (s' : SState) (started : List Item)
    (h : runTrace (SState.init maxW gm items) ops = some (s', started)) :
    (started ++ (s'.pending ++ s'.queues.flatten)).Perm items ∧
    (s'.ended = true → started.Perm items ∧ s'.queued = 0) ∧
    (ops ≠ [] → s'.running = [] → s'.ended = true) := by
  obtain ⟨hinv, hperm, hprog⟩ := runTrace_live wg ops _ s' started (init_inv maxW gm items wg hu) h
  rw [init_waiting] at hperm
  refine ⟨hperm, ?_, ?_⟩
  · intro hend
    simp only [SState.ended, Bool.and_eq_true, List.isEmpty_iff] at hend
    have hq := queues_empty_of_idle wg s' hinv hend.2
    refine ⟨?_, queued_zero_of_flatten_nil s' hq⟩
    simpa [waiting, hend.1, hq] using hperm
  · intro hne hrun
    simp only [SState.ended, Bool.and_eq_true, List.isEmpty_iff]
    refine ⟨?_, hrun⟩
    apply Classical.byContradiction
    intro hp
    exact hprog hne hp hrun

-- non-vacuity: test-threads 4, group 0 (max-threads 2) with three members of threads-required 2 (uniform), two ungrouped
-- tests; two members are parked and later released; the run ends with all five futures created
example : (runTrace (SState.init 4 [2] [⟨0, 2, some 0⟩, ⟨1, 2, some 0⟩, ⟨2, 1, none⟩, ⟨3, 2, some 0⟩, ⟨4, 1, none⟩])
      [.poll, .complete 2, .complete 0, .complete 4, .complete 1, .complete 3]).map (fun x => (x.1.ended, x.1.queued, x.2.map (·.id)))
    = some (true, 0, [0, 2, 4, 1, 3]) := by decide

/-- the F7 witness is outside the hypothesis: its group has members of threads-required 1 and 2 -/
example : ¬ ∃ wg : Nat → Nat, ∀ it ∈ ([⟨0, 1, some 0⟩, ⟨1, 2, some 0⟩] : List Item), ∀ g, it.group = some g → it.weight = wg g := by
  intro ⟨wg, h⟩
  have h1 := h ⟨0, 1, some 0⟩ (by simp) 0 rfl
  have h2 := h ⟨1, 2, some 0⟩ (by simp) 0 rfl
  simp at h1 h2; omega

end liveness

/-! ## One unit: `run_test_instance` reports at most one final result, for exactly the attempts it made -/

section unit
open NextestModel.Attempts NextestModel.Classify

/-- **one final result**: whatever the test's processes do and whatever the dispatcher acknowledges, a unit sends at most one
    `Finished`; it is the last thing the unit does; and its statuses are exactly the outcomes of the attempts that were spawned,
    1, 2, … in order — no attempt is reported that was not run, none that ran is missing -/
theorem one_final_result (p : Policy) (env : Env) (evs : List XEv) (h : runTestInstance p env = some evs) :
    finisheds evs = [] ∨
    (finisheds evs = [(spawns evs).map env.outcome] ∧ evs.getLast? = some (.finished ((spawns evs).map env.outcome)) ∧ spawns evs ≠ []) := by
  unfold runTestInstance at h
  split at h
  · simp at h; subst h; exact Or.inl rfl
  · cases hl : loop (p.count + 1) env (p.count + 1) 0 [] (delays p) with
    | none => simp [hl] at h
    | some rest =>
      simp [hl] at h; subst h
      simp only [finisheds, spawns]
      rcases loop_finished _ env _ 0 [] _ rest (by omega) hl with h0 | ⟨h1, h2, h3, _⟩
      · exact Or.inl h0
      · refine Or.inr ⟨by simpa using h1, ?_, h3⟩
        have hne : rest ≠ [] := by intro e; simp [e] at h2
        cases rest with
        | nil => exact absurd rfl hne
        | cons x xs => rw [List.getLast?_cons_cons]; simpa using h2

/-- a unit whose start is refused (the run is already being cancelled) spawns nothing and reports nothing -/
theorem refused_start_runs_nothing (p : Policy) (env : Env) (evs : List XEv) (h : runTestInstance p env = some evs)
    (hs : env.ackStart = false) : spawns evs = [] ∧ finisheds evs = [] := by
  unfold runTestInstance at h
  simp [hs] at h; subst h; exact ⟨rfl, rfl⟩

end unit

end NextestModel.C02
