/-
  C03 — an attempt's reported result reflects what the test process actually did.
  Property theorems only.
-/
import NextestModel.Model.Classify
import NextestModel.Gen.Tables
namespace NextestModel.C03
open NextestModel.Classify NextestModel.Dispatcher

/-- pass iff the process exited with status 0, nothing leaked, and no error occurred reading its pipes -/
theorem result_iff_pass (ws : WaitStatus) (e l : Bool) :
    classify ws e l = .pass ↔ (e = false ∧ ws = .exited 0 ∧ l = false) := by
  unfold classify
  cases e <;> cases l <;> cases ws with
  | exited c => cases c <;> simp
  | signaled s c => simp

/-- leak iff it exited with status 0 and its output was still held open past the leak timeout -/
theorem result_iff_leak (ws : WaitStatus) (e l : Bool) :
    classify ws e l = .leak ↔ (e = false ∧ ws = .exited 0 ∧ l = true) := by
  unfold classify
  cases e <;> cases l <;> cases ws with
  | exited c => cases c <;> simp
  | signaled s c => simp

/-- a process that ended any other way on its own is a failure, carrying the terminating signal when
    a signal ended it (and no signal when it exited with a non-zero code) -/
theorem result_fail_carries_signal (ws : WaitStatus) (l : Bool) :
    (∀ sig core, ws = .signaled sig core → classify ws false l = .fail (some sig) l) ∧
    (∀ c, c ≠ 0 → ws = .exited c → classify ws false l = .fail none l) := by
  constructor
  · rintro sig core rfl; rfl
  · rintro c hc rfl; cases c with
    | zero => exact absurd rfl hc
    | succ n => rfl

/-- the classifier itself never says "timeout": that verdict exists only on the path where nextest
    terminated the process for exceeding its time limit -/
theorem timeout_iff_terminated_by_nextest (spawned timedOut : Bool) (ws : WaitStatus) (e l : Bool) :
    attemptResult spawned timedOut ws e l = .timeout ↔ (spawned = true ∧ timedOut = true) := by
  unfold attemptResult classify
  cases spawned <;> cases timedOut <;> cases e <;> cases l <;> cases ws with
  | exited c => cases c <;> simp
  | signaled s c => simp

/-- execution failure iff the process could not be started — or (a documented classification the
    property text omits) an error occurred while reading its output / waiting for it -/
theorem execfail_iff_not_spawned_or_read_error (spawned timedOut : Bool) (ws : WaitStatus) (e l : Bool) :
    attemptResult spawned timedOut ws e l = .execFail ↔ (spawned = false ∨ (timedOut = false ∧ e = true)) := by
  unfold attemptResult classify
  cases spawned <;> cases timedOut <;> cases e <;> cases l <;> cases ws with
  | exited c => cases c <;> simp
  | signaled s c => simp

/-- the raw Linux wait status decodes as documented, for every exit code and every signal number -/
theorem wait_status_decoding :
    (∀ c : Fin 256, WaitStatus.ofRaw (c.val * 256) = .exited c.val) ∧
    (∀ s : Fin 127, ∀ core : Bool, WaitStatus.ofRaw (s.val + 1 + (if core then 128 else 0)) = .signaled (s.val + 1) core) := by
  refine ⟨by decide +kernel, by decide +kernel⟩

/-- a test's final result is that of its last attempt, and it is flaky iff that attempt passed after
    at least one earlier attempt -/
theorem flaky_iff (attempts : List Res) (last : Res) (h : attempts.getLast? = some last) :
    (describe attempts = .flaky ↔ (last.isSuccess = true ∧ attempts.length > 1)) ∧
    (describe attempts = .failure ↔ last.isSuccess = false) ∧
    (describe attempts = .success ↔ (last.isSuccess = true ∧ attempts.length = 1)) := by
  unfold describe
  rw [h]
  have hlen : attempts.length ≥ 1 := by
    cases attempts with
    | nil => simp at h
    | cons a as => simp
  cases hs : last.isSuccess
  · simp [hs]
  · by_cases hl : 1 < attempts.length
    · simp [hs, hl]; omega
    · have : attempts.length = 1 := by omega
      simp [hs, this]

/-- **a failure is reported with the signal that ended the test, under that signal's own name** (helpers.rs `signal_str`, as read
    on this run; the status line shows `SIG<name>` for a number in the table and the bare number otherwise): every number the
    table names is named as POSIX names it on every platform nextest runs on, and no number is listed twice -/
theorem signal_names_are_the_signals :
    (∀ p ∈ Gen.signalNames, portableSignalName p.1 = some p.2) ∧ (Gen.signalNames.map (·.1)).Nodup := by decide

/-- **each kind of result is reported under its own word** (displayer `status_str`, as read on this run): every result has exactly
    the word the property names for it — pass, leak, failure (with a leak, or with the signal), execution failure, timeout — and
    no two arms share a word, so a status line tells the outcomes apart -/
theorem every_result_has_its_own_word :
    (∀ r : Res, (statusKey r, statusWord r) ∈ Gen.statusWords) ∧
    (Gen.statusWords.map (·.1)).Nodup ∧ (Gen.statusWords.map (·.2)).Nodup := by
  refine ⟨?_, by decide, by decide⟩
  intro r
  cases r with
  | fail sg lk =>
    cases sg with
    | none => cases lk <;> decide
    | some n =>
      have h : (statusKey (.fail (some n) lk), statusWord (.fail (some n) lk)) = ("Fail/signal", "SIG|ABORT SIG") := rfl
      rw [h]; decide
  | _ => decide

/-- … and so is every attempt on its `TRY k …` line (`short_status_str`, as read on this run) -/
theorem every_attempt_has_its_own_word :
    (∀ r : Res, (shortStatusKey r, shortStatusWord r) ∈ Gen.shortStatusWords) ∧
    (Gen.shortStatusWords.map (·.1)).Nodup ∧ (Gen.shortStatusWords.map (·.2)).Nodup := by
  refine ⟨?_, by decide, by decide⟩
  intro r
  cases r with
  | fail sg lk =>
    cases sg with
    | none =>
      have h : (shortStatusKey (.fail none lk), shortStatusWord (.fail none lk)) = ("Fail", "FAIL") := rfl
      rw [h]; decide
    | some n =>
      have h : (shortStatusKey (.fail (some n) lk), shortStatusWord (.fail (some n) lk)) = ("Fail/signal", "s|SIG") := rfl
      rw [h]; decide
  | _ => decide

end NextestModel.C03
