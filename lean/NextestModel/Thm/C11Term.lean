/-
  C11 — "nextest then exits on its own as soon as every running unit has exited or been killed": the liveness half, on the
  dispatcher × units system (Model/System).  Property theorems only.
-/
import NextestModel.Lemmas.SystemTerm
namespace NextestModel.C11Term
open NextestModel.System NextestModel.Dispatcher

/-- **a cancelled run cannot go on for ever**: once the run is being cancelled (a shutdown signal, a failure under fail-fast, a
    reporter error), and as long as no further signal arrives, every sequence of steps of the dispatcher and the `N` units —
    dispatches, deliveries, attempt ends, request reads, expiring retry delays, in any order — is finite: there is no infinite
    chain of `Rel N` steps.  (A retry is refused once the run is cancelled, so a unit only moves forward; the measure is
    `Lemmas/SystemTerm`'s.) -/
theorem cancelled_run_cannot_go_on_for_ever (N : Nat) : WellFounded (Rel N) := cancelled_steps_wf N

/-- **… and where it stops, every unit has ended**: in a reachable cancelled state from which none of those steps is possible, each
    of the `N` units is done or gone — nothing is left running, waiting for a reply, or sitting in a retry delay (deadlock
    freedom, `C02.no_unit_is_stuck`, is what forbids stopping earlier).  Together: under any scheduling that keeps taking enabled
    steps, a cancelled run ends with all units ended; that tokio does keep taking them is the remaining assumption. -/
theorem cancelled_run_ends_with_every_unit_ended (n : Nat) (mf : MaxFail) (acts : List Act) (s : Sys)
    (h : runActs (Sys.init n mf) acts = some s) (hc : s.d.cancel.isSome = true) (N : Nat)
    (hstuck : ¬ ∃ s', Rel N s' s) : ∀ i, i < N → s.phase i = .done ∨ s.phase i = .gone := by
  obtain ⟨h1, h2⟩ := inv12_run acts _ s (inv_init n mf) (inv2_init n mf) h
  intro i hi
  by_cases hp : s.phase i = .done ∨ s.phase i = .gone
  · exact hp
  · have hp' : s.phase i ≠ .done ∧ s.phase i ≠ .gone := ⟨fun e => hp (Or.inl e), fun e => hp (Or.inr e)⟩
    obtain ⟨a, ha, hen⟩ := progress_possible s h2 h1 i hp'
    exfalso
    apply hstuck
    cases hstep : step s a with
    | none => rw [hstep] at hen; cases hen
    | some s' =>
      refine ⟨s', hc, a, ?_, ?_, hstep⟩
      · intro e he
        rcases ha with rfl | rfl | ⟨r, sl, rfl⟩ | ⟨x, y, rfl⟩ <;> cases he
      · intro j hj
        rcases ha with rfl | rfl | ⟨r, sl, rfl⟩ | ⟨x, y, rfl⟩ <;> simp [unitOf] at hj <;> omega

-- not vacuous: two units, a shutdown signal while both run; one ends, the other fails into a retry that is refused — then nothing
-- more can happen and both have ended
example : (runActs (Sys.init 2 .all) [.dispatch 0, .deliver, .dispatch 1, .deliver, .external (.shutdown .term),
    .exitFinish 0 (.fail none false) false, .deliver, .exitRetry 1 (.fail none false) false, .deliver, .recv 1, .deliver]).map
      (fun s => (s.phase 0, s.phase 1, s.chan.length, s.d.cancel.isSome)) = some (.done, .gone, 0, true) := by decide

end NextestModel.C11Term
