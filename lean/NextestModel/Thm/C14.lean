/-
  C14 — slot numbers are unique among concurrent tests, stable across retries, compact.
  Property theorems only: the slot allocator (`SlotReservations`, a min-heap of released slots plus
  a counter) against the set of slots currently held.
-/
import NextestModel.Gen.Tables
import NextestModel.Model.Sched
import NextestModel.Thm.C08
import NextestModel.Model.Priority
namespace NextestModel.C14
open NextestModel.Sched

/-- `held` = the slots of the futures alive right now.  The allocator's invariant: held slots are
    pairwise distinct, the free list has no duplicates, held and free are disjoint, and together
    they are exactly the numbers below `next`. -/
def SlotsInv (held : List Nat) (s : Slots) : Prop :=
  held.Nodup ∧ s.free.Nodup ∧ (∀ x ∈ held, x < s.next ∧ x ∉ s.free) ∧ (∀ x ∈ s.free, x < s.next) ∧
  (∀ x, x < s.next → x ∈ held ∨ x ∈ s.free)

theorem slots_init : SlotsInv [] {} := by
  simp [SlotsInv]

private theorem listMin_spec : ∀ (l : List Nat) (m : Nat), listMin l = some m → m ∈ l ∧ ∀ x ∈ l, m ≤ x := by
  intro l
  induction l with
  | nil => intro m h; simp [listMin] at h
  | cons a as ih =>
    intro m h
    simp only [listMin] at h
    cases hm : listMin as with
    | none =>
      rw [hm] at h; simp at h; subst h
      cases as with
      | nil => simp
      | cons b bs => simp [listMin] at hm; cases h2 : listMin bs <;> simp [h2] at hm
    | some m' =>
      rw [hm] at h; simp at h
      have := ih m' hm
      by_cases hle : a ≤ m'
      · simp [hle] at h; subst h
        refine ⟨by simp, ?_⟩
        intro x hx; simp at hx; rcases hx with rfl | hx
        · exact Nat.le_refl _
        · exact Nat.le_trans hle (this.2 x hx)
      · simp [hle] at h; subst h
        refine ⟨by simp [this.1], ?_⟩
        intro x hx; simp at hx; rcases hx with rfl | hx
        · omega
        · exact this.2 x hx

private theorem listMin_none : ∀ (l : List Nat), listMin l = none → l = [] := by
  intro l h
  cases l with
  | nil => rfl
  | cons a as => simp only [listMin] at h; cases h2 : listMin as <;> simp [h2] at h

/-- **A newly dispatched test gets the smallest slot that no alive test holds, and it is distinct
    from all of theirs**; the allocator's invariant is preserved. -/
theorem reserve_is_least_free (held : List Nat) (s : Slots) (h : SlotsInv held s) :
    let r := s.reserve
    r.1 ∉ held ∧ (∀ y, y < r.1 → y ∈ held) ∧ SlotsInv (r.1 :: held) r.2 := by
  obtain ⟨h1, h2, h3, h4, h5⟩ := h
  simp only [Slots.reserve]
  cases hm : listMin s.free with
  | some m =>
    simp only
    obtain ⟨hmem, hmin⟩ := listMin_spec s.free m hm
    have hnh : m ∉ held := fun hx => (h3 m hx).2 hmem
    refine ⟨hnh, ?_, ?_⟩
    · intro y hy
      have hyn : y < s.next := Nat.lt_trans hy (h4 m hmem)
      rcases h5 y hyn with hh | hf
      · exact hh
      · have := hmin y hf; omega
    · refine ⟨List.nodup_cons.mpr ⟨hnh, h1⟩, h2.erase m, ?_, ?_, ?_⟩
      · intro x hx
        simp at hx
        rcases hx with rfl | hx
        · exact ⟨h4 x hmem, fun hc => (List.Nodup.mem_erase_iff h2).mp hc |>.1 rfl⟩
        · exact ⟨(h3 x hx).1, fun hc => (h3 x hx).2 (List.mem_of_mem_erase hc)⟩
      · intro x hx; exact h4 x (List.mem_of_mem_erase hx)
      · intro x hx
        rcases h5 x hx with hh | hf
        · left; simp [hh]
        · by_cases hxm : x = m
          · left; simp [hxm]
          · right; exact (List.mem_erase_of_ne hxm).mpr hf
  | none =>
    simp only
    have hnil := listMin_none s.free hm
    have hnh : s.next ∉ held := fun hx => by have := (h3 _ hx).1; omega
    refine ⟨hnh, ?_, ?_⟩
    · intro y hy
      rcases h5 y hy with hh | hf
      · exact hh
      · rw [hnil] at hf; simp at hf
    · refine ⟨List.nodup_cons.mpr ⟨hnh, h1⟩, h2, ?_, ?_, ?_⟩
      · intro x hx
        simp at hx
        rcases hx with rfl | hx
        · exact ⟨by simp, by rw [hnil]; simp⟩
        · exact ⟨by have := (h3 x hx).1; simp; omega, (h3 x hx).2⟩
      · intro x hx; have := h4 x hx; simp; omega
      · intro x hx
        simp at hx
        by_cases hxe : x = s.next
        · left; simp [hxe]
        · rcases h5 x (by omega) with hh | hf
          · left; simp [hh]
          · right; exact hf

/-- releasing a held slot (a test finished — after all its attempts) keeps the invariant -/
theorem release_keeps_invariant (held : List Nat) (s : Slots) (slot : Nat) (h : SlotsInv held s)
    (hs : slot ∈ held) : SlotsInv (held.erase slot) (s.release slot) := by
  obtain ⟨h1, h2, h3, h4, h5⟩ := h
  simp only [Slots.release]
  refine ⟨h1.erase slot, List.nodup_cons.mpr ⟨(h3 slot hs).2, h2⟩, ?_, ?_, ?_⟩
  · intro x hx
    have hx' := List.mem_of_mem_erase hx
    refine ⟨(h3 x hx').1, ?_⟩
    simp
    refine ⟨?_, (h3 x hx').2⟩
    intro hxe; subst hxe
    exact (List.Nodup.mem_erase_iff h1).mp hx |>.1 rfl
  · intro x hx; simp at hx; rcases hx with rfl | hx
    · exact (h3 x hs).1
    · exact h4 x hx
  · intro x hx
    rcases h5 x hx with hh | hf
    · by_cases hxe : x = slot
      · right; simp [hxe]
      · left; exact (List.mem_erase_of_ne hxe).mpr hh
    · right; simp [hf]

/-- no two alive tests ever share a slot: immediate from the invariant -/
theorem held_slots_distinct (held : List Nat) (s : Slots) (h : SlotsInv held s) : held.Nodup := h.1

/-! ## Lifting to the scheduler: the global slots of the running futures -/

theorem slotsInv_perm (h1 h2 : List Nat) (s : Slots) (hp : h2.Perm h1) (h : SlotsInv h1 s) : SlotsInv h2 s := by
  obtain ⟨a, b, c, d, e⟩ := h
  refine ⟨hp.nodup_iff.mpr a, b, ?_, d, ?_⟩
  · intro x hx; exact c x (hp.mem_iff.mp hx)
  · intro x hx; rcases e x hx with h | h
    · exact Or.inl (hp.mem_iff.mpr h)
    · exact Or.inr h

/-- pigeonhole: if every number below `r` occurs in a duplicate-free list, the list has at least `r` elements -/
theorem le_length_of_all_below (r : Nat) : ∀ (l : List Nat), l.Nodup → (∀ y, y < r → y ∈ l) → r ≤ l.length := by
  induction r with
  | zero => intro l _ _; exact Nat.zero_le _
  | succ r ih =>
    intro l hn h
    have hr : r ∈ l := h r (Nat.lt_succ_self r)
    have := ih (l.erase r) (hn.erase r) (fun y hy => (List.mem_erase_of_ne (by omega)).mpr (h y (by omega)))
    rw [List.length_erase_of_mem hr] at this
    have hpos : 0 < l.length := List.length_pos_of_mem hr
    omega

/-- the slots held by the futures alive right now -/
def held (s : SState) : List Nat := s.running.map (·.globalSlot)

/-- the scheduler-level invariant: the allocator's invariant against the running futures' slots, the weight accounting, and
    every held slot below the thread count -/
structure SchedInv (s : SState) : Prop where
  slots : SlotsInv (held s) s.slots
  acct : s.cur = (s.running.map fun r => min r.item.weight s.maxW).sum
  posRunning : ∀ r ∈ s.running, 1 ≤ r.item.weight
  posPending : ∀ it ∈ s.pending, 1 ≤ it.weight
  posQueued : ∀ g, ∀ it ∈ s.queues.getD g [], 1 ≤ it.weight
  below : ∀ r ∈ s.running, r.globalSlot < s.maxW
  maxPos : 1 ≤ s.maxW
  curLe : s.cur ≤ s.maxW

private theorem sum_ge_length (l : List Running) (m : Nat) (hm : 1 ≤ m) (h : ∀ r ∈ l, 1 ≤ r.item.weight) :
    l.length ≤ (l.map fun r => min r.item.weight m).sum := by
  induction l with
  | nil => simp
  | cons a as ih =>
    have ha := h a (by simp)
    have := ih (fun r hr => h r (by simp [hr]))
    simp only [List.map_cons, List.sum_cons, List.length_cons]
    have : 1 ≤ min a.item.weight m := by omega
    omega

private theorem start_facts (s : SState) (it : Item) :
    (s.start it).1.maxW = s.maxW ∧ (s.start it).1.cur = s.cur + min it.weight s.maxW ∧
    (s.start it).1.running = s.running ++ [(s.start it).2] ∧ (s.start it).2.item = it ∧
    (s.start it).1.pending = s.pending ∧ (s.start it).1.queues = s.queues ∧
    (s.start it).2.globalSlot = s.slots.reserve.1 ∧ (s.start it).1.slots = s.slots.reserve.2 := by
  unfold SState.start
  cases it.group <;> simp

/-- **starting a test**: it gets the least slot no alive test holds, distinct from all of theirs and below the thread count -/
theorem start_inv (s : SState) (it : Item) (h : SchedInv s) (hw : 1 ≤ it.weight)
    (hs : hasSpace s.cur s.maxW it.weight = true) :
    SchedInv (s.start it).1 ∧ (s.start it).2.globalSlot ∉ held s ∧ (∀ y, y < (s.start it).2.globalSlot → y ∈ held s) := by
  obtain ⟨f1, f2, f3, f4, f5, f6, f7, f8⟩ := start_facts s it
  obtain ⟨r1, r2, r3⟩ := reserve_is_least_free (held s) s.slots h.slots
  have hsp : s.cur + min it.weight s.maxW ≤ s.maxW := by simp [hasSpace] at hs; omega
  have hlen : s.running.length ≤ s.cur := by rw [h.acct]; exact sum_ge_length s.running s.maxW h.maxPos h.posRunning
  have hslot : s.slots.reserve.1 ≤ (held s).length := le_length_of_all_below _ _ h.slots.1 r2
  have hbelow : s.slots.reserve.1 < s.maxW := by
    have : (held s).length = s.running.length := by simp [held]
    have : 1 ≤ min it.weight s.maxW := by have := h.maxPos; omega
    omega
  refine ⟨?_, by rw [f7]; exact r1, by rw [f7]; exact r2⟩
  refine ⟨?_, ?_, ?_, ?_, ?_, ?_, by rw [f1]; exact h.maxPos, by rw [f1, f2]; exact hsp⟩
  · have hheld : held (s.start it).1 = held s ++ [s.slots.reserve.1] := by simp [held, f3, f7]
    rw [hheld, f8]
    exact slotsInv_perm _ _ _ (by simpa using List.perm_append_comm (l₁ := held s) (l₂ := [s.slots.reserve.1])) r3
  · rw [f2, f3, f1, h.acct]; simp [f4]
  · intro r hr; rw [f3] at hr
    rcases List.mem_append.mp hr with hr | hr
    · exact h.posRunning r hr
    · simp at hr; subst hr; rw [f4]; exact hw
  · rw [f5]; exact h.posPending
  · rw [f6]; exact h.posQueued
  · intro r hr; rw [f3] at hr; rw [f1]
    rcases List.mem_append.mp hr with hr | hr
    · exact h.below r hr
    · simp at hr; subst hr; rw [f7]; exact hbelow

private theorem getD_setAt {α} (l : List α) (i j : Nat) (v d : α) :
    (setAt l i v).getD j d = if i = j ∧ i < l.length then v else l.getD j d := by
  simp only [setAt, List.getD_eq_getElem?_getD, List.getElem?_set]
  by_cases h : i = j
  · subst h
    by_cases hl : i < l.length
    · simp [hl]
    · simp [hl]
  · simp [h]

private theorem pull_inv (fuel : Nat) : ∀ (s : SState), SchedInv s → SchedInv (s.pull fuel).1 := by
  induction fuel with
  | zero => intro s h; exact h
  | succ f ih =>
    intro s h
    simp only [SState.pull]
    split
    · exact h
    · rename_i it rest hp
      split
      · exact h
      · rename_i hsp
        have hsp' : hasSpace s.cur s.maxW it.weight = true := by
          cases hh : hasSpace s.cur s.maxW it.weight <;> simp_all
        have hw : 1 ≤ it.weight := h.posPending it (by rw [hp]; simp)
        have hs1 : SchedInv { s with pending := rest } :=
          { h with posPending := fun x hx => h.posPending x (by rw [hp]; simp [hx]) }
        split
        · exact ih _ (start_inv { s with pending := rest } it hs1 hw hsp').1
        · rename_i g hg
          split
          · exact ih _ (start_inv { s with pending := rest } it hs1 hw hsp').1
          · have hq' : ∀ g', ∀ x ∈ (setAt s.queues g (s.queues.getD g [] ++ [it])).getD g' [], 1 ≤ x.weight := by
              intro g' x hx
              simp only [getD_setAt] at hx
              split at hx
              · rcases List.mem_append.mp hx with hx | hx
                · exact h.posQueued g x hx
                · simp at hx; subst hx; exact hw
              · exact h.posQueued g' x hx
            exact ih _ { hs1 with posQueued := hq' }

private theorem drain_inv (g : Nat) (fuel : Nat) : ∀ (s : SState), SchedInv s → SchedInv (s.drainGroup g fuel).1 := by
  induction fuel with
  | zero => intro s h; exact h
  | succ f ih =>
    intro s h
    simp only [SState.drainGroup]
    split
    · exact h
    · rename_i it rest hqg
      split
      · rename_i hsp
        simp only [Bool.and_eq_true] at hsp
        have hw : 1 ≤ it.weight := h.posQueued g it (by rw [hqg]; simp)
        have hq' : ∀ g', ∀ x ∈ (setAt s.queues g rest).getD g' [], 1 ≤ x.weight := by
          intro g' x hx
          simp only [getD_setAt] at hx
          split at hx
          · exact h.posQueued g x (by rw [hqg]; simp [hx])
          · exact h.posQueued g' x hx
        have hs1 : SchedInv { s with queues := setAt s.queues g rest } := { h with posQueued := hq' }
        exact ih _ (start_inv { s with queues := setAt s.queues g rest } it hs1 hw hsp.1).1
      · exact h

private theorem map_eraseP (l : List Running) (p : Running → Bool) (x : Running) (hf : l.find? p = some x)
    (hnd : (l.map (·.globalSlot)).Nodup) : (l.eraseP p).map (·.globalSlot) = (l.map (·.globalSlot)).erase x.globalSlot := by
  induction l with
  | nil => simp at hf
  | cons a as ih =>
    by_cases hp : p a = true
    · simp [List.find?_cons, hp] at hf; subst hf
      simp [List.eraseP_cons, hp]
    · simp [List.find?_cons, hp] at hf
      have hx : x.globalSlot ∈ as.map (·.globalSlot) := List.mem_map.mpr ⟨x, List.mem_of_find?_eq_some hf, rfl⟩
      simp only [List.map_cons, List.nodup_cons] at hnd
      have hne : a.globalSlot ≠ x.globalSlot := fun e => hnd.1 (e ▸ hx)
      simp [List.eraseP_cons, hp, ih hf hnd.2, List.erase_cons, hne]

private theorem sum_eraseP' (l : List Running) (p : Running → Bool) (f : Running → Nat) (x : Running)
    (h : l.find? p = some x) : (l.map f).sum = ((l.eraseP p).map f).sum + f x := by
  induction l with
  | nil => simp at h
  | cons a as ih =>
    by_cases hp : p a = true
    · simp [List.find?_cons, hp] at h
      subst h
      simp [List.eraseP_cons, hp]; omega
    · simp [List.find?_cons, hp] at h
      simp [List.eraseP_cons, hp, ih h]; omega

/-- **Every operation keeps the slots of concurrently alive tests distinct, least-free and below the thread count.** -/
theorem sched_inv_step (s : SState) (op : Op) (s' : SState) (started : List Running)
    (h : SchedInv s) (hstep : s.step op = some (s', started)) : SchedInv s' := by
  cases op with
  | poll =>
    simp only [SState.step, SState.first, Option.some.injEq] at hstep
    have := pull_inv (s.pending.length + 1) s h
    rw [hstep] at this; exact this
  | complete id =>
    simp only [SState.step, SState.complete] at hstep
    split at hstep
    · cases hstep
    · rename_i r hfind
      simp only [Option.some.injEq, Prod.mk.injEq] at hstep
      obtain ⟨hs, _⟩ := hstep
      rw [← hs]
      have hmem : r ∈ s.running := List.mem_of_find?_eq_some hfind
      have hsub : ∀ x ∈ s.running.eraseP (fun x => x.item.id == id), x ∈ s.running := fun x hx => List.mem_of_mem_eraseP hx
      have hrem : SchedInv { s with running := s.running.eraseP (fun x => x.item.id == id),
                                    cur := s.cur - min r.item.weight s.maxW,
                                    slots := s.slots.release r.globalSlot } := by
        refine ⟨?_, ?_, fun x hx => h.posRunning x (hsub x hx), h.posPending, h.posQueued, fun x hx => h.below x (hsub x hx), h.maxPos, by have := h.curLe; simp only; omega⟩
        · have := release_keeps_invariant (held s) s.slots r.globalSlot h.slots (List.mem_map.mpr ⟨r, hmem, rfl⟩)
          simp only [held] at this ⊢
          rw [map_eraseP s.running _ r hfind h.slots.1]; exact this
        · have hsum := sum_eraseP' s.running (fun x => x.item.id == id) (fun r => min r.item.weight s.maxW) r hfind
          have := h.acct
          simp only at hsum ⊢
          omega
      split
      · exact pull_inv _ _ (drain_inv _ _ _ { hrem with })
      · exact pull_inv _ _ hrem

/-- …hence, for every item list with positive threads-required, at least one test thread, and every order of completions:
    **no two concurrently alive tests share a global slot, and every slot is below the test-thread count**
    (`start_inv` adds: each newly started test gets the smallest slot not held by an alive test). -/
theorem global_slots_distinct_and_below (maxW : Nat) (gm : List Nat) (items : List Item) (ops : List Op) (s' : SState)
    (hm : 1 ≤ maxW) (hw : ∀ it ∈ items, 1 ≤ it.weight)
    (h : NextestModel.C08.runOps (SState.init maxW gm items) ops = some s') :
    (s'.running.map (·.globalSlot)).Nodup ∧ ∀ r ∈ s'.running, r.globalSlot < maxW := by
  have hinit : SchedInv (SState.init maxW gm items) := by
    refine ⟨by simpa [held, SState.init] using slots_init, by simp [SState.init], by simp [SState.init], by simpa [SState.init] using hw, ?_, by simp [SState.init], by simpa [SState.init] using hm, by simp [SState.init]⟩
    intro g it hit
    have : (gm.map fun _ => ([] : List Item)).getD g [] = [] := by
      simp only [List.getD_eq_getElem?_getD, List.getElem?_map]
      cases gm[g]? <;> rfl
    simp only [SState.init] at hit
    rw [this] at hit; cases hit
  suffices hgen : ∀ (ops : List Op) (s : SState), SchedInv s → s.maxW = maxW → NextestModel.C08.runOps s ops = some s' → SchedInv s' ∧ s'.maxW = maxW by
    obtain ⟨hi, hmw⟩ := hgen ops _ hinit rfl h
    exact ⟨hi.slots.1, fun r hr => hmw ▸ hi.below r hr⟩
  intro ops
  induction ops with
  | nil => intro s hs hmw h; simp [NextestModel.C08.runOps] at h; subst h; exact ⟨hs, hmw⟩
  | cons o os ih =>
    intro s hs hmw h
    simp only [NextestModel.C08.runOps] at h
    split at h
    · cases h
    · rename_i s1 st hstep
      have hg : NextestModel.C08.GlobalOk s := ⟨by rw [hs.acct]; rfl, hs.curLe⟩
      exact ih s1 (sched_inv_step s o s1 st hs hstep) (by rw [(NextestModel.C08.global_weight_step s o s1 st hg hstep).2, hmw]) h

/-! ## Non-vacuity -/
example : SlotsInv [0, 2] { next := 3, free := [1] } := by
  refine ⟨by decide, by decide, ?_, ?_, ?_⟩
  · intro x hx; simp at hx; rcases hx with rfl | rfl <;> simp
  · intro x hx; simp at hx; subst hx; decide
  · intro x hx; simp at hx; have : x = 0 ∨ x = 1 ∨ x = 2 := by omega
    rcases this with rfl | rfl | rfl <;> simp

/-! ## The limits themselves -/

open NextestModel.Priority in
/-- **A configured thread count is never below 1**: whatever value is configured for test-threads or for a group's max-threads
    — positive, or negative (counting back from the number of CPUs) by any amount — the computed limit is at least 1, so "below
    the test-thread count, respectively the group's max-threads" is a real bound (a limit of 0 would mean "unbounded" to the
    scheduler); 0 itself is rejected -/
theorem thread_count_positive (ncpu : Nat) (v : Int) (n : Nat) (h : threadCount ncpu v = some n) : 1 ≤ n ∧ v ≠ 0 := by
  unfold threadCount at h
  split at h
  · cases h
  · rename_i hv
    split at h
    · simp only [Option.some.injEq] at h; subst h; exact ⟨by omega, hv⟩
    · simp only [Option.some.injEq] at h; subst h; exact ⟨by omega, hv⟩

/-- **the slot numbers an attempt sees are its unit's** (executor.rs `run_test_inner`, as read on this run): `NEXTEST_TEST_GLOBAL_SLOT`
    is `test.cx.global_slot()`, `NEXTEST_TEST_GROUP_SLOT` is `test.cx.group_slot()` or `none`, `NEXTEST_TEST_GROUP` the group or
    `@global` — read from the future-queue context of the unit, which is the same for every attempt of the unit (stable across
    retries), never recomputed -/
theorem slots_come_from_the_units_context : ∀ r ∈ Gen.spawnSetup, r.2 = true := by decide

end NextestModel.C14
