/-
  C14 — slot numbers are unique among concurrent tests, stable across retries, compact.
  Property theorems only: the slot allocator (`SlotReservations`, a min-heap of released slots plus
  a counter) against the set of slots currently held.
-/
import NextestModel.Model.Sched
namespace NextestModel.C14
open NextestModel.Sched

/-- `held` = the slots of the futures alive right now.  The allocator's invariant: held slots are
    pairwise distinct, the free list has no duplicates, held and free are disjoint, and together
    they are exactly the numbers below `next`. -/
def SlotsInv (held : List Nat) (s : Slots) : Prop :=
  held.Nodup ∧ s.free.Nodup ∧ (∀ x ∈ held, x < s.next ∧ x ∉ s.free) ∧ (∀ x ∈ s.free, x < s.next) ∧
  (∀ x, x < s.next → x ∈ held ∨ x ∈ s.free)

theorem slots_init : SlotsInv [] {} := by
  simp [SlotsInv]

private theorem listMin_spec : ∀ (l : List Nat) (m : Nat), listMin l = some m → m ∈ l ∧ ∀ x ∈ l, m ≤ x := by
  intro l
  induction l with
  | nil => intro m h; simp [listMin] at h
  | cons a as ih =>
    intro m h
    simp only [listMin] at h
    cases hm : listMin as with
    | none =>
      rw [hm] at h; simp at h; subst h
      cases as with
      | nil => simp
      | cons b bs => simp [listMin] at hm; cases h2 : listMin bs <;> simp [h2] at hm
    | some m' =>
      rw [hm] at h; simp at h
      have := ih m' hm
      by_cases hle : a ≤ m'
      · simp [hle] at h; subst h
        refine ⟨by simp, ?_⟩
        intro x hx; simp at hx; rcases hx with rfl | hx
        · exact Nat.le_refl _
        · exact Nat.le_trans hle (this.2 x hx)
      · simp [hle] at h; subst h
        refine ⟨by simp [this.1], ?_⟩
        intro x hx; simp at hx; rcases hx with rfl | hx
        · omega
        · exact this.2 x hx

private theorem listMin_none : ∀ (l : List Nat), listMin l = none → l = [] := by
  intro l h
  cases l with
  | nil => rfl
  | cons a as => simp only [listMin] at h; cases h2 : listMin as <;> simp [h2] at h

/-- **A newly dispatched test gets the smallest slot that no alive test holds, and it is distinct
    from all of theirs**; the allocator's invariant is preserved. -/
theorem reserve_is_least_free (held : List Nat) (s : Slots) (h : SlotsInv held s) :
    let r := s.reserve
    r.1 ∉ held ∧ (∀ y, y < r.1 → y ∈ held) ∧ SlotsInv (r.1 :: held) r.2 := by
  obtain ⟨h1, h2, h3, h4, h5⟩ := h
  simp only [Slots.reserve]
  cases hm : listMin s.free with
  | some m =>
    simp only
    obtain ⟨hmem, hmin⟩ := listMin_spec s.free m hm
    have hnh : m ∉ held := fun hx => (h3 m hx).2 hmem
    refine ⟨hnh, ?_, ?_⟩
    · intro y hy
      have hyn : y < s.next := Nat.lt_trans hy (h4 m hmem)
      rcases h5 y hyn with hh | hf
      · exact hh
      · have := hmin y hf; omega
    · refine ⟨List.nodup_cons.mpr ⟨hnh, h1⟩, h2.erase m, ?_, ?_, ?_⟩
      · intro x hx
        simp at hx
        rcases hx with rfl | hx
        · exact ⟨h4 x hmem, fun hc => (List.Nodup.mem_erase_iff h2).mp hc |>.1 rfl⟩
        · exact ⟨(h3 x hx).1, fun hc => (h3 x hx).2 (List.mem_of_mem_erase hc)⟩
      · intro x hx; exact h4 x (List.mem_of_mem_erase hx)
      · intro x hx
        rcases h5 x hx with hh | hf
        · left; simp [hh]
        · by_cases hxm : x = m
          · left; simp [hxm]
          · right; exact (List.mem_erase_of_ne hxm).mpr hf
  | none =>
    simp only
    have hnil := listMin_none s.free hm
    have hnh : s.next ∉ held := fun hx => by have := (h3 _ hx).1; omega
    refine ⟨hnh, ?_, ?_⟩
    · intro y hy
      rcases h5 y hy with hh | hf
      · exact hh
      · rw [hnil] at hf; simp at hf
    · refine ⟨List.nodup_cons.mpr ⟨hnh, h1⟩, h2, ?_, ?_, ?_⟩
      · intro x hx
        simp at hx
        rcases hx with rfl | hx
        · exact ⟨by simp, by rw [hnil]; simp⟩
        · exact ⟨by have := (h3 x hx).1; simp; omega, (h3 x hx).2⟩
      · intro x hx; have := h4 x hx; simp; omega
      · intro x hx
        simp at hx
        by_cases hxe : x = s.next
        · left; simp [hxe]
        · rcases h5 x (by omega) with hh | hf
          · left; simp [hh]
          · right; exact hf

/-- releasing a held slot (a test finished — after all its attempts) keeps the invariant -/
theorem release_keeps_invariant (held : List Nat) (s : Slots) (slot : Nat) (h : SlotsInv held s)
    (hs : slot ∈ held) : SlotsInv (held.erase slot) (s.release slot) := by
  obtain ⟨h1, h2, h3, h4, h5⟩ := h
  simp only [Slots.release]
  refine ⟨h1.erase slot, List.nodup_cons.mpr ⟨(h3 slot hs).2, h2⟩, ?_, ?_, ?_⟩
  · intro x hx
    have hx' := List.mem_of_mem_erase hx
    refine ⟨(h3 x hx').1, ?_⟩
    simp
    refine ⟨?_, (h3 x hx').2⟩
    intro hxe; subst hxe
    exact (List.Nodup.mem_erase_iff h1).mp hx |>.1 rfl
  · intro x hx; simp at hx; rcases hx with rfl | hx
    · exact (h3 x hs).1
    · exact h4 x hx
  · intro x hx
    rcases h5 x hx with hh | hf
    · by_cases hxe : x = slot
      · right; simp [hxe]
      · left; exact (List.mem_erase_of_ne hxe).mpr hh
    · right; simp [hf]

/-- no two alive tests ever share a slot: immediate from the invariant -/
theorem held_slots_distinct (held : List Nat) (s : Slots) (h : SlotsInv held s) : held.Nodup := h.1

/-! ## Non-vacuity -/
example : SlotsInv [0, 2] { next := 3, free := [1] } := by
  refine ⟨by decide, by decide, ?_, ?_, ?_⟩
  · intro x hx; simp at hx; rcases hx with rfl | rfl <;> simp
  · intro x hx; simp at hx; subst hx; decide
  · intro x hx; simp at hx; have : x = 0 ∨ x = 1 ∨ x = 2 := by omega
    rcases this with rfl | rfl | rfl <;> simp

end NextestModel.C14
