/-
  C12 — stop/continue pauses tests and all clocks under every signal interleaving.
  Property theorems only, over Model/Unit (the unit's wait loops with their pausable timers) and
  Model/Dispatcher (debouncing).  That every clock counts running time only — the slow-timeout deadline
  under arbitrary stop/continue — is C09.no_terminate_before_deadline, whose event sequences include
  stop and continue requests; here: no interleaving makes a timer transition illegal, everything is
  resumed, paused clocks do not move, information requests are answered once and change nothing.
-/
import NextestModel.Model.Unit
import NextestModel.Model.Dispatcher
import NextestModel.Gen.Tables
namespace NextestModel.C12
open NextestModel.Unit

/-- the dispatcher debounces: a Stop request is only broadcast while not stopped (see
    `stop_continue_alternate` below); Continue may arrive at any time (a unit may start between them) -/
def Alternating : Bool → List Ev → Prop
  | _, [] => True
  | stopped, .req .stop :: es => stopped = false ∧ Alternating true es
  | _, .req .cont :: es => Alternating false es
  | stopped, _ :: es => Alternating stopped es

/-- whatever is paused is paused because the run is stopped -/
def Disc (u : U) (stopped : Bool) : Prop :=
  match u.phase with
  | .running => u.sw.paused = true → stopped = true
  | .terminating _ => (u.sw.paused = true → stopped = true) ∧ (u.gs.paused = true → stopped = true) ∧ (u.ws.paused = true → stopped = true)
  | .delay => u.ds.paused = u.ws.paused ∧ (u.ds.paused = true → stopped = true)
  | _ => True

def stoppedAfter (stopped : Bool) : Ev → Bool
  | .req .stop => true
  | .req .cont => false
  | _ => stopped

private theorem tickw_paused (w : Watch) (d : Nat) : (w.tick d).paused = w.paused := by unfold Watch.tick; split <;> rfl
private theorem tickt_paused (t : Timer) (d : Nat) : (t.tick d).paused = t.paused := by unfold Timer.tick; split <;> rfl

private theorem elapse_disc (u : U) (d : Nat) (st : Bool) (h : Disc u st) : Disc (elapse u d) st := by
  cases hph : u.phase with
  | running => simp only [Disc, hph] at h; simp [Disc, elapse, hph, tickw_paused]; exact h
  | terminating w => simp only [Disc, hph] at h; simp [Disc, elapse, hph, tickw_paused, tickt_paused]; exact h
  | draining => simp [Disc, elapse, hph]
  | delay => simp only [Disc, hph] at h; simp [Disc, elapse, hph, tickw_paused, tickt_paused]; exact h
  | done => simp [Disc, elapse, hph]

private theorem step_disc (c : Cfg) (u : U) (e : Ev) (st : Bool) (ha : Alternating st [e]) (h : Disc u st) :
    Disc (step c u e).1 (stoppedAfter st e) ∧ Act.panic ∉ (step c u e).2 := by
  cases e with
  | req r =>
    cases r with
    | stop =>
      have hst : st = false := ha.1
      subst hst
      cases hph : u.phase with
      | running => simp [step, onReq, hph, Disc, stoppedAfter]
      | terminating w =>
        simp only [Disc, hph] at h
        have h1 : u.sw.paused = false := by cases hh : u.sw.paused <;> simp_all
        have h2 : u.gs.paused = false := by cases hh : u.gs.paused <;> simp_all
        have h3 : u.ws.paused = false := by cases hh : u.ws.paused <;> simp_all
        simp [step, onReq, hph, Disc, stoppedAfter, h1, h2, h3]
      | draining => simp [step, onReq, hph, Disc, stoppedAfter]
      | delay =>
        simp only [Disc, hph] at h
        have h1 : u.ds.paused = false := by cases hh : u.ds.paused <;> simp_all
        have h2 : u.ws.paused = false := by rw [← h.1]; exact h1
        simp [step, onReq, hph, Disc, stoppedAfter, h1, h2]
      | done => simp [step, onReq, hph, Disc, stoppedAfter]
    | cont =>
      cases hph : u.phase with
      | running =>
        simp only [step, onReq, hph, stoppedAfter]
        split
        · simp [Disc]
        · rename_i hp; simp [Disc, hph]; simpa using hp
      | terminating w => simp [step, onReq, hph, Disc, stoppedAfter]
      | draining => simp [step, onReq, hph, Disc, stoppedAfter]
      | delay =>
        simp only [Disc, hph] at h
        simp only [step, onReq, hph, stoppedAfter]
        split
        · rename_i hp
          have : u.ws.paused = true := by rw [← h.1]; exact hp
          simp [this, Disc]
        · rename_i hp
          have hp' : u.ds.paused = false := by simpa using hp
          simp only [Disc, hph]
          exact ⟨⟨h.1, by simp [hp']⟩, by simp⟩
      | done => simp [step, onReq, hph, Disc, stoppedAfter]
    | shutdown sr =>
      cases hph : u.phase with
      | running =>
        simp only [Disc, hph] at h
        simp only [step, onReq, hph, stoppedAfter, beginTerminate]
        split
        · simp [Disc, hph]; exact h
        · simp [Disc]; exact h
      | terminating w =>
        simp only [Disc, hph] at h
        simp [step, onReq, hph, stoppedAfter, Disc]; exact h.1
      | draining => simp [step, onReq, hph, Disc, stoppedAfter]
      | delay => simp [step, onReq, hph, Disc, stoppedAfter]
      | done => simp [step, onReq, hph, Disc, stoppedAfter]
    | otherCancel =>
      cases hph : u.phase <;> simp_all [step, onReq, Disc, stoppedAfter]
    | getInfo =>
      cases hph : u.phase <;> simp_all [step, onReq, Disc, stoppedAfter]
  | childExit =>
    cases hph : u.phase <;> simp_all [step, Disc, stoppedAfter]
  | fdsDone =>
    cases hph : u.phase <;> simp_all [step, Disc, stoppedAfter]
  | time dt =>
    simp only [step, stoppedAfter, advance]
    have key : ∀ v : U, Disc v st → Disc (fire c v).1 st ∧ Act.panic ∉ (fire c v).2 := by
      intro v hv
      cases hph : v.phase with
      | running =>
        simp only [Disc, hph] at hv
        simp only [fire, hph, beginTerminate, timeoutSignal]
        split
        · split
          · split <;> simp_all [Disc]
          · split <;> simp_all [Disc]
        · split <;> simp_all [Disc]
      | terminating w => simp only [Disc, hph] at hv; simp [fire, hph, Disc]; exact hv.1
      | draining => simp [fire, hph, Disc]
      | delay => simp [fire, hph, Disc]
      | done => simp [fire, hph, Disc]
    split
    · exact ⟨elapse_disc u dt st h, by simp⟩
    · split
      · exact ⟨elapse_disc u dt st h, by simp⟩
      · exact key _ (elapse_disc u _ st h)

private theorem alt_cons {st : Bool} {e : Ev} {es : List Ev} (h : Alternating st (e :: es)) :
    Alternating st [e] ∧ Alternating (stoppedAfter st e) es := by
  cases e with
  | req r => cases r <;> simp_all [Alternating, stoppedAfter]
  | _ => simp_all [Alternating, stoppedAfter]

/-- **No interleaving of stop/continue with timeouts, shutdown signals, retries, information requests
    and the process's own exit makes nextest fail internally**: no timer is ever paused while paused or
    resumed while running — for every event sequence in which Stop requests are debounced as the
    dispatcher debounces them, from a fresh attempt as from a retry delay. -/
theorem timer_discipline (c : Cfg) : ∀ (es : List Ev) (u : U) (st : Bool), Alternating st es → Disc u st →
    Act.panic ∉ (run c u es).2 := by
  intro es
  induction es with
  | nil => intro u st _ _; simp [run]
  | cons e es ih =>
    intro u st ha hd
    obtain ⟨ha1, ha2⟩ := alt_cons ha
    obtain ⟨hd1, hp1⟩ := step_disc c u e st ha1 hd
    simp only [run, List.mem_append, not_or]
    exact ⟨hp1, ih _ _ ha2 hd1⟩

theorem timer_discipline_spawn (c : Cfg) (es : List Ev) (h : Alternating false es) : Act.panic ∉ (run c (U.spawn c) es).2 :=
  timer_discipline c es _ false h (by simp [Disc, U.spawn])

theorem timer_discipline_delay (c : Cfg) (d : Nat) (es : List Ev) (h : Alternating false es) : Act.panic ∉ (run c (U.enterDelay d) es).2 :=
  timer_discipline c es _ false h (by simp [Disc, U.enterDelay])

/-- **On SIGCONT everything the phase owns is resumed and the group is continued**: after a Continue
    request that follows a Stop, in the main loop the stopwatch and the slow-timeout timer run again, in
    the grace period the stopwatch, the grace timer and the waiting stopwatch, in the retry delay the
    delay timer and its stopwatch; SIGCONT is forwarded to the process group where there is a process. -/
theorem all_resumed (c : Cfg) (u : U) (hstop : u.sw.paused = true ∨ u.phase = .delay) (hd : Disc u true) :
    let u' := (onReq c u .cont).1
    (u.phase = .running → u'.sw.paused = false ∧ u'.is.paused = false ∧ Act.kill .cont ∈ (onReq c u .cont).2) ∧
    (∀ w, u.phase = .terminating w → u'.sw.paused = false ∧ u'.gs.paused = false ∧ u'.ws.paused = false ∧ Act.kill .cont ∈ (onReq c u .cont).2) ∧
    (u.phase = .delay → u'.ds.paused = false ∧ u'.ws.paused = false) ∧
    (u.phase = .draining → u'.sw.paused = false ∧ u'.lsPaused = false) := by
  refine ⟨?_, ?_, ?_, ?_⟩
  · intro hph
    rcases hstop with hs | hs
    · simp [onReq, hph, hs]
    · rw [hph] at hs; cases hs
  · intro w hph; simp [onReq, hph]
  · intro hph
    simp only [Disc, hph] at hd
    simp only [onReq, hph]
    split
    · rename_i hp
      have : u.ws.paused = true := by rw [← hd.1]; exact hp
      simp [this]
    · rename_i hp
      have hp' : u.ds.paused = false := by simpa using hp
      exact ⟨hp', by rw [← hd.1]; exact hp'⟩
  · intro hph; simp [onReq, hph]

/-- **Time spent stopped is excluded from every clock**: while the unit is stopped (its stopwatch and
    the timer of its phase paused) the passage of any amount of time changes neither the reported
    duration nor the slow-timeout, grace-period, retry-delay or leak timers, and nothing fires — in every phase that waits:
    running, being terminated, waiting out a retry delay, and draining the handles of an exited process (the last after the
    repair of F12: before it, a stop while draining was charged to the test's duration and to the leak timeout). -/
theorem stopped_time_excluded (c : Cfg) (u : U) (dt : Nat) :
    (u.phase = .running → u.sw.paused = true → u.is.paused = true →
      (advance c u dt).2 = [] ∧ (advance c u dt).1.sw.active = u.sw.active ∧ (advance c u dt).1.is.remaining = u.is.remaining) ∧
    (∀ w, u.phase = .terminating w → u.sw.paused = true → u.gs.paused = true → u.ws.paused = true →
      (advance c u dt).2 = [] ∧ (advance c u dt).1.sw.active = u.sw.active ∧ (advance c u dt).1.gs.remaining = u.gs.remaining ∧
        (advance c u dt).1.ws.active = u.ws.active) ∧
    (u.phase = .delay → u.ds.paused = true → u.ws.paused = true →
      (advance c u dt).2 = [] ∧ (advance c u dt).1.ds.remaining = u.ds.remaining ∧ (advance c u dt).1.ws.active = u.ws.active) ∧
    (u.phase = .draining → u.sw.paused = true → u.lsPaused = true →
      (advance c u dt).2 = [] ∧ (advance c u dt).1.sw.active = u.sw.active ∧ (advance c u dt).1.ls = u.ls ∧
        (advance c u dt).1.phase = .draining) := by
  refine ⟨?_, ?_, ?_, ?_⟩
  · intro hph h1 h2
    by_cases hto : u.timedOut = true <;> simp [advance, nextDue, hph, Timer.due, h2, hto, elapse, Watch.tick, Timer.tick, h1]
  · intro w hph h1 h2 h3
    simp [advance, nextDue, hph, Timer.due, h2, elapse, Watch.tick, Timer.tick, h1, h3]
  · intro hph h1 h2
    simp [advance, nextDue, hph, Timer.due, h1, elapse, Watch.tick, Timer.tick, h2]
  · intro hph h1 h2
    simp [advance, nextDue, hph, h2, elapse, Watch.tick, h1]

/-- … and while running, they advance by exactly the time that passes (up to the next expiry) -/
theorem running_time_counted (c : Cfg) (u : U) (dt : Nat) (hph : u.phase = .running) (hto : u.timedOut = false)
    (h1 : u.sw.paused = false) (h2 : u.is.paused = false) (hlt : dt < u.is.remaining) :
    (advance c u dt).1.sw.active = u.sw.active + dt ∧ (advance c u dt).1.is.remaining = u.is.remaining - dt := by
  simp [advance, nextDue, hph, Timer.due, h2, hto, hlt, elapse, Watch.tick, Timer.tick, h1]

/-- **An information request is answered by the unit exactly once, with the state of what it is
    doing, and changes nothing** -/
theorem info_once_and_matches (c : Cfg) (u : U) :
    (onReq c u .getInfo).1 = u ∧
    (onReq c u .getInfo).2 = (match u.phase with
      | .running => [.info .running]
      | .terminating _ => [.info .terminating]
      | .draining => [.info .exiting]
      | .delay => [.info .delayBeforeNextAttempt]
      | .done => []) := by
  cases hph : u.phase <;> simp [onReq, hph]

/-- **Stop and continue change no result**: they alter pause flags only — never the phase, the
    time-out status, the slow mark, the counted periods or the leak verdict -/
theorem stop_continue_change_no_result (c : Cfg) (u : U) (r : Req) (hr : r = .stop ∨ r = .cont) :
    let u' := (onReq c u r).1
    u'.phase = u.phase ∧ u'.timedOut = u.timedOut ∧ u'.slow = u.slow ∧ u'.hits = u.hits ∧ u'.leaked = u.leaked ∧
      u'.sw.active = u.sw.active ∧ u'.is.remaining = u.is.remaining ∧ u'.gs.remaining = u.gs.remaining ∧ u'.ds.remaining = u.ds.remaining := by
  rcases hr with rfl | rfl <;> cases hph : u.phase <;> simp only [onReq, hph] <;> (try split) <;> (try split) <;> simp [hph]

/-! ## Stop/continue leave no trace: erasing a stop … continue pair from a unit's history changes nothing else -/

/-- `run` over a concatenation -/
theorem run_append (c : Cfg) : ∀ (es fs : List Ev) (u : U),
    run c u (es ++ fs) = ((run c (run c u es).1 fs).1, (run c u es).2 ++ (run c (run c u es).1 fs).2) := by
  intro es
  induction es with
  | nil => intro fs u; simp [run]
  | cons e es ih =>
    intro fs u
    simp only [List.cons_append, run, ih, List.append_assoc]

/-- nothing is paused, and the unit is in a phase whose clocks all belong to it: the main loop, a retry delay, the draining of
    leaked handles, a termination for a timeout (for a termination caused by a shutdown signal the slow-timeout interval is
    not among the clocks `terminate_child` pauses — see the remark below) -/
def Quiescent (u : U) : Prop :=
  match u.phase with
  | .running => u.sw.paused = false ∧ u.is.paused = false
  | .terminating _ => u.timedOut = true ∧ u.sw.paused = false ∧ u.gs.paused = false ∧ u.ws.paused = false
  | .draining => u.sw.paused = false ∧ u.lsPaused = false
  | .delay => u.ds.paused = false ∧ u.ws.paused = false
  | .done => True

/-- what the unit does for the stop … continue pair itself -/
def bubbleActs (u : U) : List Act :=
  match u.phase with
  | .running => [.kill .tstp, .ack, .kill .cont]
  | .terminating _ => [.kill .tstp, .ack, .kill .cont]
  | .draining => [.ack]
  | .delay => [.ack]
  | .done => []

private theorem watch_eta (w : Watch) (h : w.paused = false) : ({ w with paused := false } : Watch) = w := by
  cases w; simp_all
private theorem timer_eta (t : Timer) (h : t.paused = false) : ({ t with paused := false } : Timer) = t := by
  cases t; simp_all

/-- while stopped, time leaves the unit untouched and nothing happens -/
private theorem stopped_time (c : Cfg) (u : U) (hq : Quiescent u) : ∀ (ds : List Nat),
    run c (onReq c u .stop).1 (ds.map Ev.time) = ((onReq c u .stop).1, []) := by
  intro ds
  induction ds with
  | nil => rfl
  | cons d ds ih =>
    have hstep : step c (onReq c u .stop).1 (.time d) = ((onReq c u .stop).1, []) := by
      cases hph : u.phase with
      | running =>
        simp only [Quiescent, hph] at hq
        by_cases hto : u.timedOut = true <;>
          simp [step, advance, nextDue, onReq, hph, Timer.due, elapse, Watch.tick, Timer.tick, hto]
      | terminating w =>
        simp only [Quiescent, hph] at hq
        simp [step, advance, nextDue, onReq, hph, hq.1, hq.2.1, hq.2.2.1, hq.2.2.2, Timer.due, elapse, Watch.tick, Timer.tick]
      | draining => simp [step, advance, nextDue, onReq, hph, elapse, Watch.tick]
      | delay =>
        simp only [Quiescent, hph] at hq
        simp [step, advance, nextDue, onReq, hph, hq.1, hq.2, Timer.due, elapse, Watch.tick, Timer.tick]
      | done => simp [step, advance, nextDue, onReq, hph, elapse]
    simp only [List.map_cons, run, hstep, ih, List.nil_append]

/-- **A stop … continue pair leaves no trace**: from a state in which nothing is paused, being stopped, any amount of time
    passing in any number of pieces, and being continued brings the unit back to exactly the state it was in — every clock,
    counter and flag — having done nothing but forward the two job-control signals and acknowledge the stop -/
theorem stop_bubble_erased (c : Cfg) (u : U) (ds : List Nat) (hq : Quiescent u) :
    run c u (.req .stop :: (ds.map Ev.time ++ [.req .cont])) = (u, bubbleActs u) := by
  have ht := stopped_time c u hq ds
  simp only [run, step, run_append, ht, List.nil_append, List.append_nil]
  cases hph : u.phase with
  | running =>
    simp only [Quiescent, hph] at hq
    simp only [onReq, hph, bubbleActs, if_true]
    have e1 := watch_eta u.sw hq.1
    have e2 := timer_eta u.is hq.2
    simp [e1, e2]
    cases u; simp_all
  | terminating w =>
    simp only [Quiescent, hph] at hq
    simp only [onReq, hph, bubbleActs, hq.2.1, hq.2.2.1, hq.2.2.2, Bool.or_self, Bool.false_eq_true, if_false]
    have e1 := watch_eta u.sw hq.2.1
    have e2 := timer_eta u.gs hq.2.2.1
    have e3 := watch_eta u.ws hq.2.2.2
    simp [e1, e2, e3]
    cases u; simp_all
  | draining =>
    simp only [Quiescent, hph] at hq
    simp only [onReq, hph, bubbleActs]
    have e1 := watch_eta u.sw hq.1
    simp [e1, hq.2]
    cases u; simp_all
  | delay =>
    simp only [Quiescent, hph] at hq
    simp only [onReq, hph, bubbleActs, hq.1, hq.2, Bool.or_self, Bool.false_eq_true, if_false, if_true, Bool.not_true]
    have e1 := timer_eta u.ds hq.1
    have e2 := watch_eta u.ws hq.2
    simp [e1, e2]
    cases u; simp_all
  | done => simp [onReq, hph, bubbleActs]

/-- **… hence the run proceeds to the results it would otherwise have produced**: inserting a stop … continue pair (with any
    passage of time in between) anywhere in a unit's history where nothing is paused changes neither the final state — result,
    time-out and slow marks, counted periods, leak verdict, reported duration, every timer — nor any action other than the
    pair's own job-control signals and acknowledgement -/
theorem results_unchanged (c : Cfg) (u : U) (pre post : List Ev) (ds : List Nat) (hq : Quiescent (run c u pre).1) :
    run c u (pre ++ (.req .stop :: (ds.map Ev.time ++ [.req .cont])) ++ post) =
      ((run c u (pre ++ post)).1, (run c u pre).2 ++ bubbleActs (run c u pre).1 ++ (run c (run c u pre).1 post).2) := by
  rw [List.append_assoc, run_append, run_append c _ post, stop_bubble_erased c _ ds hq, run_append c pre post]
  simp only [List.append_assoc]

-- the excluded corner: a termination caused by a shutdown signal pauses the stopwatch, the grace timer and the waiting stopwatch
-- but not the slow-timeout interval (it is not an argument of `terminate_child`), so a stop during such a termination lets
-- the interval run on; it can only matter for a unit the run has already given up on
example : let c : Cfg := { period := 1000, terminateAfter := none, grace := 500, leak := 100 }
    (run c (U.spawn c) [.req (.shutdown (.once .interrupt)), .req .stop, .time 300, .req .cont]).1.is.remaining = 700 := by decide

open NextestModel.Dispatcher in
/-- **The dispatcher debounces stop and continue**: a Stop is acted on (RunPaused, broadcast, nextest
    stops itself) only when not already stopped, a Continue only when stopped — so the requests units
    see alternate -/
theorem stop_continue_alternate (s : DState) :
    (∀ s' resp rep em, stepCore s .stop = .ok (s', resp, rep, em) →
      (s.paused = false → resp = .jobStop ∧ s'.paused = true) ∧ (s.paused = true → resp = .none ∧ s' = s)) ∧
    (∀ s' resp rep em, stepCore s .continue = .ok (s', resp, rep, em) →
      (s.paused = true → resp = .jobContinue ∧ s'.paused = false) ∧ (s.paused = false → resp = .none ∧ s' = s)) := by
  constructor <;> intro s' resp rep em h <;> simp only [stepCore] at h <;> split at h <;>
    simp only [Except.ok.injEq, Prod.mk.injEq] at h <;> obtain ⟨rfl, rfl, _, _⟩ := h <;> simp_all

/-! ## Non-vacuity: stop in the main loop, shutdown while stopped, continue, stop again in the grace period -/
example : Alternating false [.req .stop, .req (.shutdown (.once .interrupt)), .req .cont, .time 10, .req .stop, .req (.shutdown .twice), .req .cont]
    ∧ (run { period := 1000, terminateAfter := none, grace := 300, leak := 100 } (U.spawn { period := 1000, terminateAfter := none, grace := 300, leak := 100 })
      [.req .stop, .req (.shutdown (.once .interrupt)), .req .cont, .time 10, .req .stop, .req (.shutdown .twice), .req .cont]).2
      = [.kill .tstp, .ack, .kill .int, .kill .cont, .kill .tstp, .ack, .kill .kill, .kill .cont] := ⟨by simp [Alternating], by decide⟩

/-! ## The model's clauses for a unit under termination and between attempts are the source's -/

/-- **the Continue arm of `terminate_child`, statement by statement as read from unix.rs on this run, is the model's clause**:
    each of the three clocks is resumed if (and only if) it is paused, and SIGCONT goes to the process group *unconditionally* —
    also when termination began while the unit was stopped and only the unit's own stopwatch is paused -/
theorem terminate_child_continue_arm_is_the_models (c : Cfg) (u : U) (w : Why) (hp : u.phase = .terminating w) :
    interpArm applyTerm guardTerm Gen.terminateChildContinueArm u = onReq c u .cont := by
  simp only [onReq, hp]
  unfold Gen.terminateChildContinueArm
  simp only [interpArm, List.foldl]
  simp only [guardTerm, applyTerm]
  obtain ⟨ph, sw, is_, gs, ws, ds, ls, lsp, hits, slow, to, lk⟩ := u
  obtain ⟨swa, swp⟩ := sw
  obtain ⟨gsr, gsp⟩ := gs
  obtain ⟨wsa, wsp⟩ := ws
  cases swp <;> cases gsp <;> cases wsp <;> simp (config := { decide := true }) <;> exact hp

/-- … so is the Stop arm (nothing paused: the dispatcher debounces Stop, `stop_continue_alternate`): the three clocks are
    paused, SIGTSTP goes to the group, the Stop is acknowledged -/
theorem terminate_child_stop_arm_is_the_models (c : Cfg) (u : U) (w : Why) (hp : u.phase = .terminating w)
    (hn : u.sw.paused = false ∧ u.gs.paused = false ∧ u.ws.paused = false) :
    interpArm applyTerm guardTerm Gen.terminateChildStopArm u = onReq c u .stop := by
  simp only [onReq, hp]
  unfold Gen.terminateChildStopArm
  simp only [interpArm, List.foldl]
  simp only [guardTerm, applyTerm]
  obtain ⟨ph, sw, is_, gs, ws, ds, ls, lsp, hits, slow, to, lk⟩ := u
  obtain ⟨swa, swp⟩ := sw
  obtain ⟨gsr, gsp⟩ := gs
  obtain ⟨wsa, wsp⟩ := ws
  simp only at hn
  obtain ⟨rfl, rfl, rfl⟩ := hn
  simp (config := { decide := true })
  exact hp

/-- … and the Shutdown arm: the whole group is killed at once and `terminate_child` returns -/
theorem terminate_child_shutdown_arm_is_the_models (c : Cfg) (u : U) (w : Why) (hp : u.phase = .terminating w) (sr : ShutReq) :
    interpArm applyTerm guardTerm Gen.terminateChildShutdownArm u = onReq c u (.shutdown sr) := by
  simp only [onReq, hp]
  unfold Gen.terminateChildShutdownArm
  simp only [interpArm, List.foldl]
  simp only [guardTerm, applyTerm]
  simp (config := { decide := true })

/-- **the Stop and Continue arms of `handle_delay_between_attempts`, as read from executor.rs on this run, are the model's clauses
    for a unit between attempts**: Stop pauses the delay and its stopwatch and is acknowledged; Continue resumes both when the
    delay is paused and does nothing otherwise; an information request is answered with the delay phase.  (The arms that end
    the delay are C10's `delay_ending_arms_are_the_models`.) -/
theorem delay_stop_continue_arms_are_the_models (c : Cfg) (u : U) (hp : u.phase = .delay) :
    (u.ds.paused = false → u.ws.paused = false → interpArm applyDelay guardDelay Gen.delayStopArm u = onReq c u .stop) ∧
    (u.ds.paused = u.ws.paused → interpArm applyDelay guardDelay Gen.delayContinueArm u = onReq c u .cont) ∧
    interpArm applyDelay guardDelay Gen.delayGetInfoArm u = onReq c u .getInfo := by
  obtain ⟨ph, sw, is_, gs, ws, ds, ls, lsp, hits, slow, to, lk⟩ := u
  obtain ⟨dsr, dsp⟩ := ds
  obtain ⟨wsa, wsp⟩ := ws
  simp only at hp
  subst hp
  refine ⟨?_, ?_, ?_⟩
  · intro h1 h2
    simp only at h1 h2
    subst h1 h2
    unfold Gen.delayStopArm
    simp only [onReq, interpArm, List.foldl]
    simp only [guardDelay, applyDelay]
    simp (config := { decide := true })
  · intro h
    simp only at h
    subst h
    unfold Gen.delayContinueArm
    simp only [onReq, interpArm, List.foldl]
    simp only [guardDelay, applyDelay]
    cases dsp <;> simp (config := { decide := true })
  · unfold Gen.delayGetInfoArm
    simp only [onReq, interpArm, List.foldl]
    simp only [guardDelay, applyDelay]
    simp (config := { decide := true })

/-- **the arms of `detect_fd_leaks`, as read from executor.rs on this run, are the model's clauses for a unit draining the handles
    of an exited process** (the repair of F12): Stop pauses the attempt's stopwatch and the leak timer, each unless it already is,
    and is acknowledged; Continue resumes each if it is paused; a shutdown signal and a cancellation change nothing -/
theorem draining_arms_are_the_models (c : Cfg) (u : U) (hp : u.phase = .draining) :
    interpArm applyDrain guardDrain Gen.drainStopArm u = onReq c u .stop ∧
    interpArm applyDrain guardDrain Gen.drainContinueArm u = onReq c u .cont ∧
    interpArm applyDrain guardDrain Gen.drainOtherCancelArm u = onReq c u .otherCancel ∧
    (∀ sr, interpArm applyDrain guardDrain Gen.drainAnyOtherSignalArm u = onReq c u (.shutdown sr)) := by
  obtain ⟨ph, sw, is_, gs, ws, ds, ls, lsp, hits, slow, to, lk⟩ := u
  obtain ⟨swa, swp⟩ := sw
  simp only at hp
  subst hp
  refine ⟨?_, ?_, ?_, ?_⟩
  · unfold Gen.drainStopArm
    simp only [onReq, interpArm, List.foldl]
    simp only [guardDrain, applyDrain]
    cases swp <;> cases lsp <;> simp (config := { decide := true })
  · unfold Gen.drainContinueArm
    simp only [onReq, interpArm, List.foldl]
    simp only [guardDrain, applyDrain]
    cases swp <;> cases lsp <;> simp (config := { decide := true })
  · unfold Gen.drainOtherCancelArm
    simp [onReq, interpArm]
  · intro sr
    unfold Gen.drainAnyOtherSignalArm
    simp [onReq, interpArm]

/-- **the job-control arms of `handle_signal_request`, as read from executor.rs on this run, are the model's clauses for a running
    attempt**: Stop pauses the attempt's stopwatch and the slow-timeout interval (each unless it already is), stops the process
    group and is acknowledged; Continue is debounced on the stopwatch — if it is paused it is resumed, the interval is resumed
    if it is paused, and the process group is continued; otherwise nothing happens -/
theorem main_loop_arms_are_the_models (c : Cfg) (u : U) (hp : u.phase = .running) :
    interpArm applyMain guardMain Gen.mainStopArm u = onReq c u .stop ∧
    interpArm applyMain guardMain Gen.mainContinueArm u = onReq c u .cont := by
  obtain ⟨ph, sw, is_, gs, ws, ds, ls, lsp, hits, slow, to, lk⟩ := u
  obtain ⟨swa, swp⟩ := sw
  obtain ⟨isr, isp⟩ := is_
  simp only at hp
  subst hp
  refine ⟨?_, ?_⟩
  · unfold Gen.mainStopArm
    simp only [onReq, interpArm, List.foldl]
    simp only [guardMain, applyMain]
    cases swp <;> cases isp <;> simp (config := { decide := true })
  · unfold Gen.mainContinueArm
    simp only [onReq, interpArm, List.foldl]
    simp only [guardMain, applyMain]
    cases swp <;> cases isp <;> simp (config := { decide := true })

/-! ## `PausableSleep` itself -/

/-- `PausableSleep` (Model/Unit.PSleep, corresponded in-process with the real type on a paused clock: p_timer) is the model's
    `Timer` plus a remembered duration: advancing the clock is `Timer.tick`, and what is due is the same -/
theorem psleep_is_timer (s : PSleep) (d : Nat) :
    (s.advance d).toTimer = s.toTimer.tick d ∧ (s.toTimer.due = if s.paused then none else some s.remaining) ∧
    (s.fired = true ↔ s.toTimer.due = some 0) := by
  refine ⟨?_, rfl, ?_⟩
  · unfold PSleep.advance PSleep.toTimer Timer.tick
    split <;> simp_all
  · unfold PSleep.fired PSleep.toTimer Timer.due
    cases s.paused <;> simp

/-- **stopped time does not count against a `PausableSleep`, and the configured period survives pauses**: over any sequence of
    clock advances, pauses and resumes (no reset), the remembered duration is unchanged — so re-arming after an expiry gives the
    configured period again — and the time counted against the sleep is exactly the time that passed while it was running -/
theorem sleep_counts_running_time_only : ∀ (ops : List SleepOp) (s s' : PSleep),
    (∀ o ∈ ops, (∃ d, o = .advance d) ∨ o = .pause ∨ o = .resume) → s.run ops = some s' →
    s'.duration = s.duration ∧ s'.resetLast.remaining = s.duration ∧ s'.remaining ≤ s.remaining := by
  intro ops
  induction ops with
  | nil => intro s s' _ h; simp only [PSleep.run, Option.some.injEq] at h; subst h; exact ⟨rfl, rfl, Nat.le_refl _⟩
  | cons o os ih =>
    intro s s' hall h
    simp only [PSleep.run] at h
    split at h
    · cases h
    · rename_i s1 hs1
      have hrest := ih s1 s' (fun o' ho' => hall o' (List.mem_cons_of_mem _ ho')) h
      have hstep : s1.duration = s.duration ∧ s1.remaining ≤ s.remaining := by
        rcases hall o (List.mem_cons_self ..) with ⟨d, rfl⟩ | rfl | rfl
        · simp only [PSleep.apply, Option.some.injEq] at hs1; subst hs1
          unfold PSleep.advance; split <;> simp
        · simp only [PSleep.apply, PSleep.pause] at hs1
          split at hs1
          · cases hs1
          · simp only [Option.some.injEq] at hs1; subst hs1; simp
        · simp only [PSleep.apply, PSleep.resume] at hs1
          split at hs1
          · simp only [Option.some.injEq] at hs1; subst hs1; simp
          · cases hs1
      obtain ⟨a, b, c⟩ := hrest
      exact ⟨by rw [a, hstep.1], by rw [b, hstep.1], Nat.le_trans c hstep.2⟩

-- not vacuous: a 100 ms sleep; 60 ms pass, paused for 500 ms, 39 ms more: not due; one more: due; re-armed: 100 ms again
example : ((PSleep.new 100).run [.advance 60, .pause, .advance 500, .resume, .advance 39]).map (fun s => (s.fired, s.remaining)) = some (false, 1) ∧
    ((PSleep.new 100).run [.advance 60, .pause, .advance 500, .resume, .advance 40, .resetLast]).map (fun s => (s.fired, s.remaining)) = some (false, 100) := by decide

/-- **Stop and Continue are broadcast to every running unit, whatever is running** (dispatcher.rs `run`, as translated on this
    run): the arm for a job-control response broadcasts the request unconditionally — not only when a *test* is running (a setup
    script is a unit too; `DState.broadcast` reaches it first) -/
theorem stop_and_continue_are_always_broadcast :
    ("JobControl/Stop", [("stop", true)]) ∈ Gen.responseBroadcasts ∧
    ("JobControl/Continue", [("continue", true)]) ∈ Gen.responseBroadcasts ∧
    Dispatcher.responseRow .jobStop = ("JobControl/Stop", [("stop", true)]) ∧
    Dispatcher.responseRow .jobContinue = ("JobControl/Continue", [("continue", true)]) := by
  refine ⟨by decide, by decide, by decide, by decide⟩

/-- **the stopwatch counts running time only** (stopwatch.rs `StopwatchStart`, the clock behind every reported duration): for
    every operation sequence without an illegal transition, `snapshot().active` grows by exactly the time that passes while
    the watch is not paused -/
theorem stopwatch_counts_running_time_only (ops : List WatchOp) (w w' : Watch) (h : w.run ops = some w') :
    w'.active = w.active + runningTime w.paused ops := by
  induction ops generalizing w with
  | nil => simp [Watch.run] at h; subst h; simp [runningTime]
  | cons o os ih =>
    cases o with
    | advance d =>
      simp only [Watch.run, Watch.apply] at h
      have := ih _ h
      rw [this]
      unfold Watch.tick
      by_cases hp : w.paused = true
      · simp [hp, runningTime]
      · simp [hp, runningTime]; omega
    | pause =>
      simp only [Watch.run, Watch.apply] at h
      by_cases hp : w.paused = true
      · simp [hp] at h
      · simp [hp] at h
        have := ih _ h
        simpa [runningTime] using this
    | resume =>
      simp only [Watch.run, Watch.apply] at h
      by_cases hp : w.paused = true
      · simp [hp] at h
        have := ih _ h
        simpa [runningTime] using this
      · simp [hp] at h

/-- non-vacuity: a legal sequence with time passing in both states — 5 running, 7 paused, 3 running — counts 8 -/
example : (({} : Watch).run [.advance 5, .pause, .advance 7, .resume, .advance 3]) = some { active := 8, paused := false } := by decide
example : runningTime false [.advance 5, .pause, .advance 7, .resume, .advance 3] = 8 := by decide
/-- … and the illegal transitions are the panics of stopwatch.rs -/
example : (({} : Watch).run [.pause, .pause]) = none ∧ (({} : Watch).run [.resume]) = none := by decide

end NextestModel.C12
