/-
  C16 — "these captured bytes are what nextest shows for that attempt … subject only to the documented normalisations
  (… removal of ANSI escapes when colour is off, a final newline)": the display side (Model/Display).
  Property theorems only.
-/
import NextestModel.Lemmas.Display
namespace NextestModel.C16Display
open NextestModel.Display

/-- **the description the heuristics pick is a part of the stream it is shown in**: whatever the two streams hold, a panic
    message or an `Error:` text is `stderr[start .. start + len]`, a should-panic note is `stdout[start .. start + len]` — the
    slice expressions of `write_output_with_highlight` are in range for it -/
theorem heuristic_description_in_bounds (so se : Option Bytes) (w : Which) (d : Subslice)
    (h : heuristicExtract so se = some (w, d)) :
    (w = .shouldPanic → ∃ o, so = some o ∧ InBounds o d) ∧ (w ≠ .shouldPanic → ∃ e, se = some e ∧ InBounds e d) := by
  unfold heuristicExtract at h
  simp only at h
  cases se with
  | none =>
    simp only at h
    cases so with
    | none => cases h
    | some o =>
      simp only [Option.map_eq_some_iff] at h
      obtain ⟨s, hs, he⟩ := h
      cases he
      exact ⟨fun _ => ⟨o, rfl, heuristicShouldPanic_inBounds o _ hs⟩, fun hne => absurd rfl hne⟩
  | some e =>
    simp only at h
    cases hp : heuristicPanicMessage e with
    | some s =>
      simp only [hp, Option.some.injEq, Prod.mk.injEq] at h
      obtain ⟨rfl, rfl⟩ := h
      exact ⟨fun hw => (by cases hw), fun _ => ⟨e, rfl, heuristicPanicMessage_inBounds e _ hp⟩⟩
    | none =>
      simp only [hp] at h
      cases he : heuristicErrorStr e with
      | some s =>
        simp only [he, Option.map_some, Option.some.injEq, Prod.mk.injEq] at h
        obtain ⟨rfl, rfl⟩ := h
        exact ⟨fun hw => (by cases hw), fun _ => ⟨e, rfl, heuristicErrorStr_inBounds e _ he⟩⟩
      | none =>
        simp only [he, Option.map_none] at h
        cases so with
        | none => cases h
        | some o =>
          simp only [Option.map_eq_some_iff] at h
          obtain ⟨s, hs, hh⟩ := h
          cases hh
          exact ⟨fun _ => ⟨o, rfl, heuristicShouldPanic_inBounds o _ hs⟩, fun hne => absurd rfl hne⟩

/-- **what is shown is what was captured**: for every captured output, colour on or off, and every description that is a part of
    it, writing the output never indexes out of range, and the test's bytes among what is written (nextest's own colour
    sequences left out; the highlighted lines and — colour off — everything go through the ANSI stripper) are, in order,
    exactly the captured bytes followed by one newline, a newline the output ends with not being doubled unless the
    highlight reaches the very end -/
theorem shown_is_captured (colorized : Bool) (output : Bytes) (d : Option Subslice)
    (hd : ∀ x, d = some x → InBounds output x) :
    ∃ ps, writeSingle colorized output d = some ps ∧ (fed ps = output ++ [NL] ∨ fed ps = dropOneNl output ++ [NL]) := by
  unfold writeSingle
  cases colorized with
  | false => exact ⟨_, rfl, Or.inr (by simp [fed])⟩
  | true =>
    simp only [if_true]
    cases d with
    | none => exact ⟨_, rfl, Or.inr (by simp [fed])⟩
    | some x =>
      have hb := (hd x rfl).le
      have he := highlightEnd_le x.slice
      have hcond : x.start ≤ output.length ∧ x.start + highlightEnd x.slice ≤ output.length := ⟨by omega, by omega⟩
      have hw : writeHighlight output x = some ([.raw (output.take x.start), .style .reset]
          ++ (linesWT ((output.drop x.start).take (x.start + highlightEnd x.slice - x.start))).flatMap highlightLine
          ++ [.raw (dropOneNl (output.drop (x.start + highlightEnd x.slice))), .style .reset, .raw [NL]]) := by
        unfold writeHighlight
        simp only [hcond, and_self, if_true]
      refine ⟨_, hw, ?_⟩
      rw [writeHighlight_fed output x _ hw]
      by_cases hnil : output.drop (x.start + highlightEnd x.slice) = []
      · left
        have hlen : output.length ≤ x.start + highlightEnd x.slice := by
          have := congrArg List.length hnil
          simp only [List.length_drop, List.length_nil] at this
          omega
        rw [hnil, List.take_of_length_le hlen]
        simp [dropOneNl]
      · right
        have := dropOneNl_append (output.take (x.start + highlightEnd x.slice)) _ hnil
        rw [List.take_append_drop] at this
        rw [this]

/-- the three places a stream is shown (`write_child_output`): standard output and standard error of a split capture with the
    description found in them, and a combined capture searched as both — never out of range, all bytes shown -/
theorem every_stream_shown_in_full (colorized : Bool) (so se : Option Bytes) :
    (∀ o, so = some o → ∃ ps, writeSingle colorized o ((heuristicExtract so se).bind stdoutSubslice) = some ps ∧
        (fed ps = o ++ [NL] ∨ fed ps = dropOneNl o ++ [NL])) ∧
    (∀ e, se = some e → ∃ ps, writeSingle colorized e ((heuristicExtract so se).bind stderrSubslice) = some ps ∧
        (fed ps = e ++ [NL] ∨ fed ps = dropOneNl e ++ [NL])) ∧
    (∀ c, so = some c → se = some c → ∃ ps, writeSingle colorized c ((heuristicExtract so se).bind combinedSubslice) = some ps ∧
        (fed ps = c ++ [NL] ∨ fed ps = dropOneNl c ++ [NL])) := by
  refine ⟨?_, ?_, ?_⟩
  · intro o ho
    apply shown_is_captured
    intro x hx
    cases hr : heuristicExtract so se with
    | none => simp [hr] at hx
    | some r =>
      obtain ⟨w, d⟩ := r
      have hb := heuristic_description_in_bounds so se w d hr
      cases w <;> simp [hr, stdoutSubslice] at hx
      subst hx
      obtain ⟨o', ho', hin⟩ := hb.1 rfl
      rw [ho] at ho'; cases ho'; exact hin
  · intro e he
    apply shown_is_captured
    intro x hx
    cases hr : heuristicExtract so se with
    | none => simp [hr] at hx
    | some r =>
      obtain ⟨w, d⟩ := r
      have hb := heuristic_description_in_bounds so se w d hr
      cases w <;> simp [hr, stderrSubslice] at hx
      all_goals
        subst hx
        obtain ⟨e', he', hin⟩ := hb.2 (by intro h; cases h)
        rw [he] at he'; cases he'; exact hin
  · intro c hso hse
    apply shown_is_captured
    intro x hx
    cases hr : heuristicExtract so se with
    | none => simp [hr] at hx
    | some r =>
      obtain ⟨w, d⟩ := r
      have hb := heuristic_description_in_bounds so se w d hr
      simp [hr, combinedSubslice] at hx
      subst hx
      cases w
      · obtain ⟨e', he', hin⟩ := hb.2 (by intro h; cases h)
        rw [hse] at he'; cases he'; exact hin
      · obtain ⟨e', he', hin⟩ := hb.2 (by intro h; cases h)
        rw [hse] at he'; cases he'; exact hin
      · obtain ⟨o', ho', hin⟩ := hb.1 rfl
        rw [hso] at ho'; cases ho'; exact hin

/-- with colour off and an output without escape sequences (the stripper leaves it alone), what reaches the terminal is the
    fed bytes themselves -/
theorem render_plain (ps : List Piece) : render id (fun _ => []) ps = fed ps := by
  induction ps with
  | nil => rfl
  | cons p ps ih => cases p <;> simp [render, fed, ih]

-- not vacuous: a panic message after an `Error:` line, in the middle of the output (the highlight ends at the second newline)
example : heuristicPanicMessage (ascii "x\nError: e\nthread 'a' panicked at b\nc\nd\n\n") =
    some { start := 2, slice := ascii "Error: e\nthread 'a' panicked at b\nc\nd" } := by decide
example : (writeSingle true (ascii "x\nError: e\nthread 'a' panicked at b\nc\n") (some { start := 2, slice := ascii "Error: e\nthread 'a' panicked at b\nc" })).map fed =
    some (ascii "x\nError: e\nthread 'a' panicked at b\nc\n") := by decide
-- a description that is not a part of the output makes the slice expression panic: the hypothesis is needed
example : writeSingle true (ascii "ab") (some { start := 3, slice := [] }) = none := by decide

end NextestModel.C16Display
