/-
  C07 — failed tests are retried as configured: count, stop on success, backoff.
  Property theorems only (the backoff iterator, and the attempt loop of run_test_instance; `--retries` is C06.cli_retries_wins, refusal of retries once
  the run is cancelled is C10.no_start_after_cancel).
-/
import NextestModel.Model.Classify
import NextestModel.Lemmas.Attempts
import NextestModel.Gen.Tables
namespace NextestModel.C07
open NextestModel.Classify

private theorem delaysFrom_length (p : Policy) : ∀ n f, (delaysFrom p n f).length = n := by
  intro n
  induction n with
  | zero => intro f; rfl
  | succ n ih =>
    intro f
    cases p with
    | fixed c d j => simp [delaysFrom, ih]
    | exponential c d j m =>
      cases m with
      | none => simp [delaysFrom, ih]
      | some m => simp only [delaysFrom]; split <;> simp [ih]

/-- the iterator yields exactly `count` delays: a policy allowing N retries makes at most N+1 attempts
    and the `expect` in the attempt loop cannot fire -/
theorem count_exact (p : Policy) : (delays p).length = p.count := delaysFrom_length p _ _

/-- fixed backoff: the same delay every time -/
private theorem fixed_from (c d : Nat) (j : Bool) : ∀ n f, delaysFrom (.fixed c d j) n f = List.replicate n d := by
  intro n
  induction n with
  | zero => intro f; rfl
  | succ n ih => intro f; simp [delaysFrom, List.replicate_succ, ih]

theorem fixed_delay (c d : Nat) (j : Bool) : delays (.fixed c d j) = List.replicate c d := by
  unfold delays
  exact fixed_from c d j _ _

private theorem exp_nomax (c d j : _) : ∀ n k, delaysFrom (.exponential c d j none) n (2 ^ k) =
    (List.range n).map (fun i => d * 2 ^ (k + i)) := by
  intro n
  induction n with
  | zero => intro k; rfl
  | succ n ih =>
    intro k
    simp only [delaysFrom]
    have : 2 ^ k * 2 = 2 ^ (k + 1) := by rw [Nat.pow_succ]
    rw [this, ih (k + 1), List.range_succ_eq_map, List.map_cons, List.map_map]
    congr 1
    apply List.map_congr_left
    intro i _; simp only [Function.comp]; congr 2; omega

/-- exponential backoff without a cap: the base delay doubling each time -/
theorem exp_delay_closed_form (c d : Nat) (j : Bool) :
    delays (.exponential c d j none) = (List.range c).map (fun k => d * 2 ^ k) := by
  have := exp_nomax c d j c 0
  simpa [delays, Policy.count] using this

private theorem exp_max_frozen (c d j m : _) (f : Nat) (hf : d * f > m) :
    ∀ n, delaysFrom (.exponential c d j (some m)) n f = List.replicate n m := by
  intro n
  induction n with
  | zero => rfl
  | succ n ih => simp [delaysFrom, hf, ih, List.replicate_succ]

private theorem exp_max (c d j m : _) : ∀ n k, delaysFrom (.exponential c d j (some m)) n (2 ^ k) =
    (List.range n).map (fun i => min (d * 2 ^ (k + i)) m) := by
  intro n
  induction n with
  | zero => intro k; rfl
  | succ n ih =>
    intro k
    simp only [delaysFrom]
    by_cases h : d * 2 ^ k > m
    · simp only [h, if_true]
      rw [exp_max_frozen c d j m _ h n, List.range_succ_eq_map, List.map_cons, List.map_map]
      congr 1
      · simp; omega
      · have hrep : ∀ l : List Nat, (l.map ((fun i => min (d * 2 ^ (k + i)) m) ∘ Nat.succ)) = List.replicate l.length m := by
          intro l
          induction l with
          | nil => rfl
          | cons i is ihl =>
            have hle : d * 2 ^ k ≤ d * 2 ^ (k + (i + 1)) := Nat.mul_le_mul_left _ (Nat.pow_le_pow_right (by omega) (by omega))
            have hmin : min (d * 2 ^ (k + (i + 1))) m = m := Nat.min_eq_right (by omega)
            simp only [List.map_cons, List.length_cons, List.replicate_succ, ihl, Function.comp, Nat.succ_eq_add_one, hmin]
        rw [hrep]; simp
    · simp only [h, if_false]
      have : 2 ^ k * 2 = 2 ^ (k + 1) := by rw [Nat.pow_succ]
      rw [this, ih (k + 1), List.range_succ_eq_map, List.map_cons, List.map_map]
      congr 1
      · simp; omega
      · apply List.map_congr_left
        intro i _; simp only [Function.comp]; congr 3; omega

/-- exponential backoff with `max-delay`: the base delay doubling each time, capped at the maximum -/
theorem exp_delay_capped (c d m : Nat) (j : Bool) :
    delays (.exponential c d j (some m)) = (List.range c).map (fun k => min (d * 2 ^ k) m) := by
  have := exp_max c d j m c 0
  simpa [delays, Policy.count] using this

/-! ## Non-vacuity -/
example : delays (.exponential 5 100 false (some 350)) = [100, 200, 350, 350, 350] := by decide
example : delays (.exponential 3 100 false none) = [100, 200, 400] := by decide

/-! ## The attempt loop of `run_test_instance` -/

section loop
open NextestModel.Attempts NextestModel.Dispatcher

/-- the attempt loop never trips its `expect("backoff delay must be non-empty")`: for every policy, every behaviour of the
    test's processes and every pattern of acknowledgements -/
theorem attempt_loop_never_panics (p : Policy) (env : Env) : ∃ evs, runTestInstance p env = some evs := by
  unfold runTestInstance
  split
  · exact ⟨_, rfl⟩
  · obtain ⟨evs, h⟩ := loop_some (p.count + 1) env (p.count + 1) 0 [] (delays p) (by rw [count_exact]) (by omega)
    simp [h]

private theorem run_cases (p : Policy) (env : Env) (evs : List XEv) (h : runTestInstance p env = some evs) :
    (env.ackStart = false ∧ evs = [.started]) ∨
    (env.ackStart = true ∧ ∃ rest, loop (p.count + 1) env (p.count + 1) 0 [] (delays p) = some rest ∧ evs = .started :: rest) := by
  unfold runTestInstance at h
  split at h
  · rename_i ha; simp at h; subst h; exact Or.inl ⟨by simpa using ha, rfl⟩
  · rename_i ha
    cases hl : loop (p.count + 1) env (p.count + 1) 0 [] (delays p) with
    | none => simp [hl] at h
    | some rest => simp [hl] at h; subst h; exact Or.inr ⟨by simpa using ha, rest, rfl, rfl⟩

/-- **a test is attempted at most N + 1 times under a policy allowing N retries, each attempt one spawn, numbered 1, 2, … consecutively** -/
theorem attempts_bound (p : Policy) (env : Env) (evs : List XEv) (h : runTestInstance p env = some evs) :
    (spawns evs).length ≤ p.count + 1 ∧ spawns evs = List.range' 1 (spawns evs).length := by
  rcases run_cases p env evs h with ⟨_, rfl⟩ | ⟨_, rest, hl, rfl⟩
  · simp [spawns]
  · obtain ⟨h1, h2⟩ := loop_spawns _ env _ 0 [] _ rest (by omega) hl
    simp only [spawns]
    exact ⟨by omega, by simpa using h1⟩

/-- **never retried after a passing attempt**: every attempt that was followed by another one had failed -/
theorem stop_on_success (p : Policy) (env : Env) (evs : List XEv) (h : runTestInstance p env = some evs) :
    ∀ k ∈ (spawns evs).dropLast, (env.outcome k).isSuccess = false := by
  rcases run_cases p env evs h with ⟨_, rfl⟩ | ⟨_, rest, hl, rfl⟩
  · simp [spawns]
  · exact (loop_discipline _ env _ 0 [] _ rest hl).1

/-- **never retried once the run is being cancelled**: a second or later attempt is spawned only after the dispatcher
    acknowledged its `RetryStarted` (which `C10.no_start_after_cancel` shows it refuses after cancellation began) -/
theorem no_retry_unless_acknowledged (p : Policy) (env : Env) (evs : List XEv) (h : runTestInstance p env = some evs) :
    ∀ k ∈ spawns evs, k ≤ 1 ∨ env.ackRetry k = true := by
  rcases run_cases p env evs h with ⟨_, rfl⟩ | ⟨_, rest, hl, rfl⟩
  · simp [spawns]
  · exact (loop_discipline _ env _ 0 [] _ rest hl).2

/-- **retried after each failure until the bound**: when no retry is refused, the unit reports a final result whose last attempt
    passed or which used all N + 1 attempts -/
theorem retried_until_pass_or_bound (p : Policy) (env : Env) (evs : List XEv) (h : runTestInstance p env = some evs)
    (hstart : env.ackStart = true) (hack : ∀ k, env.ackRetry k = true) :
    ∃ k, (spawns evs).getLast? = some k ∧ ((env.outcome k).isSuccess = true ∨ k = p.count + 1) ∧
      finisheds evs = [(spawns evs).map env.outcome] := by
  rcases run_cases p env evs h with ⟨h0, _⟩ | ⟨_, rest, hl, rfl⟩
  · rw [hstart] at h0; cases h0
  · simp only [spawns, finisheds]
    rcases loop_finished _ env _ 0 [] _ rest (by omega) hl with h0 | ⟨h1, _, _, k, hk, hk2⟩
    · -- no Finished: impossible, some retry would have been refused
      exfalso
      have key : ∀ fuel done acc ds evs', fuel + done = p.count + 1 → 0 < fuel → loop (p.count + 1) env fuel done acc ds = some evs' → finisheds evs' ≠ [] := by
        intro fuel
        induction fuel with
        | zero => intro _ _ _ _ _ hz; omega
        | succ fuel ih =>
          intro done acc ds evs' hsum _ hl'
          rcases loop_unfold _ env fuel done acc ds evs' hl' with ⟨_, hr, _⟩ | ⟨_, ⟨_, rfl⟩ | ⟨_, hlt, d, ds', rest', rfl, hr, rfl⟩⟩
          · rw [hack] at hr; cases hr
          · rw [finisheds_pre]; simp [finisheds]
          · rw [List.append_assoc, finisheds_pre]; simp only [List.cons_append, List.nil_append, finisheds]
            cases fuel with
            | zero => omega
            | succ f => exact ih (done + 1) _ ds' rest' (by omega) (by omega) hr
      exact key _ 0 [] _ rest (by omega) (by omega) hl h0
    · exact ⟨k, hk, hk2, by simpa using h1⟩

/-- the delay announced before each retry is the backoff iterator's next value (`fixed_delay`, `exp_delay_closed_form`,
    `exp_delay_capped` say what those are) -/
theorem announced_delays_are_backoff (p : Policy) (env : Env) (evs : List XEv) (h : runTestInstance p env = some evs) :
    announcedDelays evs <+: delays p := by
  rcases run_cases p env evs h with ⟨_, rfl⟩ | ⟨_, rest, hl, rfl⟩
  · simp [announcedDelays]
  · simpa [announcedDelays] using loop_delays _ env _ 0 [] _ rest hl

-- non-vacuity: 2 retries, attempts fail, fail, pass
example : runTestInstance (.fixed 2 5 false) { outcome := fun k => if k < 3 then .fail none false else .pass, ackStart := true, ackRetry := fun _ => true } =
    some [.started, .spawn 1, .willRetry 1 (.fail none false) 5, .retryStarted 2, .spawn 2, .willRetry 2 (.fail none false) 5,
          .retryStarted 3, .spawn 3, .finished [.fail none false, .fail none false, .pass]] := by decide
-- the run is cancelled while the unit waits out its first delay: the retry is refused, nothing more is spawned or reported
example : runTestInstance (.fixed 2 5 false) { outcome := fun _ => .fail none false, ackStart := true, ackRetry := fun _ => false } =
    some [.started, .spawn 1, .willRetry 1 (.fail none false) 5, .retryStarted 2] := by decide

end loop

/-- **the attempt loop of `run_test_instance` is the loop of `Model/Attempts`** (executor.rs, as read on this run): the loop's
    text is exactly six segments in this order, with nothing else in it — the attempt number incremented first, from 0; for every
    attempt after the first the `RetryStarted` handshake, whose refusal ends the unit without a result; one `run_test` per pass;
    `break` on success; otherwise, exactly while `attempt < total_attempts`, the backoff iterator's next delay announced
    (`AttemptFailedWillRetry`) and then waited (`handle_delay_between_attempts`); otherwise `break`; one `Finished` after the loop
    with the status the loop ended with — clause by clause the `loop` / `runTestInstance` of the model, about which
    `attempts_bound`, `stop_on_success`, `no_retry_unless_acknowledged`, `retried_until_pass_or_bound` and
    `announced_delays_are_backoff` speak -/
theorem attempt_loop_is_as_modelled : Gen.attemptLoopShape.length = 8 ∧ ∀ r ∈ Gen.attemptLoopShape, r.2 = true := by decide

end NextestModel.C07
