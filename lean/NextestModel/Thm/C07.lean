/-
  C07 — failed tests are retried as configured: count, stop on success, backoff.
  Property theorems only (backoff part; `--retries` is C06.cli_retries_wins, refusal of retries once
  the run is cancelled is C10.no_start_after_cancel).
-/
import NextestModel.Model.Classify
namespace NextestModel.C07
open NextestModel.Classify

private theorem delaysFrom_length (p : Policy) : ∀ n f, (delaysFrom p n f).length = n := by
  intro n
  induction n with
  | zero => intro f; rfl
  | succ n ih =>
    intro f
    cases p with
    | fixed c d j => simp [delaysFrom, ih]
    | exponential c d j m =>
      cases m with
      | none => simp [delaysFrom, ih]
      | some m => simp only [delaysFrom]; split <;> simp [ih]

/-- the iterator yields exactly `count` delays: a policy allowing N retries makes at most N+1 attempts
    and the `expect` in the attempt loop cannot fire -/
theorem count_exact (p : Policy) : (delays p).length = p.count := delaysFrom_length p _ _

/-- fixed backoff: the same delay every time -/
private theorem fixed_from (c d : Nat) (j : Bool) : ∀ n f, delaysFrom (.fixed c d j) n f = List.replicate n d := by
  intro n
  induction n with
  | zero => intro f; rfl
  | succ n ih => intro f; simp [delaysFrom, List.replicate_succ, ih]

theorem fixed_delay (c d : Nat) (j : Bool) : delays (.fixed c d j) = List.replicate c d := by
  unfold delays
  exact fixed_from c d j _ _

private theorem exp_nomax (c d j : _) : ∀ n k, delaysFrom (.exponential c d j none) n (2 ^ k) =
    (List.range n).map (fun i => d * 2 ^ (k + i)) := by
  intro n
  induction n with
  | zero => intro k; rfl
  | succ n ih =>
    intro k
    simp only [delaysFrom]
    have : 2 ^ k * 2 = 2 ^ (k + 1) := by rw [Nat.pow_succ]
    rw [this, ih (k + 1), List.range_succ_eq_map, List.map_cons, List.map_map]
    congr 1
    apply List.map_congr_left
    intro i _; simp only [Function.comp]; congr 2; omega

/-- exponential backoff without a cap: the base delay doubling each time -/
theorem exp_delay_closed_form (c d : Nat) (j : Bool) :
    delays (.exponential c d j none) = (List.range c).map (fun k => d * 2 ^ k) := by
  have := exp_nomax c d j c 0
  simpa [delays, Policy.count] using this

private theorem exp_max_frozen (c d j m : _) (f : Nat) (hf : d * f > m) :
    ∀ n, delaysFrom (.exponential c d j (some m)) n f = List.replicate n m := by
  intro n
  induction n with
  | zero => rfl
  | succ n ih => simp [delaysFrom, hf, ih, List.replicate_succ]

private theorem exp_max (c d j m : _) : ∀ n k, delaysFrom (.exponential c d j (some m)) n (2 ^ k) =
    (List.range n).map (fun i => min (d * 2 ^ (k + i)) m) := by
  intro n
  induction n with
  | zero => intro k; rfl
  | succ n ih =>
    intro k
    simp only [delaysFrom]
    by_cases h : d * 2 ^ k > m
    · simp only [h, if_true]
      rw [exp_max_frozen c d j m _ h n, List.range_succ_eq_map, List.map_cons, List.map_map]
      congr 1
      · simp; omega
      · have hrep : ∀ l : List Nat, (l.map ((fun i => min (d * 2 ^ (k + i)) m) ∘ Nat.succ)) = List.replicate l.length m := by
          intro l
          induction l with
          | nil => rfl
          | cons i is ihl =>
            have hle : d * 2 ^ k ≤ d * 2 ^ (k + (i + 1)) := Nat.mul_le_mul_left _ (Nat.pow_le_pow_right (by omega) (by omega))
            have hmin : min (d * 2 ^ (k + (i + 1))) m = m := Nat.min_eq_right (by omega)
            simp only [List.map_cons, List.length_cons, List.replicate_succ, ihl, Function.comp, Nat.succ_eq_add_one, hmin]
        rw [hrep]; simp
    · simp only [h, if_false]
      have : 2 ^ k * 2 = 2 ^ (k + 1) := by rw [Nat.pow_succ]
      rw [this, ih (k + 1), List.range_succ_eq_map, List.map_cons, List.map_map]
      congr 1
      · simp; omega
      · apply List.map_congr_left
        intro i _; simp only [Function.comp]; congr 3; omega

/-- exponential backoff with `max-delay`: the base delay doubling each time, capped at the maximum -/
theorem exp_delay_capped (c d m : Nat) (j : Bool) :
    delays (.exponential c d j (some m)) = (List.range c).map (fun k => min (d * 2 ^ k) m) := by
  have := exp_max c d j m c 0
  simpa [delays, Policy.count] using this

/-! ## Non-vacuity -/
example : delays (.exponential 5 100 false (some 350)) = [100, 200, 350, 350, 350] := by decide
example : delays (.exponential 3 100 false none) = [100, 200, 400] := by decide

end NextestModel.C07
