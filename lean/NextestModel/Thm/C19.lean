/-
  C19 — archives round-trip faithfully, are created atomically, and extract safely.
  Property theorems only.  Byte-for-byte fidelity of file contents, `tar::Entry::unpack_in`'s own
  symlink protection and the atomicity of rename(2) are not modelled: they are observed end-to-end.
-/
import NextestModel.Model.Archive
namespace NextestModel.C19
open NextestModel.Archive

/-! ## Down to the configured depth and no deeper -/

mutual
private theorem collect_spec (t : Node) (d : Depth) (rel p : List String) :
    p ∈ collect d rel t ↔ ∃ q, p = rel ++ q ∧ Leaf t q ∧ (∀ k, d = some k → q.length ≤ k) := by
  cases t with
  | file =>
    simp only [collect, List.mem_singleton]
    constructor
    · rintro rfl; exact ⟨[], by simp, .file, by simp⟩
    · rintro ⟨q, rfl, hl, _⟩; cases hl; simp
  | symlink =>
    simp only [collect, List.mem_singleton]
    constructor
    · rintro rfl; exact ⟨[], by simp, .symlink, by simp⟩
    · rintro ⟨q, rfl, hl, _⟩; cases hl; simp
  | other =>
    simp only [collect, List.not_mem_nil, false_iff]
    rintro ⟨q, _, hl, _⟩; cases hl
  | dir cs =>
    simp only [collect]
    cases d with
    | none =>
      simp only [Depth.isZero, Depth.decrement, Bool.false_eq_true, if_false]
      rw [collectList_spec cs]
      constructor
      · rintro ⟨n, c, q, hm, rfl, hl, _⟩; exact ⟨n :: q, rfl, .dir hm hl, by simp⟩
      · rintro ⟨q, rfl, hl, _⟩; cases hl with
        | dir hm hl => exact ⟨_, _, _, hm, rfl, hl, by simp⟩
    | some k =>
      cases k with
      | zero =>
        simp only [Depth.isZero, if_true, List.not_mem_nil, false_iff]
        rintro ⟨q, _, hl, hk⟩
        cases hl with
        | dir hm hl => have := hk 0 rfl; simp at this
      | succ k =>
        simp only [Depth.isZero, Depth.decrement, Bool.false_eq_true, if_false, Nat.add_sub_cancel]
        rw [collectList_spec cs]
        constructor
        · rintro ⟨n, c, q, hm, rfl, hl, hk⟩
          refine ⟨n :: q, rfl, .dir hm hl, ?_⟩
          intro k' h'; cases h'; simpa using hk k rfl
        · rintro ⟨q, rfl, hl, hk⟩; cases hl with
          | dir hm hl =>
            refine ⟨_, _, _, hm, rfl, hl, ?_⟩
            intro k' h'; cases h'; simpa using hk (k + 1) rfl
private theorem collectList_spec (cs : List (String × Node)) (d : Depth) (rel p : List String) :
    p ∈ collectList d rel cs ↔ ∃ n c q, (n, c) ∈ cs ∧ p = rel ++ n :: q ∧ Leaf c q ∧ (∀ k, d = some k → q.length ≤ k) := by
  cases cs with
  | nil => simp [collectList]
  | cons head tail =>
    obtain ⟨n, c⟩ := head
    simp only [collectList, List.mem_append, List.mem_cons]
    rw [collect_spec c, collectList_spec tail]
    constructor
    · rintro (⟨q, rfl, hl, hk⟩ | ⟨n', c', q, hm, rfl, hl, hk⟩)
      · exact ⟨n, c, q, Or.inl rfl, by simp, hl, hk⟩
      · exact ⟨n', c', q, Or.inr hm, rfl, hl, hk⟩
    · rintro ⟨n', c', q, hm | hm, rfl, hl, hk⟩
      · cases hm; exact Or.inl ⟨q, by simp, hl, hk⟩
      · exact Or.inr ⟨n', c', q, hm, rfl, hl, hk⟩
end

/-- **An included path is archived down to its configured depth and no deeper**: exactly the regular
    files and symlinks at most `d` levels below it (all of them when the depth is infinite); other
    kinds of file never -/
theorem collect_depth (t : Node) (d : Depth) (rel p : List String) :
    p ∈ collect d rel t ↔ ∃ q, p = rel ++ q ∧ Leaf t q ∧ (∀ k, d = some k → q.length ≤ k) :=
  collect_spec t d rel p

/-! ## Each destination path is archived once; the first source offered wins -/

private theorem appendFile_keys_nodup (a : Members) (dest src) (h : (a.map (·.1)).Nodup) :
    ((appendFile a dest src).map (·.1)).Nodup := by
  unfold appendFile
  split
  · exact h
  · rename_i hn
    simp only [List.map_append, List.map_cons, List.map_nil]
    rw [List.nodup_append]
    refine ⟨h, by simp, ?_⟩
    intro x hx y hy
    simp at hy; subst hy
    intro heq; subst heq
    apply hn
    simp only [List.mem_map] at hx
    obtain ⟨e, he, rfl⟩ := hx
    simp only [List.any_eq_true]
    exact ⟨e, he, by simp⟩

theorem dedup_no_duplicates (a : Members) (xs : List (List String × String)) (h : (a.map (·.1)).Nodup) :
    ((appendAll a xs).map (·.1)).Nodup := by
  unfold appendAll
  induction xs generalizing a with
  | nil => simpa
  | cons x xs ih => exact ih _ (appendFile_keys_nodup a x.1 x.2 h)

private theorem appendFile_prefix (a : Members) (dest src) : a <+: appendFile a dest src := by
  unfold appendFile; split
  · exact List.prefix_refl _
  · exact List.prefix_append _ _

/-- what is already in the archive stays (in particular the two metadata files, written first) -/
theorem dedup_first_wins (a : Members) (xs : List (List String × String)) : a <+: appendAll a xs := by
  unfold appendAll
  induction xs generalizing a with
  | nil => exact List.prefix_refl _
  | cons x xs ih => exact List.IsPrefix.trans (appendFile_prefix a x.1 x.2) (ih _)

/-- every offered destination path is in the archive afterwards -/
theorem dedup_complete (a : Members) (xs : List (List String × String)) (x) (hx : x ∈ xs) :
    x.1 ∈ (appendAll a xs).map (·.1) := by
  unfold appendAll
  induction xs generalizing a with
  | nil => cases hx
  | cons y ys ih =>
    simp only [List.foldl_cons]
    rcases List.mem_cons.mp hx with rfl | h
    · have h1 : x.1 ∈ (appendFile a x.1 x.2).map (·.1) := by
        unfold appendFile; split
        · rename_i hn; simp only [List.any_eq_true] at hn
          obtain ⟨e, he, heq⟩ := hn
          simp only [List.mem_map]; exact ⟨e, he, by simpa using heq⟩
        · simp
      have := dedup_first_wins (appendFile a x.1 x.2) ys
      unfold appendAll at this
      exact List.Sublist.subset (List.Sublist.map _ this.sublist) h1
    · exact ih _ h

/-- a member of the finished archive was either there before or is an offered file whose destination was free -/
theorem member_origin (a : Members) (xs : List (List String × String)) (x) (hx : x ∈ appendAll a xs) :
    x ∈ a ∨ (x ∈ xs ∧ (a.any (·.1 == x.1)) = false) := by
  unfold appendAll at hx
  induction xs generalizing a with
  | nil => exact Or.inl hx
  | cons y ys ih =>
    simp only [List.foldl_cons] at hx
    rcases ih _ hx with h | ⟨h1, h2⟩
    · unfold appendFile at h
      split at h
      · exact Or.inl h
      · rename_i hn
        rcases List.mem_append.mp h with h | h
        · exact Or.inl h
        · simp only [List.mem_singleton] at h
          subst h
          refine Or.inr ⟨by simp, ?_⟩
          cases hany : a.any (·.1 == y.1) with
          | false => rfl
          | true => exact absurd hany hn
    · refine Or.inr ⟨List.mem_cons_of_mem _ h1, ?_⟩
      have hp := appendFile_prefix a y.1 y.2
      cases hany : a.any (·.1 == x.1) with
      | false => rfl
      | true =>
        obtain ⟨e, he, heq⟩ := List.any_eq_true.mp hany
        have : (appendFile a y.1 y.2).any (·.1 == x.1) = true :=
          List.any_eq_true.mpr ⟨e, List.Sublist.subset hp.sublist he, heq⟩
        rw [this] at h2; cases h2

/-- **the archive's own metadata is always the fresh, in-memory one**: whatever files the target directory and the
    configured includes contribute — including stale `target/nextest/*-metadata.json` left by an earlier extraction into
    this very target directory — an entry of the finished archive under a metadata name comes from memory, so
    listing or running from the archive sees the build it was made from -/
theorem metadata_is_fresh (metadata : List (List String)) (files : List (List String × String)) (x)
    (hx : x ∈ archiveMembers metadata files) (hm : x.1 ∈ metadata) : x.2 = "<memory>" := by
  unfold archiveMembers at hx
  rcases member_origin _ _ _ hx with h | ⟨_, h2⟩
  · obtain ⟨p, _, rfl⟩ := List.mem_map.mp h; rfl
  · have : ((metadata.map fun p => (p, "<memory>")).any (·.1 == x.1)) = true :=
      List.any_eq_true.mpr ⟨(x.1, "<memory>"), List.mem_map.mpr ⟨x.1, hm, rfl⟩, by simp⟩
    rw [this] at h2; cases h2

example : archiveMembers [["target", "nextest", "binaries-metadata.json"]]
    [(["target", "debug", "t"], "disk"), (["target", "nextest", "binaries-metadata.json"], "stale-on-disk")] =
    [(["target", "nextest", "binaries-metadata.json"], "<memory>"), (["target", "debug", "t"], "disk")] := by decide

/-! ## Extraction stays inside `<destination>/target` -/

private theorem firstBad_none : ∀ cs, firstBad cs = none → normals cs = cs.map (fun c => match c with | .normal s => s | _ => []) ∧ ∀ c ∈ cs, ∃ s, c = .normal s := by
  intro cs
  induction cs with
  | nil => intro _; simp [normals]
  | cons c cs ih =>
    intro h
    cases c with
    | normal s =>
      simp only [firstBad] at h
      obtain ⟨h1, h2⟩ := ih h
      refine ⟨by simp [normals, h1], ?_⟩
      intro c' hc'; rcases List.mem_cons.mp hc' with rfl | hc'
      · exact ⟨s, rfl⟩
      · exact h2 c' hc'
    | root => simp [firstBad] at h
    | cur => simp [firstBad] at h
    | parent => simp [firstBad] at h

/-- **An accepted entry has only normal components, the first of which is `target`** -/
theorem accepted_components (p : List Char) (h : validate p = .ok) :
    ∃ rest, components p = .normal "target".toList :: rest ∧ ∀ c ∈ rest, ∃ s, c = .normal s := by
  unfold validate at h
  split at h
  · rename_i t cs hc
    split at h
    · rename_i ht
      have ht' : t = "target".toList := by simpa using ht
      split at h
      · rename_i hb; exact ⟨cs, by rw [hc, ht'], (firstBad_none cs hb).2⟩
      · cases h
    · cases h
  · cases h

/-- **… hence lands under `<dest>/target`, whatever the path**: the landing place is the destination
    followed by `target` followed by names none of which is `..`, `.` or a root -/
theorem validated_paths_stay_inside (dest : List (List Char)) (p : List Char) (h : validate p = .ok) :
    ∃ names, landing dest p = dest ++ "target".toList :: names := by
  obtain ⟨rest, hc, _⟩ := accepted_components p h
  exact ⟨normals rest, by simp [landing, hc, normals]⟩

/-- a `..` component anywhere, a leading `/` or a leading `./` is never accepted -/
theorem reject_bad_components (p : List Char) (c : Comp) (hc : c ∈ components p) (hbad : ∀ s, c ≠ .normal s) :
    validate p ≠ .ok := by
  intro h
  obtain ⟨rest, hcs, hn⟩ := accepted_components p h
  rw [hcs] at hc
  rcases List.mem_cons.mp hc with rfl | hc
  · exact hbad _ rfl
  · obtain ⟨s, rfl⟩ := hn c hc; exact hbad s rfl

/-! ## Paths are remapped into the extraction directory -/

private theorem stripPrefix_append (fr r : List String) : stripPrefix fr (fr ++ r) = some r := by
  induction fr with
  | nil => rfl
  | cons a as ih => simp [stripPrefix, ih]

/-- a path under the original target directory is moved under the new one, keeping its tail -/
theorem path_mapper_prefix (fr to r : List String) : mapPath (some (fr, to)) (fr ++ r) = to ++ r := by
  simp [mapPath, stripPrefix_append]

private theorem stripPrefix_some : ∀ (fr p r : List String), stripPrefix fr p = some r → p = fr ++ r := by
  intro fr
  induction fr with
  | nil => intro p r h; simp [stripPrefix] at h; simp [h]
  | cons a as ih =>
    intro p r h
    cases p with
    | nil => simp [stripPrefix] at h
    | cons b bs =>
      simp only [stripPrefix] at h
      split at h
      · rename_i hab; have := ih bs r h; simp at hab; simp [hab, this]
      · cases h

/-- and every other path, and every path when no remap is configured, is left alone -/
theorem path_mapper_other (m : Option (List String × List String)) (p : List String)
    (h : ∀ fr to, m = some (fr, to) → ¬ fr <+: p) : mapPath m p = p := by
  unfold mapPath
  split
  · rfl
  · rename_i fr to
    split
    · rename_i r hr
      exact absurd ⟨r, (stripPrefix_some fr p r hr).symm⟩ (h fr to rfl)
    · rfl

/-! ## Creation is all-or-nothing -/

private theorem writes_keep_dest (s : FS) (cs : List (List Nat)) :
    ((cs.map Op.write).foldl fsStep s).dest = s.dest ∧ ((cs.map Op.write).foldl fsStep s).temp = s.temp.map (· ++ cs.flatten) := by
  induction cs generalizing s with
  | nil => cases h : s.temp <;> simp [h]
  | cons c cs ih =>
    simp only [List.map_cons, List.foldl_cons]
    obtain ⟨h1, h2⟩ := ih (fsStep s (.write c))
    refine ⟨by rw [h1]; rfl, ?_⟩
    rw [h2]; simp only [fsStep]; cases s.temp <;> simp

/-- **At every crash point of a successful creation the destination is either what it was before or
    the complete archive** (rename being atomic): after any prefix of the operations -/
theorem atomic_all_or_nothing (old : Option (List Nat)) (chunks : List (List Nat)) (n : Nat) :
    let s := ((successOps chunks).take n).foldl fsStep { dest := old, temp := none }
    s.dest = old ∨ s.dest = some chunks.flatten := by
  intro s
  by_cases hn : n ≤ chunks.length + 1
  · left
    -- a strict prefix: create followed by some writes
    have : (successOps chunks).take n = (Op.create :: (chunks.map Op.write)).take n := by
      unfold successOps
      rw [List.cons_append, ← List.cons_append, List.take_append_of_le_length]
      simp; omega
    show (List.foldl fsStep _ ((successOps chunks).take n)).dest = old
    rw [this]
    cases n with
    | zero => rfl
    | succ n =>
      simp only [List.take_succ_cons, List.foldl_cons, ← List.map_take]
      exact (writes_keep_dest _ _).1
  · right
    have : (successOps chunks).take n = successOps chunks := by
      apply List.take_of_length_le; simp [successOps]; omega
    show (List.foldl fsStep _ ((successOps chunks).take n)).dest = _
    rw [this]
    simp only [successOps, List.foldl_cons, List.foldl_append, List.foldl_nil]
    obtain ⟨h1, h2⟩ := writes_keep_dest (fsStep { dest := old, temp := none } .create) chunks
    simp only [fsStep] at h2 ⊢
    rw [h2]; simp

/-- **… and a creation that fails, at whatever point, leaves the destination as it was** (and no
    temporary file once the error path has run) -/
theorem failed_creation_changes_nothing (old : Option (List Nat)) (chunks : List (List Nat)) (k n : Nat) :
    let s := ((failureOps chunks k).take n).foldl fsStep { dest := old, temp := none }
    s.dest = old ∧ (n ≥ (failureOps chunks k).length → s.temp = none) := by
  intro s
  have key : ∀ ops : List Op, (∀ o ∈ ops, o ≠ .rename) → ∀ st : FS, (ops.foldl fsStep st).dest = st.dest := by
    intro ops
    induction ops with
    | nil => intro _ _; rfl
    | cons o os ih =>
      intro h st
      simp only [List.foldl_cons]
      rw [ih (fun o' ho' => h o' (List.mem_cons_of_mem _ ho'))]
      have := h o (List.mem_cons_self ..)
      cases o <;> simp_all [fsStep]
  have hnr : ∀ o ∈ failureOps chunks k, o ≠ .rename := by
    intro o ho
    simp only [failureOps, List.mem_cons, List.mem_append, List.mem_map, List.not_mem_nil, or_false] at ho
    rcases ho with (rfl | ⟨c, _, rfl⟩) | rfl <;> simp
  refine ⟨key _ (fun o ho => hnr o (List.mem_of_mem_take ho)) _, ?_⟩
  intro hn
  show (List.foldl fsStep _ ((failureOps chunks k).take n)).temp = none
  rw [List.take_of_length_le hn]
  simp [failureOps, List.foldl_append, fsStep]

/-! ## Non-vacuity -/
example : collect (some 1) ["target", "inc"] (.dir [("a", .file), ("sub", .dir [("b", .file)]), ("l", .symlink), ("s", .other)])
    = [["target", "inc", "a"], ["target", "inc", "l"]] := by decide
example : validate "target/debug/../../../etc/passwd".toList = .invalidComponent .parent := by decide
example : validate "target/./x//y/".toList = .ok := by decide
example : validate "./target/x".toList = .noTargetPrefix := by decide
example : validate "/target/x".toList = .noTargetPrefix := by decide
example : validate "targetx/y".toList = .noTargetPrefix := by decide

end NextestModel.C19
