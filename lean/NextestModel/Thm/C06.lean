/-
  C06 — per-test settings resolve by the documented precedence, setting by setting.
  Property theorems only.
-/
import NextestModel.Gen.Tables
import NextestModel.Model.Settings
namespace NextestModel.C06
open NextestModel.Settings

/-! ## The documented search order -/

/-- Overrides in the documented order, for files given lowest priority first (tool configs last to
    first, then the repository config): the selected profile's overrides from the repository config,
    then from the tool configs in the order given; then the default profile's, in the same order. -/
def specOrder (filesLowToHigh : List File) (name : String) : List Override :=
  (if name == "default" then [] else filesLowToHigh.reverse.flatMap (·.overridesOf name)) ++
  filesLowToHigh.reverse.flatMap (·.overridesOf "default")

/-- each file's `[profile.*]` names are distinct (TOML tables cannot repeat) -/
def WF (files : List File) : Prop := ∀ f ∈ files, (f.profiles.map (·.1)).Nodup

private theorem reverse_flatMap {α β} (l : List α) (g : α → List β) :
    (l.flatMap g).reverse = l.reverse.flatMap (fun a => (g a).reverse) := by
  induction l with
  | nil => rfl
  | cons a l ih => simp [List.flatMap_cons, List.reverse_append, ih, List.flatMap_append]

private def upd (cur : Option (List Override)) (ovs : List Override) : Option (List Override) :=
  some (cur.getD [] ++ ovs.reverse)

private theorem inner_fold (others : List (String × ProfileFile)) (hnd : (others.map (·.1)).Nodup) :
    ∀ (c : Compiled) (n : String),
      ((others.foldl Compiled.mergeOther c).other n) =
      (match others.find? (fun e => e.1 == n) with
       | some e => upd (c.other n) e.2.overrides
       | none => c.other n) ∧
      ((others.foldl Compiled.mergeOther c).default = c.default) := by
  induction others with
  | nil => intro c n; simp
  | cons e es ih =>
    intro c n
    simp only [List.map_cons, List.nodup_cons] at hnd
    obtain ⟨hne, hnd'⟩ := hnd
    simp only [List.foldl_cons]
    have := ih hnd' (c.mergeOther e) n
    refine ⟨?_, by rw [this.2]; rfl⟩
    rw [this.1]
    by_cases hn : e.1 = n
    · subst hn
      have hnot : es.find? (fun x => x.1 == e.1) = none := by
        rw [List.find?_eq_none]
        intro x hx hxe
        simp at hxe
        exact hne (List.mem_map.mpr ⟨x, hx, hxe⟩)
      simp only [hnot, List.find?_cons, beq_self_eq_true, Compiled.mergeOther]
      cases hc : c.other e.1 <;> simp [upd, extendReverse]
    · have h1 : (e.1 == n) = false := by simpa using hn
      have h2 : (n == e.1) = false := by simpa using fun h => hn h.symm
      simp only [List.find?_cons, h1, Compiled.mergeOther, h2]
      cases es.find? (fun x => x.1 == n) <;> simp

private theorem addFile_spec (c : Compiled) (f : File) (hnd : (f.profiles.map (·.1)).Nodup) :
    (c.addFile f).default = c.default ++ (f.overridesOf "default").reverse ∧
    ∀ n, n ≠ "default" →
      (c.addFile f).other n =
        (match f.profile? n with
         | some p => upd (c.other n) p.overrides
         | none => c.other n) := by
  unfold Compiled.addFile
  have hnd' : ((f.profiles.filter (fun e => e.1 != "default")).map (·.1)).Nodup := by
    have : (f.profiles.filter (fun e => e.1 != "default")).map (·.1) =
        (f.profiles.map (·.1)).filter (fun s => s != "default") := by
      simp [List.filter_map, Function.comp_def]
    rw [this]; exact hnd.filter _
  refine ⟨?_, ?_⟩
  · have := (inner_fold _ hnd' { c with default := extendReverse c.default (f.overridesOf "default") } "x").2
    simp only at this
    rw [this]; rfl
  · intro n hn
    have := (inner_fold _ hnd' { c with default := extendReverse c.default (f.overridesOf "default") } n).1
    simp only at this
    rw [this]
    have hfind : (f.profiles.filter (fun e => e.1 != "default")).find? (fun e => e.1 == n) =
        f.profiles.find? (fun e => e.1 == n) := by
      rw [List.find?_filter]
      congr 1
      funext e
      by_cases he : e.1 = n
      · subst he; simp [hn]
      · simp [he]
    rw [hfind]
    unfold File.profile?
    cases f.profiles.find? (fun e => e.1 == n) <;> rfl

private theorem ovs_nil_of_not_any (fs : List File) (n : String)
    (h : fs.any (fun f => (f.profile? n).isSome) = false) : ∀ x ∈ fs, x.overridesOf n = [] := by
  intro x hx
  rw [List.any_eq_false] at h
  have := h x hx
  cases hp : x.profile? n with
  | none => simp [File.overridesOf, hp]
  | some p => simp [hp] at this

private theorem fold_spec (fs : List File) (hwf : WF fs) :
    ∀ c : Compiled,
      (fs.foldl Compiled.addFile c).default = c.default ++ fs.flatMap (fun f => (f.overridesOf "default").reverse) ∧
      ∀ n, n ≠ "default" →
        (fs.foldl Compiled.addFile c).other n =
          if fs.any (fun f => (f.profile? n).isSome) then
            some ((c.other n).getD [] ++ fs.flatMap (fun f => (f.overridesOf n).reverse))
          else c.other n := by
  induction fs with
  | nil => intro c; simp
  | cons f fs ih =>
    intro c
    have hf := addFile_spec c f (hwf f (List.mem_cons_self ..))
    have := ih (fun g hg => hwf g (List.mem_cons_of_mem _ hg)) (c.addFile f)
    simp only [List.foldl_cons]
    refine ⟨?_, ?_⟩
    · rw [this.1, hf.1]; simp [List.flatMap_cons, List.append_assoc]
    · intro n hn
      rw [this.2 n hn, hf.2 n hn]
      simp only [List.any_cons, List.flatMap_cons]
      cases hp : f.profile? n with
      | none =>
        have : f.overridesOf n = [] := by simp [File.overridesOf, hp]
        simp [this]
      | some p =>
        have : f.overridesOf n = p.overrides := by simp [File.overridesOf, hp]
        simp only [this, Option.isSome_some, Bool.true_or, if_true, upd, Option.getD_some]
        cases hany : fs.any (fun f => (f.profile? n).isSome) with
        | true => simp [List.append_assoc]
        | false =>
          have h0 := ovs_nil_of_not_any fs n hany
          have : fs.flatMap (fun f => (f.overridesOf n).reverse) = [] := by
            rw [List.flatMap_eq_nil_iff]; intro x hx; simp [h0 x hx]
          simp [this]

private theorem flatMap_none (fs : List File) (n : String)
    (h : fs.any (fun f => (f.profile? n).isSome) = false) :
    fs.flatMap (fun f => f.overridesOf n) = [] := by
  induction fs with
  | nil => rfl
  | cons f fs ih =>
    simp only [List.any_cons, Bool.or_eq_false_iff] at h
    have : f.overridesOf n = [] := by
      cases hp : f.profile? n with
      | none => simp [File.overridesOf, hp]
      | some p => simp [hp] at h
    simp [List.flatMap_cons, this, ih h.2]

/-- **The compiled override list is the documented search order**, for any number of config files,
    any subset of profiles per file — including profiles first introduced by a lower-priority file
    (the `Vacant`/`Occupied` split) — and any overrides. -/
theorem compiled_order (filesLowToHigh : List File) (hwf : WF filesLowToHigh) (name : String) :
    makeProfile (readFromSources filesLowToHigh) name = specOrder filesLowToHigh name := by
  have hs := fold_spec filesLowToHigh hwf Compiled.init
  unfold makeProfile readFromSources specOrder Compiled.finish
  have hd : (filesLowToHigh.foldl Compiled.addFile Compiled.init).default.reverse =
      filesLowToHigh.reverse.flatMap (·.overridesOf "default") := by
    rw [hs.1]; simp [Compiled.init, reverse_flatMap]
  by_cases hn : name = "default"
  · subst hn; simp [hd]
  · have hne : (name == "default") = false := by simpa using hn
    simp only [hne, Bool.false_eq_true, if_false, hd]
    rw [hs.2 name hn]
    cases hany : filesLowToHigh.any (fun f => (f.profile? name).isSome) with
    | true =>
      simp [Compiled.init, reverse_flatMap]
    | false =>
      have : filesLowToHigh.reverse.flatMap (fun f => f.overridesOf name) = [] := by
        apply flatMap_none
        simpa [List.any_reverse] using hany
      simp [Compiled.init, this]

/-! ## One pass, first `Some` wins — per setting -/

/-- The value an override list gives a setting is the value of the first override that applies to
    the test (platform and filter) **and sets that setting**. -/
theorem settings_spec (ovs : List Override) (isHost : Bool) (f : Field) :
    overrideValues ovs isHost f =
      (ovs.filter (·.applies isHost)).findSome? (fun o => getField o.data f) := by
  unfold overrideValues
  suffices h : ∀ acc : Field → Option Val,
      ovs.foldl (settingsStep isHost) acc f =
        (match acc f with
         | some v => some v
         | none => (ovs.filter (·.applies isHost)).findSome? (fun o => getField o.data f)) by
    simpa using h (fun _ => none)
  induction ovs with
  | nil => intro acc; cases h : acc f <;> simp [h]
  | cons o os ih =>
    intro acc
    simp only [List.foldl_cons]
    rw [ih]
    unfold settingsStep
    by_cases ha : o.applies isHost = true
    · simp only [ha, if_true, List.filter_cons, List.findSome?_cons]
      cases acc f with
      | some v => rfl
      | none => cases getField o.data f <;> rfl
    · simp only [ha, Bool.false_eq_true, if_false, List.filter_cons]

/-- Each setting is resolved independently of the others: the resolved value of setting `f` is a
    function of the column "(applies?, value of `f`)" alone — changing which overrides set any
    other setting cannot change it. -/
theorem fields_independent (ovs ovs' : List Override) (isHost : Bool) (f : Field)
    (h : ovs.map (fun o => (o.applies isHost, getField o.data f)) =
         ovs'.map (fun o => (o.applies isHost, getField o.data f))) :
    overrideValues ovs isHost f = overrideValues ovs' isHost f := by
  rw [settings_spec, settings_spec]
  induction ovs generalizing ovs' with
  | nil => cases ovs' <;> simp_all
  | cons o os ih =>
    cases ovs' with
    | nil => simp at h
    | cons o' os' =>
      simp only [List.map_cons, List.cons.injEq, Prod.mk.injEq] at h
      obtain ⟨⟨h1, h2⟩, h3⟩ := h
      simp only [List.filter_cons, h1]
      split
      · simp only [List.findSome?_cons, h2]; cases getField o'.data f <;> simp [ih _ h3]
      · exact ih _ h3

/-- The whole resolution, read off the property: the command-line value where one exists
    (`--retries`); otherwise the first override in the documented order that matches the test and
    sets the setting; otherwise the selected profile's value, otherwise the default profile's, where
    the repository config beats tool configs beats built-in defaults. -/
theorem effective_spec (filesLowToHigh : List File) (hwf : WF filesLowToHigh) (name : String)
    (builtin : Field → Val) (cli : Option Val) (isHost : Bool) (f : Field) :
    effective filesLowToHigh name builtin cli isHost f =
      match (if f = .retries then cli else none) with
      | some v => v
      | none =>
        match ((specOrder filesLowToHigh name).filter (·.applies isHost)).findSome? (fun o => getField o.data f) with
        | some v => v
        | none => profileLevel filesLowToHigh.reverse name builtin f := by
  unfold effective
  rw [compiled_order _ hwf, settings_spec]
  by_cases hf : f = .retries <;> simp [hf] <;> rfl

/-- A `--retries` value replaces every test's policy. -/
theorem cli_retries_wins (filesLowToHigh : List File) (name : String) (builtin : Field → Val)
    (v : Val) (isHost : Bool) :
    effective filesLowToHigh name builtin (some v) isHost .retries = v := by
  simp [effective]

/-! ## Non-vacuity -/
example : WF [⟨[("default", ⟨[], []⟩), ("ci", ⟨[⟨true, true, true, true, [(.retries, 3)]⟩], []⟩)]⟩] := by
  intro f hf; simp at hf; subst hf; decide

/-- **the forced retry policy travels unchanged from the command line to the attempt loop** (imp.rs and executor.rs, as read on this
    run): handed on as given — `--retries 0` included —, and in `run_test_instance` it replaces the test's own policy, which gives
    both the number of attempts and the delays; `cli_retries_wins` is about exactly this value -/
theorem forced_retries_wiring_is_the_models : ∀ r ∈ Gen.retryWiring, r.2 = true := by decide

end NextestModel.C06
