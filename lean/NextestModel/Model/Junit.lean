/-
  Mirrors nextest-runner/src/reporter/aggregator/junit.rs: `MetadataJunit::write_event` (which events add a
  test case, to which suite, with which status, reruns and stored output), `non_success_kind_and_type`,
  the store-output rule of `set_execute_status_props`, and `quick_junit::TestSuite::add_test_case`'s counters
  (`tests`, `failures`, `errors`).  `test_suites` is an `IndexMap`: suites keep first-insertion order.

  Not modelled: timestamps, durations, the text of messages/descriptions, XML serialisation and
  character filtering (quick-junit; `xml_string`).  The output of an attempt is identified by the
  attempt's index.
-/
import NextestModel.Model.Dispatcher
import NextestModel.Model.Classify
namespace NextestModel.Junit
open NextestModel.Dispatcher NextestModel.Classify

/-- `NonSuccessKind` -/
inductive Kind where
  | failure | error
  deriving DecidableEq, Repr

/-- `non_success_kind_and_type` (`unit` = "test" / "script"); `none` where the Rust code is `unreachable!` -/
def kindAndType (unit : String) : Res → Option (Kind × String)
  | .fail (some _) true => some (.failure, unit ++ " abort with leaked handles")
  | .fail (some _) false => some (.failure, unit ++ " abort")
  | .fail none true => some (.failure, unit ++ " failure with leaked handles")
  | .fail none false => some (.failure, unit ++ " failure")
  | .timeout => some (.failure, unit ++ " timeout")
  | .execFail => some (.error, "execution failure")
  | .leak => some (.error, unit ++ " passed but leaked handles")
  | .pass => none

/-- a `TestRerun`: serialised as `flakyFailure`/`flakyError` inside a successful test case and as
    `rerunFailure`/`rerunError` inside a failed one -/
structure Rerun where
  kind : Kind
  ty : String
  /-- index of the attempt whose time and output the element carries -/
  attempt : Nat
  /-- `system-out` / `system-err` present -/
  stored : Bool
  deriving DecidableEq, Repr

structure Case where
  name : String
  /-- `none` = `TestCaseStatus::success()`; `some` = `non_success(kind)` with its `type` -/
  status : Option (Kind × String)
  /-- index of the attempt whose time and output the test case itself carries -/
  main : Nat
  stored : Bool
  reruns : List Rerun
  deriving DecidableEq, Repr

/-- `SuiteKey` -/
inductive Key where
  | script (id : String)
  | binary (id : String)
  deriving DecidableEq, Repr

structure Suite where
  key : Key
  cases : List Case
  deriving DecidableEq, Repr

/-- the events the aggregator acts on; every other event kind leaves it unchanged -/
inductive Ev where
  | testFinished (binary name : String) (attempts : List Res) (storeSuccess storeFailure : Bool)
  | scriptFinished (id : String) (res : Res) (storeSuccess storeFailure : Bool)
  | other
  deriving DecidableEq, Repr

/-- `(junit_store_success_output && is_success) || (junit_store_failure_output && !is_success)` -/
def storeRule (storeS storeF : Bool) (r : Res) : Bool :=
  (storeS && r.isSuccess) || (storeF && !r.isSuccess)

/-- the reruns of a test case: attempts `i ≥ off` of `rs` (each must be a non-success), stored iff store-failure-output -/
def rerunsFrom (storeF : Bool) (off : Nat) : List Res → Option (List Rerun)
  | [] => some []
  | r :: rs =>
    match kindAndType "test" r, rerunsFrom storeF (off + 1) rs with
    | some (k, ty), some rest => some ({ kind := k, ty := ty, attempt := off, stored := storeF } :: rest)
    | _, _ => none

/-- the test case a `TestFinished` event adds; `none` = the Rust code panics (`unreachable!`, or no attempt at all) -/
def caseOfTest (name : String) (attempts : List Res) (storeS storeF : Bool) : Option Case :=
  match attempts.getLast? with
  | none => none
  | some last =>
    if last.isSuccess then
      if attempts.length > 1 then
        -- Flaky: main = the last attempt; reruns = every prior attempt
        match rerunsFrom storeF 0 attempts.dropLast with
        | some rr => some { name := name, status := none, main := attempts.length - 1, stored := storeRule storeS storeF last, reruns := rr }
        | none => none
      else some { name := name, status := none, main := 0, stored := storeRule storeS storeF last, reruns := [] }
    else
      -- Failure: main = the FIRST attempt; reruns = every later attempt
      match attempts with
      | [] => none
      | first :: rest =>
        match kindAndType "test" first, rerunsFrom storeF 1 rest with
        | some st, some rr => some { name := name, status := some st, main := 0, stored := storeRule storeS storeF first, reruns := rr }
        | _, _ => none

/-- the test case a `SetupScriptFinished` event adds (in suite `@setup-script:<id>`, named after the script) -/
def caseOfScript (id : String) (r : Res) (storeS storeF : Bool) : Option Case :=
  if r.isSuccess then some { name := id, status := none, main := 0, stored := storeRule storeS storeF r, reruns := [] }
  else match kindAndType "script" r with
    | some st => some { name := id, status := some st, main := 0, stored := storeRule storeS storeF r, reruns := [] }
    | none => none

/-- the suite key and test case an event contributes -/
def contribution : Ev → Option (Option (Key × Case))
  | .testFinished b n as s f => (caseOfTest n as s f).map fun c => some (.binary b, c)
  | .scriptFinished id r s f => (caseOfScript id r s f).map fun c => some (.script id, c)
  | .other => some none

/-- `IndexMap::entry(key).or_insert_with(new suite)` followed by `add_test_case` -/
def addCase : List Suite → Key → Case → List Suite
  | [], k, c => [{ key := k, cases := [c] }]
  | s :: ss, k, c => if s.key = k then { s with cases := s.cases ++ [c] } :: ss else s :: addCase ss k c

/-- `write_event` for every event before `RunFinished`; `none` = a panic -/
def writeEvents (suites : List Suite) : List Ev → Option (List Suite)
  | [] => some suites
  | e :: es =>
    match contribution e with
    | none => none
    | some none => writeEvents suites es
    | some (some (k, c)) => writeEvents (addCase suites k c) es

/-- `TestSuite`'s counters after `add_test_case` -/
def Suite.tests (s : Suite) : Nat := s.cases.length
def Suite.failures (s : Suite) : Nat := (s.cases.filter fun c => match c.status with | some (.failure, _) => true | _ => false).length
def Suite.errors (s : Suite) : Nat := (s.cases.filter fun c => match c.status with | some (.error, _) => true | _ => false).length

/-- the run statistics the same events produce (`RunStats::on_test_finished` / `on_setup_script_finished`; slowness is not
    part of the JUnit events) -/
def statsOf (s : Stats) : List Ev → Stats
  | [] => s
  | .testFinished _ _ as _ _ :: es =>
    (match as.getLast? with
     | some last => statsOf (s.onTestFinished last false as.length) es
     | none => statsOf s es)
  | .scriptFinished _ r _ _ :: es => statsOf (s.onScriptFinished r) es
  | .other :: es => statsOf s es

/-- what the executor's attempt loop guarantees about a finished test: at least one attempt, and every attempt
    but the last one failed (the loop stops at the first success) -/
def WFAttempts (attempts : List Res) : Prop := attempts ≠ [] ∧ ∀ r ∈ attempts.dropLast, r.isSuccess = false

def WFEv : Ev → Prop
  | .testFinished _ _ as _ _ => WFAttempts as
  | _ => True

end NextestModel.Junit
