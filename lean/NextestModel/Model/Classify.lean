/-
  Mirrors nextest-runner/src/runner/executor.rs `create_execution_result`, reporter/events.rs
  `AbortStatus::extract` (Unix) and `ExecutionStatuses::describe`; and `BackoffIter` (exact natural
  number nanoseconds; `f64` rounding of `Duration::mul_f64` and the `rand` jitter sample are inputs /
  tolerances of the correspondence, not modelled).
-/
import NextestModel.Model.Dispatcher
namespace NextestModel.Classify
open NextestModel.Dispatcher

/-- what `waitpid` reports for a terminated process -/
inductive WaitStatus where
  | exited (code : Nat)
  | signaled (sig : Nat) (core : Bool)
  deriving DecidableEq, Repr

/-- decode a raw Linux wait status of a terminated process -/
def WaitStatus.ofRaw (raw : Nat) : WaitStatus :=
  if raw % 128 == 0 then .exited ((raw / 256) % 256) else .signaled (raw % 128) ((raw / 128) % 2 == 1)

/-- `create_execution_result`: `childErrors` = an error occurred reading the pipes / waiting -/
def classify (ws : WaitStatus) (childErrors leaked : Bool) : Res :=
  if childErrors then .execFail
  else match ws with
    | .exited 0 => if leaked then .leak else .pass
    | .exited _ => .fail none leaked
    | .signaled sig _ => .fail (some sig) leaked

/-- the result an attempt reports: the `status` set on the terminate-for-timeout path wins,
    a spawn failure is `ExecFail` (`run_test`), otherwise the classification of the exit -/
def attemptResult (spawned timedOutByNextest : Bool) (ws : WaitStatus) (childErrors leaked : Bool) : Res :=
  if !spawned then .execFail
  else if timedOutByNextest then .timeout
  else classify ws childErrors leaked

inductive Description where
  | success | flaky | failure
  deriving DecidableEq, Repr

/-- `ExecutionStatuses::describe` on the list of attempt results (non-empty) -/
def describe (attempts : List Res) : Description :=
  match attempts.getLast? with
  | none => .failure
  | some last => if last.isSuccess then (if attempts.length > 1 then .flaky else .success) else .failure

/-! ### Backoff -/

inductive Policy where
  | fixed (count delayNs : Nat) (jitter : Bool)
  | exponential (count delayNs : Nat) (jitter : Bool) (maxDelayNs : Option Nat)
  deriving DecidableEq, Repr

def Policy.count : Policy → Nat
  | .fixed c _ _ => c
  | .exponential c _ _ _ => c

/-- `BackoffIter`: the delays before jitter; `factor` doubles until the cap is exceeded -/
def delaysFrom (p : Policy) : Nat → Nat → List Nat
  | 0, _ => []
  | n + 1, factor =>
    match p with
    | .fixed _ d _ => d :: delaysFrom p n factor
    | .exponential _ d _ maxD =>
      let e := d * factor
      match maxD with
      | some m => if e > m then m :: delaysFrom p n factor else e :: delaysFrom p n (factor * 2)
      | none => e :: delaysFrom p n (factor * 2)

def delays (p : Policy) : List Nat := delaysFrom p p.count 1

/-- the signals whose number is the same on Linux, macOS, FreeBSD and illumos, by their POSIX names (`signal(7)`): the only
    numbers a name may be shown for on every platform (7, 10, 12 and 16 … 31 differ between them) -/
def portableSignalName : Nat → Option String
  | 1 => some "HUP" | 2 => some "INT" | 3 => some "QUIT" | 4 => some "ILL" | 5 => some "TRAP" | 6 => some "ABRT"
  | 8 => some "FPE" | 9 => some "KILL" | 11 => some "SEGV" | 13 => some "PIPE" | 14 => some "ALRM" | 15 => some "TERM"
  | _ => none

/-- which arm of the displayer's `status_str` reports a result (the translator's key, Gen.statusWords) -/
def statusKey : Res → String
  | .pass => "Pass"
  | .leak => "Leak"
  | .fail (some _) _ => "Fail/signal"
  | .fail none true => "Fail/leaked"
  | .fail none false => "Fail"
  | .execFail => "ExecFail"
  | .timeout => "Timeout"

/-- the word the property's five outcomes are reported with on a status line (a signal: `SIG<name>` / `ABORT SIG <n>`) -/
def statusWord : Res → String
  | .pass => "PASS"
  | .leak => "LEAK"
  | .fail (some _) _ => "SIG|ABORT SIG"
  | .fail none true => "FAIL + LEAK"
  | .fail none false => "FAIL"
  | .execFail => "XFAIL"
  | .timeout => "TIMEOUT"

/-- `short_status_str`'s arm and word (the `TRY k …` lines): a failure is FAIL with or without a leak -/
def shortStatusKey : Res → String
  | .pass => "Pass"
  | .leak => "Leak"
  | .fail (some _) _ => "Fail/signal"
  | .fail none _ => "Fail"
  | .execFail => "ExecFail"
  | .timeout => "Timeout"

def shortStatusWord : Res → String
  | .pass => "PASS"
  | .leak => "LEAK"
  | .fail (some _) _ => "s|SIG"
  | .fail none _ => "FAIL"
  | .execFail => "XFAIL"
  | .timeout => "TMT"

end NextestModel.Classify
