/-
  Mirrors nextest-runner/src/test_filter.rs `TestFilter::filter_match` (stage order, reasons),
  `TestFilterBuilder::filter_binary_match`, `FilterBinaryMatch::{from_result, logic_or, logic_and}`,
  and nextest-runner/src/list/test_list.rs `TestList::process_output` (two passes, `BTreeMap` insert).

  Filterset truth values are inputs here (`exprBits`, `inDefault`; `Option Bool` at binary level);
  `Model/Expr` defines them and proves the Kleene soundness used by `binary_shortcut_sound`.
-/
import NextestModel.Model.NameFilter
namespace NextestModel

/-- `nextest_metadata::MismatchReason`, in declaration order. -/
inductive Reason where
  | ignored | string | expression | partition | defaultFilter
  deriving DecidableEq, Repr

inductive FilterMatch where
  | matches
  | mismatch (r : Reason)
  deriving DecidableEq, Repr

/-- What the filter sees of one test: its name and the truth of every `-E` set and of the default filter on it. -/
structure TestIn where
  name : Name
  exprBits : List Bool
  inDefault : Bool
  deriving Repr

/-- `TestFilterBuilder` + `FilterBound`. -/
structure FilterCfg where
  runIgnored : RunIgnored
  patterns : Resolved
  /-- number of `-E` filtersets; `TestFilterExprs::All` iff 0 -/
  nExprs : Nat
  /-- `FilterBound::DefaultSet` -/
  boundDefault : Bool
  partition : Option Partition

/-- `filter_ignored_mismatch` -/
def ignoredMismatch : RunIgnored → Bool → Bool
  | .only, ignored => !ignored
  | .default, ignored => ignored
  | .all, _ => false

/-- result of the name / expression stage: `none` = accepted, `some r` = rejected for `r` -/
def nameStage (cfg : FilterCfg) (t : TestIn) : Option Reason :=
  match cfg.patterns.nameMatch t.name with
  | .mismatch => some .string
  | _ => none

/-- `filter_expression_match` -/
def exprStage (cfg : FilterCfg) (t : TestIn) : Option Reason :=
  if cfg.nExprs != 0 && !t.exprBits.any id then some .expression
  else if cfg.boundDefault && !t.inDefault then some .defaultFilter
  else none

/-- `filter_partition_mismatch`; threads the partitioner state. -/
def partitionStage (cfg : FilterCfg) (curr : Nat) (t : TestIn) : Option Reason × Nat :=
  match cfg.partition with
  | none => (none, curr)
  | some p => let r := p.step curr t.name; (if r.1 then none else some .partition, r.2)

/-- `TestFilter::filter_match`: returns the verdict and the new partitioner state.  The
    partitioner is consulted only when every earlier stage accepted. -/
def filterMatch (cfg : FilterCfg) (curr : Nat) (t : TestIn) (ignored : Bool) : FilterMatch × Nat :=
  if ignoredMismatch cfg.runIgnored ignored then (.mismatch .ignored, curr)
  else
    match nameStage cfg t, exprStage cfg t with
    | some r, _ => (.mismatch r, curr)
    | none, some r => (.mismatch r, curr)
    | none, none =>
      match partitionStage cfg curr t with
      | (some r, c) => (.mismatch r, c)
      | (none, c) => (.matches, c)

/-! ### Binary-level shortcut -/

inductive BinReason where
  | expression | defaultSet
  deriving DecidableEq, Repr

inductive BinMatch where
  | definite | possible
  | mismatch (r : BinReason)
  deriving DecidableEq, Repr

def BinReason.preferExpression : BinReason → BinReason → BinReason
  | .defaultSet, .defaultSet => .defaultSet
  | _, _ => .expression

def BinMatch.fromResult : Option Bool → BinReason → BinMatch
  | some true, _ => .definite
  | none, _ => .possible
  | some false, r => .mismatch r

def BinMatch.isMatch : BinMatch → Bool
  | .mismatch _ => false
  | _ => true

def BinMatch.logicOr : BinMatch → BinMatch → BinMatch
  | .definite, _ => .definite
  | _, .definite => .definite
  | .possible, _ => .possible
  | _, .possible => .possible
  | .mismatch r1, .mismatch r2 => .mismatch (r1.preferExpression r2)

def BinMatch.logicAnd : BinMatch → BinMatch → BinMatch
  | .definite, .definite => .definite
  | .definite, .possible => .possible
  | .possible, .definite => .possible
  | .possible, .possible => .possible
  | .mismatch r1, .mismatch r2 => .mismatch (r1.preferExpression r2)
  | .mismatch r, _ => .mismatch r
  | _, .mismatch r => .mismatch r

/-- `filter_binary_match`: `exprTrits` are `matches_binary` of every `-E` set, `defaultTrit` that of the default filter. -/
def filterBinaryMatch (exprTrits : List (Option Bool)) (boundDefault : Bool)
    (defaultTrit : Option Bool) : BinMatch :=
  let exprResult :=
    if exprTrits.isEmpty then BinMatch.definite
    else exprTrits.foldl (fun acc t => acc.logicOr (BinMatch.fromResult t .expression))
      (.mismatch .expression)
  if !exprResult.isMatch then exprResult
  else if boundDefault then exprResult.logicAnd (BinMatch.fromResult defaultTrit .defaultSet)
  else exprResult

/-! ### `process_output` -/

def nameLe (a b : Name) : Bool := !(decide (b < a))

/-- run one listing (already sorted) through a fresh `TestFilter` -/
def runPass (cfg : FilterCfg) (ignored : Bool) : Nat → List TestIn → List (Name × Bool × FilterMatch)
  | _, [] => []
  | curr, t :: ts =>
    let r := filterMatch cfg curr t ignored
    (t.name, ignored, r.1) :: runPass cfg ignored r.2 ts

/-- `BTreeMap::insert`: replace an existing key, else insert in order. -/
def mapInsert (k : Name) (v : Bool × FilterMatch) :
    List (Name × Bool × FilterMatch) → List (Name × Bool × FilterMatch)
  | [] => [(k, v)]
  | (k', v') :: rest =>
    if k == k' then (k, v) :: rest
    else if decide (k < k') then (k, v) :: (k', v') :: rest
    else (k', v') :: mapInsert k v rest

def sortListing (l : List TestIn) : List TestIn :=
  l.mergeSort (fun a b => nameLe a.name b.name)

/-- `TestList::process_output`.  `nonIgnored` is the `--list` output (libtest prints *all* tests
    there), `ignored` the `--list --ignored` output.  Names that also appear in the ignored
    listing are skipped in the first pass (so that they do not advance the count partitioner). -/
def processOutput (cfg : FilterCfg) (nonIgnored ignored : List TestIn) :
    List (Name × Bool × FilterMatch) :=
  let ign := sortListing ignored
  let non := (sortListing nonIgnored).filter (fun t => !(ign.any (fun i => i.name == t.name)))
  let m := (runPass cfg false 0 non).foldl (fun m e => mapInsert e.1 e.2 m) []
  (runPass cfg true 0 ign).foldl (fun m e => mapInsert e.1 e.2 m) m

end NextestModel
