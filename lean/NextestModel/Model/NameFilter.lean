/-
  Mirrors nextest-runner/src/test_filter.rs: `TestFilterPatterns::{new, add_*, resolve}`,
  `ResolvedFilterPatterns::name_match`, and cargo-nextest/src/dispatch.rs `merge_test_binary_args`.
  `HashSet<String>` is a list used only through membership; `AhoCorasick::is_match` is
  "some pattern is an infix of the name" (modelled, not verified: the aho-corasick crate).
-/
import NextestModel.Model.Partition
namespace NextestModel

def isInfix {α} [BEq α] (p : List α) : List α → Bool
  | [] => p.isEmpty
  | x :: xs => p.isPrefixOf (x :: xs) || isInfix p xs

/-- `AhoCorasick::new(pats).is_match(name)` -/
def anyInfix (pats : List Name) (name : Name) : Bool := pats.any (fun p => isInfix p name)

/-- `TestFilterPatterns` -/
inductive Patterns where
  | skipOnly (skip skipExact : List Name)
  | patterns (pats exact skip skipExact : List Name)
  deriving Repr

def Patterns.default : Patterns := .skipOnly [] []

/-- `TestFilterPatterns::new` -/
def Patterns.new (subs : List Name) : Patterns :=
  if subs.isEmpty then .default else .patterns subs [] [] []

def Patterns.addSubstring : Patterns → Name → Patterns
  | .skipOnly s se, p => .patterns [p] [] s se
  | .patterns ps e s se, p => .patterns (ps ++ [p]) e s se

def Patterns.addExact : Patterns → Name → Patterns
  | .skipOnly s se, p => .patterns [] [p] s se
  | .patterns ps e s se, p => .patterns ps (e ++ [p]) s se

def Patterns.addSkip : Patterns → Name → Patterns
  | .skipOnly s se, p => .skipOnly (s ++ [p]) se
  | .patterns ps e s se, p => .patterns ps e (s ++ [p]) se

def Patterns.addSkipExact : Patterns → Name → Patterns
  | .skipOnly s se, p => .skipOnly s (se ++ [p])
  | .patterns ps e s se, p => .patterns ps e s (se ++ [p])

/-- `ResolvedFilterPatterns` (the matchers are derived data and not represented). -/
inductive Resolved where
  | all
  | skipOnly (skip skipExact : List Name)
  | patterns (pats exact skip skipExact : List Name)
  deriving Repr

/-- `TestFilterPatterns::resolve` (sorting only affects `PartialEq`, not matching). -/
def Patterns.resolve : Patterns → Resolved
  | .skipOnly s se => if s.isEmpty && se.isEmpty then .all else .skipOnly s se
  | .patterns ps e s se => .patterns ps e s se

inductive NameMatch where
  | matchEmpty | matchWith | mismatch
  deriving DecidableEq, Repr

/-- `ResolvedFilterPatterns::name_match` -/
def Resolved.nameMatch : Resolved → Name → NameMatch
  | .all, _ => .matchEmpty
  | .skipOnly s se, n =>
    if se.contains n || anyInfix s n then .mismatch else .matchWith
  | .patterns ps e s se, n =>
    if se.contains n || anyInfix s n then .mismatch
    else if e.contains n || anyInfix ps n then .matchWith
    else .mismatch

/-! ### `merge_test_binary_args` (cargo-nextest/src/dispatch.rs) -/

inductive RunIgnored where
  | default | only | all
  deriving DecidableEq, Repr

inductive ArgsError where
  | duplicated | missingArgument | mutuallyExclusive | unsupported
  deriving DecidableEq, Repr

def strBytes (s : String) : Name := s.toUTF8.toList

/-- first scan: is `--exact` present before `--`?  `none` = duplicated `--exact`. -/
def scanExact : List Name → Bool → Option Bool
  | [], acc => some acc
  | a :: as, acc =>
    if a == strBytes "--" then some acc
    else if a == strBytes "--exact" then (if acc then none else scanExact as true)
    else scanExact as acc

structure MergeState where
  pats : Patterns
  ignoreFilters : List RunIgnored
  trailing : Bool
  unsupported : Bool

def startsWithDash : Name → Bool
  | 45 :: _ => true
  | _ => false

/-- main loop; `--skip` consumes the next argument. -/
def mergeLoop (isExact : Bool) : List Name → MergeState → Except ArgsError MergeState
  | [], st => .ok st
  | a :: as, st =>
    if st.trailing || !startsWithDash a then
      mergeLoop isExact as
        { st with pats := if isExact then st.pats.addExact a else st.pats.addSubstring a }
    else if a == strBytes "--include-ignored" then
      mergeLoop isExact as { st with ignoreFilters := st.ignoreFilters ++ [.all] }
    else if a == strBytes "--ignored" then
      mergeLoop isExact as { st with ignoreFilters := st.ignoreFilters ++ [.only] }
    else if a == strBytes "--" then
      mergeLoop isExact as { st with trailing := true }
    else if a == strBytes "--skip" then
      match as with
      | [] => .error .missingArgument
      | s :: rest =>
        mergeLoop isExact rest
          { st with pats := if isExact then st.pats.addSkipExact s else st.pats.addSkip s }
    else if a == strBytes "--exact" then mergeLoop isExact as st
    else mergeLoop isExact as { st with unsupported := true }

/-- fold of the `ignore_filters` loop: any second setting is an error. -/
def applyIgnore : List RunIgnored → Option RunIgnored → Except ArgsError (Option RunIgnored)
  | [], r => .ok r
  | f :: fs, none => applyIgnore fs (some f)
  | f :: _, some r => if r != f then .error .mutuallyExclusive else .error .duplicated

def mergeTestBinaryArgs (args : List Name) (runIgnored : Option RunIgnored) (pats : Patterns) :
    Except ArgsError (Option RunIgnored × Patterns) :=
  match scanExact args false with
  | none => .error .duplicated
  | some isExact =>
    match mergeLoop isExact args { pats := pats, ignoreFilters := [], trailing := false, unsupported := false } with
    | .error e => .error e
    | .ok st =>
      match applyIgnore st.ignoreFilters runIgnored with
      | .error e => .error e
      | .ok r => if st.unsupported then .error .unsupported else .ok (r, st.pats)

end NextestModel
