/-
  Mirrors nextest-filtering/src/parsing.rs, parsing/unicode_string.rs and the textual half of
  parsing/glob.rs: the scannerless, error-recovering filterset parser, as a total function on
  `List Char` that returns the expression (if any) and the list of reported errors with byte spans;
  and the `Display` implementations (`ParsedExpr`, `SetDef`, `NameMatcher`, `DisplayParsedString`,
  `DisplayParsedRegex`).

  winnow is not modelled: each function below reproduces the observable behaviour of the
  corresponding combinator expression (what is consumed, what is reported, where input is reset).
  Regex and glob *validity* are inputs (`Ctx.regexValid`, `Ctx.globValid`), obtained from the
  `regex` / `globset` crates by the harness; lookups that miss are recorded in `St.needs`.
-/
import NextestModel.Model.Expr
namespace NextestModel.Syntax
open NextestModel

inductive ErrKind where
  | invalidRegex | invalidGlob | expectedCloseRegex | invalidOrOperator | invalidAndOperator
  | unexpectedArgument | unexpectedComma | invalidString | expectedOpenParen | expectedCloseParen
  | invalidEscape | expectedExpr | expectedEof | invalidPlatform | outOfFuel
  deriving DecidableEq, Repr

structure PErr where
  kind : ErrKind
  off : Nat
  len : Nat
  deriving DecidableEq, Repr

structure Ctx where
  /-- byte length of the whole input -/
  total : Nat
  regexValid : List (List Char × Bool)
  globValid : List (List Char × Bool)
  /-- for a regex that `regex` refuses: the byte span (start, end) inside the regex text that `regex-syntax` blames; no entry
      when `regex-syntax` accepts the text (`InvalidRegexWithoutMessage`) -/
  regexErr : List (List Char × Nat × Nat) := []

structure St where
  rest : List Char
  errs : List PErr
  /-- validity lookups that were not in the tables: (isRegex, text) -/
  needs : List (Bool × List Char)

def utf8Len (cs : List Char) : Nat := cs.foldl (fun n c => n + c.utf8Size) 0

/-- `input.current_token_start()` -/
def pos (cx : Ctx) (st : St) : Nat := cx.total - utf8Len st.rest
/-- `input.slice_len()` -/
def remLen (st : St) : Nat := utf8Len st.rest

def St.report (st : St) (k : ErrKind) (off len : Nat) : St :=
  { st with errs := st.errs ++ [{ kind := k, off := off, len := len }] }

def St.withRest (st : St) (r : List Char) : St := { st with rest := r }

/-- `repeat(0.., alt((' ', line_ending)))` -/
def skipWs : List Char → List Char
  | ' ' :: cs => skipWs cs
  | '\n' :: cs => skipWs cs
  | '\r' :: '\n' :: cs => skipWs cs
  | cs => cs

def takeTill (p : Char → Bool) : List Char → List Char × List Char
  | [] => ([], [])
  | c :: cs => if p c then ([], c :: cs) else let r := takeTill p cs; (c :: r.1, r.2)

/-- Rust `char::is_whitespace` (Unicode `White_Space`) -/
def isRustWhitespace (c : Char) : Bool :=
  let n := c.toNat
  (9 ≤ n && n ≤ 13) || n == 32 || n == 0x85 || n == 0xA0 || n == 0x1680 || (0x2000 ≤ n && n ≤ 0x200A) ||
  n == 0x2028 || n == 0x2029 || n == 0x202F || n == 0x205F || n == 0x3000

def rustTrim (s : List Char) : List Char :=
  ((s.dropWhile isRustWhitespace).reverse.dropWhile isRustWhitespace).reverse

/-- `literal(name)` / `"…".parse_next` : consume the prefix or fail -/
def lit (name : String) (cs : List Char) : Option (List Char) :=
  if name.toList.isPrefixOf cs then some (cs.drop name.length) else none

/-- `expect_char(c, make_err)` = `expect_inner(ws(c), make_err, Exact(0))`: never fails; on a miss
    the input stays where it was (before the blanks) and a zero-length error is reported there. -/
def expectChar (cx : Ctx) (c : Char) (k : ErrKind) (st : St) : St :=
  match skipWs st.rest with
  | d :: cs => if d == c then st.withRest cs else st.report k (pos cx st) 0
  | [] => st.report k (pos cx st) 0

/-! ### unicode_string.rs -/

def hexVal (c : Char) : Option Nat :=
  if '0' ≤ c ∧ c ≤ '9' then some (c.toNat - '0'.toNat)
  else if 'a' ≤ c ∧ c ≤ 'f' then some (c.toNat - 'a'.toNat + 10)
  else if 'A' ≤ c ∧ c ≤ 'F' then some (c.toNat - 'A'.toNat + 10)
  else none

/-- `take_while(1..=6, is_ascii_hexdigit)` then value -/
def takeHex : Nat → List Char → Nat → Nat → Nat × Nat × List Char
  | 0, cs, acc, n => (acc, n, cs)
  | f + 1, c :: cs, acc, n =>
    match hexVal c with
    | some v => takeHex f cs (acc * 16 + v) (n + 1)
    | none => (acc, n, c :: cs)
  | _ + 1, [], acc, n => (acc, n, [])

/-- `std::char::from_u32` -/
def charOfNat? (n : Nat) : Option Char :=
  if h : n.isValidChar then some ⟨n.toUInt32, by
    simp [Nat.isValidChar] at h
    rcases h with h | h
    · left; simp [Nat.toUInt32, UInt32.toNat_ofNat']; omega
    · right; simp [Nat.toUInt32, UInt32.toNat_ofNat']; omega⟩
  else none

/-- `parse_unicode`, on the text after the backslash -/
def parseUnicode : List Char → Option (Char × List Char)
  | 'u' :: '{' :: cs =>
    let (v, n, rest) := takeHex 6 cs 0 0
    if n == 0 then none else
    match rest with
    | '}' :: rest' => (charOfNat? v).map (fun c => (c, rest'))
    | _ => none
  | _ => none

/-- the `valid` alternatives of `parse_escaped_char`, on the text after the backslash -/
def parseEscapeBody (cs : List Char) : Option (Char × List Char) :=
  match parseUnicode cs with
  | some r => some r
  | none =>
    match cs with
    | 'n' :: r => some ('\n', r)
    | 'r' :: r => some ('\r', r)
    | 't' :: r => some ('\t', r)
    | 'b' :: r => some (Char.ofNat 8, r)
    | 'f' :: r => some (Char.ofNat 12, r)
    | '\\' :: r => some ('\\', r)
    | '/' :: r => some ('/', r)
    | ')' :: r => some (')', r)
    | ',' :: r => some (',', r)
    | _ => none

def isStringStop (c : Char) : Bool := c == ',' || c == ')' || c == '\\'

/-- `parse_string` = `repeat(0.., parse_fragment).fold(..)`; `acc = none` once a fragment was invalid.
    Every fragment consumes at least one character, so `fuel = rest.length + 1` is never exhausted. -/
def parseStringLoop (cx : Ctx) : Nat → Option (List Char) → St → Option (List Char) × St
  | 0, acc, st => (acc, st)
  | f + 1, acc, st =>
    match st.rest with
    | [] => (acc, st)
    | '\\' :: cs =>
      match parseEscapeBody cs with
      | some (c, rest') => parseStringLoop cx f (acc.map (· ++ [c])) (st.withRest rest')
      | none =>
        -- `expect_n(valid, InvalidEscapeCharacter, Offset(-1, 2))`: only the backslash is consumed
        let st1 := st.withRest cs
        let st2 := st1.report .invalidEscape (pos cx st1 - 1) (min (remLen st1) 2)
        parseStringLoop cx f none st2
    | c :: cs =>
      if c == ',' || c == ')' then (acc, st)
      else
        let (l, rest') := takeTill isStringStop (c :: cs)
        parseStringLoop cx f (acc.map (· ++ l)) (st.withRest rest')

def parseString (cx : Ctx) (st : St) : Option (List Char) × St :=
  parseStringLoop cx (st.rest.length + 1) (some []) st

/-- `parse_matcher_text`: never fails; an empty string is returned *and* reported. -/
def parseMatcherText (cx : Ctx) (st : St) : Option (List Char) × St :=
  let (res, st') := parseString cx st
  match res with
  | some [] => (res, st'.report .invalidString (pos cx st') 0)
  | _ => (res, st')

/-! ### matchers -/

def lookup (tbl : List (List Char × Bool)) (k : List Char) : Option Bool :=
  match tbl.find? (fun e => e.1 == k) with
  | some e => some e.2
  | none => none

/-- the span `regex-syntax` blames, if it has one (it lies inside the text it was given: a table entry that does not is not used) -/
def lookupSpan (tbl : List (List Char × Nat × Nat)) (k : List Char) : Option (Nat × Nat) :=
  match tbl.find? (fun e => e.1 == k) with
  | some e => if e.2.1 ≤ e.2.2 ∧ e.2.2 ≤ utf8Len k then some e.2 else none
  | none => none

def St.valid (st : St) (cx : Ctx) (isRegex : Bool) (text : List Char) : Bool × St :=
  match lookup (if isRegex then cx.regexValid else cx.globValid) text with
  | some b => (b, st)
  | none => (true, { st with needs := st.needs ++ [(isRegex, text)] })

/-- `parse_regex_inner`'s fold; stops at an unescaped `/` or at the end of input -/
def regexLoop : Nat → List Char → List Char → List Char × List Char
  | 0, acc, cs => (acc, cs)
  | f + 1, acc, cs =>
    match cs with
    | '\\' :: '/' :: r => regexLoop f (acc ++ ['/']) r
    | '\\' :: r => regexLoop f (acc ++ ['\\']) r
    | '/' :: _ => (acc, cs)
    | [] => (acc, cs)
    | c :: r =>
      let (l, rest') := takeTill (fun c => c == '\\' || c == '/') (c :: r)
      regexLoop f (acc ++ l) rest'

/-- `parse_regex` (after the opening `/`): never fails -/
def parseRegex (cx : Ctx) (st : St) : Option Matcher × St :=
  let (text, rest') := regexLoop (st.rest.length + 1) [] st.rest
  match rest' with
  | '/' :: _ =>
    let st1 := st.withRest rest'
    let (ok, st2) := st1.valid cx true text
    if ok then (some (.regex text), st2)
    else
      -- `ParseSingleError::invalid_regex(&res, start, end)`: start = after the opening `/`, end = at the closing one
      let s := pos cx st
      let e := pos cx st1
      match lookupSpan cx.regexErr text with
      | some (a, b) => (none, st2.report .invalidRegex (s + a) (b - a))
      | none => (none, st2.report .invalidRegex s (e - s))
  | _ =>
    -- no closing `/`: resynchronise at the next `)`
    let (_, rest'') := takeTill (· == ')') st.rest
    let st1 := st.withRest rest''
    (none, st1.report .expectedCloseRegex (pos cx st1) 0)

/-- `glob::parse_glob(implicit)`: never fails -/
def parseGlobM (cx : Ctx) (implicit : Bool) (st : St) : Option Matcher × St :=
  let start := pos cx st
  let (res, st1) := parseMatcherText cx st
  match res with
  | none => (none, st1)
  | some v =>
    let (ok, st2) := st1.valid cx false v
    if ok then (some (.glob v implicit), st2)
    else (none, st2.report .invalidGlob start (pos cx st2 - start))

inductive DefaultMatcher where
  | equal | contains | glob
  deriving DecidableEq, Repr

/-- `set_matcher(default_matcher)` = `ws(alt((regex, glob, equal, contains, default)))`: never fails -/
def setMatcher (cx : Ctx) (dm : DefaultMatcher) (st : St) : Option Matcher × St :=
  let st0 := st.withRest (skipWs st.rest)
  match st0.rest with
  | '/' :: cs =>
    let (m, st1) := parseRegex cx (st0.withRest cs)
    -- `silent_expect(ws('/'))`
    let st2 := match skipWs st1.rest with
      | '/' :: r => st1.withRest r
      | _ => st1
    (m, st2)
  | '#' :: cs => parseGlobM cx false (st0.withRest cs)
  | '=' :: cs =>
    let (r, st1) := parseMatcherText cx (st0.withRest cs)
    (r.map (Matcher.equal · false), st1)
  | '~' :: cs =>
    let (r, st1) := parseMatcherText cx (st0.withRest cs)
    (r.map (Matcher.contains · false), st1)
  | _ =>
    match dm with
    | .equal => let (r, st1) := parseMatcherText cx st0; (r.map (Matcher.equal · true), st1)
    | .contains => let (r, st1) := parseMatcherText cx st0; (r.map (Matcher.contains · true), st1)
    | .glob => parseGlobM cx true st0

/-- `recover_unexpected_comma` -/
def recoverComma (cx : Ctx) (st : St) : St :=
  match skipWs st.rest with
  | ',' :: _ =>
    let st1 := st.report .unexpectedComma (pos cx st) 0
    st1.withRest (takeTill (· == ')') st1.rest).2
  | _ => st

/-- The predicate table of `parse_set_def`, in `alt` order (regenerated copy: `Gen.Syntax`). -/
def unaryTable : List (String × DefaultMatcher × Pred) :=
  [ ("package", .glob, .package), ("deps", .glob, .deps), ("rdeps", .glob, .rdeps),
    ("kind", .equal, .kind), ("binary_id", .glob, .binaryId), ("binary", .glob, .binary),
    ("test", .contains, .test) ]

/-- `unary_set_def` body after the name matched -/
def unaryBody (cx : Ctx) (dm : DefaultMatcher) (p : Pred) (st : St) : Option SetDef × St :=
  let st1 := expectChar cx '(' .expectedOpenParen st
  let start := pos cx st1
  let (m, st2) := setMatcher cx dm st1
  let stop := pos cx st2
  let st3 := recoverComma cx st2
  let st4 := expectChar cx ')' .expectedCloseParen st3
  (m.map (fun m => SetDef.unary p m ⟨start, stop - start⟩), st4)

/-- `platform_def` body after the name matched -/
def platformBody (cx : Ctx) (st : St) : Option SetDef × St :=
  let st1 := expectChar cx '(' .expectedOpenParen st
  let start := pos cx st1
  let (res, st2) := parseMatcherText cx (st1.withRest (skipWs st1.rest))
  let stop := pos cx st2
  let st3 := recoverComma cx st2
  let st4 := expectChar cx ')' .expectedCloseParen st3
  match res with
  | none => (none, st4)
  | some s =>
    let t := rustTrim s
    if t == "host".toList then (some (.platform .host ⟨start, stop - start⟩), st4)
    else if t == "target".toList then (some (.platform .target ⟨start, stop - start⟩), st4)
    else (none, st4.report .invalidPlatform start (stop - start))

/-- `nullary_set_def` body; `start` is the position before the name -/
def nullaryBody (cx : Ctx) (start : Nat) (mk : Span → SetDef) (st : St) : Option SetDef × St :=
  let st1 := expectChar cx '(' .expectedOpenParen st
  let errLoc := pos cx st1
  let (arg, rest') := takeTill (· == ')') st1.rest
  let st2 := st1.withRest rest'
  let st3 := if (rustTrim arg).isEmpty then st2 else st2.report .unexpectedArgument errLoc (utf8Len arg)
  let st4 := expectChar cx ')' .expectedCloseParen st3
  (some (mk ⟨start, pos cx st4 - start⟩), st4)

def tryUnary (cx : Ctx) (st : St) : List (String × DefaultMatcher × Pred) → Option (Option SetDef × St)
  | [] => none
  | (name, dm, p) :: more =>
    match lit name st.rest with
    | some r => some (unaryBody cx dm p (st.withRest r))
    | none => tryUnary cx st more

/-- `parse_set_def` = `ws(alt((…11 alternatives…)))`; `none` = backtrack (nothing consumed or reported) -/
def parseSetDef (cx : Ctx) (st : St) : Option (Option SetDef × St) :=
  let st0 := st.withRest (skipWs st.rest)
  match tryUnary cx st0 unaryTable with
  | some r => some r
  | none =>
    match lit "platform" st0.rest with
    | some r => some (platformBody cx (st0.withRest r))
    | none =>
      let start := pos cx st0
      match lit "default" st0.rest with
      | some r => some (nullaryBody cx start (fun s => .default s) (st0.withRest r))
      | none =>
        match lit "all" st0.rest with
        | some r => some (nullaryBody cx start (fun _ => .all) (st0.withRest r))
        | none =>
          match lit "none" st0.rest with
          | some r => some (nullaryBody cx start (fun _ => .none) (st0.withRest r))
          | none => none

/-! ### operators -/

/-- `parse_or_operator` = `ws(alt(("||" | "OR " ⇒ report), "or ", '|', '+'))` -/
def parseOrOp (cx : Ctx) (st : St) : Option (Option OrOp × St) :=
  let st0 := st.withRest (skipWs st.rest)
  match lit "||" st0.rest with
  | some r => some (none, (st0.report .invalidOrOperator (pos cx st0) 2).withRest r)
  | none =>
    match lit "OR " st0.rest with
    | some r => some (none, (st0.report .invalidOrOperator (pos cx st0) 3).withRest r)
    | none =>
      match lit "or " st0.rest with
      | some r => some (some .literalOr, st0.withRest r)
      | none =>
        match st0.rest with
        | '|' :: r => some (some .pipe, st0.withRest r)
        | '+' :: r => some (some .plus, st0.withRest r)
        | _ => none

inductive AndDiffOp where
  | and (op : AndOp)
  | diff
  deriving DecidableEq, Repr

/-- `parse_and_or_difference_operator` -/
def parseAndOp (cx : Ctx) (st : St) : Option (Option AndDiffOp × St) :=
  let st0 := st.withRest (skipWs st.rest)
  match lit "&&" st0.rest with
  | some r => some (none, (st0.report .invalidAndOperator (pos cx st0) 2).withRest r)
  | none =>
    match lit "AND " st0.rest with
    | some r => some (none, (st0.report .invalidAndOperator (pos cx st0) 4).withRest r)
    | none =>
      match lit "and " st0.rest with
      | some r => some (some (.and .literalAnd), st0.withRest r)
      | none =>
        match st0.rest with
        | '&' :: r => some (some (.and .ampersand), st0.withRest r)
        | '-' :: r => some (some .diff, st0.withRest r)
        | _ => none

/-! ### expressions -/

/-- `ExprResult`: `none` = `ExprResult::Error` -/
abbrev ERes := Option PExpr

def combineOr (a : ERes) (op : Option OrOp) (b : ERes) : ERes :=
  match op, a, b with
  | some op, some x, some y => some (.union op x y)
  | _, _, _ => none

def combineAnd (a : ERes) (op : Option AndDiffOp) (b : ERes) : ERes :=
  match op, a, b with
  | some (.and op), some x, some y => some (.inter op x y)
  | some .diff, some x, some y => some (.diff x y)
  | _, _, _ => none

/-- `expect_expr(inner)` on a miss: `ExpectedExpr` spanning the rest of the input from the current
    position (which `ws` has reset to before the blanks) -/
def missingExpr (cx : Ctx) (st : St) : ERes × St :=
  (none, st.report .expectedExpr (pos cx st) (remLen st))

mutual
/-- `parse_expr`: never fails -/
def parseExpr (cx : Ctx) : Nat → St → ERes × St
  | 0, st => (none, st.report .outOfFuel 0 0)
  | f + 1, st =>
    let (e, st1) := parseAndOr cx f st
    orLoop cx f e st1

/-- the `repeat(0.., (parse_or_operator, expect_expr(parse_and_or_difference_expr)))` fold -/
def orLoop (cx : Ctx) : Nat → ERes → St → ERes × St
  | 0, _, st => (none, st.report .outOfFuel 0 0)
  | f + 1, acc, st =>
    match parseOrOp cx st with
    | none => (acc, st)
    | some (op, st1) =>
      let (e2, st2) := parseAndOr cx f st1
      orLoop cx f (combineOr acc op e2) st2

/-- `parse_and_or_difference_expr`: never fails -/
def parseAndOr (cx : Ctx) : Nat → St → ERes × St
  | 0, st => (none, st.report .outOfFuel 0 0)
  | f + 1, st =>
    let (e, st1) := basicOrMissing cx f st
    andLoop cx f e st1

def andLoop (cx : Ctx) : Nat → ERes → St → ERes × St
  | 0, _, st => (none, st.report .outOfFuel 0 0)
  | f + 1, acc, st =>
    match parseAndOp cx st with
    | none => (acc, st)
    | some (op, st1) =>
      let (e2, st2) := basicOrMissing cx f st1
      andLoop cx f (combineAnd acc op e2) st2

/-- `expect_expr(parse_basic_expr)` -/
def basicOrMissing (cx : Ctx) : Nat → St → ERes × St
  | 0, st => (none, st.report .outOfFuel 0 0)
  | f + 1, st =>
    match parseBasic cx f st with
    | some r => r
    | none => missingExpr cx st

/-- `parse_basic_expr` = `ws(alt((set_def, parse_expr_not, parse_parentheses_expr)))`;
    `none` = backtrack -/
def parseBasic (cx : Ctx) : Nat → St → Option (ERes × St)
  | 0, st => some (none, st.report .outOfFuel 0 0)
  | f + 1, st =>
    let st0 := st.withRest (skipWs st.rest)
    match parseSetDef cx st0 with
    | some (s, st1) => some (s.map PExpr.set, st1)
    | none =>
      -- parse_expr_not: ("not " | '!') then expect_expr(ws(parse_basic_expr))
      let notOp : Option (NotOp × List Char) :=
        match lit "not " st0.rest with
        | some r => some (.literalNot, r)
        | none => match st0.rest with
          | '!' :: r => some (.exclamation, r)
          | _ => none
      match notOp with
      | some (op, r) =>
        let (e, st1) := basicOrMissing cx f (st0.withRest r)
        some (e.map (PExpr.not op), st1)
      | none =>
        match st0.rest with
        | '(' :: r =>
          let (e, st1) := parseExpr cx f (st0.withRest r)
          let st2 := expectChar cx ')' .expectedCloseParen st1
          some (e.map PExpr.parens, st2)
        | _ => none
end

/-- fuel that suffices for every input (each nesting level and each loop iteration consumes ≥ 1 character) -/
def fuelFor (input : List Char) : Nat := 4 * input.length + 8

/-- `parse`: `terminated(parse_expr, expect(ws(eof), ExpectedEndOfExpression))` -/
def parseTop (cx : Ctx) (input : List Char) : ERes × St :=
  let st : St := { rest := input, errs := [], needs := [] }
  let (e, st1) := parseExpr cx (fuelFor input) st
  match skipWs st1.rest with
  | [] => (e, st1.withRest [])
  | _ => (e, st1.report .expectedEof (pos cx st1) (remLen st1))

def mkCtx (input : List Char) (rv gv : List (List Char × Bool)) (re : List (List Char × Nat × Nat)) : Ctx :=
  { total := utf8Len input, regexValid := rv, globValid := gv, regexErr := re }

/-- What `Filterset::parse` makes of the parser's result before compiling: an expression only if
    no error at all was recorded. -/
def parseFilterset (input : List Char) (rv gv : List (List Char × Bool)) (re : List (List Char × Nat × Nat)) : Except (List PErr) PExpr :=
  let (e, st) := parseTop (mkCtx input rv gv re) input
  match e, st.errs with
  | some e, [] => .ok e
  | _, errs => .error errs

/-! ### printing -/

def hexDigitLower (n : Nat) : Char :=
  if n < 10 then Char.ofNat ('0'.toNat + n) else Char.ofNat ('a'.toNat + n - 10)

def toHexDigits : Nat → Nat → List Char
  | 0, _ => []
  | f + 1, n => if n < 16 then [hexDigitLower n] else toHexDigits f (n / 16) ++ [hexDigitLower (n % 16)]

def unicodeEscape (c : Char) : List Char :=
  ['\\', 'u', '{'] ++ toHexDigits 8 c.toNat ++ ['}']

/-- Rust `char::escape_default` -/
def escapeDefault (c : Char) : List Char :=
  if c == '\t' then ['\\', 't']
  else if c == '\r' then ['\\', 'r']
  else if c == '\n' then ['\\', 'n']
  else if c == '\'' then ['\\', '\'']
  else if c == '"' then ['\\', '"']
  else if c == '\\' then ['\\', '\\']
  else if 0x20 ≤ c.toNat ∧ c.toNat ≤ 0x7e then [c]
  else unicodeEscape c

/-- `DisplayParsedString`, character at index `i` -/
def printStringChar (i : Nat) (c : Char) : List Char :=
  if c == '/' then ['\\', '/']
  else if c == ')' then ['\\', ')']
  else if c == ',' then ['\\', ',']
  else if c == '\'' || c == '"' then [c]
  else if i == 0 && (c == ' ' || c == '=' || c == '~' || c == '#') then unicodeEscape c
  else escapeDefault c

def printStringFrom : Nat → List Char → List Char
  | _, [] => []
  | i, c :: cs => printStringChar i c ++ printStringFrom (i + 1) cs

def printString (s : List Char) : List Char := printStringFrom 0 s

/-- `DisplayParsedRegex`: `/` is the only additional escape -/
def printRegex : List Char → List Char
  | [] => []
  | '/' :: cs => '\\' :: '/' :: printRegex cs
  | c :: cs => c :: printRegex cs

def printMatcher : Matcher → List Char
  | .equal v imp => (if imp then [] else ['=']) ++ printString v
  | .contains v imp => (if imp then [] else ['~']) ++ printString v
  | .glob v imp => (if imp then [] else ['#']) ++ printString v
  | .regex v => ['/'] ++ printRegex v ++ ['/']

def predName : Pred → String
  | .package => "package" | .deps => "deps" | .rdeps => "rdeps" | .kind => "kind"
  | .binary => "binary" | .binaryId => "binary_id" | .test => "test"

def printSet : SetDef → List Char
  | .unary p m _ => (predName p).toList ++ ['('] ++ printMatcher m ++ [')']
  | .platform .host _ => "platform(host)".toList
  | .platform .target _ => "platform(target)".toList
  | .default _ => "default()".toList
  | .all => "all()".toList
  | .none => "none()".toList

def printNot : NotOp → String
  | .literalNot => "not" | .exclamation => "!"
def printOr : OrOp → String
  | .literalOr => "or" | .pipe => "|" | .plus => "+"
def printAnd : AndOp → String
  | .literalAnd => "and" | .ampersand => "&"

/-- `impl Display for ParsedExpr` -/
def printExpr : PExpr → List Char
  | .not op e => (printNot op).toList ++ [' '] ++ printExpr e
  | .union op a b => printExpr a ++ [' '] ++ (printOr op).toList ++ [' '] ++ printExpr b
  | .inter op a b => printExpr a ++ [' '] ++ (printAnd op).toList ++ [' '] ++ printExpr b
  | .diff a b => printExpr a ++ " - ".toList ++ printExpr b
  | .parens e => ['('] ++ printExpr e ++ [')']
  | .set s => printSet s

/-- forget source spans (the round trip is stated modulo spans) -/
def SetDef.dropSpan : SetDef → SetDef
  | .unary p m _ => .unary p m ⟨0, 0⟩
  | .platform p _ => .platform p ⟨0, 0⟩
  | .default _ => .default ⟨0, 0⟩
  | s => s

def dropSpans : PExpr → PExpr
  | .not op e => .not op (dropSpans e)
  | .union op a b => .union op (dropSpans a) (dropSpans b)
  | .inter op a b => .inter op (dropSpans a) (dropSpans b)
  | .diff a b => .diff (dropSpans a) (dropSpans b)
  | .parens e => .parens (dropSpans e)
  | .set s => .set (SetDef.dropSpan s)

end NextestModel.Syntax
