/-
  Mirrors nextest-filtering/src/{parsing.rs (AST), compile.rs, expression.rs (evaluation)}:
  `ParsedExpr`, `SetDef`, `NameMatcher`, `CompiledExpr`, `compile_expr` (difference ⇒ ∧¬, parens
  dropped), `matches_test`, `matches_binary` (Kleene), `FiltersetLeaf`, and the package-set
  predicates `package` / `deps` / `rdeps` over a dependency graph.

  Modelled, not verified: the `regex` engine (truth of a regex on a string is an input, `regexOracle`)
  and `globset`'s glob→regex translation (replaced by the glob semantics of `Model/Glob`).
-/
import NextestModel.Model.Glob
namespace NextestModel

structure Span where
  off : Nat
  len : Nat
  deriving DecidableEq, Repr

/-- `NameMatcher`; strings are `List Char` (the parser is char-indexed). -/
inductive Matcher where
  | equal (value : List Char) (implicit : Bool)
  | contains (value : List Char) (implicit : Bool)
  | glob (value : List Char) (implicit : Bool)
  | regex (value : List Char)
  deriving DecidableEq, Repr

inductive Pred where
  | package | deps | rdeps | kind | binary | binaryId | test
  deriving DecidableEq, Repr

inductive Platform where
  | host | target
  deriving DecidableEq, Repr

inductive SetDef where
  | unary (p : Pred) (m : Matcher) (s : Span)
  | platform (p : Platform) (s : Span)
  | default (s : Span)
  | all
  | none
  deriving DecidableEq, Repr

inductive NotOp where
  | literalNot | exclamation
  deriving DecidableEq, Repr
inductive OrOp where
  | literalOr | pipe | plus
  deriving DecidableEq, Repr
inductive AndOp where
  | literalAnd | ampersand
  deriving DecidableEq, Repr

/-- `ParsedExpr` -/
inductive PExpr where
  | not (op : NotOp) (e : PExpr)
  | union (op : OrOp) (a b : PExpr)
  | inter (op : AndOp) (a b : PExpr)
  | diff (a b : PExpr)
  | parens (e : PExpr)
  | set (s : SetDef)
  deriving DecidableEq, Repr

/-! ### Queries and the evaluation context -/

/-- `TestQuery` / `BinaryQuery`: package is an index into the graph's package list. -/
structure Query where
  package : Nat
  binaryId : List Char
  binaryName : List Char
  kind : List Char
  platform : Platform
  testName : List Char
  deriving Repr

/-- regex truth is an input: `regexOracle pattern subject` -/
abbrev RegexOracle := List Char → List Char → Bool

def isInfixC (p : List Char) : List Char → Bool
  | [] => p.isEmpty
  | x :: xs => p.isPrefixOf (x :: xs) || isInfixC p xs

/-- `NameMatcher::is_match` -/
def Matcher.isMatch (ro : RegexOracle) : Matcher → List Char → Bool
  | .equal v _, s => v == s
  | .contains v _, s => isInfixC v s
  | .glob v _, s => Glob.globMatch v s
  | .regex v, s => ro v s

/-! ### Package graph (guppy `depends_on` = reflexive-transitive reachability over *all* packages) -/

structure Graph where
  /-- package names; index = package id -/
  names : List (List Char)
  /-- workspace membership -/
  workspace : List Bool
  /-- direct dependency edges (any kind: normal, dev, build), `edges[i]` = successors of `i` -/
  edges : List (List Nat)
  /-- names / ids of every test-capable build target of the workspace (`ParseContextCache`) -/
  binaryNames : List (List Char) := []
  binaryIds : List (List Char) := []
  deriving Repr

def Graph.succ (g : Graph) (i : Nat) : List Nat := g.edges.getD i []

/-- fuelled DFS: is `b` reachable from `a` (reflexively, transitively)? fuel = number of packages
    suffices because a shortest path visits no package twice. -/
def Graph.reachF (g : Graph) : Nat → Nat → Nat → Bool
  | 0, a, b => a == b
  | f + 1, a, b => a == b || (g.succ a).any (fun c => g.reachF f c b)

def Graph.dependsOn (g : Graph) (a b : Nat) : Bool := g.reachF g.names.length a b

def Graph.wsIds (g : Graph) : List Nat :=
  (List.range g.names.length).filter (fun i => g.workspace.getD i false)

def Graph.name (g : Graph) (i : Nat) : List Char := g.names.getD i []

/-- `matching_packages` -/
def Graph.matching (g : Graph) (ro : RegexOracle) (m : Matcher) : List Nat :=
  g.wsIds.filter (fun i => m.isMatch ro (g.name i))

/-- `dependencies_packages`: workspace packages that some matching workspace package depends on -/
def Graph.depsOf (g : Graph) (ro : RegexOracle) (m : Matcher) : List Nat :=
  g.wsIds.filter (fun j => (g.matching ro m).any (fun i => g.dependsOn i j))

/-- `rdependencies_packages`: workspace packages that depend on some matching workspace package -/
def Graph.rdepsOf (g : Graph) (ro : RegexOracle) (m : Matcher) : List Nat :=
  g.wsIds.filter (fun j => (g.matching ro m).any (fun i => g.dependsOn j i))

/-! ### Compiled expressions -/

/-- `FiltersetLeaf` -/
inductive Leaf where
  | packages (ids : List Nat)
  | kind (m : Matcher)
  | platform (p : Platform)
  | binary (m : Matcher)
  | binaryId (m : Matcher)
  | test (m : Matcher)
  | default
  | all
  | none
  deriving Repr

/-- `CompiledExpr` -/
inductive CExpr where
  | not (e : CExpr)
  | union (a b : CExpr)
  | inter (a b : CExpr)
  | set (l : Leaf)
  deriving Repr

/-- `compile_set_def` (the emptiness errors are reported by `compileErrors`) -/
def compileSet (g : Graph) (ro : RegexOracle) : SetDef → Leaf
  | .unary .package m _ => .packages (g.matching ro m)
  | .unary .deps m _ => .packages (g.depsOf ro m)
  | .unary .rdeps m _ => .packages (g.rdepsOf ro m)
  | .unary .kind m _ => .kind m
  | .unary .binary m _ => .binary m
  | .unary .binaryId m _ => .binaryId m
  | .unary .test m _ => .test m
  | .platform p _ => .platform p
  | .default _ => .default
  | .all => .all
  | .none => .none

/-- `compile_expr`: difference becomes intersection with the complement, parentheses vanish,
    operator spellings are forgotten. -/
def compile (g : Graph) (ro : RegexOracle) : PExpr → CExpr
  | .not _ e => .not (compile g ro e)
  | .union _ a b => .union (compile g ro a) (compile g ro b)
  | .inter _ a b => .inter (compile g ro a) (compile g ro b)
  | .diff a b => .inter (compile g ro a) (.not (compile g ro b))
  | .parens e => compile g ro e
  | .set s => .set (compileSet g ro s)

/-! ### Compile-time errors (`compile`, `check_banned_predicates`, `expect_non_empty_*`) -/

inductive CompileErr where
  | bannedPredicate (s : Span)
  | noPackageMatch (s : Span)
  | noBinaryIdMatch (s : Span)
  | noBinaryNameMatch (s : Span)
  deriving DecidableEq, Repr

/-- `check_banned_predicates` for `FiltersetKind::DefaultFilter`: every `default()` is an error -/
def bannedErrors : PExpr → List CompileErr
  | .not _ e => bannedErrors e
  | .union _ a b => bannedErrors a ++ bannedErrors b
  | .inter _ a b => bannedErrors a ++ bannedErrors b
  | .diff a b => bannedErrors a ++ bannedErrors b
  | .parens e => bannedErrors e
  | .set (.default s) => [.bannedPredicate s]
  | .set _ => []

def setErrors (g : Graph) (ro : RegexOracle) : SetDef → List CompileErr
  | .unary .package m s => if (g.matching ro m).isEmpty then [.noPackageMatch s] else []
  | .unary .deps m s => if (g.depsOf ro m).isEmpty then [.noPackageMatch s] else []
  | .unary .rdeps m s => if (g.rdepsOf ro m).isEmpty then [.noPackageMatch s] else []
  | .unary .binary m s => if g.binaryNames.any (m.isMatch ro) then [] else [.noBinaryNameMatch s]
  | .unary .binaryId m s => if g.binaryIds.any (m.isMatch ro) then [] else [.noBinaryIdMatch s]
  | _ => []

/-- errors of `compile_expr`, left operand first -/
def compileErrors (g : Graph) (ro : RegexOracle) : PExpr → List CompileErr
  | .not _ e => compileErrors g ro e
  | .union _ a b => compileErrors g ro a ++ compileErrors g ro b
  | .inter _ a b => compileErrors g ro a ++ compileErrors g ro b
  | .diff a b => compileErrors g ro a ++ compileErrors g ro b
  | .parens e => compileErrors g ro e
  | .set s => setErrors g ro s

/-- `FiltersetLeaf::matches_test`; `dflt` is the value of the default filter on the query
    (the default filter cannot mention `default()`, so it is evaluated separately). -/
def Leaf.matchesTest (ro : RegexOracle) (dflt : Bool) (q : Query) : Leaf → Bool
  | .all => true
  | .none => false
  | .default => dflt
  | .test m => m.isMatch ro q.testName
  | .binary m => m.isMatch ro q.binaryName
  | .binaryId m => m.isMatch ro q.binaryId
  | .platform p => q.platform == p
  | .kind m => m.isMatch ro q.kind
  | .packages ids => ids.contains q.package

/-- `CompiledExpr::matches_test` (the value computed by `collapse_frames`) -/
def CExpr.matchesTest (ro : RegexOracle) (dflt : Bool) (q : Query) : CExpr → Bool
  | .not e => !(e.matchesTest ro dflt q)
  | .union a b => a.matchesTest ro dflt q || b.matchesTest ro dflt q
  | .inter a b => a.matchesTest ro dflt q && b.matchesTest ro dflt q
  | .set l => l.matchesTest ro dflt q

/-- Kleene three-valued logic (`impl Logic for Option<bool>`) -/
def kNot : Option Bool → Option Bool
  | some b => some (!b)
  | Option.none => Option.none
def kAnd : Option Bool → Option Bool → Option Bool
  | some false, _ => some false
  | _, some false => some false
  | some true, some true => some true
  | _, _ => none
def kOr : Option Bool → Option Bool → Option Bool
  | some true, _ => some true
  | _, some true => some true
  | some false, some false => some false
  | _, _ => none

/-- `FiltersetLeaf::matches_binary`; `dflt` is the default filter's binary-level answer. -/
def Leaf.matchesBinary (ro : RegexOracle) (dflt : Option Bool) (q : Query) : Leaf → Option Bool
  | .all => some true
  | .none => some false
  | .default => dflt
  | .test _ => Option.none
  | .binary m => some (m.isMatch ro q.binaryName)
  | .binaryId m => some (m.isMatch ro q.binaryId)
  | .platform p => some (q.platform == p)
  | .kind m => some (m.isMatch ro q.kind)
  | .packages ids => some (ids.contains q.package)

def CExpr.matchesBinary (ro : RegexOracle) (dflt : Option Bool) (q : Query) : CExpr → Option Bool
  | .not e => kNot (e.matchesBinary ro dflt q)
  | .union a b => kOr (a.matchesBinary ro dflt q) (b.matchesBinary ro dflt q)
  | .inter a b => kAnd (a.matchesBinary ro dflt q) (b.matchesBinary ro dflt q)
  | .set l => l.matchesBinary ro dflt q

end NextestModel
