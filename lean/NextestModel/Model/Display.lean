/-
  How a unit's captured output is shown (nextest-runner/src/reporter/displayer/unit_output.rs
  `write_test_single_output_with_description`, `write_output_with_highlight`, `write_output_with_trailing_newline`;
  helpers.rs `highlight_end`) and which part of it is picked as the description of a failure
  (error_description.rs `TestOutputErrorSlice::heuristic_extract`: `heuristic_panic_message`, `heuristic_error_str`,
  `heuristic_should_panic`).

  Bytes are `UInt8`; a Rust slice expression that would panic (`output[..start]` past the end) is `none`.
  Third-party pieces are modelled by what their documentation and source say and are corresponded on every run:
  bstr (`lines`, `lines_with_terminator`, `trim_end_with`, `find_iter`, `rfind`, `contains_str`) and the two regexes
  `^thread '([^']+)' panicked at ` and `^Error: ` (multi-line, bytes, Unicode) with `find_iter`'s non-overlapping scan.
  The ANSI stripper is not modelled: a `Piece.strip` says which bytes are handed to it.
-/
namespace NextestModel.Display

abbrev Bytes := List UInt8

def ascii (s : String) : Bytes := s.toList.map (fun c => c.toNat.toUInt8)

def NL : UInt8 := 10
def CR : UInt8 := 13

/-! ### bstr -/

/-- index of the first `\n` -/
def findNl : Bytes → Option Nat
  | [] => none
  | c :: r => if c = NL then some 0 else (findNl r).map (· + 1)

/-- helpers.rs `highlight_end`: the position of the second newline, or the length -/
def highlightEnd (s : Bytes) : Nat :=
  match findNl s with
  | none => s.length
  | some i =>
    match findNl (s.drop (i + 1)) with
    | none => s.length
    | some j => i + 1 + j

/-- `lines_with_terminator`: cut after every `\n`; a last piece without terminator only if it is not empty -/
def linesWTGo : Bytes → Bytes → List Bytes
  | [], acc => if acc.isEmpty then [] else [acc.reverse]
  | c :: r, acc => if c = NL then (c :: acc).reverse :: linesWTGo r [] else linesWTGo r (c :: acc)

def linesWT (s : Bytes) : List Bytes := linesWTGo s []

/-- `trim_end_with(|c| c == '\n' || c == '\r')` -/
def trimEndCrLf (l : Bytes) : Bytes := (l.reverse.dropWhile (fun c => c = NL || c = CR)).reverse

/-- `trim_last_terminator` (of `lines()`): one `\n`, then one `\r` before it -/
def trimLastTerminator (l : Bytes) : Bytes :=
  match l.reverse with
  | c :: r => if c = NL then (match r with
      | d :: r' => if d = CR then r'.reverse else r.reverse
      | [] => [])
    else l
  | [] => l

def isPrefix : Bytes → Bytes → Bool
  | [], _ => true
  | _ :: _, [] => false
  | a :: p, b :: s => a = b && isPrefix p s

/-- `contains_str` -/
def containsSub (needle : Bytes) : Bytes → Bool
  | [] => needle.isEmpty
  | c :: r => isPrefix needle (c :: r) || containsSub needle r

/-- length of the encoding of the white-space character the (reversed) text ends with, 0 if it ends with none
    (`char::is_whitespace` on what `decode_last_utf8` finds) -/
def wsSuffixLen : Bytes → Nat
  | 0x09 :: _ | 0x0A :: _ | 0x0B :: _ | 0x0C :: _ | 0x0D :: _ | 0x20 :: _ => 1
  | 0x85 :: 0xC2 :: _ | 0xA0 :: 0xC2 :: _ => 2
  | 0x80 :: 0x9A :: 0xE1 :: _ => 3
  | 0x9F :: 0x81 :: 0xE2 :: _ => 3
  | 0x80 :: 0x80 :: 0xE3 :: _ => 3
  | c :: 0x80 :: 0xE2 :: _ => if (0x80 ≤ c ∧ c ≤ 0x8A) ∨ c = 0xA8 ∨ c = 0xA9 ∨ c = 0xAF then 3 else 0
  | _ => 0

/-- `trim_end_with(|c| c.is_whitespace())` on the reversed text -/
def trimWsRev : Nat → Bytes → Bytes
  | 0, r => r
  | f + 1, r => match wsSuffixLen r with
    | 0 => r
    | n => trimWsRev f (r.drop n)

def trimEndWs (l : Bytes) : Bytes := (trimWsRev l.length l.reverse).reverse

/-! ### the two regexes -/

/-- bytes of the UTF-8 encoding of one scalar value at the head, 0 if there is none (regex-syntax `Utf8Sequences`) -/
def scalarLen : Bytes → Nat
  | a :: r =>
    if a ≤ 0x7F then 1
    else match r with
      | b :: r2 =>
        if 0xC2 ≤ a ∧ a ≤ 0xDF then (if 0x80 ≤ b ∧ b ≤ 0xBF then 2 else 0)
        else match r2 with
          | c :: r3 =>
            let cont (x : UInt8) : Bool := 0x80 ≤ x && x ≤ 0xBF
            if a = 0xE0 then (if 0xA0 ≤ b ∧ b ≤ 0xBF ∧ cont c then 3 else 0)
            else if (0xE1 ≤ a ∧ a ≤ 0xEC) ∨ a = 0xEE ∨ a = 0xEF then (if cont b ∧ cont c then 3 else 0)
            else if a = 0xED then (if 0x80 ≤ b ∧ b ≤ 0x9F ∧ cont c then 3 else 0)
            else match r3 with
              | d :: _ =>
                if a = 0xF0 then (if 0x90 ≤ b ∧ b ≤ 0xBF ∧ cont c ∧ cont d then 4 else 0)
                else if 0xF1 ≤ a ∧ a ≤ 0xF3 then (if cont b ∧ cont c ∧ cont d then 4 else 0)
                else if a = 0xF4 then (if 0x80 ≤ b ∧ b ≤ 0x8F ∧ cont c ∧ cont d then 4 else 0)
                else 0
              | [] => 0
          | [] => 0
      | [] => 0
  | [] => 0

def QUOTE : UInt8 := 0x27

/-- `[^']+` then `'`: the number of bytes of the name, if the text starts with a non-empty run of scalar values other
    than `'` followed by `'` -/
def nameLen : Nat → Bytes → Nat → Option Nat
  | 0, _, _ => none
  | f + 1, s, n =>
    match s with
    | [] => none
    | c :: _ =>
      if c = QUOTE then (if n = 0 then none else some n)
      else match scalarLen s with
        | 0 => none
        | k => nameLen f (s.drop k) (n + k)

def threadPrefix : Bytes := ascii "thread '"
def panickedAt : Bytes := ascii "' panicked at "

/-- length of a match of `thread '([^']+)' panicked at ` at the head -/
def panickedMatchLen (s : Bytes) : Option Nat :=
  if isPrefix threadPrefix s then
    match nameLen (s.length + 1) (s.drop threadPrefix.length) 0 with
    | none => none
    | some n => if isPrefix panickedAt (s.drop (threadPrefix.length + n)) then some (threadPrefix.length + n + panickedAt.length) else none
  else none

/-- `find_iter(..).last()`'s start: scan left to right; `atLineStart` says whether `^` holds here; after a match the scan
    resumes at its end (matches do not overlap) -/
def lastPanicked : Nat → Bytes → Nat → Bool → Option Nat → Option Nat
  | 0, _, _, _, best => best
  | f + 1, s, pos, atLineStart, best =>
    match s with
    | [] => best
    | c :: r =>
      match (if atLineStart then panickedMatchLen s else none) with
      | some n =>
        -- n ≥ 23; the byte before the resume point is the space that ends the match
        lastPanicked f (s.drop n) (pos + n) false (some pos)
      | none => lastPanicked f r (pos + 1) (c = NL) best

def errorPrefix : Bytes := ascii "Error: "

/-- start of the first match of `^Error: ` -/
def firstError : Bytes → Nat → Bool → Option Nat
  | [], _, _ => none
  | c :: r, pos, atLineStart =>
    if atLineStart && isPrefix errorPrefix (c :: r) then some pos else firstError r (pos + 1) (c = NL)

/-- `rfind("\n")` -/
def rfindNl (s : Bytes) : Option Nat :=
  match findNl s.reverse with
  | none => none
  | some i => some (s.length - 1 - i)

/-! ### error_description.rs -/

structure Subslice where
  start : Nat
  slice : Bytes
  deriving DecidableEq, Repr

def nlError : Bytes := ascii "\nError:"

def heuristicPanicMessage (stderr : Bytes) : Option Subslice :=
  match lastPanicked (stderr.length + 1) stderr 0 true none with
  | none => none
  | some m =>
    let prefix_ := trimEndCrLf (stderr.take m)
    let start := match rfindNl prefix_ with
      | some p => if isPrefix nlError (prefix_.drop p) then p + 1 else m
      | none => m
    some { start := start, slice := trimEndWs (stderr.drop start) }

def heuristicErrorStr (stderr : Bytes) : Option Subslice :=
  match firstError stderr 0 true with
  | none => none
  | some start => some { start := start, slice := trimEndWs (stderr.drop start) }

def shouldPanicNote : Bytes := ascii "note: test did not panic as expected"

/-- `stdout.lines().find(..)` with the line's offset -/
def findShouldPanic : List Bytes → Nat → Option Subslice
  | [], _ => none
  | l :: ls, off =>
    let line := trimLastTerminator l
    if containsSub shouldPanicNote line then some { start := off, slice := line } else findShouldPanic ls (off + l.length)

def heuristicShouldPanic (stdout : Bytes) : Option Subslice := findShouldPanic (linesWT stdout) 0

inductive Which where
  | panicMessage | errorStr | shouldPanic
  deriving DecidableEq, Repr

/-- `TestOutputErrorSlice::heuristic_extract` -/
def heuristicExtract (stdout stderr : Option Bytes) : Option (Which × Subslice) :=
  let fromErr : Option (Which × Subslice) := match stderr with
    | some e => (match heuristicPanicMessage e with
      | some s => some (.panicMessage, s)
      | none => (heuristicErrorStr e).map (fun s => (.errorStr, s)))
    | none => none
  match fromErr with
  | some r => some r
  | none => match stdout with
    | some o => (heuristicShouldPanic o).map (fun s => (.shouldPanic, s))
    | none => none

/-- `stdout_subslice` / `stderr_subslice` -/
def stdoutSubslice : Which × Subslice → Option Subslice
  | (.shouldPanic, s) => some s
  | _ => none
def stderrSubslice : Which × Subslice → Option Subslice
  | (.shouldPanic, _) => none
  | (_, s) => some s
def combinedSubslice : Which × Subslice → Option Subslice := fun p => some p.2

/-! ### unit_output.rs -/

inductive Style where
  | reset | prefix_ | suffix
  deriving DecidableEq, Repr

inductive Piece where
  /-- written as it is -/
  | raw (b : Bytes)
  /-- written through `strip_ansi_escapes::Writer` (one writer per piece) -/
  | strip (b : Bytes)
  /-- an escape sequence of nextest's own -/
  | style (s : Style)
  deriving DecidableEq, Repr

/-- `write_output_with_trailing_newline`: the bytes before the trailer -/
def dropOneNl (out : Bytes) : Bytes := if out.getLast? = some NL then out.dropLast else out

def highlightLine (line : Bytes) : List Piece :=
  let t := trimEndCrLf line
  [.style .prefix_, .strip t, .style .suffix, .raw (line.drop t.length)]

/-- `write_output_with_highlight` -/
def writeHighlight (output : Bytes) (d : Subslice) : Option (List Piece) :=
  let e := d.start + highlightEnd d.slice
  if d.start ≤ output.length ∧ e ≤ output.length then
    some ([.raw (output.take d.start), .style .reset]
      ++ (linesWT ((output.drop d.start).take (e - d.start))).flatMap highlightLine
      ++ [.raw (dropOneNl (output.drop e)), .style .reset, .raw [NL]])
  else none

/-- `write_test_single_output_with_description` -/
def writeSingle (colorized : Bool) (output : Bytes) (d : Option Subslice) : Option (List Piece) :=
  if colorized then
    match d with
    | some d => writeHighlight output d
    | none => some [.raw (dropOneNl output), .style .reset, .raw [NL]]
  else some [.strip (dropOneNl output ++ [NL])]

/-- the test's bytes among what is written, in order (nextest's own escape sequences left out) -/
def fed : List Piece → Bytes
  | [] => []
  | .raw b :: r => b ++ fed r
  | .strip b :: r => b ++ fed r
  | .style _ :: r => fed r

/-- what reaches the terminal, given the stripper and the three escape sequences -/
def render (strip : Bytes → Bytes) (sty : Style → Bytes) : List Piece → Bytes
  | [] => []
  | .raw b :: r => b ++ render strip sty r
  | .strip b :: r => strip b ++ render strip sty r
  | .style s :: r => sty s ++ render strip sty r

end NextestModel.Display
