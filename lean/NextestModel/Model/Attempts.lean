/-
  Mirrors the attempt loop of `ExecutorContext::run_test_instance` (nextest-runner/src/runner/executor.rs):
  the `Started` handshake, then for attempt = 1, 2, …: (for attempt > 1) the `RetryStarted` handshake — refused
  by the dispatcher once the run is being cancelled, in which case the unit returns without reporting a result —
  one spawn, `break` on success, otherwise `AttemptFailedWillRetry` with the next `BackoffIter` delay
  (`.expect("backoff delay must be non-empty")`) while `attempt < total_attempts`, otherwise `break`; after the loop
  one `Finished` with all statuses.

  The environment is a parameter: what each attempt's process does (`outcome k`), whether the dispatcher
  acknowledges the start (`ackStart`) and each retry (`ackRetry k`).  Time (the delay itself) is `Model/Unit`'s.
-/
import NextestModel.Model.Classify
namespace NextestModel.Attempts
open NextestModel.Dispatcher NextestModel.Classify

structure Env where
  outcome : Nat → Res
  ackStart : Bool
  ackRetry : Nat → Bool

/-- what the unit told the dispatcher / did, in order -/
inductive XEv where
  | started
  | retryStarted (attempt : Nat)
  | spawn (attempt : Nat)
  | willRetry (attempt : Nat) (r : Res) (delayNs : Nat)
  | finished (statuses : List Res)
  deriving DecidableEq, Repr

/-- the loop body from attempt `done + 1` on; `acc` = statuses so far, `ds` = what is left of the backoff iterator;
    `none` = the `expect` on the backoff iterator fails -/
def loop (total : Nat) (env : Env) : Nat → Nat → List Res → List Nat → Option (List XEv)
  | 0, _, _, _ => some []
  | fuel + 1, done, acc, ds =>
    let attempt := done + 1
    if attempt > 1 && !env.ackRetry attempt then some [.retryStarted attempt]
    else
      let pre : List XEv := if attempt > 1 then [.retryStarted attempt] else []
      let r := env.outcome attempt
      if r.isSuccess then some (pre ++ [.spawn attempt, .finished (acc ++ [r])])
      else if attempt < total then
        match ds with
        | [] => none
        | d :: ds' =>
          match loop total env fuel (done + 1) (acc ++ [r]) ds' with
          | some rest => some (pre ++ [.spawn attempt, .willRetry attempt r d] ++ rest)
          | none => none
      else some (pre ++ [.spawn attempt, .finished (acc ++ [r])])

/-- `run_test_instance` for a selected test under retry policy `p` -/
def runTestInstance (p : Policy) (env : Env) : Option (List XEv) :=
  if !env.ackStart then some [.started]
  else match loop (p.count + 1) env (p.count + 1) 0 [] (delays p) with
    | some evs => some (.started :: evs)
    | none => none

def spawns : List XEv → List Nat
  | [] => []
  | .spawn k :: es => k :: spawns es
  | _ :: es => spawns es

def finisheds : List XEv → List (List Res)
  | [] => []
  | .finished rs :: es => rs :: finisheds es
  | _ :: es => finisheds es

def announcedDelays : List XEv → List Nat
  | [] => []
  | .willRetry _ _ d :: es => d :: announcedDelays es
  | _ :: es => announcedDelays es

end NextestModel.Attempts
