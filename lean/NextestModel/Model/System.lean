/-
  The dispatcher together with the test units it talks to (nextest-runner/src/runner/dispatcher.rs `DispatcherContext::run`
  + executor.rs `run_test_instance`), as one transition system.

  * the dispatcher is `Model/Dispatcher` (`step`), unchanged;
  * a unit is reduced to the phases in which it talks to the dispatcher: it sends `Started` and waits for the reply; while an
    attempt runs it reads its mailbox; a failed attempt with attempts left sends `AttemptFailedWillRetry` and enters the retry
    delay, which a cancellation request or the timer ends; then `RetryStarted` and again a wait for the reply; a refused start
    or retry makes the unit return without a word (its request receiver is dropped); the last attempt sends `Finished`;
  * executor → dispatcher messages travel through one FIFO (`chan`: tokio's unbounded mpsc), dispatcher → unit requests
    through one FIFO per unit (`mail`); the reply to a `Started` / `RetryStarted` is a oneshot, delivered in the dispatcher's
    own step;
  * which test is dispatched next, how an attempt ends, when a timer fires and when a signal arrives are the environment:
    every order is a run of the system (`Act`).
-/
import NextestModel.Model.Dispatcher
namespace NextestModel.System
open NextestModel.Dispatcher

inductive UPhase where
  | notStarted
  /-- `Started` sent, waiting for the oneshot -/
  | waitStart
  /-- an attempt is in progress (process running, being terminated, or its handles being drained) -/
  | running
  /-- `handle_delay_between_attempts` -/
  | delay
  /-- `RetryStarted` sent, waiting for the oneshot -/
  | waitRetry
  /-- `Finished` sent -/
  | done
  /-- start or retry refused: returned without `Finished`, receiver dropped -/
  | gone
  deriving DecidableEq, Repr

structure Sys where
  d : DState
  phase : Nat → UPhase
  mail : Nat → List Req
  chan : List DEvent

def Sys.init (n : Nat) (mf : MaxFail) : Sys :=
  { d := DState.init n mf, phase := fun _ => .notStarted, mail := fun _ => [], chan := [] }

def setPhase (s : Sys) (i : Nat) (p : UPhase) : Sys := { s with phase := fun j => if j = i then p else s.phase j }
def setMail (s : Sys) (i : Nat) (m : List Req) : Sys := { s with mail := fun j => if j = i then m else s.mail j }
def send (s : Sys) (e : DEvent) : Sys := { s with chan := s.chan ++ [e] }

/-- the requests of one dispatcher step that are addressed to unit `i` -/
def deliveredTo (dl : List (Option Nat × Req)) (i : Nat) : List Req :=
  dl.filterMap (fun p => if p.1 = some i then some p.2 else none)

/-- a dispatcher step's effect on the units: requests are appended to the mailboxes -/
def applyOut (s : Sys) (d' : DState) (o : Out) : Sys :=
  { s with d := d', mail := fun i => s.mail i ++ deliveredTo o.delivered i }

/-- requests that end a retry delay -/
def isWake : Req → Bool
  | .otherCancel => true
  | .shutdown _ => true
  | _ => false

inductive Act where
  /-- the scheduler creates unit `i`'s future: `Started` is sent -/
  | dispatch (i : Nat)
  /-- the dispatcher handles the next executor event -/
  | deliver
  /-- unit `i`'s attempt ends and is its last one (success, or no attempts left): `Finished` -/
  | exitFinish (i : Nat) (r : Res) (slow : Bool)
  /-- unit `i`'s attempt fails with attempts left: `AttemptFailedWillRetry`, then the delay -/
  | exitRetry (i : Nat) (r : Res) (slow : Bool)
  /-- unit `i` takes the next request out of its mailbox -/
  | recv (i : Nat)
  /-- unit `i`'s retry delay runs out -/
  | delayExpires (i : Nat) (attempt total : Nat)
  /-- a signal, a reporter error, a key press reaches the dispatcher -/
  | external (e : DEvent)
  deriving Repr

def isExternal : DEvent → Bool
  | .shutdown _ | .stop | .continue | .info | .reportCancel | .inputEnter => true
  | _ => false

/-- one transition; `none`: the action is not enabled (or the dispatcher panics — shown unreachable) -/
def step (s : Sys) : Act → Option Sys
  | .dispatch i =>
    if s.phase i = .notStarted then some (send (setPhase s i .waitStart) (.started i)) else none
  | .deliver =>
    match s.chan with
    | [] => none
    | e :: rest =>
      match Dispatcher.step s.d e with
      | .error _ => none
      | .ok (d', o) =>
        let s1 := applyOut { s with chan := rest } d' o
        match e with
        | .started i =>
          if o.reply = .ack then some (setPhase s1 i .running)
          else some (setPhase { s1 with d := { s1.d with rxOpen := s1.d.rxOpen.filter (· != i) } } i .gone)
        | .retryStarted i _ _ =>
          if o.reply = .ack then some (setPhase s1 i .running)
          else some (setPhase { s1 with d := { s1.d with rxOpen := s1.d.rxOpen.filter (· != i) } } i .gone)
        | _ => some s1
  | .exitFinish i r slow =>
    if s.phase i = .running then some (send (setPhase s i .done) (.finished i r slow)) else none
  | .exitRetry i r slow =>
    if s.phase i = .running then some (send (setPhase s i .delay) (.attemptFailedWillRetry i r slow)) else none
  | .recv i =>
    match s.mail i with
    | [] => none
    | r :: rest =>
      match s.phase i with
      | .running => some (setMail s i rest)       -- acted on inside the attempt (Model/Unit); no message to the dispatcher
      | .delay =>
        if isWake r then some (send (setPhase (setMail s i rest) i .waitRetry) (.retryStarted i 0 0))
        else some (setMail s i rest)
      | .done => some (setMail s i rest)          -- `drain_req_rx`
      | _ => none
  | .delayExpires i a t =>
    if s.phase i = .delay then some (send (setPhase s i .waitRetry) (.retryStarted i a t)) else none
  | .external e =>
    if isExternal e then
      match Dispatcher.step s.d e with
      | .error _ => none
      | .ok (d', o) => some (applyOut s d' o)
    else none

/-- a run: every action enabled in turn -/
def runActs (s : Sys) : List Act → Option Sys
  | [] => some s
  | a :: as => match step s a with
    | none => none
    | some s' => runActs s' as

/-! ### with the retry policy made explicit -/

/-- the system with the retry policy made explicit: `left i` is the number of attempts unit `i` may still fail into a retry
    (`run_test_instance`'s loop over the backoff iterator: `retries` at the start, one less after each failed attempt that is
    retried).  Every run of `bstep` is a run of `step`. -/
structure BSys where
  s : Sys
  left : Nat → Nat

def bstep (b : BSys) (a : Act) : Option BSys :=
  match a with
  | .exitRetry i r sl =>
    if 0 < b.left i then (step b.s (.exitRetry i r sl)).map (fun s' => ⟨s', fun j => if j = i then b.left i - 1 else b.left j⟩) else none
  | a => (step b.s a).map (fun s' => ⟨s', b.left⟩)

def brunActs (b : BSys) : List Act → Option BSys
  | [] => some b
  | a :: as => match bstep b a with
    | none => none
    | some b' => brunActs b' as

end NextestModel.System
