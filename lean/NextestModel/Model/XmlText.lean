/-
  The text nextest hands to the JUnit serializer (junit.rs `xml_string`, quick-junit `XmlString::new`).

  `XmlString::new` first runs `strip_ansi_escapes::strip_str` (third-party; a parameter here, of which only "removes characters,
  adds none" is assumed), then removes the C0 controls of `Gen.xmlStringStripped`.  `xml_string` converts with `XmlString::new`,
  and when one of `Gen.junitNoncharsTested` is left, removes `Gen.junitNoncharsRemoved` and converts again.
  Both tables are regenerated from the sources (junit.rs, and the quick-junit release Cargo.lock pins) on every run.
-/
import NextestModel.Gen.Tables
namespace NextestModel.XmlText

def inRanges (rs : List (Nat × Nat)) (n : Nat) : Bool := rs.any (fun r => r.1 ≤ n && n ≤ r.2)

/-- `XmlString::new` -/
def xmlStringNew (ansi : List Char → List Char) (s : List Char) : List Char :=
  (ansi s).filter (fun c => !inRanges Gen.xmlStringStripped c.toNat)

/-- junit.rs `xml_string` -/
def xmlString (ansi : List Char → List Char) (s : List Char) : List Char :=
  let data := xmlStringNew ansi s
  if data.any (fun c => Gen.junitNoncharsTested.contains c.toNat) then
    xmlStringNew ansi (data.filter (fun c => !Gen.junitNoncharsRemoved.contains c.toNat))
  else data

/-- what was captured of an attempt (`ChildExecutionOutput`) -/
inductive OutKind where
  /-- `Split` with both streams -/
  | split
  | splitStdoutOnly | splitStderrOnly | splitNeither
  | combined
  /-- the process could not be started -/
  | startError
  deriving DecidableEq, Repr

/-- junit.rs `set_execute_status_props`, the stored texts before `xml_string`: (system-out, system-err) for captured
    standard output `o`, standard error `e`, or combined output `o` -/
def storedStreams (k : OutKind) (o e : List Char) : List Char × List Char :=
  match k with
  | .split => (o, e)
  | .splitStdoutOnly => (o, Gen.junitStderrNotCaptured.toList)
  | .splitStderrOnly => (Gen.junitStdoutNotCaptured.toList, e)
  | .splitNeither => (Gen.junitStdoutNotCaptured.toList, Gen.junitStderrNotCaptured.toList)
  | .combined => (o, Gen.junitStdoutStderrCombined.toList)
  | .startError => (Gen.junitProcessFailedToStart.toList, Gen.junitProcessFailedToStart.toList)

/-- XML 1.0 §2.2 `Char` -/
def XmlChar (c : Char) : Prop :=
  c.toNat = 0x9 ∨ c.toNat = 0xA ∨ c.toNat = 0xD ∨ (0x20 ≤ c.toNat ∧ c.toNat ≤ 0xD7FF) ∨ (0xE000 ≤ c.toNat ∧ c.toNat ≤ 0xFFFD) ∨
    (0x10000 ≤ c.toNat ∧ c.toNat ≤ 0x10FFFF)

instance (c : Char) : Decidable (XmlChar c) := by unfold XmlChar; exact inferInstance

end NextestModel.XmlText
