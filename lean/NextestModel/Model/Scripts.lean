/-
  Mirrors nextest-runner/src/config/scripts.rs `SetupScripts::new_with_queries` (which scripts are
  enabled, in which order), `CompiledProfileScripts::is_enabled` (its platform / filter truth is an
  input here), `SetupScriptExecuteData::apply` (which variables reach which test) and
  runner/script_helpers.rs `parse_env_file`.
-/
namespace NextestModel.Scripts

/-- one `[[profile.<p>.scripts]]` rule: the scripts it lists and, for each test, whether its
    platform and filter conditions accept the test (C05/C06 territory: an input here) -/
structure Rule where
  setup : List String
  applies : List Bool
  deriving Repr

def Rule.on (r : Rule) (t : Nat) : Bool := r.applies.getD t false

/-- `SetupScript::is_enabled` for test `t`: some rule listing the script accepts the test -/
def enabledFor (rules : List Rule) (s : String) (t : Nat) : Bool :=
  rules.any (fun r => r.setup.contains s && r.on t)

/-- `new_with_queries`: the enabled scripts, in the order in which they are defined (`script_config`
    is an `IndexMap` in definition order) -/
def enabled (defs : List String) (rules : List Rule) (selected : List Nat) : List String :=
  defs.filter (fun s => selected.any (fun t => enabledFor rules s t))

/-- `parse_env_file`: every line must be `KEY=VALUE` (split at the first `=`) with a key not starting
    with `NEXTEST`; otherwise the whole file is an error.  Later lines overwrite earlier ones. -/
def splitEq (line : List Char) : Option (List Char × List Char) :=
  match line.span (· != '=') with
  | (_, []) => none
  | (k, _ :: v) => some (k, v)

/-- `key.starts_with("NEXTEST")` -/
def reserved (k : List Char) : Bool := "NEXTEST".toList.isPrefixOf k

def parseEnvFile : List (List Char) → Option (List (List Char × List Char))
  | [] => some []
  | line :: rest =>
    match splitEq line with
    | none => none
    | some (k, v) =>
      if reserved k then none
      else match parseEnvFile rest with
        | none => none
        | some m => some ((k, v) :: m)

/-- the value a map built by successive `insert`s gives a key: the last line wins -/
def mapGet (m : List (List Char × List Char)) (k : List Char) : Option (List Char) :=
  match m.reverse.find? (·.1 == k) with
  | some e => some e.2
  | none => none

/-- `SetupScriptExecuteData::apply`: `executed` = scripts that ran successfully and whose env file
    parsed, in execution order, with their maps; later scripts win on clashes -/
def envFor (rules : List Rule) (executed : List (String × List (List Char × List Char))) (t : Nat) (k : List Char) : Option (List Char) :=
  let hits := executed.filterMap (fun (s, m) => if enabledFor rules s t then mapGet m k else none)
  hits.getLast?

end NextestModel.Scripts

/-! ## `run_setup_scripts` (runner/executor.rs): the loop that runs the enabled scripts, one by one, before the test stream is built -/
namespace NextestModel.Scripts

/-- the environment of the loop: does the dispatcher acknowledge script `i`'s start, and what does the script produce
    (`true` = success with a well-formed env file, i.e. `status.env_map.is_some()`) -/
structure LoopEnv where
  ack : Nat → Bool
  ok : Nat → Bool

inductive SEv where
  | started (i : Nat)      -- SetupScriptStarted sent (handshake)
  | spawn (i : Nat)        -- the script's process runs
  | finished (i : Nat)     -- SetupScriptFinished sent
  deriving DecidableEq, Repr

/-- scripts `i, i+1, …, i+n-1`: events, and the indices whose variables are recorded (`setup_script_data.add_script`) -/
def runFrom (env : LoopEnv) : Nat → Nat → List SEv × List Nat
  | _, 0 => ([], [])
  | i, n + 1 =>
    let (evs, data) := runFrom env (i + 1) n
    if env.ack i then
      ([.started i, .spawn i, .finished i] ++ evs, if env.ok i then i :: data else data)
    else
      -- the start was refused (the run is being cancelled): nothing is spawned; the loop goes on to the next script,
      -- whose start is refused too
      (.started i :: evs, data)

/-- `run_setup_scripts` over `total` enabled scripts (definition order) -/
def runScripts (env : LoopEnv) (total : Nat) : List SEv × List Nat := runFrom env 0 total

def scriptSpawns : List SEv → List Nat
  | [] => []
  | .spawn i :: es => i :: scriptSpawns es
  | _ :: es => scriptSpawns es

end NextestModel.Scripts
