/-
  Independent implementation of xxHash64 (the XXH64 specification, rev. 0.1.1) over `UInt64`.
  Mirrors: `xxhash_rust::xxh64::xxh64(bytes, seed)` as used by `HashPartitioner::test_matches`
  (nextest-runner/src/partition.rs).  No imports: links into the driver executable.
-/
namespace NextestModel.XXH64

def P1 : UInt64 := 11400714785074694791
def P2 : UInt64 := 14029467366897019727
def P3 : UInt64 := 1609587929392839161
def P4 : UInt64 := 9650029242287828579
def P5 : UInt64 := 2870177450012600261

@[inline] def rotl (x : UInt64) (r : UInt64) : UInt64 := (x <<< r) ||| (x >>> (64 - r))

def round (acc input : UInt64) : UInt64 := rotl (acc + input * P2) 31 * P1

def mergeRound (acc v : UInt64) : UInt64 := (acc ^^^ round 0 v) * P1 + P4

/-- little-endian read of up to 8 bytes -/
def readLE : List UInt8 → UInt64
  | [] => 0
  | b :: bs => b.toUInt64 ||| (readLE bs <<< 8)

structure Acc where
  v1 : UInt64
  v2 : UInt64
  v3 : UInt64
  v4 : UInt64

/-- Consume 32-byte stripes; returns the accumulators and the unconsumed tail (< 32 bytes).
    Structural on a fuel equal to the list length (each stripe strictly shortens the list). -/
def stripes : Nat → Acc → List UInt8 → Acc × List UInt8
  | 0, a, bs => (a, bs)
  | fuel + 1, a, bs =>
    if bs.length < 32 then (a, bs)
    else
      let a' : Acc :=
        { v1 := round a.v1 (readLE (bs.take 8))
          v2 := round a.v2 (readLE ((bs.drop 8).take 8))
          v3 := round a.v3 (readLE ((bs.drop 16).take 8))
          v4 := round a.v4 (readLE ((bs.drop 24).take 8)) }
      stripes fuel a' (bs.drop 32)

/-- Consume 8-byte words of the tail. -/
def tail8 : Nat → UInt64 → List UInt8 → UInt64 × List UInt8
  | 0, h, bs => (h, bs)
  | fuel + 1, h, bs =>
    if bs.length < 8 then (h, bs)
    else
      let k1 := round 0 (readLE (bs.take 8))
      tail8 fuel (rotl (h ^^^ k1) 27 * P1 + P4) (bs.drop 8)

def tail4 (h : UInt64) (bs : List UInt8) : UInt64 × List UInt8 :=
  if bs.length < 4 then (h, bs)
  else (rotl (h ^^^ (readLE (bs.take 4) * P1)) 23 * P2 + P3, bs.drop 4)

def tail1 : UInt64 → List UInt8 → UInt64
  | h, [] => h
  | h, b :: bs => tail1 (rotl (h ^^^ (b.toUInt64 * P5)) 11 * P1) bs

def avalanche (h0 : UInt64) : UInt64 :=
  let h1 := (h0 ^^^ (h0 >>> 33)) * P2
  let h2 := (h1 ^^^ (h1 >>> 29)) * P3
  h2 ^^^ (h2 >>> 32)

def xxh64 (data : List UInt8) (seed : UInt64) : UInt64 :=
  let len := data.length
  let (h, rest) :=
    if len ≥ 32 then
      let (a, rest) := stripes len
        { v1 := seed + P1 + P2, v2 := seed + P2, v3 := seed, v4 := seed - P1 } data
      let h := rotl a.v1 1 + rotl a.v2 7 + rotl a.v3 12 + rotl a.v4 18
      let h := mergeRound h a.v1
      let h := mergeRound h a.v2
      let h := mergeRound h a.v3
      let h := mergeRound h a.v4
      (h, rest)
    else (seed + P5, data)
  let h := h + UInt64.ofNat len
  let (h, rest) := tail8 rest.length h rest
  let (h, rest) := tail4 h rest
  avalanche (tail1 h rest)

end NextestModel.XXH64
