/-
  Mirrors nextest-runner/src/list/test_list.rs `TestPriorityQueue::new` (+ `TestList::iter_tests`):
  tests in (binary id, test name) order — the `BTreeMap` orders — stably sorted by `TestPriority`,
  whose `Ord` is reversed (higher priority first; config/priority.rs).

  The order of binary ids is NOT the order of their strings: nextest-metadata's `impl Ord for RustBinaryId` compares
  `RustBinaryIdComponents` — the package name first, then `None < NameOnly { binary_name } < NameAndKind { kind, binary_name }`
  (derived `Ord`) — so `foo::integ` sorts before `foo-bar` although `'-' < ':'`.
-/
namespace NextestModel.Priority

structure PTest where
  binary : List UInt8
  name : List UInt8
  /-- resolved `priority` setting (C06), shifted by +100 to a natural number -/
  priority : Nat
  deriving DecidableEq, Repr

/-- Rust `splitn(2, sep)`: the text before the first occurrence of `sep`, and the text after it if there is one -/
def splitOnce (sep : List UInt8) : List UInt8 → List UInt8 × Option (List UInt8)
  | [] => ([], none)
  | c :: cs =>
    if sep.isPrefixOf (c :: cs) then ([], some ((c :: cs).drop sep.length))
    else let r := splitOnce sep cs; (c :: r.1, r.2)

/-- `RustBinaryIdComponents::new` as a comparison key: byte strings compared lexicographically, left to right;
    the second entry is the variant tag of `RustBinaryIdNameAndKind` -/
def binKey (id : List UInt8) : List (List UInt8) :=
  match splitOnce [58, 58] id with
  | (pkg, none) => [pkg, [0]]
  | (pkg, some suffix) =>
    match splitOnce [47] suffix with
    | (name, none) => [pkg, [1], name]
    | (kind, some name) => [pkg, [2], kind, name]

/-- `RustBinaryId::cmp` -/
def binLe (a b : List UInt8) : Bool := decide (binKey a ≤ binKey b)

/-- `str::cmp` on test names (the inner `BTreeMap<String, _>`) -/
def nameLe (a b : List UInt8) : Bool := decide (a ≤ b)

/-- `TestList::iter_tests`: binaries in `RustBinaryId` order, each binary's tests in name order -/
def iterOrder (bins : List (List UInt8 × List (List UInt8))) (prioOf : List UInt8 → List UInt8 → Nat) : List PTest :=
  (bins.mergeSort (fun a b => binLe a.1 b.1)).flatMap fun bn =>
    (bn.2.mergeSort nameLe).map fun n => { binary := bn.1, name := n, priority := prioOf bn.1 n }

/-- `a` is dispatched no later than `b` by priority alone: higher priority first -/
def prioLe (a b : PTest) : Bool := decide (b.priority ≤ a.priority)

/-- `tests.sort_by_key(|t| t.settings.priority())` — a stable sort -/
def queue (testsInIterOrder : List PTest) : List PTest := testsInIterOrder.mergeSort prioLe

/-- `TestThreads::from_str` / its `Deserialize` (config/test_threads.rs) followed by `compute`: a positive count is itself, a
    negative one is relative to the number of CPUs but never below 1, zero is rejected -/
def threadCount (ncpu : Nat) (v : Int) : Option Nat :=
  if v = 0 then none
  else if v > 0 then some v.toNat
  else some (max ((ncpu : Int) + v) 1).toNat

/-- `threads-required` (config/threads_required.rs) -/
inductive ThreadsRequired where
  | count (n : Nat)
  | numCpus
  | numTestThreads
  deriving DecidableEq, Repr

/-- `ThreadsRequired::compute(test_threads)` -/
def ThreadsRequired.compute (tr : ThreadsRequired) (ncpu testThreads : Nat) : Nat :=
  match tr with
  | .count n => n
  | .numCpus => ncpu
  | .numTestThreads => testThreads

/-- `TestRunnerBuilder::build` (runner/imp.rs): without capture tests run one at a time; otherwise the command line's
    `--test-threads` / `NEXTEST_TEST_THREADS`, otherwise the profile's -/
def runTestThreads (noCapture : Bool) (cli : Option Nat) (profile : Nat) : Nat :=
  if noCapture then 1 else cli.getD profile

/-- the weight a test is queued with (`run_test` closure in imp.rs): its threads-required against the run's thread count -/
def testWeight (tr : ThreadsRequired) (ncpu : Nat) (noCapture : Bool) (cli : Option Nat) (profile : Nat) : Nat :=
  tr.compute ncpu (runTestThreads noCapture cli profile)

end NextestModel.Priority
