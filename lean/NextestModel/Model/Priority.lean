/-
  Mirrors nextest-runner/src/list/test_list.rs `TestPriorityQueue::new` (+ `TestList::iter_tests`):
  tests in (binary id, test name) order — the `BTreeMap` orders — stably sorted by `TestPriority`,
  whose `Ord` is reversed (higher priority first; config/priority.rs).
-/
namespace NextestModel.Priority

structure PTest where
  binary : List UInt8
  name : List UInt8
  /-- resolved `priority` setting (C06), shifted by +100 to a natural number -/
  priority : Nat
  deriving DecidableEq, Repr

/-- `a` is dispatched no later than `b` by priority alone: higher priority first -/
def prioLe (a b : PTest) : Bool := decide (b.priority ≤ a.priority)

/-- `tests.sort_by_key(|t| t.settings.priority())` — a stable sort -/
def queue (testsInIterOrder : List PTest) : List PTest := testsInIterOrder.mergeSort prioLe

end NextestModel.Priority
