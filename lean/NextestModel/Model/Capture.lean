/-
  Mirrors nextest-runner/src/test_command/imp.rs `ChildFds::fill_buf` / `FusedBufReader::fill_buf`
  and the loops that poll it (executor.rs): each read moves a non-empty chunk from the pipe to the
  per-attempt accumulator; at EOF the reader is fused.  A pipe is a FIFO of bytes with a
  writer-closed flag.  tokio / epoll / the kernel pipe are not modelled: that every byte written
  before the last writer closed is readable before EOF is an assumption (POSIX pipe semantics).
-/
namespace NextestModel.Capture

structure Pipe where
  /-- bytes written and not yet read -/
  buffered : List UInt8
  /-- every writer (the test and its descendants) has closed its end -/
  closed : Bool

structure Reader where
  acc : List UInt8
  /-- `FusedBufReader.done` -/
  done : Bool

inductive Step where
  /-- the test writes a chunk -/
  | write (chunk : List UInt8)
  /-- the last writer closes -/
  | close
  /-- `fill_buf` is polled and takes up to `n` bytes (n ≥ 1) -/
  | read (n : Nat)
  /-- `ChildAccumulator::snapshot_in_progress` / `ChildOutputMut::snapshot`: an information request is answered with a copy
      of what has been captured so far -/
  | snapshot

def step (s : Pipe × Reader × List UInt8) : Step → Pipe × Reader × List UInt8
  | .write chunk =>
    let (p, r, w) := s
    if p.closed then s else ({ p with buffered := p.buffered ++ chunk }, r, w ++ chunk)
  | .close => let (p, r, w) := s; ({ p with closed := true }, r, w)
  | .read n =>
    let (p, r, w) := s
    if r.done then s
    else if p.buffered.isEmpty then (p, { r with done := p.closed }, w)
    else ({ p with buffered := p.buffered.drop (max n 1) }, { r with acc := r.acc ++ p.buffered.take (max n 1) }, w)
  | .snapshot => s

/-- what a snapshot taken in state `s` shows: the bytes captured so far -/
def snapshotOf (s : Pipe × Reader × List UInt8) : List UInt8 := s.2.1.acc

def init : Pipe × Reader × List UInt8 := ({ buffered := [], closed := false }, { acc := [], done := false }, [])

end NextestModel.Capture
