/-
  Mirrors the crate `shell-words` 1.1.0 (`split`, `quote`, `join`, `escape_style`), which nextest uses for the
  double-spawn launcher: `create_command` (nextest-runner/src/test_command.rs) passes
  `shell_words::join(args)` as ONE argument to `cargo-nextest nextest __double-spawn`, and
  `DoubleSpawnOpts::exec` (cargo-nextest/src/double_spawn.rs) recovers the argument vector with
  `shell_words::split` before `exec`.  The double-spawn is transparent iff `split (join ws) = Ok ws`.

  Strings are `List Char` (both functions iterate over `chars()`).  No Mathlib.
-/
namespace NextestModel.Shell

/-- `State` of `split` -/
inductive St
  | delim | backslash | unquoted | unquotedBackslash | single | double | doubleBackslash | comment
  deriving DecidableEq, Repr

/-- the body of `split`'s loop: state, remaining input, current word, finished words.  `none` = `Err(ParseError)` -/
def splitGo : St → List Char → List Char → List (List Char) → Option (List (List Char))
  | .delim, [], _, ws => some ws
  | .delim, c :: cs, w, ws =>
      if c = '\'' then splitGo .single cs w ws
      else if c = '"' then splitGo .double cs w ws
      else if c = '\\' then splitGo .backslash cs w ws
      else if c = '\t' ∨ c = ' ' ∨ c = '\n' then splitGo .delim cs w ws
      else if c = '#' then splitGo .comment cs w ws
      else splitGo .unquoted cs (w ++ [c]) ws
  | .backslash, [], w, ws => some (ws ++ [w ++ ['\\']])
  | .backslash, c :: cs, w, ws =>
      if c = '\n' then splitGo .delim cs w ws else splitGo .unquoted cs (w ++ [c]) ws
  | .unquoted, [], w, ws => some (ws ++ [w])
  | .unquoted, c :: cs, w, ws =>
      if c = '\'' then splitGo .single cs w ws
      else if c = '"' then splitGo .double cs w ws
      else if c = '\\' then splitGo .unquotedBackslash cs w ws
      else if c = '\t' ∨ c = ' ' ∨ c = '\n' then splitGo .delim cs [] (ws ++ [w])
      else splitGo .unquoted cs (w ++ [c]) ws
  | .unquotedBackslash, [], w, ws => some (ws ++ [w ++ ['\\']])
  | .unquotedBackslash, c :: cs, w, ws =>
      if c = '\n' then splitGo .unquoted cs w ws else splitGo .unquoted cs (w ++ [c]) ws
  | .single, [], _, _ => none
  | .single, c :: cs, w, ws =>
      if c = '\'' then splitGo .unquoted cs w ws else splitGo .single cs (w ++ [c]) ws
  | .double, [], _, _ => none
  | .double, c :: cs, w, ws =>
      if c = '"' then splitGo .unquoted cs w ws
      else if c = '\\' then splitGo .doubleBackslash cs w ws
      else splitGo .double cs (w ++ [c]) ws
  | .doubleBackslash, [], _, _ => none
  | .doubleBackslash, c :: cs, w, ws =>
      if c = '\n' then splitGo .double cs w ws
      else if c = '$' ∨ c = '`' ∨ c = '"' ∨ c = '\\' then splitGo .double cs (w ++ [c]) ws
      else splitGo .double cs (w ++ ['\\', c]) ws
  | .comment, [], _, ws => some ws
  | .comment, c :: cs, w, ws =>
      if c = '\n' then splitGo .delim cs w ws else splitGo .comment cs w ws

/-- `shell_words::split`.  (After a `\`-newline in `Backslash` state the Rust code keeps `word`, which is
    empty there, so starting the next word from the kept `w` is the same thing.) -/
def split (s : List Char) : Option (List (List Char)) := splitGo .delim s [] []

/-- the characters `escape_style` treats as special (note `˜` U+02DC, not ASCII `~`: as in the crate) -/
def isSpecial (c : Char) : Bool :=
  c = '\n' ∨ c = '\'' ∨ c = '|' ∨ c = '&' ∨ c = ';' ∨ c = '<' ∨ c = '>' ∨ c = '(' ∨ c = ')' ∨ c = '$' ∨ c = '`'
  ∨ c = '\\' ∨ c = '"' ∨ c = ' ' ∨ c = '\t' ∨ c = '*' ∨ c = '?' ∨ c = '[' ∨ c = '#' ∨ c = '˜' ∨ c = '=' ∨ c = '%'

inductive Style | none | singleQuoted | mixed
  deriving DecidableEq, Repr

/-- `escape_style` -/
def escapeStyle (s : List Char) : Style :=
  if s.isEmpty then .singleQuoted
  else if !(s.any isSpecial) then .none
  else if s.any (· = '\n') && !(s.any (· = '\'')) then .singleQuoted
  else .mixed

/-- the loop of `quote`'s `Mixed` arm -/
def escMixed : List Char → List Char
  | [] => []
  | c :: cs => (if c = '\'' then ['\'', '\\', '\'', '\''] else [c]) ++ escMixed cs

/-- `shell_words::quote` -/
def quote (s : List Char) : List Char :=
  match escapeStyle s with
  | .none => s
  | .singleQuoted => '\'' :: (s ++ ['\''])
  | .mixed => '\'' :: (escMixed s ++ ['\''])

/-- `shell_words::join`: fold (`quote`, then a blank), then `pop` the last blank -/
def join (ws : List (List Char)) : List Char :=
  (ws.foldl (fun line w => line ++ quote w ++ [' ']) []).dropLast

end NextestModel.Shell
