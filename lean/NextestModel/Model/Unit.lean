/-
  The wait loops of one unit (a test attempt or a setup script), as read from
  nextest-runner/src/runner/executor.rs (`run_test_inner` / `run_setup_script_inner`,
  `handle_signal_request`, `handle_delay_between_attempts`, `detect_fd_leaks`) and
  nextest-runner/src/runner/unix.rs (`terminate_child`, `timeout_terminate_method`,
  `shutdown_terminate_method`, `job_control_child`), with the pausable timers of
  nextest-runner/src/time (`PausableSleep`, `StopwatchStart`: pausing a paused timer and resuming a
  running one are panics there and `Act.panic` here).

  Time is abstract (milliseconds as `Nat`); `advance` lets time pass up to the next timer expiry and
  fires that timer.  Timers count only while not paused.  What the process does (exits, ignores a
  signal, …) is the environment: `childExit` / `fdsDone` events.
-/
namespace NextestModel.Unit

inductive Sig where
  | int | term | hup | quit | kill | tstp | cont
  deriving DecidableEq, Repr

/-- `ShutdownEvent` -/
inductive Shut where
  | interrupt | term | hangup | quit
  deriving DecidableEq, Repr

/-- `ShutdownRequest` -/
inductive ShutReq where
  | once (e : Shut)
  | twice
  deriving DecidableEq, Repr

/-- `RunUnitRequest` -/
inductive Req where
  | stop | cont
  | shutdown (r : ShutReq)
  | otherCancel
  | getInfo
  deriving DecidableEq, Repr

/-- `PausableSleep` -/
structure Timer where
  remaining : Nat
  paused : Bool := false
  deriving DecidableEq, Repr

/-- `StopwatchStart` -/
structure Watch where
  active : Nat := 0
  paused : Bool := false
  deriving DecidableEq, Repr

inductive Why where
  | timeout
  | signal
  deriving DecidableEq, Repr

inductive Phase where
  /-- the main loop of `run_test_inner` -/
  | running
  /-- inside `terminate_child`, called from the main loop -/
  | terminating (why : Why)
  /-- `detect_fd_leaks` -/
  | draining
  /-- `handle_delay_between_attempts` -/
  | delay
  /-- the attempt has a result / the delay loop has been left -/
  | done
  deriving DecidableEq, Repr

inductive InfoState where
  | running | terminating | exiting | delayBeforeNextAttempt
  deriving DecidableEq, Repr

inductive Act where
  /-- `kill(-pgid, s)` -/
  | kill (s : Sig)
  /-- the Slow event: elapsed (hits × period), will_terminate -/
  | slow (elapsed : Nat) (willTerminate : Bool)
  /-- the Stop request's oneshot is answered -/
  | ack
  | info (s : InfoState)
  /-- an illegal timer transition -/
  | panic
  deriving DecidableEq, Repr

structure Cfg where
  period : Nat
  terminateAfter : Option Nat
  grace : Nat
  leak : Nat
  deriving Repr

structure U where
  phase : Phase
  /-- the attempt's stopwatch (`time_taken`) -/
  sw : Watch := {}
  /-- the slow-timeout interval sleep -/
  is : Timer
  /-- the grace-period sleep of `terminate_child` -/
  gs : Timer := { remaining := 0 }
  /-- the waiting stopwatch of `terminate_child` / of the delay loop -/
  ws : Watch := {}
  /-- the retry-delay sleep -/
  ds : Timer := { remaining := 0 }
  /-- the leak-timeout sleep (pausable; restarted whenever the loop of `detect_fd_leaks` comes round) -/
  ls : Nat := 0
  lsPaused : Bool := false
  hits : Nat := 0
  /-- `cx.slow_after.is_some()` -/
  slow : Bool := false
  /-- `status == Some(Timeout)` -/
  timedOut : Bool := false
  /-- leaked handles were detected -/
  leaked : Bool := false
  deriving Repr

/-- a freshly spawned attempt -/
def U.spawn (c : Cfg) : U := { phase := .running, is := { remaining := c.period } }

/-- entering the delay between attempts -/
def U.enterDelay (d : Nat) : U := { phase := .delay, is := { remaining := 0 }, ds := { remaining := d } }

/-! ## Signals -/

/-- `timeout_terminate_method` -/
def timeoutSignal (grace : Nat) : Sig := if grace = 0 then .kill else .term

def shutSig : Shut → Sig
  | .interrupt => .int | .term => .term | .hangup => .hup | .quit => .quit

/-- `shutdown_terminate_method` -/
def shutdownSignal (r : ShutReq) (grace : Nat) : Sig :=
  if grace = 0 then .kill else
  match r with
  | .once e => shutSig e
  | .twice => .kill

/-! ## Timers -/

def Timer.tick (t : Timer) (d : Nat) : Timer := if t.paused then t else { t with remaining := t.remaining - d }
def Watch.tick (w : Watch) (d : Nat) : Watch := if w.paused then w else { w with active := w.active + d }

/-- time until the timer fires: `none` while paused -/
def Timer.due (t : Timer) : Option Nat := if t.paused then none else some t.remaining

/-! ## `terminate_child` entry -/

/-- the part of `terminate_child` before its loop: send the signal; SIGKILL ends it at once -/
def beginTerminate (c : Cfg) (u : U) (why : Why) (sig : Sig) : U × List Act :=
  if sig = .kill then (u, [.kill .kill])
  else ({ u with phase := .terminating why, gs := { remaining := c.grace }, ws := {} }, [.kill sig])

/-! ## One request -/

def onReq (c : Cfg) (u : U) (r : Req) : U × List Act :=
  match u.phase with
  | .running =>
    (match r with
     | .stop =>
       -- pause the stopwatch and the interval sleep (each unless already paused); SIGTSTP; ack
       ({ u with sw := { u.sw with paused := true }, is := { u.is with paused := true } }, [.kill .tstp, .ack])
     | .cont =>
       -- debounced on the stopwatch; the interval sleep is resumed if it is paused
       if u.sw.paused then
         ({ u with sw := { u.sw with paused := false }, is := { u.is with paused := false } }, [.kill .cont])
       else (u, [])
     | .shutdown sr => beginTerminate c u .signal (shutdownSignal sr c.grace)
     | .otherCancel => (u, [])
     | .getInfo => (u, [.info .running]))
  | .terminating _ =>
    (match r with
     | .stop =>
       if u.sw.paused || u.gs.paused || u.ws.paused then (u, [.panic])
       else ({ u with sw := { u.sw with paused := true }, gs := { u.gs with paused := true }, ws := { u.ws with paused := true } }, [.kill .tstp, .ack])
     | .cont =>
       -- resume exactly the timers that are paused; SIGCONT unconditionally
       ({ u with sw := { u.sw with paused := false }, gs := { u.gs with paused := false }, ws := { u.ws with paused := false } }, [.kill .cont])
     | .shutdown _ => ({ u with phase := .running }, [.kill .kill])
     | .otherCancel => (u, [])
     | .getInfo => (u, [.info .terminating]))
  | .draining =>
    (match r with
     | .getInfo => (u, [.info .exiting])
     | .stop =>
       -- the process is gone: nothing to stop, but the stopwatch and the leak timer must not count stopped time
       -- (each is paused unless it already is); the Stop is acknowledged
       ({ u with sw := { u.sw with paused := true }, lsPaused := true }, [.ack])
     | .cont =>
       -- each is resumed if it is paused
       ({ u with sw := { u.sw with paused := false }, lsPaused := false }, [])
     | _ => (u, []))      -- shutdown signals and cancellation are moot
  | .delay =>
    (match r with
     | .stop =>
       if u.ds.paused || u.ws.paused then (u, [.panic])
       else ({ u with ds := { u.ds with paused := true }, ws := { u.ws with paused := true } }, [.ack])
     | .cont =>
       if u.ds.paused then
         (if !u.ws.paused then (u, [.panic])
          else ({ u with ds := { u.ds with paused := false }, ws := { u.ws with paused := false } }, []))
       else (u, [])
     | .shutdown _ => ({ u with phase := .done }, [])
     | .otherCancel => ({ u with phase := .done }, [])
     | .getInfo => (u, [.info .delayBeforeNextAttempt]))
  | .done => (u, [])

/-! ## Time -/

/-- time to the next timer expiry in the current phase (`none`: no timer is armed and running) -/
def nextDue (u : U) : Option Nat :=
  match u.phase with
  | .running => if u.timedOut then none else u.is.due
  | .terminating _ => u.gs.due
  | .draining => if u.lsPaused then none else some u.ls
  | .delay => u.ds.due
  | .done => none

/-- let `d` ms pass (not beyond the next expiry) -/
def elapse (u : U) (d : Nat) : U :=
  match u.phase with
  | .running => { u with sw := u.sw.tick d, is := if u.timedOut then u.is else u.is.tick d }
  | .terminating _ => { u with sw := u.sw.tick d, gs := u.gs.tick d, ws := u.ws.tick d, is := if u.timedOut then u.is else u.is.tick d }
  | .draining => { u with sw := u.sw.tick d, ls := if u.lsPaused then u.ls else u.ls - d }
  | .delay => { u with ds := u.ds.tick d, ws := u.ws.tick d }
  | .done => u

/-- the timer of the current phase fires -/
def fire (c : Cfg) (u : U) : U × List Act :=
  match u.phase with
  | .running =>
    -- the interval sleep: mark slow, count, maybe terminate
    let hits := u.hits + 1
    let term := match c.terminateAfter with | some k => decide (k ≤ hits) | none => false
    let ev : List Act := if c.grace = 0 then [] else [.slow (hits * c.period) term]
    let u1 := { u with slow := true, hits := hits }
    if term then
      let (u2, a) := beginTerminate c { u1 with timedOut := true } .timeout (timeoutSignal c.grace)
      (u2, ev ++ a)
    else ({ u1 with is := { u1.is with remaining := c.period } }, ev)
  | .terminating _ => ({ u with phase := .running }, [.kill .kill])
  | .draining => ({ u with phase := .done, leaked := true }, [])
  | .delay => ({ u with phase := .done }, [])
  | .done => (u, [])

/-- `dt` ms pass: up to the next expiry, which then fires -/
def advance (c : Cfg) (u : U) (dt : Nat) : U × List Act :=
  match nextDue u with
  | none => (elapse u dt, [])
  | some n => if dt < n then (elapse u dt, []) else fire c (elapse u n)

inductive Ev where
  | req (r : Req)
  | time (dt : Nat)
  /-- `child.wait()` returns -/
  | childExit
  /-- both pipes reached end of file -/
  | fdsDone
  deriving Repr

def step (c : Cfg) (u : U) : Ev → U × List Act
  | .req r => onReq c u r
  | .time dt => advance c u dt
  | .childExit =>
    (match u.phase with
     | .running => ({ u with phase := .draining, ls := c.leak, lsPaused := false }, [])
     | .terminating _ => ({ u with phase := .running }, [])     -- terminate_child returns; the main loop's wait then returns too
     | _ => (u, []))
  | .fdsDone =>
    (match u.phase with
     | .draining => ({ u with phase := .done }, [])
     | _ => (u, []))

def run (c : Cfg) (u : U) : List Ev → U × List Act
  | [] => (u, [])
  | e :: es =>
    let (u1, a1) := step c u e
    let (u2, a2) := run c u1 es
    (u2, a1 ++ a2)

/-- `InternalExecuteStatus.result` once the exit status is known: a timeout wins over the exit status -/
inductive Outcome where
  | timeout | fromExit (leaked : Bool)
  deriving DecidableEq, Repr

def U.outcome (u : U) : Outcome := if u.timedOut then .timeout else .fromExit u.leaked

/-! ## Request-loop arms as the translator reads them (tools/extract.py groups `termchild`, `delayloop`) -/

/-- run the rows of an arm in order: a row's actions are performed when its guard holds at that moment -/
def interpArm (apply : U → String → U × List Act) (guard : U → String → Bool) (arm : List (String × List String)) (u : U) : U × List Act :=
  arm.foldl (fun acc row =>
    if guard acc.1 row.1 then
      row.2.foldl (fun acc2 a => ((apply acc2.1 a).1, acc2.2 ++ (apply acc2.1 a).2)) acc
    else acc) (u, [])

/-- `terminate_child`: `stopwatch` is the attempt's, `sleep` the grace period's, `waiting_stopwatch` its own; `break Killed`
    returns to the main loop, whose `child.wait()` then returns -/
def applyTerm (u : U) (a : String) : U × List Act :=
  if a = "stopwatch.pause" then ({ u with sw := { u.sw with paused := true } }, [])
  else if a = "sleep.pause" then ({ u with gs := { u.gs with paused := true } }, [])
  else if a = "waiting_stopwatch.pause" then ({ u with ws := { u.ws with paused := true } }, [])
  else if a = "stopwatch.resume" then ({ u with sw := { u.sw with paused := false } }, [])
  else if a = "sleep.resume" then ({ u with gs := { u.gs with paused := false } }, [])
  else if a = "waiting_stopwatch.resume" then ({ u with ws := { u.ws with paused := false } }, [])
  else if a = "job_control:Stop" then (u, [.kill .tstp])
  else if a = "job_control:Continue" then (u, [.kill .cont])
  else if a = "ack" then (u, [.ack])
  else if a = "kill-group" then (u, [.kill .kill])
  else if a = "break:Killed" then ({ u with phase := .running }, [])
  else if a = "break:Exited" then ({ u with phase := .running }, [])
  else (u, [.panic])

def guardTerm (u : U) (g : String) : Bool :=
  if g = "" then true
  else if g = "stopwatch.is_paused" then u.sw.paused
  else if g = "sleep.is_paused" then u.gs.paused
  else if g = "waiting_stopwatch.is_paused" then u.ws.paused
  else false

/-- `handle_delay_between_attempts`: `sleep` is the retry delay's, `waiting_stopwatch` the delay's own; `break` ends the delay -/
def applyDelay (u : U) (a : String) : U × List Act :=
  if a = "sleep.pause" then ({ u with ds := { u.ds with paused := true } }, [])
  else if a = "waiting_stopwatch.pause" then ({ u with ws := { u.ws with paused := true } }, [])
  else if a = "sleep.resume" then ({ u with ds := { u.ds with paused := false } }, [])
  else if a = "waiting_stopwatch.resume" then ({ u with ws := { u.ws with paused := false } }, [])
  else if a = "ack" then (u, [.ack])
  else if a = "break" then ({ u with phase := .done }, [])
  else if a = "info" then (u, [.info .delayBeforeNextAttempt])
  else (u, [.panic])

def guardDelay (u : U) (g : String) : Bool :=
  if g = "" then true
  else if g = "sleep.is_paused" then u.ds.paused
  else if g = "waiting_stopwatch.is_paused" then u.ws.paused
  else false

/-- `detect_fd_leaks`: `stopwatch` is the attempt's, `sleep` the leak timeout's -/
def applyDrain (u : U) (a : String) : U × List Act :=
  if a = "stopwatch.pause" then ({ u with sw := { u.sw with paused := true } }, [])
  else if a = "sleep.pause" then ({ u with lsPaused := true }, [])
  else if a = "stopwatch.resume" then ({ u with sw := { u.sw with paused := false } }, [])
  else if a = "sleep.resume" then ({ u with lsPaused := false }, [])
  else if a = "ack" then (u, [.ack])
  else if a = "break:true" then ({ u with phase := .done, leaked := true }, [])
  else if a = "break:false" then ({ u with phase := .done, leaked := false }, [])
  else (u, [.panic])

def guardDrain (u : U) (g : String) : Bool :=
  if g = "" then true
  else if g = "stopwatch.is_paused" then u.sw.paused
  else if g = "stopwatch.not_paused" then !u.sw.paused
  else if g = "sleep.is_paused" then u.lsPaused
  else if g = "sleep.not_paused" then !u.lsPaused
  else false

/-- `handle_signal_request` (main loop of an attempt): `stopwatch` is the attempt's, `interval_sleep` the slow-timeout interval's -/
def applyMain (u : U) (a : String) : U × List Act :=
  if a = "stopwatch.pause" then ({ u with sw := { u.sw with paused := true } }, [])
  else if a = "interval_sleep.pause" then ({ u with is := { u.is with paused := true } }, [])
  else if a = "stopwatch.resume" then ({ u with sw := { u.sw with paused := false } }, [])
  else if a = "interval_sleep.resume_if_paused" then ({ u with is := { u.is with paused := false } }, [])
  else if a = "job_control:Stop" then (u, [.kill .tstp])
  else if a = "job_control:Continue" then (u, [.kill .cont])
  else if a = "ack" then (u, [.ack])
  else (u, [.panic])

def guardMain (u : U) (g : String) : Bool :=
  if g = "" then true
  else if g = "stopwatch.is_paused" then u.sw.paused
  else if g = "stopwatch.not_paused" then !u.sw.paused
  else if g = "interval_sleep.is_paused" then u.is.paused
  else if g = "interval_sleep.not_paused" then !u.is.paused
  else false

/-- whether this expiry is the last one (`will_terminate`), evaluated after the hit has been counted -/
def willTerminate (c : Cfg) (u : U) : Bool :=
  match c.terminateAfter with
  | some k => decide (k ≤ u.hits)
  | none => false

/-- the `interval_sleep` branch of the main loop (tools/extract.py group `interval`) -/
def applyInterval (c : Cfg) (u : U) (a : String) : U × List Act :=
  if a = "mark_slow" then ({ u with slow := true }, [])
  else if a = "hit" then ({ u with hits := u.hits + 1 }, [])
  else if a = "emit_slow" then (u, [.slow (u.hits * c.period) (willTerminate c u)])
  else if a = "terminate:Timeout" then beginTerminate c u .timeout (timeoutSignal c.grace)
  else if a = "status:Timeout" then ({ u with timedOut := true }, [])
  else if a = "break_wait" then (u, [])
  else if a = "rearm" then ({ u with is := { u.is with remaining := c.period } }, [])
  else (u, [.panic])

def guardInterval (c : Cfg) (u : U) (g : String) : Bool :=
  if g = "" then true
  else if g = "grace_nonzero" then decide (c.grace ≠ 0)
  else if g = "will_terminate" then willTerminate c u
  else if g = "will_terminate&grace_zero" then willTerminate c u && decide (c.grace = 0)
  else if g = "not_will_terminate" then !willTerminate c u
  else false

/-! ## `PausableSleep` (time/pausable_sleep.rs) itself: `Timer` plus the remembered duration -/

/-- time in milliseconds; `remaining` = deadline − now while running (0 once the deadline has passed), the saved remaining
    time while paused; `duration` = the last duration given to `pausable_sleep` / `reset` -/
structure PSleep where
  remaining : Nat
  paused : Bool := false
  duration : Nat
  deriving DecidableEq, Repr

def PSleep.new (d : Nat) : PSleep := { remaining := d, duration := d }
def PSleep.advance (s : PSleep) (d : Nat) : PSleep := if s.paused then s else { s with remaining := s.remaining - d }
/-- `none`: the "illegal state transition" panic -/
def PSleep.pause (s : PSleep) : Option PSleep := if s.paused then none else some { s with paused := true }
def PSleep.resume (s : PSleep) : Option PSleep := if s.paused then some { s with paused := false } else none
def PSleep.reset (s : PSleep) (d : Nat) : PSleep := { s with remaining := d, duration := d }
def PSleep.resetLast (s : PSleep) : PSleep := s.reset s.duration
def PSleep.fired (s : PSleep) : Bool := !s.paused && s.remaining == 0
def PSleep.toTimer (s : PSleep) : Timer := { remaining := s.remaining, paused := s.paused }

inductive SleepOp where
  | advance (d : Nat) | pause | resume | reset (d : Nat) | resetLast
  deriving DecidableEq, Repr

def PSleep.apply (s : PSleep) : SleepOp → Option PSleep
  | .advance d => some (s.advance d)
  | .pause => s.pause
  | .resume => s.resume
  | .reset d => some (s.reset d)
  | .resetLast => some s.resetLast

def PSleep.run (s : PSleep) : List SleepOp → Option PSleep
  | [] => some s
  | o :: os => match s.apply o with
    | none => none
    | some s' => s'.run os

/-! ### `StopwatchStart` on its own (stopwatch.rs): pause / resume with the illegal transitions, time passing -/

inductive WatchOp where
  | advance (d : Nat)
  | pause
  | resume
  deriving DecidableEq, Repr

/-- `none` = the illegal state transition (`pause()` while paused, `resume()` while running: a panic) -/
def Watch.apply (w : Watch) : WatchOp → Option Watch
  | .advance d => some (w.tick d)
  | .pause => if w.paused then none else some { w with paused := true }
  | .resume => if w.paused then some { w with paused := false } else none

def Watch.run (w : Watch) : List WatchOp → Option Watch
  | [] => some w
  | o :: os => match w.apply o with
    | none => none
    | some w' => w'.run os

/-- the time that passes while the watch is running in a legal operation sequence -/
def runningTime : Bool → List WatchOp → Nat
  | _, [] => 0
  | paused, .advance d :: os => (if paused then 0 else d) + runningTime paused os
  | _, .pause :: os => runningTime true os
  | _, .resume :: os => runningTime false os

end NextestModel.Unit
