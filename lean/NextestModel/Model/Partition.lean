/-
  Mirrors nextest-runner/src/partition.rs: `CountPartitioner`, `HashPartitioner`, `parse_shards`.
-/
import NextestModel.Model.XXH64
namespace NextestModel

/-- A test name is its UTF-8 byte string (Rust `str` ordering and hashing are byte-wise). -/
abbrev Name := List UInt8

inductive PartKind where
  | count | hash
  deriving DecidableEq, Repr

/-- `PartitionerBuilder`: `shard` counts from 1. `parse_shards` guarantees `1 ≤ shard ≤ total`. -/
structure Partition where
  kind : PartKind
  shard : Nat
  total : Nat
  deriving DecidableEq, Repr

/-- `parse_shards`' validity check: `(1..=total_shards).contains(&shard)`. -/
def Partition.valid (p : Partition) : Bool := decide (1 ≤ p.shard) && decide (p.shard ≤ p.total)

/-- `xxh64(test_name.as_bytes(), 0)` as a natural number -/
def nameHash (name : Name) : Nat := (XXH64.xxh64 name 0).toNat

/-- `HashPartitioner::test_matches`, for an arbitrary hash function `h` (theorems are proved for
    every `h`, which also keeps the kernel from evaluating xxHash on symbolic input). -/
def hashMatchesWith (h : Name → Nat) (shard total : Nat) (name : Name) : Bool :=
  h name % total == shard - 1

/-- `CountPartitioner::test_matches`: returns the verdict and the new `curr`. -/
def countStep (shard total curr : Nat) : Bool × Nat :=
  (curr == shard - 1, (curr + 1) % total)

/-- One call of `Partitioner::test_matches` on partitioner state `curr` (unused for hash). -/
def Partition.stepWith (h : Name → Nat) (p : Partition) (curr : Nat) (name : Name) : Bool × Nat :=
  match p.kind with
  | .count => countStep p.shard p.total curr
  | .hash => (hashMatchesWith h p.shard p.total name, curr)

/-- Feed a whole candidate list through a partitioner in state `curr`; the verdict per element. -/
def Partition.runWith (h : Name → Nat) (p : Partition) : Nat → List Name → List Bool
  | _, [] => []
  | curr, n :: ns => let r := p.stepWith h curr n; r.1 :: Partition.runWith h p r.2 ns

/-- The real thing: xxHash64 with seed 0. -/
def Partition.step (p : Partition) (curr : Nat) (name : Name) : Bool × Nat := p.stepWith nameHash curr name
def Partition.run (p : Partition) (curr : Nat) (l : List Name) : List Bool := p.runWith nameHash curr l

end NextestModel
