/-
  Mirrors nextest-runner/src/config/{config_impl.rs, overrides.rs}: the bookkeeping that turns the
  ordered list of config files into one override list per profile (`read_from_sources`,
  `deserialize_individual_config`: `extend_reverse` / `reverse`; `make_profile`: `chain`), and
  `TestSettings::new` (one pass over the overrides, first `Some` wins per setting), the profile-level
  getters (`custom_profile.x.or(default_profile.x)`), and the executor's `force_retries`.

  Setting values are opaque codes.  Whether an override's platform specs and filter accept the test
  are inputs (`hostEval`, `hostTestEval`, `targetEval`, `filterOk`): target-spec evaluation and
  filterset evaluation (C05) are not repeated here.  The `config` crate's key-wise layering of the
  files (built-in default < tool configs < repository config) is modelled by `profileLevel`.
-/
namespace NextestModel.Settings

abbrev Val := Nat

inductive Field where
  | priority | threadsRequired | runExtraArgs | retries | slowTimeout | leakTimeout | testGroup
  | successOutput | failureOutput | junitStoreSuccess | junitStoreFailure
  deriving DecidableEq, Repr

def Field.all : List Field :=
  [.priority, .threadsRequired, .runExtraArgs, .retries, .slowTimeout, .leakTimeout, .testGroup,
   .successOutput, .failureOutput, .junitStoreSuccess, .junitStoreFailure]

def getField (data : List (Field × Val)) (f : Field) : Option Val :=
  match data.find? (fun e => e.1 == f) with
  | some e => some e.2
  | none => none

/-- `CompiledOverride<FinalConfig>` as `TestSettings::new` sees it for one query -/
structure Override where
  hostEval : Bool
  hostTestEval : Bool
  targetEval : Bool
  /-- the override's `filter` accepts the test (true when it has none, or has a `default-filter`) -/
  filterOk : Bool
  data : List (Field × Val)
  deriving Repr

/-- the three platform checks and the filter check at the top of the loop body -/
def Override.applies (o : Override) (isHost : Bool) : Bool :=
  o.hostEval && (if isHost then o.hostTestEval else o.targetEval) && o.filterOk

/-- what one config file contributes to one profile -/
structure ProfileFile where
  overrides : List Override
  /-- profile-level settings written in `[profile.<name>]` itself -/
  level : List (Field × Val)
  deriving Repr

/-- one config file: its `[profile.*]` tables (names distinct) -/
structure File where
  profiles : List (String × ProfileFile)
  deriving Repr

def File.profile? (f : File) (name : String) : Option ProfileFile :=
  match f.profiles.find? (fun e => e.1 == name) with
  | some e => some e.2
  | none => none

def File.overridesOf (f : File) (name : String) : List Override :=
  match f.profile? name with
  | some p => p.overrides
  | none => []

/-- `CompiledByProfile`: `other` is the `HashMap<String, CompiledData>` -/
structure Compiled where
  default : List Override
  other : String → Option (List Override)

def Compiled.init : Compiled := { default := [], other := fun _ => none }

/-- `CompiledData::extend_reverse` (overrides part) -/
def extendReverse (self other : List Override) : List Override := self ++ other.reverse

/-- merge one non-default profile of a file into the `HashMap` -/
def Compiled.mergeOther (c : Compiled) (e : String × ProfileFile) : Compiled :=
  { c with other := fun n =>
      if n == e.1 then
        match c.other e.1 with
        | none => some e.2.overrides.reverse            -- Vacant: `data.reverse(); insert`
        | some ex => some (extendReverse ex e.2.overrides) -- Occupied: `extend_reverse`
      else c.other n }

/-- the tail of `deserialize_individual_config`: merge one file's compiled data -/
def Compiled.addFile (c : Compiled) (f : File) : Compiled :=
  (f.profiles.filter (fun e => e.1 != "default")).foldl Compiled.mergeOther
    { c with default := extendReverse c.default (f.overridesOf "default") }

/-- "Reverse all the compiled data at the end." -/
def Compiled.finish (c : Compiled) : Compiled :=
  { default := c.default.reverse, other := fun n => (c.other n).map List.reverse }

/-- `read_from_sources`: files in the order they are merged — tool configs from last to first,
    then the repository config (lowest priority first). -/
def readFromSources (filesLowToHigh : List File) : Compiled :=
  (filesLowToHigh.foldl Compiled.addFile Compiled.init).finish

/-- `make_profile`: `other[name].chain(default)` -/
def makeProfile (c : Compiled) (name : String) : List Override :=
  if name == "default" then c.default else
  match c.other name with
  | some d => d ++ c.default
  | none => c.default

/-- `TestSettings::new`'s loop: accumulator of the eleven `Option`s -/
def settingsStep (isHost : Bool) (acc : Field → Option Val) (o : Override) : Field → Option Val :=
  if o.applies isHost then fun f => match acc f with
    | some v => some v
    | none => getField o.data f
  else acc

def overrideValues (ovs : List Override) (isHost : Bool) : Field → Option Val :=
  ovs.foldl (settingsStep isHost) (fun _ => none)

/-- `config` layering for a profile-level key, files highest priority first:
    `profile.<name>.x`, else `profile.default.x`, else the built-in default -/
def profileLevel (filesHighToLow : List File) (name : String) (builtin : Field → Val) (f : Field) : Val :=
  let inProfile (n : String) : Option Val :=
    filesHighToLow.findSome? (fun file => match file.profile? n with
      | some p => getField p.level f
      | none => none)
  match (if name == "default" then none else inProfile name) with
  | some v => v
  | none => match inProfile "default" with
    | some v => v
    | none => builtin f

/-- The effective value of a setting: CLI (`--retries`, only for retries), else overrides, else profile. -/
def effective (filesLowToHigh : List File) (name : String) (builtin : Field → Val)
    (cliRetries : Option Val) (isHost : Bool) (f : Field) : Val :=
  match (if f == .retries then cliRetries else none) with
  | some v => v
  | none =>
    match overrideValues (makeProfile (readFromSources filesLowToHigh) name) isHost f with
    | some v => v
    | none => profileLevel filesLowToHigh.reverse name builtin f

end NextestModel.Settings
