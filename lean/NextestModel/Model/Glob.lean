/-
  Glob semantics used by `GenericGlob` (nextest-filtering/src/parsing/glob.rs): globset with
  `backslash_escape(false)`, `empty_alternates(true)`, no literal separator, translated to an
  anchored byte regex (`(?-u)^…$`).  Modelled for the documented subset: literal characters, `?`
  (one byte other than newline), `*` (any bytes other than newline), ASCII classes `[abc]`, `[a-c]`,
  `[!a]`/`[^a]`, and one level of `{a,b}` alternation.  Anything else (`**`, nested braces,
  `/`-adjacent stars, non-ASCII classes) is `none`: the driver reports `unsupported-glob` and the
  correspondence skips the case.  Modelled, not verified: globset itself.
-/
namespace NextestModel.Glob

inductive GSimple where
  | lit (b : UInt8)
  | any1
  | star
  | cls (neg : Bool) (ranges : List (UInt8 × UInt8))
  deriving Repr

inductive GTok where
  | simple (s : GSimple)
  | alt (branches : List (List GSimple))
  deriving Repr

def charBytes (c : Char) : List UInt8 := (String.singleton c).toUTF8.toList

def isPlain (c : Char) : Bool :=
  !(c == '*' || c == '?' || c == '[' || c == ']' || c == '{' || c == '}' || c == '\\' || c == '!' || c == '^' || c == '-')

/-- class body after `[` (and optional negation): simple ASCII alphanumerics and `a-z` ranges -/
def parseClassBody : List Char → List (UInt8 × UInt8) → Option (List (UInt8 × UInt8) × List Char)
  | ']' :: rest, acc => if acc.isEmpty then none else some (acc.reverse, rest)
  | a :: '-' :: b :: rest, acc =>
    if a.isAlphanum && b.isAlphanum && a ≤ b then
      parseClassBody rest ((UInt8.ofNat a.toNat, UInt8.ofNat b.toNat) :: acc)
    else none
  | a :: rest, acc =>
    if a.isAlphanum then parseClassBody rest ((UInt8.ofNat a.toNat, UInt8.ofNat a.toNat) :: acc) else none
  | [], _ => none

/-- one simple token at the head; `inAlt` makes `,` and `}` terminators -/
def parseSimple (inAlt : Bool) : List Char → Option (List GSimple × List Char)
  | '*' :: '*' :: _ => none
  | '*' :: rest => some ([.star], rest)
  | '?' :: rest => some ([.any1], rest)
  | '[' :: '!' :: rest => (parseClassBody rest []).map fun (r, rest') => ([.cls true r], rest')
  | '[' :: '^' :: rest => (parseClassBody rest []).map fun (r, rest') => ([.cls true r], rest')
  | '[' :: rest => (parseClassBody rest []).map fun (r, rest') => ([.cls false r], rest')
  | c :: rest =>
    if c == ',' then (if inAlt then none else some ((charBytes c).map .lit, rest))
    else if c == '-' || c == '!' || c == '^' then some ((charBytes c).map .lit, rest)
    else if isPlain c then some ((charBytes c).map .lit, rest) else none
  | [] => none

/-- branches of an alternation after `{`, up to the closing `}` -/
def parseAlt : Nat → List Char → List GSimple → List (List GSimple) → Option (List (List GSimple) × List Char)
  | 0, _, _, _ => none
  | _ + 1, '}' :: rest, cur, acc => some ((cur :: acc).reverse, rest)
  | f + 1, ',' :: rest, cur, acc => parseAlt f rest [] (cur :: acc)
  | f + 1, cs, cur, acc =>
    match parseSimple true cs with
    | some (ts, rest) => parseAlt f rest (cur ++ ts) acc
    | none => none

def parseGlob : Nat → List Char → Option (List GTok)
  | 0, _ => none
  | _ + 1, [] => some []
  | f + 1, '{' :: rest =>
    match parseAlt (rest.length + 1) rest [] [] with
    | some (bs, rest') => (parseGlob f rest').map (GTok.alt bs :: ·)
    | none => none
  | f + 1, cs =>
    match parseSimple false cs with
    | some (ts, rest) => (parseGlob f rest).map (ts.map GTok.simple ++ ·)
    | none => none

/-- every sequence of simple tokens denoted by the token list (alternations expanded) -/
def expand : List GTok → List (List GSimple)
  | [] => [[]]
  | .simple s :: ts => (expand ts).map (s :: ·)
  | .alt bs :: ts => bs.flatMap fun b => (expand ts).map (b ++ ·)

/-- suffixes reachable by dropping a prefix of non-newline bytes (what `.*` can consume) -/
def starSuffixes : List UInt8 → List (List UInt8)
  | [] => [[]]
  | b :: bs => (b :: bs) :: (if b == 10 then [] else starSuffixes bs)

def inRanges (b : UInt8) (rs : List (UInt8 × UInt8)) : Bool := rs.any fun (lo, hi) => lo ≤ b && b ≤ hi

def matchS : List GSimple → List UInt8 → Bool
  | [], s => s.isEmpty
  | .lit b :: ts, c :: s => b == c && matchS ts s
  | .lit _ :: _, [] => false
  | .any1 :: ts, c :: s => c != 10 && matchS ts s
  | .any1 :: _, [] => false
  | .cls neg rs :: ts, c :: s => (inRanges c rs != neg) && matchS ts s
  | .cls _ _ :: _, [] => false
  | .star :: ts, s => (starSuffixes s).any (matchS ts)

def strBytes (s : List Char) : List UInt8 := (String.ofList s).toUTF8.toList

/-- is the glob inside the modelled subset? -/
def supported (pat : List Char) : Bool := (parseGlob (pat.length + 1) pat).isSome

/-- `GenericGlob::is_match` on the modelled subset (false outside it; callers check `supported`) -/
def globMatch (pat subject : List Char) : Bool :=
  match parseGlob (pat.length + 1) pat with
  | some toks => (expand toks).any (fun ts => matchS ts (strBytes subject))
  | none => false

end NextestModel.Glob
