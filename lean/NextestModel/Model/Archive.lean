/-
  Mirrors nextest-runner/src/reuse_build:
  * archiver.rs `append_path_recursive` (which files below an included path are archived, given a
    recursion depth) and `append_file`'s `added_files` de-duplication;
  * unarchiver.rs `ArchiveReader::entries` validation of entry paths (the component structure is
    std::path's on Unix, as used through camino);
  * mod.rs `PathMapper::map_binary` / `map_cwd`;
  * `archive_to_file`'s use of `AtomicFile::write` (write a temporary file, rename on success).
  File contents, tar/zstd encoding, `tar::Entry::unpack_in` and `rename(2)` are not modelled.
-/
namespace NextestModel.Archive

/-! ## What is collected below an included path -/

inductive Node where
  | file : Node
  | symlink : Node
  | other : Node            -- sockets, fifos, devices: never archived
  | dir : List (String × Node) → Node

/-- `RecursionDepth`: `none` = infinite -/
abbrev Depth := Option Nat

def Depth.isZero : Depth → Bool
  | some 0 => true
  | _ => false

def Depth.decrement : Depth → Depth
  | some n => some (n - 1)
  | none => none

mutual
/-- the archive-relative paths `append_path_recursive` hands to `append_file`, as a list -/
def collect (d : Depth) (rel : List String) : Node → List (List String)
  | .file => [rel]
  | .symlink => [rel]
  | .other => []
  | .dir cs => if d.isZero then [] else collectList d.decrement rel cs
def collectList (d : Depth) (rel : List String) : List (String × Node) → List (List String)
  | [] => []
  | (n, c) :: cs => collect d (rel ++ [n]) c ++ collectList d rel cs
end

/-- `q` leads from the node to a regular file or symlink -/
inductive Leaf : Node → List String → Prop
  | file : Leaf .file []
  | symlink : Leaf .symlink []
  | dir {cs n c q} : (n, c) ∈ cs → Leaf c q → Leaf (.dir cs) (n :: q)

/-! ## De-duplication: `added_files` -/

/-- the archive as the list of (destination path, source) in insertion order -/
abbrev Members := List (List String × String)

def appendFile (a : Members) (dest : List String) (src : String) : Members :=
  if a.any (·.1 == dest) then a else a ++ [(dest, src)]

def appendAll (a : Members) (xs : List (List String × String)) : Members :=
  xs.foldl (fun a x => appendFile a x.1 x.2) a

/-- `Archiver::archive`: the two metadata files are written first, from memory (`append_from_memory` records their
    names in `added_files`), then every file found on disk goes through `append_file` -/
def archiveMembers (metadata : List (List String)) (files : List (List String × String)) : Members :=
  appendAll (metadata.map fun p => (p, "<memory>")) files

/-! ## Entry-path validation on extraction -/

inductive Comp where
  | root | cur | parent
  | normal (s : List Char)
  deriving DecidableEq, Repr

/-- split on `/` -/
def splitSlash : List Char → List (List Char)
  | [] => [[]]
  | c :: cs =>
    match splitSlash cs with
    | [] => [[c]]   -- unreachable
    | seg :: rest => if c == '/' then [] :: seg :: rest else (c :: seg) :: rest

def segComp (first : Bool) (seg : List Char) : Option Comp :=
  if seg == [] then none
  else if seg == ['.'] then (if first then some .cur else none)
  else if seg == ['.', '.'] then some .parent
  else some (.normal seg)

/-- components of the remaining segments; `.` is kept only as the very first component of a relative path -/
def segComps (first : Bool) : List (List Char) → List Comp
  | [] => []
  | seg :: rest =>
    match segComp first seg with
    | some c => c :: segComps false rest
    | none => segComps false rest

/-- `Utf8Path::components` on Unix -/
def components (p : List Char) : List Comp :=
  match p with
  | '/' :: _ => .root :: segComps false (splitSlash p)
  | _ => segComps true (splitSlash p)

inductive Verdict where
  | ok
  | noTargetPrefix
  | invalidComponent (c : Comp)
  deriving DecidableEq, Repr

def firstBad : List Comp → Option Comp
  | [] => none
  | .normal _ :: cs => firstBad cs
  | c :: _ => some c

/-- `ArchiveReader::entries`: `path.starts_with("target")`, then all components normal -/
def validate (p : List Char) : Verdict :=
  match components p with
  | .normal t :: cs =>
    if t == "target".toList then
      (match firstBad cs with
       | none => .ok
       | some c => .invalidComponent c)
    else .noTargetPrefix
  | _ => .noTargetPrefix

def normals : List Comp → List (List Char)
  | [] => []
  | .normal s :: cs => s :: normals cs
  | _ :: cs => normals cs

/-- where an accepted entry lands: the destination directory's components followed by the entry's -/
def landing (dest : List (List Char)) (p : List Char) : List (List Char) := dest ++ normals (components p)

/-! ## Path remapping -/

def stripPrefix : List String → List String → Option (List String)
  | [], p => some p
  | _ :: _, [] => none
  | a :: as, b :: bs => if a == b then stripPrefix as bs else none

/-- `PathMapper::map_binary` / `map_cwd`: `m = some (from, to)` when a remap is configured -/
def mapPath (m : Option (List String × List String)) (path : List String) : List String :=
  match m with
  | none => path
  | some (fr, to) =>
    match stripPrefix fr path with
    | some r => to ++ r
    | none => path

/-! ## Atomic creation -/

/-- the file-system state `AtomicFile::write` acts on: the destination and the temporary file -/
structure FS where
  dest : Option (List Nat)
  temp : Option (List Nat)
  deriving DecidableEq, Repr

inductive Op where
  | create                    -- create the temporary file
  | write (chunk : List Nat)  -- append to it
  | rename                    -- success: move it over the destination
  | abandon                   -- error: remove it
  deriving Repr

def fsStep (s : FS) : Op → FS
  | .create => { s with temp := some [] }
  | .write c => { s with temp := s.temp.map (· ++ c) }
  | .rename => match s.temp with
    | some t => { dest := some t, temp := none }
    | none => s
  | .abandon => { s with temp := none }

/-- the operations of a successful `archive_to_file` -/
def successOps (chunks : List (List Nat)) : List Op := .create :: chunks.map .write ++ [.rename]

/-- … and of one that hits an error after `k` chunks -/
def failureOps (chunks : List (List Nat)) (k : Nat) : List Op := .create :: (chunks.take k).map .write ++ [.abandon]

end NextestModel.Archive
