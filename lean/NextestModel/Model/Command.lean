/-
  Mirrors nextest-runner/src/list/test_list.rs `TestInstance::make_command` (argv) and
  nextest-runner/src/test_command.rs `TestCommand::new` + runner/executor.rs `run_test_inner`
  (the order in which environment variables are written onto the command: inherited environment,
  Cargo's `[env]` configuration, build-script variables, then nextest's own `NEXTEST*` / `CARGO_*`
  variables, then per-run / per-test variables, then setup-script variables).
  `std::process::Command::env` semantics: the last write of a key wins.
-/
namespace NextestModel.Command

/-- `make_command` (no target runner): the arguments after the program -/
def argv (name : String) (ignored : Bool) (extraArgs : List String) : List String :=
  ["--exact", name, "--nocapture"] ++ (if ignored then ["--ignored"] else []) ++ extraArgs

/-- an environment is a list of writes, oldest first -/
abbrev Writes := List (String × String)

/-- the value a process sees for `key`: the last write -/
def lookup (ws : Writes) (key : String) : Option String :=
  match (ws.reverse.find? (·.1 == key)) with
  | some e => some e.2
  | none => none

/-- the writes of `TestCommand::new` followed by `run_test_inner`, in program order -/
def testEnv (inherited cargoEnv buildScriptEnv : Writes) (profile manifestDir : String) (pkgVars : Writes)
    (runId attempt : String) (perTest : Writes) (scriptEnv : Writes) : Writes :=
  inherited ++ cargoEnv ++ buildScriptEnv ++
  [("NEXTEST", "1"), ("NEXTEST_EXECUTION_MODE", "process-per-test"), ("NEXTEST_PROFILE", profile),
   ("CARGO_MANIFEST_DIR", manifestDir)] ++ pkgVars ++
  [("__NEXTEST_ATTEMPT", attempt), ("NEXTEST_RUN_ID", runId)] ++ perTest ++ scriptEnv

end NextestModel.Command
