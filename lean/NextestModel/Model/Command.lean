import NextestModel.Model.Shell
/-
  Mirrors nextest-runner/src/list/test_list.rs `TestInstance::make_command` (argv) and
  nextest-runner/src/test_command.rs `TestCommand::new` + runner/executor.rs `run_test_inner`
  (the order in which environment variables are written onto the command: inherited environment,
  Cargo's `[env]` configuration, build-script variables, then nextest's own `NEXTEST*` / `CARGO_*`
  variables, then per-run / per-test variables, then setup-script variables).
  `std::process::Command::env` semantics: the last write of a key wins.
-/
namespace NextestModel.Command

/-- `make_command` (no target runner): the arguments after the program -/
def argv (name : String) (ignored : Bool) (extraArgs : List String) : List String :=
  ["--exact", name, "--nocapture"] ++ (if ignored then ["--ignored"] else []) ++ extraArgs

/-- an environment is a list of writes, oldest first -/
abbrev Writes := List (String × String)

/-- the value a process sees for `key`: the last write -/
def lookup (ws : Writes) (key : String) : Option String :=
  match (ws.reverse.find? (·.1 == key)) with
  | some e => some e.2
  | none => none

/-- one entry of Cargo's `[env]` table after `EnvironmentMap::new`: key, value, `force` (absent = false) -/
structure CargoVar where
  key : String
  value : String
  force : Bool

/-- `EnvironmentMap::apply_env`: an entry is written unless the key is already in nextest's own (inherited)
    environment and `force` is not set -/
def applyEnv (inherited : Writes) (cfg : List CargoVar) : Writes :=
  cfg.filterMap fun v => if inherited.any (·.1 == v.key) && !v.force then none else some (v.key, v.value)

/-- package metadata that `apply_package_env` exports -/
structure Package where
  name : String
  version : String
  major : String
  minor : String
  patch : String
  pre : String
  authors : String        -- joined with `:`
  description : String
  homepage : String
  license : String
  licenseFile : String
  repository : String
  rustVersion : String

/-- `apply_package_env`, in program order -/
def packageEnv (p : Package) : Writes :=
  [("CARGO_PKG_VERSION", p.version), ("CARGO_PKG_VERSION_MAJOR", p.major), ("CARGO_PKG_VERSION_MINOR", p.minor),
   ("CARGO_PKG_VERSION_PATCH", p.patch), ("CARGO_PKG_VERSION_PRE", p.pre), ("CARGO_PKG_AUTHORS", p.authors),
   ("CARGO_PKG_NAME", p.name), ("CARGO_PKG_DESCRIPTION", p.description), ("CARGO_PKG_HOMEPAGE", p.homepage),
   ("CARGO_PKG_LICENSE", p.license), ("CARGO_PKG_LICENSE_FILE", p.licenseFile), ("CARGO_PKG_REPOSITORY", p.repository),
   ("CARGO_PKG_RUST_VERSION", p.rustVersion)]

/-- the writes of `TestCommand::new`, in program order, on top of the inherited environment: Cargo `[env]`
    (`cargoEnv`, already filtered by `applyEnv`), build-script variables, nextest's own variables (the working
    directory doubles as `CARGO_MANIFEST_DIR`), the package variables -/
def commandEnv (inherited cargoEnv buildScriptEnv : Writes) (profile manifestDir : String) (pkgVars : Writes) : Writes :=
  inherited ++ cargoEnv ++ buildScriptEnv ++
  [("NEXTEST", "1"), ("NEXTEST_EXECUTION_MODE", "process-per-test"), ("NEXTEST_PROFILE", profile),
   ("CARGO_MANIFEST_DIR", manifestDir)] ++ pkgVars

/-- the writes of `TestCommand::new` followed by `run_test_inner`, in program order -/
def testEnv (inherited cargoEnv buildScriptEnv : Writes) (profile manifestDir : String) (pkgVars : Writes)
    (runId attempt : String) (perTest : Writes) (scriptEnv : Writes) : Writes :=
  commandEnv inherited cargoEnv buildScriptEnv profile manifestDir pkgVars ++
  [("__NEXTEST_ATTEMPT", attempt), ("NEXTEST_RUN_ID", runId)] ++ perTest ++ scriptEnv

/-- `create_command` (test_command.rs): the argument vector (program first) of the process nextest spawns.
    With the double-spawn launcher (`current_exe = some exe`) it is
    `exe __double-spawn -- <program> <shell_words::join args>`; otherwise `program args…`. -/
def createCommand (currentExe : Option (List Char)) (program : List Char) (args : List (List Char)) : List (List Char) :=
  match currentExe with
  | some exe => [exe, "__double-spawn".toList, "--".toList, program, Shell.join args]
  | none => program :: args

/-- `DoubleSpawnOpts::exec` (cargo-nextest/src/double_spawn.rs): the launcher re-reads its two positional
    arguments and `exec`s `program` with `shell_words::split args`; `none` = `DoubleSpawnParseArgsError`. -/
def doubleSpawnExec (program joined : List Char) : Option (List (List Char)) :=
  match Shell.split joined with
  | some args => some (program :: args)
  | none => none

/-- the argument vector of the process that finally runs the test binary -/
def finalArgv (currentExe : Option (List Char)) (program : List Char) (args : List (List Char)) : Option (List (List Char)) :=
  match currentExe with
  | some exe =>
    match createCommand (some exe) program args with
    | [_, _, _, prog, joined] => doubleSpawnExec prog joined
    | _ => none
  | none => some (createCommand none program args)

end NextestModel.Command
