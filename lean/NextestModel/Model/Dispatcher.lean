/-
  Mirrors nextest-runner/src/runner/dispatcher.rs (`DispatcherContext::{handle_event, begin_cancel,
  handle_signal_event, increment_signal_count, new_test, existing_test, finish_test,
  broadcast_request}` and the part of `run` that acts on a `HandleEventResponse`),
  nextest-runner/src/reporter/events.rs (`RunStats::{on_test_finished, on_setup_script_finished,
  summarize_final, failed_count}`, `ExecutionResult::is_success`, `CancelReason`'s derived order),
  config/max_fail.rs (`MaxFail::is_exceeded`) and cargo-nextest/src/dispatch.rs (`exec_run`'s final
  `match` → process exit code).

  One event at a time: `step : DState → DEvent → Except Panic (DState × Out)`.  The order in which
  events reach the dispatcher (tokio `select!`, channel interleavings) is *not* modelled: theorems
  quantify over every event list.
-/
namespace NextestModel.Dispatcher

/-- `ExecutionResult` -/
inductive Res where
  | pass
  | leak
  | fail (signal : Option Nat) (leaked : Bool)
  | execFail
  | timeout
  deriving DecidableEq, Repr

/-- `ExecutionResult::is_success` -/
def Res.isSuccess : Res → Bool
  | .pass => true
  | .leak => true
  | _ => false

/-- `CancelReason`, in declaration order (its derived `Ord` is the severity order; see `Gen.CancelOrder`). -/
inductive CancelReason where
  | setupScriptFailure | testFailure | reportError | signal | interrupt | secondSignal
  deriving DecidableEq, Repr

def CancelReason.rank : CancelReason → Nat
  | .setupScriptFailure => 0 | .testFailure => 1 | .reportError => 2
  | .signal => 3 | .interrupt => 4 | .secondSignal => 5

/-- `Option<CancelReason>` ordering: `None < Some(_)` -/
def cancelLt (cur : Option CancelReason) (r : CancelReason) : Bool :=
  match cur with
  | none => true
  | some c => decide (c.rank < r.rank)

/-- `RunStats` -/
structure Stats where
  initialRunCount : Nat := 0
  finishedCount : Nat := 0
  setupScriptsInitialCount : Nat := 0
  setupScriptsFinishedCount : Nat := 0
  setupScriptsPassed : Nat := 0
  setupScriptsFailed : Nat := 0
  setupScriptsExecFailed : Nat := 0
  setupScriptsTimedOut : Nat := 0
  passed : Nat := 0
  passedSlow : Nat := 0
  flaky : Nat := 0
  failed : Nat := 0
  failedSlow : Nat := 0
  timedOut : Nat := 0
  leaky : Nat := 0
  execFailed : Nat := 0
  skipped : Nat := 0
  deriving DecidableEq, Repr

def Stats.failedCount (s : Stats) : Nat := s.failed + s.execFailed + s.timedOut
def Stats.failedSetupScriptCount (s : Stats) : Nat :=
  s.setupScriptsFailed + s.setupScriptsExecFailed + s.setupScriptsTimedOut

/-- `RunStats::on_test_finished`: `last` is the final attempt's (result, is_slow), `n` the number of attempts -/
def Stats.onTestFinished (s : Stats) (last : Res) (slow : Bool) (n : Nat) : Stats :=
  let s := { s with finishedCount := s.finishedCount + 1 }
  match last with
  | .pass =>
    { s with passed := s.passed + 1,
             passedSlow := if slow then s.passedSlow + 1 else s.passedSlow,
             flaky := if n > 1 then s.flaky + 1 else s.flaky }
  | .leak =>
    { s with passed := s.passed + 1, leaky := s.leaky + 1,
             passedSlow := if slow then s.passedSlow + 1 else s.passedSlow,
             flaky := if n > 1 then s.flaky + 1 else s.flaky }
  | .fail _ _ =>
    { s with failed := s.failed + 1, failedSlow := if slow then s.failedSlow + 1 else s.failedSlow }
  | .timeout => { s with timedOut := s.timedOut + 1 }
  | .execFail => { s with execFailed := s.execFailed + 1 }

/-- `RunStats::on_setup_script_finished` -/
def Stats.onScriptFinished (s : Stats) (r : Res) : Stats :=
  let s := { s with setupScriptsFinishedCount := s.setupScriptsFinishedCount + 1 }
  match r with
  | .pass | .leak => { s with setupScriptsPassed := s.setupScriptsPassed + 1 }
  | .fail _ _ => { s with setupScriptsFailed := s.setupScriptsFailed + 1 }
  | .execFail => { s with setupScriptsExecFailed := s.setupScriptsExecFailed + 1 }
  | .timeout => { s with setupScriptsTimedOut := s.setupScriptsTimedOut + 1 }

inductive FailKind where
  | setupScript
  | test (initial notRun : Nat)
  deriving DecidableEq, Repr

/-- `FinalRunStats` -/
inductive Final where
  | success | noTestsRun
  | cancelled (k : FailKind)
  | failed (k : FailKind)
  deriving DecidableEq, Repr

/-- `RunStats::summarize_final` -/
def Stats.summarize (s : Stats) : Final :=
  if s.failedSetupScriptCount > 0 then .failed .setupScript
  else if s.setupScriptsInitialCount > s.setupScriptsFinishedCount then .cancelled .setupScript
  else if s.failedCount > 0 then .failed (.test s.initialRunCount (s.initialRunCount - s.finishedCount))
  else if s.initialRunCount > s.finishedCount then .cancelled (.test s.initialRunCount (s.initialRunCount - s.finishedCount))
  else if s.finishedCount == 0 then .noTestsRun
  else .success

/-- `--no-tests` -/
inductive NoTests where
  | pass | warn | fail
  deriving DecidableEq, Repr

/-- the final `match` of `exec_run`: process exit code (constants: `Gen.ExitCodes`) -/
def exitCode (f : Final) (noTests : Option NoTests) : Nat :=
  match f with
  | .success => 0
  | .noTestsRun =>
    match noTests with
    | some .pass => 0
    | some .warn => 0
    | some .fail => 4
    | none => 4
  | .cancelled .setupScript => 105
  | .failed .setupScript => 105
  | .cancelled (.test _ _) => 100
  | .failed (.test _ _) => 100

/-- `MaxFail` -/
inductive MaxFail where
  | count (n : Nat)
  | all
  deriving DecidableEq, Repr

def MaxFail.isExceeded : MaxFail → Nat → Bool
  | .count n, failed => decide (failed ≥ n)
  | .all, _ => false

/-! ### Events, responses, emitted events -/

/-- shutdown signals -/
inductive Sig where
  | interrupt | term | hangup | quit
  deriving DecidableEq, Repr

inductive DEvent where
  | started (i : Nat)
  | closeRx (i : Nat)
  | retryStarted (i attempt total : Nat)
  | attemptFailedWillRetry (i : Nat) (r : Res) (slow : Bool)
  | finished (i : Nat) (r : Res) (slow : Bool)
  | skipped (i : Nat)
  | scriptStarted (index total : Nat)
  | scriptCloseRx
  | scriptFinished (index : Nat) (r : Res)
  | shutdown (s : Sig)
  | stop
  | continue
  | info
  | reportCancel
  | inputEnter
  deriving DecidableEq, Repr

/-- `ShutdownRequest` -/
inductive ShutdownReq where
  | once (s : Sig)
  | twice
  deriving DecidableEq, Repr

/-- `RunUnitRequest` as delivered to units -/
inductive Req where
  | otherCancel
  | shutdown (r : ShutdownReq)
  | stop | continue | getInfo
  deriving DecidableEq, Repr

/-- `HandleEventResponse` -/
inductive Response where
  | none
  | cancelReport | cancelTestFailure
  | cancelSignal (r : ShutdownReq)
  | jobStop | jobContinue
  | info
  deriving DecidableEq, Repr

/-- the `TestEventKind`s the dispatcher emits, with the data the property speaks about -/
inductive Emitted where
  | testStarted (i running : Nat) (cancel : Option CancelReason) (stats : Stats)
  | testRetryStarted (i attempt total : Nat)
  | testAttemptFailedWillRetry (i : Nat) (r : Res)
  | testFinished (i : Nat) (statuses : List Res) (running : Nat) (cancel : Option CancelReason) (stats : Stats)
  | testSkipped (i : Nat)
  | scriptStarted (index total : Nat)
  | scriptFinished (index : Nat) (r : Res)
  | runBeginCancel (reason : CancelReason) (scripts running : Nat)
  | runBeginKill (scripts running : Nat)
  | runPaused (scripts running : Nat)
  | runContinued (scripts running : Nat)
  | infoStarted (total : Nat)
  | inputEnter (running : Nat) (cancel : Option CancelReason)
  deriving DecidableEq, Repr

inductive Reply where
  | none | ack | drop
  deriving DecidableEq, Repr

inductive Panic where
  | duplicateTest | missingTest | thirdSignal | scriptAlreadyRunning | noScriptRunning
  deriving DecidableEq, Repr

structure Out where
  response : Response
  reply : Reply
  emitted : List Emitted
  /-- requests delivered: (unit, request); unit `none` = the running setup script -/
  delivered : List (Option Nat × Req)
  broadcastCount : Option Nat
  deriving Repr

/-- `DispatcherContext` (plus which units still hold their request receiver open) -/
structure DState where
  stats : Stats
  maxFail : MaxFail
  /-- `running_setup_script.is_some()` -/
  scriptRunning : Bool := false
  scriptRxOpen : Bool := false
  /-- `running_tests`: test id ↦ past attempts, ordered by id -/
  running : List (Nat × List Res) := []
  /-- units whose request receiver is still open -/
  rxOpen : List Nat := []
  cancel : Option CancelReason := none
  /-- `signal_count`: 0 = None, 1 = Once, 2 = Twice -/
  signalCount : Nat := 0
  /-- `stopwatch.is_paused()` -/
  paused : Bool := false
  deriving Repr

def DState.init (initialRunCount : Nat) (mf : MaxFail) : DState :=
  { stats := { initialRunCount := initialRunCount }, maxFail := mf }

def DState.scriptsRunning (s : DState) : Nat := if s.scriptRunning then 1 else 0

def insertSorted (i : Nat) (v : List Res) : List (Nat × List Res) → List (Nat × List Res)
  | [] => [(i, v)]
  | (j, w) :: rest => if i < j then (i, v) :: (j, w) :: rest else (j, w) :: insertSorted i v rest

/-- `broadcast_request`: the running setup script first, then the registered tests in key order;
    only units whose receiver is still open receive it and are counted. -/
def DState.broadcast (s : DState) (r : Req) : List (Option Nat × Req) × Nat :=
  let sc : List (Option Nat × Req) := if s.scriptRunning && s.scriptRxOpen then [(none, r)] else []
  let ts : List (Option Nat × Req) :=
    (s.running.filter (fun e => s.rxOpen.contains e.1)).map (fun e => (some e.1, r))
  (sc ++ ts, sc.length + ts.length)

/-- `begin_cancel` -/
def beginCancel (s : DState) (reason : CancelReason) (resp : Response) : DState × Response × List Emitted :=
  if resp == .cancelSignal .twice then
    (s, resp, [.runBeginKill s.scriptsRunning s.running.length])
  else if cancelLt s.cancel reason then
    ({ s with cancel := some reason }, resp, [.runBeginCancel reason s.scriptsRunning s.running.length])
  else (s, .none, [])

/-- `event_to_cancel_reason` -/
def sigReason : Sig → CancelReason
  | .interrupt => .interrupt
  | _ => .signal

/-- the part of `run` that acts on the response: which request is broadcast -/
def responseRequest : Response → Option Req
  | .cancelReport => some .otherCancel
  | .cancelTestFailure => some .otherCancel
  | .cancelSignal r => some (.shutdown r)
  | .jobStop => some .stop
  | .jobContinue => some .continue
  | .info => some .getInfo
  | .none => Option.none

/-- the name the translator gives a `HandleEventResponse` / `CancelEvent` arm of `run` (Gen.responseBroadcasts) -/
def respName : Response → String
  | .none => "None"
  | .cancelReport => "Cancel/Report"
  | .cancelTestFailure => "Cancel/TestFailure"
  | .cancelSignal _ => "Cancel/Signal"
  | .jobStop => "JobControl/Stop"
  | .jobContinue => "JobControl/Continue"
  | .info => "Info"

/-- … and a `RunUnitRequest` (the shutdown request carries the arm's own `req`) -/
def reqName : Req → String
  | .otherCancel => "otherCancel"
  | .shutdown _ => "shutdown"
  | .stop => "stop"
  | .continue => "continue"
  | .getInfo => "getInfo"

/-- what the model's run loop broadcasts for a response, in the translator's form: each request with "unconditionally" -/
def responseRow (r : Response) : String × List (String × Bool) :=
  (respName r, (responseRequest r).toList.map fun q => (reqName q, true))

/-- finish a step: perform the broadcast for the response -/
def finishStep (s : DState) (resp : Response) (reply : Reply) (em : List Emitted) : DState × Out :=
  match responseRequest resp with
  | Option.none => (s, { response := resp, reply := reply, emitted := em, delivered := [], broadcastCount := Option.none })
  | some r =>
    let (d, n) := s.broadcast r
    let em' := if resp == .info then em ++ [.infoStarted n] else em
    (s, { response := resp, reply := reply, emitted := em', delivered := d, broadcastCount := some n })

/-- `begin_cancel` after an event's own emitted events `em` -/
def withCancel (s1 : DState) (em : List Emitted) (reason : CancelReason) (resp : Response) :
    DState × Response × Reply × List Emitted :=
  let bc := beginCancel s1 reason resp
  (bc.1, bc.2.1, Reply.none, em ++ bc.2.2)

/-- the state after `finish_test` + `on_test_finished` for test `i` -/
def DState.afterFinish (s : DState) (i : Nat) (stats : Stats) : DState :=
  { s with running := s.running.filter (·.1 != i), rxOpen := s.rxOpen.filter (· != i), stats := stats }

/-- `handle_event`: new state, response, what happened to the unit's oneshot, emitted events -/
def stepCore (s : DState) : DEvent → Except Panic (DState × Response × Reply × List Emitted)
  | .closeRx i => .ok ({ s with rxOpen := s.rxOpen.filter (· != i) }, .none, .none, [])
  | .scriptCloseRx => .ok ({ s with scriptRxOpen := false }, .none, .none, [])
  | .started i =>
    if s.cancel.isSome then .ok (s, .none, .drop, [])
    else if s.running.any (·.1 == i) then .error .duplicateTest
    else
      let s' := { s with running := insertSorted i [] s.running, rxOpen := i :: s.rxOpen.filter (· != i) }
      .ok (s', .none, .ack, [.testStarted i s'.running.length s'.cancel s'.stats])
  | .retryStarted i a t =>
    if s.cancel.isSome then .ok (s, .none, .drop, [])
    else .ok (s, .none, .ack, [.testRetryStarted i a t])
  | .attemptFailedWillRetry i r _ =>
    match s.running.find? (·.1 == i) with
    | Option.none => .error .missingTest
    | some _ =>
      let s' := { s with running := s.running.map (fun e => if e.1 == i then (e.1, e.2 ++ [r]) else e) }
      .ok (s', .none, .none, [.testAttemptFailedWillRetry i r])
  | .finished i r slow =>
    match s.running.find? (·.1 == i) with
    | Option.none => .error .missingTest
    | some e =>
      let statuses := e.2 ++ [r]
      let stats := s.stats.onTestFinished r slow statuses.length
      let s1 := s.afterFinish i stats
      let em := [Emitted.testFinished i statuses s1.running.length s1.cancel stats]
      if s1.maxFail.isExceeded stats.failedCount then .ok (withCancel s1 em .testFailure .cancelTestFailure)
      else .ok (s1, .none, .none, em)
  | .skipped i =>
    .ok ({ s with stats := { s.stats with skipped := s.stats.skipped + 1 } }, .none, .none, [.testSkipped i])
  | .scriptStarted index total =>
    if s.cancel.isSome then .ok (s, .none, .drop, [])
    else if s.scriptRunning then .error .scriptAlreadyRunning
    else .ok ({ s with scriptRunning := true, scriptRxOpen := true }, .none, .ack, [.scriptStarted index total])
  | .scriptFinished index r =>
    if !s.scriptRunning then .error .noScriptRunning
    else
      let s1 := { s with scriptRunning := false, scriptRxOpen := false, stats := s.stats.onScriptFinished r }
      let em := [Emitted.scriptFinished index r]
      if !r.isSuccess then .ok (withCancel s1 em .setupScriptFailure .cancelTestFailure)
      else .ok (s1, .none, .none, em)
  | .shutdown sg =>
    if s.signalCount ≥ 2 then .error .thirdSignal
    else
      let s1 := { s with signalCount := s.signalCount + 1 }
      let req : ShutdownReq := if s1.signalCount == 1 then .once sg else .twice
      .ok (withCancel s1 [] (sigReason sg) (.cancelSignal req))
  | .stop =>
    if !s.paused then
      .ok ({ s with paused := true }, .jobStop, .none, [.runPaused s.scriptsRunning s.running.length])
    else .ok (s, .none, .none, [])
  | .continue =>
    if s.paused then
      .ok ({ s with paused := false }, .jobContinue, .none, [.runContinued s.scriptsRunning s.running.length])
    else .ok (s, .none, .none, [])
  | .info => .ok (s, .info, .none, [])
  | .reportCancel => .ok (withCancel s [] .reportError .cancelReport)
  | .inputEnter => .ok (s, .none, .none, [.inputEnter s.running.length s.cancel])

/-- requests `handle_event` itself sends, outside the broadcast: a unit that reports a failed attempt
    while the run is cancelled is told (again) about the cancellation, so that it leaves its retry delay -/
def directDelivery (s : DState) : DEvent → List (Option Nat × Req)
  | .attemptFailedWillRetry i _ _ =>
    if s.cancel.isSome && s.rxOpen.contains i && s.running.any (·.1 == i) then [(some i, .otherCancel)] else []
  | _ => []

def Out.withDirect (o : Out) (d : List (Option Nat × Req)) : Out := { o with delivered := d ++ o.delivered }

/-- `handle_event` followed by the response handling of `run` (the broadcast) -/
def step (s : DState) (e : DEvent) : Except Panic (DState × Out) :=
  match stepCore s e with
  | .error p => .error p
  | .ok r =>
    let fs := finishStep r.1 r.2.1 r.2.2.1 r.2.2.2
    .ok (fs.1, fs.2.withDirect (directDelivery s e))

/-- run a whole event list; stops at the first panic -/
def run (s : DState) : List DEvent → Except Panic (DState × List Out)
  | [] => .ok (s, [])
  | e :: es =>
    match step s e with
    | .error p => .error p
    | .ok (s', o) =>
      match run s' es with
      | .error p => .error p
      | .ok (s'', os) => .ok (s'', o :: os)

end NextestModel.Dispatcher
