/-
  Mirrors future-queue 0.4.0 `FutureQueueGrouped::{poll_next, poll_pop_in_progress}`, `GlobalWeight`,
  `GroupData::{has_space_for, add_weight, sub_weight}`, `SlotReservations::{reserve, release}` (read
  from the crate's source), as wired by nextest-runner/src/runner/imp.rs: max global weight =
  test-threads, item weight = `threads_required.compute(test_threads)`, group = the test group with
  its `max-threads`.

  The stream of items is a fixed list (nextest's priority queue); a future completes when the
  environment says so (`Op.complete id`).  Which running future completes next is the
  nondeterminism of real test durations and OS scheduling: theorems quantify over every op list.
-/
namespace NextestModel.Sched

structure Item where
  id : Nat
  weight : Nat
  group : Option Nat
  deriving DecidableEq, Repr

/-- `SlotReservations`: `free` is the min-heap's content -/
structure Slots where
  next : Nat := 0
  free : List Nat := []
  deriving DecidableEq, Repr

def listMin : List Nat → Option Nat
  | [] => none
  | x :: xs => match listMin xs with
    | none => some x
    | some m => some (if x ≤ m then x else m)

/-- `reserve`: the smallest free slot, else a fresh one -/
def Slots.reserve (s : Slots) : Nat × Slots :=
  match listMin s.free with
  | some m => (m, { s with free := s.free.erase m })
  | none => (s.next, { s with next := s.next + 1 })

def Slots.release (s : Slots) (slot : Nat) : Slots := { s with free := slot :: s.free }

structure Running where
  item : Item
  globalSlot : Nat
  groupSlot : Option Nat
  deriving DecidableEq, Repr

structure SState where
  /-- max global weight (test-threads) -/
  maxW : Nat
  /-- per group: max weight (max-threads) -/
  groupMax : List Nat
  /-- items not yet pulled from the stream -/
  pending : List Item
  running : List Running := []
  /-- per group FIFO of parked items -/
  queues : List (List Item)
  cur : Nat := 0
  gcur : List Nat
  slots : Slots := {}
  gslots : List Slots
  deriving Repr

def SState.init (maxW : Nat) (groupMax : List Nat) (items : List Item) : SState :=
  { maxW := maxW, groupMax := groupMax, pending := items, queues := groupMax.map (fun _ => []),
    gcur := groupMax.map (fun _ => 0), gslots := groupMax.map (fun _ => {}) }

/-- `has_space_for` (both `GlobalWeight` and `GroupData`) -/
def hasSpace (cur max w : Nat) : Bool := decide (cur ≤ max - min w max)

def setAt {α} (l : List α) (i : Nat) (v : α) : List α := l.set i v

/-- start an item: add weights, reserve slots, create the future -/
def SState.start (s : SState) (it : Item) : SState × Running :=
  let (gs, slots) := s.slots.reserve
  match it.group with
  | none =>
    let r : Running := { item := it, globalSlot := gs, groupSlot := none }
    ({ s with cur := s.cur + min it.weight s.maxW, slots := slots, running := s.running ++ [r] }, r)
  | some g =>
    let gmax := s.groupMax.getD g 0
    let (grs, gsl) := (s.gslots.getD g {}).reserve
    let r : Running := { item := it, globalSlot := gs, groupSlot := some grs }
    ({ s with cur := s.cur + min it.weight s.maxW, slots := slots, running := s.running ++ [r],
              gcur := setAt s.gcur g (s.gcur.getD g 0 + min it.weight gmax),
              gslots := setAt s.gslots g gsl }, r)

/-- the `while let Some(..) = data.queued.front()` loop of `poll_pop_in_progress` -/
def SState.drainGroup (s : SState) (g : Nat) : Nat → SState × List Running
  | 0 => (s, [])
  | fuel + 1 =>
    match s.queues.getD g [] with
    | [] => (s, [])
    | it :: rest =>
      if hasSpace s.cur s.maxW it.weight && hasSpace (s.gcur.getD g 0) (s.groupMax.getD g 0) it.weight then
        let s1 := { s with queues := setAt s.queues g rest }
        let (s2, r) := s1.start it
        let (s3, rs) := s2.drainGroup g fuel
        (s3, r :: rs)
      else (s, [])

/-- the `while let Poll::Ready(Some(..)) = stream.poll_peek()` loop of `poll_next` -/
def SState.pull (s : SState) : Nat → SState × List Running
  | 0 => (s, [])
  | fuel + 1 =>
    match s.pending with
    | [] => (s, [])
    | it :: rest =>
      if !hasSpace s.cur s.maxW it.weight then (s, [])
      else
        let s1 := { s with pending := rest }
        match it.group with
        | none =>
          let (s2, r) := s1.start it
          let (s3, rs) := s2.pull fuel
          (s3, r :: rs)
        | some g =>
          if hasSpace (s1.gcur.getD g 0) (s1.groupMax.getD g 0) it.weight then
            let (s2, r) := s1.start it
            let (s3, rs) := s2.pull fuel
            (s3, r :: rs)
          else
            -- parked in its group's queue; the stream keeps being pulled
            ({ s1 with queues := setAt s1.queues g (s1.queues.getD g [] ++ [it]) }).pull fuel

/-- one running future completes and `poll_next` runs: release, drain that group's queue, refill -/
def SState.complete (s : SState) (id : Nat) : Option (SState × List Running) :=
  match s.running.find? (fun r => r.item.id == id) with
  | none => none
  | some r =>
    let s1 := { s with running := s.running.eraseP (fun x => x.item.id == id),
                       cur := s.cur - min r.item.weight s.maxW,
                       slots := s.slots.release r.globalSlot }
    let (s2, started1) :=
      match r.item.group, r.groupSlot with
      | some g, some gsl =>
        let s1' := { s1 with gcur := setAt s1.gcur g (s1.gcur.getD g 0 - min r.item.weight (s1.groupMax.getD g 0)),
                             gslots := setAt s1.gslots g ((s1.gslots.getD g {}).release gsl) }
        s1'.drainGroup g ((s1'.queues.getD g []).length + 1)
      | _, _ => (s1, [])
    let (s3, started2) := s2.pull (s2.pending.length + 1)
    some (s3, started1 ++ started2)

/-- the first poll: nothing has completed, the stream is pulled -/
def SState.first (s : SState) : SState × List Running := s.pull (s.pending.length + 1)

inductive Op where
  | poll
  | complete (id : Nat)
  deriving DecidableEq, Repr

def SState.step (s : SState) : Op → Option (SState × List Running)
  | .poll => some s.first
  | .complete id => s.complete id

/-- the stream has ended: everything was pulled, nothing runs (what `poll_next` reports as `None`) -/
def SState.ended (s : SState) : Bool := s.pending.isEmpty && s.running.isEmpty

def SState.queued (s : SState) : Nat := (s.queues.map List.length).sum

end NextestModel.Sched
