import Driver.Util
import Driver.Filter
import Driver.Syntax
import Driver.Eval
import Driver.Settings
import Driver.Dispatcher
import Driver.Sched
import Driver.Priority
import Driver.Classify
import Driver.Scripts
import Driver.Archive
import Driver.Unit
import Driver.Command
import Driver.Junit
import Driver.Display
import Driver.Timer
import Driver.Attempts
import Driver.System
namespace Driver

def dispatch (line : String) : String :=
  match line.trimAscii.toString.splitOn " " with
  | "attempts" :: rest => (handleAttempts rest).getD "bad-op"
  | "junit" :: rest => (handleJunit rest).getD "bad-op"
  | "xmltext" :: rest => (handleXmlText rest).getD "bad-op"
  | "psleep" :: rest => (handlePSleep rest).getD "bad-op"
  | "swatch" :: rest => (handleSWatch rest).getD "bad-op"
  | "hext" :: rest => (handleHext rest).getD "bad-op"
  | "hlend" :: rest => (handleHlend rest).getD "bad-op"
  | "show" :: rest => (handleShow rest).getD "bad-op"
  | "shjoin" :: rest => (handleShJoin rest).getD "bad-op"
  | "shsplit" :: rest => (handleShSplit rest).getD "bad-op"
  | "cmd" :: rest => (handleCmd rest).getD "bad-op"
  | "margs" :: rest => (handleMargs rest).getD "bad-op"
  | "unit" :: rest => (handleUnit rest).getD "bad-op"
  | "aval" :: rest => (handleAval rest).getD "bad-op"
  | "aarch" :: rest => (handleAarch rest).getD "bad-op"
  | "scripts" :: rest => (handleScripts rest).getD "bad-op"
  | "xxh" :: rest => (handleXxh rest).getD "bad-op"
  | "pout" :: rest => (handlePout rest).getD "bad-op"
  | "parse" :: rest => (handleParse rest).getD "bad-op"
  | "classify" :: rest => (handleClassify rest).getD "bad-op"
  | "describe" :: rest => (handleDescribe rest).getD "bad-op"
  | "backoff" :: rest => (handleBackoff rest).getD "bad-op"
  | "prio" :: rest => (handlePrio rest).getD "bad-op"
  | "threads" :: rest => (handleThreads rest).getD "bad-op"
  | "treq" :: rest => (handleTreq rest).getD "bad-op"
  | "sched" :: rest => (handleSched rest).getD "bad-op"
  | "disp" :: rest => (handleDisp rest).getD "bad-op"
  | "sys" :: rest => (handleSys rest).getD "bad-op"
  | "settings" :: rest => (handleSettings rest).getD "bad-op"
  | "eval" :: rest => (handleEval rest).getD "bad-op"
  | "rt" :: rest => (handleRt rest).getD "bad-op"
  | "part" :: rest => (handlePart rest).getD "bad-op"
  | "bin" :: rest => (handleBin rest).getD "bad-op"
  | _ => "bad-op"

partial def loop (h : IO.FS.Stream) (out : IO.FS.Stream) : IO Unit := do
  let line ← h.getLine
  if line.isEmpty then return ()
  out.putStrLn (dispatch line)
  loop h out

end Driver
