//! Hex encoding of byte strings for the line protocol. The empty string is `-`.
pub fn hex(b: &[u8]) -> String {
    if b.is_empty() { return "-".to_string(); }
    let mut s = String::with_capacity(b.len() * 2);
    for x in b { s.push_str(&format!("{:02x}", x)); }
    s
}
pub fn hexs(s: &str) -> String { hex(s.as_bytes()) }
/// Comma-separated list of hex strings; the empty list is `.`.
pub fn hexlist<S: AsRef<str>>(xs: &[S]) -> String {
    if xs.is_empty() { return ".".to_string(); }
    xs.iter().map(|x| hexs(x.as_ref())).collect::<Vec<_>>().join(",")
}
pub fn unhex(s: &str) -> Vec<u8> {
    if s == "-" { return vec![]; }
    (0..s.len()/2).map(|i| u8::from_str_radix(&s[2*i..2*i+2], 16).unwrap()).collect()
}
