//! Shared helpers for the verification harness.
pub mod rng;
pub mod hexs;
pub mod graphgen;
